(* FSProofs.v -- confinement of extraction on the filesystem model (property C03).

   The extraction checks, before it touches an output, where that output really is (os.path.realpath, modelled
   by FS.pyreal) against the real place of the destination taken at the start.  Main result
   [extract_confined_all]: for every filesystem in which the destination resolves to a directory d, every
   archive (any names, kinds, link targets, order, number) and both outcomes, every effect of extraction lies
   at or below d.  The proof rests on [kernel_agrees]: whenever the kernel's path resolution (FS.walk, at most
   40 links) succeeds, Python's realpath (no limit, loop detection through `seen`) names the same place.  *)
From P7 Require Import Prelude FS ExtractFS.
From Coq Require Import Lia.
Open Scope Z_scope.

(* ------------------------------------------------------------------ equality, prefixes *)
Lemma str_eqb_eq : forall a b, str_eqb a b = true <-> a = b.
Proof.
  induction a as [|x a IH]; intros [|y b]; simpl; split; intro H; try congruence; try reflexivity.
  - apply andb_true_iff in H as [H1 H2]. apply Z.eqb_eq in H1. apply IH in H2. congruence.
  - inversion H; subst. rewrite Z.eqb_refl. simpl. apply IH. reflexivity.
Qed.

Lemma str_eqb_refl : forall a, str_eqb a a = true.
Proof. intros; apply str_eqb_eq; reflexivity. Qed.

Lemma rpath_eqb_eq : forall a b, rpath_eqb a b = true <-> a = b.
Proof.
  induction a as [|x a IH]; intros [|y b]; simpl; split; intro H; try congruence; try reflexivity.
  - apply andb_true_iff in H as [H1 H2]. apply str_eqb_eq in H1. apply IH in H2. congruence.
  - inversion H; subst. rewrite str_eqb_refl. simpl. apply IH. reflexivity.
Qed.

Lemma rpath_eqb_refl : forall a, rpath_eqb a a = true.
Proof. intros; apply rpath_eqb_eq; reflexivity. Qed.

Lemma rpath_eqb_neq : forall a b, a <> b -> rpath_eqb a b = false.
Proof. intros a b H. destruct (rpath_eqb a b) eqn:E; auto. apply rpath_eqb_eq in E. contradiction. Qed.

(* p lies (inclusively) below d *)
Definition under (d p : rpath) : Prop := exists r, p = d ++ r.

Lemma prefixb_under : forall d p, prefixb d p = true <-> under d p.
Proof.
  induction d as [|x d IH]; intros p; simpl.
  - split; [intros _; exists p; reflexivity | reflexivity].
  - destruct p as [|y p].
    + split; [discriminate | intros [r Hr]; discriminate].
    + split.
      * intro H. apply andb_true_iff in H as [H1 H2]. apply str_eqb_eq in H1. apply IH in H2 as [r Hr].
        exists r. simpl. congruence.
      * intros [r Hr]. simpl in Hr. inversion Hr; subst. rewrite str_eqb_refl. simpl. apply IH. exists r; reflexivity.
Qed.

Lemma under_refl : forall d, under d d.
Proof. intro d; exists []; rewrite app_nil_r; reflexivity. Qed.

Lemma under_snoc : forall d p c, under d p -> under d (p ++ [c]).
Proof. intros d p c [r Hr]. exists (r ++ [c]). rewrite Hr, app_assoc. reflexivity. Qed.

Lemma under_app : forall d p l, under d p -> under d (p ++ l).
Proof. intros d p l [r Hr]. exists (r ++ l). rewrite Hr, app_assoc. reflexivity. Qed.

(* ------------------------------------------------------------------ no ".." *)
Definition nodd (l : list str) : Prop := Forall (fun c => is_dotdot c = false) l.

Lemma nodd_app : forall a b, nodd (a ++ b) <-> nodd a /\ nodd b.
Proof. intros; apply Forall_app. Qed.

Lemma nodd_removelast : forall l, nodd l -> nodd (removelast l).
Proof.
  induction l as [|x l IH]; intro H; [constructor|].
  destruct l as [|y l]; [constructor|].
  change (removelast (x :: y :: l)) with (x :: removelast (y :: l)).
  inversion H as [|? ? H1 H2]; subst. constructor; [exact H1 | apply IH; exact H2].
Qed.
(* ------------------------------------------------------------------ lookup after updates *)
Lemma lookup_raw_remove : forall f p q, lookup_raw (fs_remove f p) q = if rpath_eqb p q then None else lookup_raw f q.
Proof.
  induction f as [|[a n] f IH]; intros p q; simpl.
  - destruct (rpath_eqb p q); reflexivity.
  - destruct (rpath_eqb a p) eqn:Eap; simpl.
    + apply rpath_eqb_eq in Eap; subst a. rewrite IH. destruct (rpath_eqb p q); reflexivity.
    + rewrite IH. destruct (rpath_eqb a q) eqn:Eaq.
      * apply rpath_eqb_eq in Eaq; subst a. destruct (rpath_eqb p q) eqn:Epq; [|reflexivity].
        apply rpath_eqb_eq in Epq; subst q. rewrite rpath_eqb_refl in Eap. discriminate.
      * reflexivity.
Qed.

Lemma lookup_raw_set : forall f p n q, lookup_raw (fs_set f p n) q = if rpath_eqb p q then Some n else lookup_raw f q.
Proof.
  intros. unfold fs_set. simpl. destruct (rpath_eqb p q) eqn:E; auto. rewrite lookup_raw_remove, E. reflexivity.
Qed.

Lemma lookup_set : forall f p n q, q <> [] ->
  lookup (fs_set f p n) q = if rpath_eqb p q then Some n else lookup f q.
Proof. intros f p n [|c q] H; [contradiction|]. unfold lookup. apply lookup_raw_set. Qed.

Lemma lookup_remove : forall f p q, q <> [] ->
  lookup (fs_remove f p) q = if rpath_eqb p q then None else lookup f q.
Proof. intros f p [|c q] H; [contradiction|]. unfold lookup. apply lookup_raw_remove. Qed.


(* ------------------------------------------------------------------ the kernel walk and realpath *)
Definition loc_of (r : rres) : option rpath :=
  match r with RFound q _ => Some q | RMissing q => Some q | RErr _ => None end.

Lemma removelast_snoc : forall (A : Type) (l : list A) c, removelast (l ++ [c]) = l.
Proof. intros. rewrite removelast_app by discriminate. simpl. apply app_nil_r. Qed.

Section Agree.
Variable f : fs.

Lemma walk_links_le : forall fuel follow links cur todo r l,
  walk fuel f follow links cur todo = (r, l) -> (l <= links)%nat.
Proof.
  induction fuel as [|fuel IH]; intros follow links cur todo r l H; simpl in H.
  - inversion H; subst; lia.
  - destruct todo as [|c rest]; [inversion H; subst; lia|].
    destruct (is_dotdot c); [eapply IH; eauto|].
    destruct (lookup f (cur ++ [c])) as [[|dd|t]|].
    + eapply IH; eauto.
    + inversion H; subst; lia.
    + assert (G : forall fl, match links with
                  | O => (RErr XLoop, O)
                  | S links' =>
                    match rest with
                    | [] => walk fuel f true links' (if p_is_abs t then [] else cur) (pparts t)
                    | _ :: _ =>
                      match walk fuel f true links' (if p_is_abs t then [] else cur) (pparts t) with
                      | (RFound q Dir, l2) => walk fuel f fl l2 q rest
                      | (RFound _ _, l2) => (RErr XNotDir, l2)
                      | (RMissing _, l2) => (RErr XNoEnt, l2)
                      | (RErr x, l2) => (RErr x, l2)
                      end
                    end
                  end = (r, l) -> (l <= links)%nat).
      { intros fl G. destruct links as [|links']; [inversion G; subst; lia|].
        destruct rest as [|c2 rest].
        - apply IH in G. lia.
        - destruct (walk fuel f true links' (if p_is_abs t then [] else cur) (pparts t)) as [r1 l2] eqn:E1.
          apply IH in E1.
          destruct r1 as [q [|dd|t2]|q|x]; try (inversion G; subst; lia).
          apply IH in G. lia. }
      destruct rest as [|c2 rest]; destruct follow.
      * apply (G true H).
      * inversion H; subst; lia.
      * apply (G true H).
      * apply (G false H).
    + inversion H; subst; lia.
Qed.

Definition follow_link (fuel : nat) (follow : bool) (links : nat) (cur : rpath) (t : ppath) (rest : list str) : rres * nat :=
  match links with
  | O => (RErr XLoop, O)
  | S links' =>
    match rest with
    | [] => walk fuel f true links' (if p_is_abs t then [] else cur) (pparts t)
    | _ :: _ =>
      match walk fuel f true links' (if p_is_abs t then [] else cur) (pparts t) with
      | (RFound q Dir, l2) => walk fuel f follow l2 q rest
      | (RFound _ _, l2) => (RErr XNotDir, l2)
      | (RMissing _, l2) => (RErr XNoEnt, l2)
      | (RErr x, l2) => (RErr x, l2)
      end
    end
  end.

Lemma walk_S_link : forall fuel follow links cur c rest t,
  is_dotdot c = false -> lookup f (cur ++ [c]) = Some (Link t) ->
  walk (S fuel) f follow links cur (c :: rest) =
    match rest, follow with
    | [], false => (RFound (cur ++ [c]) (Link t), links)
    | _, _ => follow_link fuel follow links cur t rest
    end.
Proof.
  intros fuel follow links cur c rest t Hc Hl. simpl. rewrite Hc, Hl.
  destruct rest; destruct follow; reflexivity.
Qed.

(* a non-final link: the nested walk has to end in a directory *)
Lemma follow_link_mid : forall fuel follow links cur t c2 rest r l q,
  follow_link fuel follow links cur t (c2 :: rest) = (r, l) -> loc_of r = Some q ->
  exists links' q1 l2, links = S links' /\
    walk fuel f true links' (if p_is_abs t then [] else cur) (pparts t) = (RFound q1 Dir, l2) /\
    walk fuel f follow l2 q1 (c2 :: rest) = (r, l).
Proof.
  intros fuel follow links cur t c2 rest r l q H Hq. unfold follow_link in H.
  destruct links as [|links']; [inversion H; subst; discriminate|].
  destruct (walk fuel f true links' (if p_is_abs t then [] else cur) (pparts t)) as [r1 l2] eqn:E1.
  destruct r1 as [q1 [|dd|t2]|q1|x]; try (inversion H; subst; discriminate).
  exists links', q1, l2. auto.
Qed.

Lemma pyreal_mono : forall fuel ip ab cur todo r,
  pyreal fuel f ip ab cur todo = r -> r <> PFuel ->
  forall fuel', (fuel <= fuel')%nat -> pyreal fuel' f ip ab cur todo = r.
Proof.
  induction fuel as [|fuel IH]; intros ip ab cur todo r H Hr fuel' Hle; [simpl in H; congruence|].
  destruct fuel' as [|fuel']; [lia|]. assert (Hle' : (fuel <= fuel')%nat) by lia.
  simpl in H |- *. destruct todo as [|c rest]; [exact H|].
  destruct (is_dotdot c); [apply IH; auto|].
  destruct (lookup f (cur ++ [c])) as [[|dd|t]|]; try (apply IH; auto; fail).
  destruct (mem_key ab (cur ++ [c]) ip); [exact H|].
  destruct (pyreal fuel f ((ab, cur ++ [c]) :: ip) (ab || p_is_abs t) (if p_is_abs t then [] else cur) (pparts t))
    as [ab2 q|l0 r0|] eqn:E1.
  - rewrite (IH _ _ _ _ _ E1) by (auto; discriminate). apply IH; auto.
  - rewrite (IH _ _ _ _ _ E1) by (auto; discriminate). exact H.
  - congruence.
Qed.

Lemma pyreal_same : forall fa fb ip ab cur todo ra rb,
  pyreal fa f ip ab cur todo = ra -> ra <> PFuel -> pyreal fb f ip ab cur todo = rb -> rb <> PFuel -> ra = rb.
Proof.
  intros fa fb ip ab cur todo ra rb Ha Hra Hb Hrb.
  destruct (Nat.le_ge_cases fa fb) as [L|L].
  - rewrite <- (pyreal_mono _ _ _ _ _ _ Ha Hra fb L). exact Hb.
  - rewrite <- Ha. apply (pyreal_mono _ _ _ _ _ _ Hb Hrb fa L).
Qed.

Lemma pyreal_nil : forall n ip ab cur, pyreal (S n) f ip ab cur [] = POk ab cur.
Proof. reflexivity. Qed.

Lemma pyreal_dd : forall n ip ab cur c rest, is_dotdot c = true ->
  pyreal (S n) f ip ab cur (c :: rest) = pyreal n f ip ab (removelast cur) rest.
Proof. intros. simpl. rewrite H. reflexivity. Qed.

Lemma pyreal_plain : forall n ip ab cur c rest, is_dotdot c = false ->
  (forall t, lookup f (cur ++ [c]) <> Some (Link t)) ->
  pyreal (S n) f ip ab cur (c :: rest) = pyreal n f ip ab (cur ++ [c]) rest.
Proof.
  intros n ip ab cur c rest Hc Hl. simpl. rewrite Hc.
  destruct (lookup f (cur ++ [c])) as [[|dd|t]|]; try reflexivity. exfalso. apply (Hl t). reflexivity.
Qed.

Lemma pyreal_link : forall n ip ab cur c rest t, is_dotdot c = false -> lookup f (cur ++ [c]) = Some (Link t) ->
  pyreal (S n) f ip ab cur (c :: rest) =
    if mem_key ab (cur ++ [c]) ip then PLoop (cur ++ [c]) rest
    else match pyreal n f ((ab, cur ++ [c]) :: ip) (ab || p_is_abs t) (if p_is_abs t then [] else cur) (pparts t) with
         | POk ab2 q => pyreal n f ip ab2 q rest
         | PLoop l r => PLoop l (r ++ rest)
         | PFuel => PFuel
         end.
Proof. intros. simpl. rewrite H, H0. reflexivity. Qed.

(* the link at l is met while it is being resolved, and the kernel, with k < j links left, resolves its target *)
Definition reenter (ip : list (bool * rpath)) (j : nat) (l : rpath) : Prop :=
  exists abL cur c t fk k r l2 q,
    l = cur ++ [c] /\ mem_key abL l ip = true /\ lookup f l = Some (Link t) /\ (k < j)%nat /\
    walk fk f true k (if p_is_abs t then [] else cur) (pparts t) = (r, l2) /\ loc_of r = Some q.

(* with k links allowed the kernel resolves the target of the link at cur/c: then realpath, resolving that target,
   does not report that it met this link again *)
Definition NoSelf (k : nat) : Prop :=
  forall fk fp ip ab0 cur c t r l q rest,
    lookup f (cur ++ [c]) = Some (Link t) ->
    walk fk f true k (if p_is_abs t then [] else cur) (pparts t) = (r, l) -> loc_of r = Some q ->
    pyreal fp f ip ab0 (if p_is_abs t then [] else cur) (pparts t) <> PLoop (cur ++ [c]) rest.

Definition Trace (k : nat) : Prop :=
  forall j, (j <= k)%nat -> forall fk ip ab cur todo r l q,
    walk fk f true j cur todo = (r, l) -> loc_of r = Some q ->
    match pyreal (S fk) f ip ab cur todo with
    | POk _ q' => q' = q
    | PLoop l0 _ => reenter ip j l0
    | PFuel => False
    end.

Lemma reenter_le : forall ip j j' l0, reenter ip j l0 -> (j <= j')%nat -> reenter ip j' l0.
Proof.
  intros ip j j' l0 (abL & cur & c & t & fk & k & r & l2 & q & H1 & H2 & H3 & H4 & H4' & H5) Hle.
  exists abL, cur, c, t, fk, k, r, l2, q. 
  split; [exact H1|]. split; [exact H2|]. split; [exact H3|]. split; [lia|]. split; [exact H4'|exact H5].
Qed.

Lemma trace_step : forall k, (forall k', (k' < k)%nat -> NoSelf k') -> Trace k.
Proof.
  intros k HNS j Hj fk. revert j Hj. induction fk as [|fk IH]; intros j Hj ip ab cur todo r l q H Hq.
  { simpl in H. inversion H; subst. discriminate. }
  destruct todo as [|c rest].
  { simpl in H. inversion H; subst. simpl in Hq. inversion Hq; subst. rewrite pyreal_nil. reflexivity. }
  destruct (is_dotdot c) eqn:Hc.
  { rewrite pyreal_dd by exact Hc. simpl in H. rewrite Hc in H. apply (IH _ Hj _ _ _ _ _ _ _ H Hq). }
  destruct (lookup f (cur ++ [c])) as [n|] eqn:Hl.
  2:{ rewrite pyreal_plain by (auto; intros t; rewrite Hl; discriminate).
      simpl in H. rewrite Hc, Hl in H. destruct rest; inversion H; subst; [|discriminate].
      simpl in Hq. inversion Hq; subst. rewrite pyreal_nil. reflexivity. }
  destruct n as [|dd|t].
  { rewrite pyreal_plain by (auto; intros t; rewrite Hl; discriminate).
    simpl in H. rewrite Hc, Hl in H. apply (IH _ Hj _ _ _ _ _ _ _ H Hq). }
  { rewrite pyreal_plain by (auto; intros t; rewrite Hl; discriminate).
    simpl in H. rewrite Hc, Hl in H. destruct rest; inversion H; subst; [|discriminate].
    simpl in Hq. inversion Hq; subst. rewrite pyreal_nil. reflexivity. }
  (* a link *)
  rewrite (walk_S_link fk true j cur c rest t Hc Hl) in H.
  assert (H' : follow_link fk true j cur t rest = (r, l)) by (destruct rest; exact H). clear H.
  rewrite (pyreal_link (S fk) ip ab cur c rest t Hc Hl).
  destruct j as [|j']; [unfold follow_link in H'; inversion H'; subst; discriminate|].
  (* the kernel's nested walk over the target succeeds *)
  assert (N : exists r1 l2 q1, walk fk f true j' (if p_is_abs t then [] else cur) (pparts t) = (r1, l2) /\ loc_of r1 = Some q1 /\
            match rest with
            | [] => (r1, l2) = (r, l)
            | _ => r1 = RFound q1 Dir /\ walk fk f true l2 q1 rest = (r, l)
            end).
  { destruct rest as [|c2 rest].
    - unfold follow_link in H'.  exists r, l, q. auto.
    - destruct (follow_link_mid _ _ _ _ _ _ _ _ _ _ H' Hq) as (links' & q1 & l2 & E0 & E1 & E2).
      inversion E0; subst links'. exists (RFound q1 Dir), l2, q1.  auto. }
  destruct N as (r1 & l2 & q1 & N1 & N2 & N3).
  destruct (mem_key ab (cur ++ [c]) ip) eqn:Hm.
  { exists ab, cur, c, t, fk, j', r1, l2, q1.  repeat (split; [auto; lia|]). exact N2. }
  assert (Hj' : (j' <= k)%nat) by lia.
  pose proof (IH j' Hj' ((ab, cur ++ [c]) :: ip) (ab || p_is_abs t) (if p_is_abs t then [] else cur) (pparts t) r1 l2 q1 N1 N2) as T1.
  destruct (pyreal (S fk) f ((ab, cur ++ [c]) :: ip) (ab || p_is_abs t) (if p_is_abs t then [] else cur) (pparts t)) as [ab2 q1'|l0 r0|] eqn:E1;
    [|clear IH|contradiction].
  - subst q1'. destruct rest as [|c2 rest].
    + inversion N3; subst. rewrite pyreal_nil. rewrite N2 in Hq. inversion Hq. reflexivity.
    + destruct N3 as [N3 N4]. pose proof (walk_links_le _ _ _ _ _ _ _ N1) as Hl2.
      assert (Hl2k : (l2 <= k)%nat) by lia.
      pose proof (IH l2 Hl2k ip ab2 q1 (c2 :: rest) r l q N4 Hq) as T2.
      destruct (pyreal (S fk) f ip ab2 q1 (c2 :: rest)); auto.
      apply (reenter_le _ _ _ _ T2). lia.
  - destruct T1 as (abL & cur' & c' & t' & fk' & k' & r' & l2' & q' & W1 & W2 & W3 & W4 & W5 & W6).
    simpl in W2. destruct (mem_key abL l0 ip) eqn:Hm2.
    + exists abL, cur', c', t', fk', k', r', l2', q'.
      split; [exact W1|]. split; [exact Hm2|]. split; [exact W3|]. split; [lia|]. split; [exact W5|exact W6].
    + rewrite orb_false_r in W2. apply andb_true_iff in W2 as [_ W2]. apply rpath_eqb_eq in W2.
      exfalso. subst l0.
      match goal with HH : _ ++ [_] = _ ++ [_] |- _ => apply app_inj_tail in HH as [Wc Wcc] end. subst cur' c'.
      rewrite Hl in W3. inversion W3; subst t'.
      assert (Hk' : (k' < k)%nat) by lia.
      apply (HNS k' Hk' fk' (S fk) ((ab, cur ++ [c]) :: ip) (ab || p_is_abs t) cur c t r' l2' q' r0 Hl W5 W6).
       exact E1.
Qed.

Lemma noself_all : forall k, NoSelf k.
Proof.
  intros k. induction k as [k IHk] using lt_wf_ind.
  intros fk fp ip ab0 cur c t r l q rest Hl Hw Hq E.
  pose proof (trace_step k IHk k (le_n k) fk ip ab0 _ _ r l q Hw Hq) as T.
  destruct (pyreal (S fk) f ip ab0 (if p_is_abs t then [] else cur) (pparts t)) as [ab2 q2|l0 r0|] eqn:E2;
    [|clear Hw Hq|contradiction].
  - assert (X : PLoop (cur ++ [c]) rest = POk ab2 q2) by (eapply pyreal_same; eauto; discriminate). discriminate.
  - assert (X : PLoop (cur ++ [c]) rest = PLoop l0 r0) by (eapply pyreal_same; eauto; discriminate).
    inversion X; subst l0 r0; clear X.
    destruct T as (abL & cur' & c' & t' & fk' & k' & r' & l2' & q' & W1 & W2 & W3 & W4 & W5 & W6).
    apply app_inj_tail in W1 as [Wc Wcc]. subst cur' c'. rewrite Hl in W3. inversion W3; subst t'.
    apply (IHk k' W4 fk' fp ip ab0 cur c t r' l2' q' rest Hl W5 W6 E).
Qed.

(* whenever the kernel resolves a path (following a final link), os.path.realpath names the same place *)
Theorem kernel_agrees : forall fk j ab cur todo r l q,
  walk fk f true j cur todo = (r, l) -> loc_of r = Some q ->
  exists ab', pyreal (S fk) f [] ab cur todo = POk ab' q.
Proof.
  intros fk j ab cur todo r l q H Hq.
  pose proof (trace_step j (fun k' _ => noself_all k') j (le_n j) fk [] ab cur todo r l q H Hq) as T.
  destruct (pyreal (S fk) f [] ab cur todo) as [ab2 q2|l0 r0|]; [|exfalso|contradiction].
  - subst q2. exists ab2. reflexivity.
  - destruct T as (abL & cur' & c' & t' & fk' & k' & r' & l2' & q' & W1 & W2 & W3). simpl in W2. discriminate.
Qed.

End Agree.

(* ------------------------------------------------------------------ well-formed trees *)
(* whatever has a name is in a directory *)
Definition wf (f : fs) : Prop := forall q c, lookup f (q ++ [c]) <> None -> lookup f q = Some Dir.

Lemma wf_parent_dir : forall f cur, wf f -> lookup f cur = Some Dir -> lookup f (removelast cur) = Some Dir.
Proof.
  intros f cur Hwf Hc. destruct cur as [|x cur] using rev_ind; [reflexivity|].
  rewrite removelast_snoc. apply (Hwf _ x). rewrite Hc. discriminate.
Qed.

Lemma wf_below_missing : forall f q, wf f -> lookup f q = None -> forall x, x <> [] -> lookup f (q ++ x) = None.
Proof.
  intros f q Hwf Hq x. induction x as [|c x IH] using rev_ind; intro Hx; [contradiction|].
  destruct (lookup f (q ++ x ++ [c])) eqn:E; [|reflexivity]. exfalso.
  assert (D : lookup f (q ++ x) = Some Dir).
  { apply (Hwf _ c). rewrite <- app_assoc. rewrite E. discriminate. }
  destruct x as [|y x]; [rewrite app_nil_r in D; congruence|].
  rewrite IH in D by discriminate. discriminate.
Qed.

Section WalkFacts.
Variable f : fs.
Hypothesis Hwf : wf f.

Definition res_sound (r : rres) : Prop :=
  match r with
  | RFound q n => lookup f q = Some n
  | RMissing q => lookup f q = None /\ exists p c, q = p ++ [c] /\ lookup f p = Some Dir
  | RErr _ => True
  end.

Lemma walk_sound : forall fk ff k cur todo r l,
  lookup f cur = Some Dir -> walk fk f ff k cur todo = (r, l) -> res_sound r.
Proof.
  induction fk as [|fk IH]; intros ff k cur todo r l Hc H; [simpl in H; inversion H; exact I|].
  destruct todo as [|c rest]; [simpl in H; inversion H; subst; exact Hc|].
  destruct (is_dotdot c) eqn:Ec.
  { simpl in H. rewrite Ec in H. apply (IH _ _ _ _ _ _ (wf_parent_dir _ _ Hwf Hc) H). }
  destruct (lookup f (cur ++ [c])) as [[|dd|t]|] eqn:El.
  - simpl in H. rewrite Ec, El in H. apply (IH _ _ _ _ _ _ El H).
  - simpl in H. rewrite Ec, El in H. destruct rest; inversion H; subst; simpl; auto.
  - rewrite (walk_S_link f fk ff k cur c rest t Ec El) in H.
    assert (G : follow_link f fk ff k cur t rest = (r, l) -> res_sound r).
    { clear H. intro H. unfold follow_link in H. destruct k as [|k']; [inversion H; exact I|].
      assert (Hs : lookup f (if p_is_abs t then [] else cur) = Some Dir) by (destruct (p_is_abs t); auto).
      destruct rest as [|c2 rest]; [apply (IH _ _ _ _ _ _ Hs H)|].
      destruct (walk fk f true k' (if p_is_abs t then [] else cur) (pparts t)) as [r1 l2] eqn:E1.
      pose proof (IH _ _ _ _ _ _ Hs E1) as S1.
      destruct r1 as [q1 [|dd|t2]|q1|x]; try (inversion H; exact I).
      apply (IH _ _ _ _ _ _ S1 H). }
    destruct rest as [|c2 rest]; destruct ff; auto. inversion H; subst. exact El.
  - simpl in H. rewrite Ec, El in H. destruct rest; inversion H; subst; simpl; auto.
    split; [exact El|]. exists cur, c. auto.
Qed.

(* the last name is not followed: where it is missing it is missing for the following walk too *)
Lemma walk_missing_follow : forall fk k cur todo q l,
  walk fk f false k cur todo = (RMissing q, l) -> walk fk f true k cur todo = (RMissing q, l).
Proof.
  induction fk as [|fk IH]; intros k cur todo q l H; [simpl in H; inversion H|].
  destruct todo as [|c rest]; [simpl in H; inversion H|].
  destruct (is_dotdot c) eqn:Ec.
  { simpl in H |- *. rewrite Ec in *. apply IH; exact H. }
  destruct (lookup f (cur ++ [c])) as [[|dd|t]|] eqn:El.
  - simpl in H |- *. rewrite Ec, El in *. apply IH; exact H.
  - simpl in H |- *. rewrite Ec, El in *. exact H.
  - rewrite (walk_S_link f fk false k cur c rest t Ec El) in H. rewrite (walk_S_link f fk true k cur c rest t Ec El).
    destruct rest as [|c2 rest]; [inversion H|].
    unfold follow_link in *. destruct k as [|k']; [exact H|].
    destruct (walk fk f true k' (if p_is_abs t then [] else cur) (pparts t)) as [r1 l2].
    destruct r1 as [q1 [|dd|t2]|q1|x]; try exact H. apply IH; exact H.
  - simpl in H |- *. rewrite Ec, El in *. exact H.
Qed.

(* a path whose last name c is not followed: the directory holding it is what the walk over the rest finds *)
Lemma walk_snoc : forall fk k cur A c r l q,
  is_dotdot c = false -> walk fk f false k cur (A ++ [c]) = (r, l) -> loc_of r = Some q ->
  exists qP lP, walk fk f true k cur A = (RFound qP Dir, lP) /\ q = qP ++ [c].
Proof.
  induction fk as [|fk IH]; intros k cur A c r l q Hc H Hq; [simpl in H; inversion H; subst; discriminate|].
  destruct A as [|a A].
  - exists cur, k. split; [reflexivity|]. simpl in H. rewrite Hc in H.
    destruct (lookup f (cur ++ [c])) as [[|dd|t]|] eqn:El.
    + destruct fk; simpl in H; inversion H; subst; [discriminate|]. simpl in Hq. congruence.
    + inversion H; subst. simpl in Hq. congruence.
    + inversion H; subst. simpl in Hq. congruence.
    + inversion H; subst. simpl in Hq. congruence.
  - change ((a :: A) ++ [c]) with (a :: (A ++ [c])) in H.
    destruct (is_dotdot a) eqn:Ea.
    { simpl in H |- *. rewrite Ea in *. apply (IH _ _ _ _ _ _ _ Hc H Hq). }
    destruct (lookup f (cur ++ [a])) as [[|dd|t]|] eqn:El.
    + simpl in H |- *. rewrite Ea, El in *. apply (IH _ _ _ _ _ _ _ Hc H Hq).
    + simpl in H. rewrite Ea, El in H. destruct (A ++ [c]) eqn:EA; [destruct A; discriminate|]. inversion H; subst; discriminate.
    + rewrite (walk_S_link f fk false k cur a (A ++ [c]) t Ea El) in H.
      rewrite (walk_S_link f fk true k cur a A t Ea El).
      destruct (A ++ [c]) as [|c2 rest] eqn:EA; [destruct A; discriminate|].
      destruct (follow_link_mid f _ _ _ _ _ _ _ _ _ _ H Hq) as (k' & q1 & l2 & E0 & E1 & E2). subst k.
      rewrite <- EA in E2. destruct (IH _ _ _ _ _ _ _ Hc E2 Hq) as (qP & lP & P1 & P2).
      exists qP, lP. split; [|exact P2].
      destruct A as [|a2 A].
      * unfold follow_link. rewrite E1. destruct fk; simpl in P1; inversion P1; subst. reflexivity.
      * unfold follow_link. rewrite E1. exact P1.
    + simpl in H. rewrite Ea, El in H. destruct (A ++ [c]) eqn:EA; [destruct A; discriminate|]. inversion H; subst; discriminate.
Qed.

(* after a name q0 has been removed, a walk that still succeeds finds what it found before, or finds q0 missing *)
Lemma walk_remove : forall q0 fk ff k cur todo r l q,
  walk fk (fs_remove f q0) ff k cur todo = (r, l) -> loc_of r = Some q ->
  r = RMissing q0 \/ walk fk f ff k cur todo = (r, l).
Proof.
  intros q0. induction fk as [|fk IH]; intros ff k cur todo r l q H Hq; [simpl in H; inversion H; subst; discriminate|].
  destruct todo as [|c rest]; [right; exact H|].
  destruct (is_dotdot c) eqn:Ec.
  { simpl in H |- *. rewrite Ec in *. apply (IH _ _ _ _ _ _ _ H Hq). }
  assert (Hne : cur ++ [c] <> []) by (destruct cur; discriminate).
  pose proof (lookup_remove f q0 (cur ++ [c]) Hne) as LR.
  destruct (rpath_eqb q0 (cur ++ [c])) eqn:Eq.
  { apply rpath_eqb_eq in Eq. simpl in H. rewrite Ec, LR in H.
    destruct rest; inversion H; subst; [left; reflexivity | discriminate]. }
  destruct (lookup f (cur ++ [c])) as [[|dd|t]|] eqn:El.
  - simpl in H |- *. rewrite Ec, ?LR, El in *. apply (IH _ _ _ _ _ _ _ H Hq).
  - simpl in H |- *. rewrite Ec, ?LR, El in *. right; exact H.
  - rewrite (walk_S_link _ fk ff k cur c rest t Ec LR) in H.
    rewrite (walk_S_link f fk ff k cur c rest t Ec El).
    assert (G : follow_link (fs_remove f q0) fk ff k cur t rest = (r, l) ->
                r = RMissing q0 \/ follow_link f fk ff k cur t rest = (r, l)).
    { clear H. intro H. destruct rest as [|c2 rest].
      - unfold follow_link in *. destruct k as [|k']; [right; exact H|]. apply (IH _ _ _ _ _ _ _ H Hq).
      - destruct (follow_link_mid _ _ _ _ _ _ _ _ _ _ _ H Hq) as (k' & q1 & l2 & E0 & E1 & E2). subst k.
        destruct (IH _ _ _ _ _ _ q1 E1 eq_refl) as [X|X]; [discriminate|].
        destruct (IH _ _ _ _ _ _ _ E2 Hq) as [Y|Y]; [left; exact Y|].
        right. unfold follow_link. rewrite X. exact Y. }
    destruct rest as [|c2 rest]; destruct ff; auto.
  - simpl in H |- *. rewrite Ec, ?LR, El in *. right; exact H.
Qed.

End WalkFacts.

(* ------------------------------------------------------------------ realpath: composition, missing tails, new directories *)
Definition start (cwd : rpath) (p : ppath) : rpath := if p_is_abs p then [] else cwd.

Lemma py_of_walk : forall f cwd p fk j r l q,
  (S fk <= real_fuel f (pparts p))%nat ->
  walk fk f true j (start cwd p) (pparts p) = (r, l) -> loc_of r = Some q ->
  py_realpath f cwd p = Some q.
Proof.
  intros f cwd p fk j r l q Hfk H Hq.
  destruct (kernel_agrees f fk j (p_is_abs p) _ _ r l q H Hq) as [ab' E].
  unfold py_realpath. fold (start cwd p).
  rewrite (pyreal_mono f _ _ _ _ _ _ E) by (auto; discriminate). reflexivity.
Qed.

Lemma pyreal_app : forall f fa fb ip ab cur A B ab2 q r,
  pyreal fa f ip ab cur A = POk ab2 q -> pyreal fb f ip ab2 q B = r -> r <> PFuel ->
  pyreal (fa + fb) f ip ab cur (A ++ B) = r.
Proof.
  intros f. induction fa as [|fa IH]; intros fb ip ab cur A B ab2 q r HA HB Hr; [simpl in HA; discriminate|].
  destruct A as [|c A].
  - simpl in HA. inversion HA as [[E1 E2]]. subst ab2 q. simpl app. apply (pyreal_mono f _ _ _ _ _ _ HB Hr). lia.
  - change ((c :: A) ++ B) with (c :: (A ++ B)). change (S fa + fb)%nat with (S (fa + fb)).
    destruct (is_dotdot c) eqn:Ec.
    { rewrite pyreal_dd in HA by exact Ec. rewrite pyreal_dd by exact Ec. apply (IH _ _ _ _ _ _ _ _ _ HA HB Hr). }
    destruct (lookup f (cur ++ [c])) as [[|dd|t]|] eqn:El;
      try (rewrite pyreal_plain in HA by (auto; intros t0; rewrite El; discriminate);
           rewrite pyreal_plain by (auto; intros t0; rewrite El; discriminate);
           apply (IH _ _ _ _ _ _ _ _ _ HA HB Hr)).
    rewrite (pyreal_link f _ _ _ _ _ _ t Ec El) in HA. rewrite (pyreal_link f _ _ _ _ _ _ t Ec El).
    destruct (mem_key ab (cur ++ [c]) ip); [discriminate|].
    destruct (pyreal fa f ((ab, cur ++ [c]) :: ip) (ab || p_is_abs t) (if p_is_abs t then [] else cur) (pparts t))
      as [ab3 q3|l0 r0|] eqn:E1; try discriminate.
    rewrite (pyreal_mono f _ _ _ _ _ _ E1) by (try discriminate; lia).
    apply (IH _ _ _ _ _ _ _ _ _ HA HB Hr).
Qed.

Lemma py_missing_tail : forall f, wf f -> forall tail q ip ab, lookup f q = None -> nodd tail ->
  pyreal (S (length tail)) f ip ab q tail = POk ab (q ++ tail).
Proof.
  intros f Hwf. induction tail as [|c tail IH]; intros q ip ab Hq Hn.
  - rewrite pyreal_nil, app_nil_r. reflexivity.
  - inversion Hn as [|? ? Hc Ht]; subst. simpl length.
    assert (Hm : lookup f (q ++ [c]) = None) by (apply wf_below_missing; auto; discriminate).
    rewrite pyreal_plain by (auto; intros t0; rewrite Hm; discriminate).
    rewrite IH by auto. rewrite <- app_assoc. reflexivity.
Qed.

Lemma remove_absent : forall f q, lookup_raw f q = None -> fs_remove f q = f.
Proof.
  induction f as [|[a n] f IH]; intros q H; [reflexivity|]. simpl in H |- *.
  destruct (rpath_eqb a q); [discriminate|]. simpl. rewrite IH by exact H. reflexivity.
Qed.

Lemma pyreal_new_dir : forall f q0, lookup f q0 = None -> forall fuel ip ab cur todo,
  pyreal fuel ((q0, Dir) :: f) ip ab cur todo = pyreal fuel f ip ab cur todo.
Proof.
  intros f q0 H0. induction fuel as [|fuel IH]; intros ip ab cur todo; [reflexivity|].
  destruct todo as [|c rest]; [reflexivity|]. simpl. destruct (is_dotdot c); [apply IH|].
  assert (L : lookup ((q0, Dir) :: f) (cur ++ [c]) = if rpath_eqb q0 (cur ++ [c]) then Some Dir else lookup f (cur ++ [c])).
  { destruct (cur ++ [c]) eqn:E; [destruct cur; discriminate|]. reflexivity. }
  rewrite L. destruct (rpath_eqb q0 (cur ++ [c])) eqn:Eq.
  - apply rpath_eqb_eq in Eq. rewrite <- Eq, H0. apply IH.
  - destruct (lookup f (cur ++ [c])) as [[|dd|t]|]; try apply IH.
    destruct (mem_key ab (cur ++ [c]) ip); [reflexivity|]. rewrite IH.
    destruct (pyreal fuel f ((ab, cur ++ [c]) :: ip) (ab || p_is_abs t) (if p_is_abs t then [] else cur) (pparts t));
      auto.
Qed.

Lemma realpath_new_dir : forall f cwd q0 p, lookup f q0 = None ->
  py_realpath (fs_set f q0 Dir) cwd p = py_realpath f cwd p.
Proof.
  intros f cwd q0 p H0. unfold fs_set.
  assert (R : lookup_raw f q0 = None) by (destruct q0; [discriminate | exact H0]).
  rewrite (remove_absent _ _ R). unfold py_realpath.
  replace (real_fuel ((q0, Dir) :: f) (pparts p)) with (real_fuel f (pparts p)) by reflexivity.
  rewrite pyreal_new_dir by exact H0. reflexivity.
Qed.

(* ------------------------------------------------------------------ what a passed check guarantees *)
Definition real_dir (f : fs) (d : rpath) : Prop := forall a b, d = a ++ b -> lookup f a = Some Dir.

Lemma walk_fuel_snoc : forall f A (c : str), walk_fuel f (A ++ [c]) = S (walk_fuel f A).
Proof. intros. unfold walk_fuel. rewrite app_length. simpl. lia. Qed.

Section Sem.
Variables (d cwd : rpath).

Lemma start_same : forall p p', proot p = proot p' -> start cwd p = start cwd p'.
Proof. intros p p' H. unfold start, p_is_abs. rewrite H. reflexivity. Qed.

(* the checked path itself, final link followed *)
Lemma inside_follow : forall f p fk j r l q,
  real_inside f cwd d p = true -> (fk <= walk_fuel f (pparts p))%nat ->
  walk fk f true j (start cwd p) (pparts p) = (r, l) -> loc_of r = Some q -> under d q.
Proof.
  intros f p fk j r l q Hin Hfk H Hq.
  assert (E : py_realpath f cwd p = Some q).
  { apply (py_of_walk f cwd p fk j r l q); auto. unfold real_fuel. lia. }
  unfold real_inside in Hin. rewrite E in Hin. apply prefixb_under. exact Hin.
Qed.

(* a name in the checked directory, not followed *)
Lemma inside_child : forall f X c fk j r l q,
  real_inside f cwd d X = true -> is_dotdot c = false -> (fk <= S (walk_fuel f (pparts X)))%nat ->
  walk fk f false j (start cwd X) (pparts X ++ [c]) = (r, l) -> loc_of r = Some q -> under d q.
Proof.
  intros f X c fk j r l q Hin Hc Hfk H Hq.
  destruct (walk_snoc f fk j _ _ c r l q Hc H Hq) as (qP & lP & W & E). subst q.
  apply under_snoc.
  assert (E : py_realpath f cwd X = Some qP).
  { apply (py_of_walk f cwd X fk j (RFound qP Dir) lP qP); auto. unfold real_fuel. lia. }
  unfold real_inside in Hin. rewrite E in Hin. apply prefixb_under. exact Hin.
Qed.

Lemma under_missing : forall f q tail, real_dir f d -> lookup f q = None -> under d (q ++ tail) -> under d q.
Proof.
  intros f q tail Hr Hq [r Hr']. symmetry in Hr'. apply app_eq_app in Hr' as [z [[E1 E2]|[E1 E2]]].
  - rewrite (Hr q z E1) in Hq. discriminate.
  - exists z. exact E1.
Qed.

(* a missing leading part of the checked path (mkdir -p creates it) *)
Lemma inside_prefix : forall f X A tail fk j q l,
  wf f -> real_dir f d -> lookup f cwd = Some Dir ->
  real_inside f cwd d X = true -> pparts X = A ++ tail -> nodd tail -> (fk <= walk_fuel f A)%nat ->
  walk fk f false j (start cwd X) A = (RMissing q, l) -> under d q.
Proof.
  intros f X A tail fk j q l Hwf Hrd Hcwd Hin HX Hn Hfk H.
  apply walk_missing_follow in H.
  assert (Hs : lookup f (start cwd X) = Some Dir) by (unfold start; destruct (p_is_abs X); auto).
  pose proof (walk_sound f Hwf _ _ _ _ _ _ _ Hs H) as [Hq _].
  destruct (kernel_agrees f fk j (p_is_abs X) _ _ _ _ q H eq_refl) as [ab' E].
  pose proof (py_missing_tail f Hwf tail q [] ab' Hq Hn) as E2.
  pose proof (pyreal_app f _ _ _ _ _ _ _ _ _ _ E E2) as E3.
  assert (E3' := E3 ltac:(discriminate)). clear E3.
  apply (under_missing f q tail Hrd Hq).
  unfold real_inside, py_realpath in Hin. fold (start cwd X) in Hin. rewrite HX in Hin.
  destruct (pyreal (real_fuel f (A ++ tail)) f [] (p_is_abs X) (start cwd X) (A ++ tail)) as [ab2 z|l0 r0|] eqn:E4;
    [| |discriminate].
  - assert (Y : POk ab2 z = POk ab' (q ++ tail)) by (eapply pyreal_same; eauto; discriminate).
    inversion Y; subst. apply prefixb_under. exact Hin.
  - assert (Y : PLoop l0 r0 = POk ab' (q ++ tail)) by (eapply pyreal_same; eauto; discriminate). discriminate.
Qed.

End Sem.

(* ------------------------------------------------------------------ the invariant *)
Definition effs_under (d : rpath) (l : list effect) : Prop := Forall (fun e => prefixb d (snd e) = true) l.

Definition Inv (d cwd : rpath) (s : st) : Prop :=
  wf (s_fs s) /\ real_dir (s_fs s) d /\ lookup (s_fs s) cwd = Some Dir /\ effs_under d (s_eff s).

Lemma dir_kept_set : forall f q n a, lookup f a = Some Dir -> (lookup f q <> Some Dir \/ n = Dir) ->
  lookup (fs_set f q n) a = Some Dir.
Proof.
  intros f q n a Ha Hq. destruct a as [|x a]; [reflexivity|]. rewrite lookup_set by discriminate.
  destruct (rpath_eqb q (x :: a)) eqn:E; [|exact Ha]. apply rpath_eqb_eq in E. subst q.
  destruct Hq as [Hq|Hq]; [contradiction | subst; reflexivity].
Qed.

Lemma dir_kept_remove : forall f q a, lookup f a = Some Dir -> lookup f q <> Some Dir ->
  lookup (fs_remove f q) a = Some Dir.
Proof.
  intros f q a Ha Hq. destruct a as [|x a]; [reflexivity|]. rewrite lookup_remove by discriminate.
  destruct (rpath_eqb q (x :: a)) eqn:E; [|exact Ha]. apply rpath_eqb_eq in E. subst q. contradiction.
Qed.

Lemma wf_set : forall f q n, wf f -> lookup f (removelast q) = Some Dir -> (lookup f q <> Some Dir \/ n = Dir) ->
  wf (fs_set f q n).
Proof.
  intros f q n Hwf Hp Hq q' c Hk.
  assert (Hne : q' ++ [c] <> []) by (destruct q'; discriminate).
  rewrite lookup_set in Hk by exact Hne. apply dir_kept_set; [|exact Hq].
  destruct (rpath_eqb q (q' ++ [c])) eqn:E.
  - apply rpath_eqb_eq in E. subst q. rewrite removelast_snoc in Hp. exact Hp.
  - apply (Hwf q' c Hk).
Qed.

Lemma wf_remove : forall f q, wf f -> lookup f q <> Some Dir -> wf (fs_remove f q).
Proof.
  intros f q Hwf Hq q' c Hk.
  assert (Hne : q' ++ [c] <> []) by (destruct q'; discriminate).
  rewrite lookup_remove in Hk by exact Hne. apply dir_kept_remove; [|exact Hq].
  destruct (rpath_eqb q (q' ++ [c])); [contradiction|]. apply (Hwf q' c Hk).
Qed.

Lemma inv_set : forall d cwd s q n k,
  Inv d cwd s -> under d q -> lookup (s_fs s) (removelast q) = Some Dir ->
  (lookup (s_fs s) q <> Some Dir \/ n = Dir) ->
  Inv d cwd (mkSt (fs_set (s_fs s) q n) ((k, q) :: s_eff s)).
Proof.
  intros d cwd s q n k (Hwf & Hrd & Hcwd & He) Hu Hp Hq. split; [|split; [|split]]; simpl.
  - apply wf_set; auto.
  - intros a b Hab. apply dir_kept_set; auto. apply (Hrd a b Hab).
  - apply dir_kept_set; auto.
  - constructor; auto. simpl. apply prefixb_under. exact Hu.
Qed.

Lemma inv_remove : forall d cwd s q k,
  Inv d cwd s -> under d q -> lookup (s_fs s) q <> Some Dir ->
  Inv d cwd (mkSt (fs_remove (s_fs s) q) ((k, q) :: s_eff s)).
Proof.
  intros d cwd s q k (Hwf & Hrd & Hcwd & He) Hu Hq. split; [|split; [|split]]; simpl.
  - apply wf_remove; auto.
  - intros a b Hab. apply dir_kept_remove; auto. apply (Hrd a b Hab).
  - apply dir_kept_remove; auto.
  - constructor; auto. simpl. apply prefixb_under. exact Hu.
Qed.

Lemma inv_eff : forall d cwd s q k, Inv d cwd s -> under d q -> Inv d cwd (mkSt (s_fs s) ((k, q) :: s_eff s)).
Proof.
  intros d cwd s q k (Hwf & Hrd & Hcwd & He) Hu. split; [|split; [|split]]; simpl; auto.
  constructor; auto. simpl. apply prefixb_under. exact Hu.
Qed.

(* the parent of something that exists, or of something found missing by a walk, is a directory *)
Lemma parent_of_found : forall f q n, wf f -> lookup f q = Some n -> lookup f (removelast q) = Some Dir.
Proof.
  intros f q n Hwf H. destruct q as [|x q] using rev_ind; [reflexivity|]. rewrite removelast_snoc.
  apply (Hwf q x). rewrite H. discriminate.
Qed.

(* ------------------------------------------------------------------ triples over M *)
Definition triple {A} (P : st -> Prop) (m : M A) (Q : A -> st -> Prop) (E : st -> Prop) : Prop :=
  forall s, P s -> match m s with Ret a s' => Q a s' | Exc _ s' => E s' end.

Lemma t_ret : forall A (P : st -> Prop) (a : A) (Q : A -> st -> Prop) E, (forall s, P s -> Q a s) -> triple P (ret a) Q E.
Proof. intros A P a Q E H s Hs. simpl. auto. Qed.

Lemma t_raise : forall A (P : st -> Prop) x (Q : A -> st -> Prop) (E : st -> Prop), (forall s, P s -> E s) -> triple P (raise x) Q E.
Proof. intros A P x Q E H s Hs. simpl. auto. Qed.

Lemma t_bind : forall A B (P : st -> Prop) (m : M A) (k : A -> M B) Q R E,
  triple P m Q E -> (forall a, triple (Q a) (k a) R E) -> triple P (mbind m k) R E.
Proof.
  intros A B P m k Q R E Hm Hk s Hs. unfold mbind. specialize (Hm s Hs).
  destruct (m s) as [a s'|x s']; auto. apply (Hk a s' Hm).
Qed.

Lemma t_catch : forall A (P : st -> Prop) (m : M A) (h : exn -> M A) Q E' E,
  triple P m Q E' -> (forall x, triple E' (h x) Q E) -> triple P (catch m h) Q E.
Proof.
  intros A P m h Q E' E Hm Hh s Hs. unfold catch. specialize (Hm s Hs).
  destruct (m s) as [a s'|x s']; auto. apply (Hh x s' Hm).
Qed.

Lemma t_weaken : forall A (P P' : st -> Prop) (m : M A) (Q Q' : A -> st -> Prop) (E E' : st -> Prop),
  triple P m Q E -> (forall s, P' s -> P s) -> (forall a s, Q a s -> Q' a s) -> (forall s, E s -> E' s) ->
  triple P' m Q' E'.
Proof.
  intros A P P' m Q Q' E E' H HP HQ HE s Hs. specialize (H s (HP s Hs)). destruct (m s); auto.
Qed.

(* queries change nothing *)
Lemma t_query : forall A (P : st -> Prop) (m : M A), (forall s, exists a, m s = Ret a s) ->
  forall E, triple P m (fun _ => P) E.
Proof. intros A P m H E s Hs. destruct (H s) as [a Ha]. rewrite Ha. exact Hs. Qed.

Lemma q_exists : forall cwd p s, exists a, path_exists cwd p s = Ret a s.
Proof. intros. eexists. reflexivity. Qed.
Lemma q_is_dir : forall cwd p s, exists a, path_is_dir cwd p s = Ret a s.
Proof. intros. eexists. reflexivity. Qed.

(* ------------------------------------------------------------------ system calls after a check *)
Section Sys.
Variables (d cwd : rpath).

Definition Safe (X : ppath) (s : st) : Prop := real_inside (s_fs s) cwd d X = true.
Definition IS (X : ppath) (s : st) : Prop := Inv d cwd s /\ Safe X s.

(* p is the checked path X, a leading part of it, or a name in it *)
Definition GoodP (X p : ppath) : Prop :=
  proot p = proot X /\ nodd (pparts X) /\
  ((exists tail, pparts X = pparts p ++ tail) \/ (exists c, pparts p = pparts X ++ [c] /\ is_dotdot c = false)).

Lemma resolve_walk : forall f follow p, exists l,
  walk (walk_fuel f (pparts p)) f follow MAXSYMLINKS (start cwd p) (pparts p) = (resolve f cwd follow p, l).
Proof.
  intros. unfold resolve, start.
  destruct (walk (walk_fuel f (pparts p)) f follow MAXSYMLINKS (if p_is_abs p then [] else cwd) (pparts p)) as [r l].
  exists l. reflexivity.
Qed.

Lemma start_dir : forall s p, Inv d cwd s -> lookup (s_fs s) (start cwd p) = Some Dir.
Proof. intros s p (_ & _ & H & _). unfold start. destruct (p_is_abs p); auto. Qed.

Lemma good_missing_under : forall X p s q, GoodP X p -> IS X s ->
  resolve (s_fs s) cwd false p = RMissing q -> under d q.
Proof.
  intros X p s q (Hr & Hn & Hg) [Hi Hs] H.
  destruct (resolve_walk (s_fs s) false p) as [l W]. rewrite H in W.
  rewrite (start_same cwd p X Hr) in W. destruct Hi as (Hwf & Hrd & Hcwd & _).
  destruct Hg as [[tail Ht]|[c [Hc Hcc]]].
  - apply (inside_prefix d cwd (s_fs s) X (pparts p) tail (walk_fuel (s_fs s) (pparts p)) MAXSYMLINKS q l); auto.
    rewrite Ht in Hn. apply nodd_app in Hn. apply Hn.
  - rewrite Hc in W. apply (inside_child d cwd (s_fs s) X c _ _ _ l q Hs Hcc) in W; auto.
    rewrite walk_fuel_snoc. lia.
Qed.

Lemma t_sys_mkdir : forall X p, GoodP X p -> triple (IS X) (sys_mkdir cwd p) (fun _ => IS X) (IS X).
Proof.
  intros X p Hg s Hs. unfold sys_mkdir, mbind, res_of.
  destruct (resolve (s_fs s) cwd false p) as [q n|q|x] eqn:R; simpl; auto.
  pose proof (good_missing_under X p s q Hg Hs R) as Hu.
  destruct (resolve_walk (s_fs s) false p) as [l W]. rewrite R in W.
  destruct Hs as [Hi Hsafe]. pose proof Hi as (Hwf & _).
  pose proof (walk_sound _ Hwf _ _ _ _ _ _ _ (start_dir s p Hi) W) as [Hq (p0 & c0 & E0 & Hp0)].
  split.
  - apply inv_set; auto. subst q. rewrite removelast_snoc. exact Hp0.
  - unfold Safe, real_inside in *. simpl. rewrite realpath_new_dir by exact Hq. exact Hsafe.
Qed.

Lemma good_parent : forall X p, GoodP X p -> GoodP X (pparent p).
Proof.
  intros X p (Hr & Hn & Hg). split; [exact Hr|]. split; [exact Hn|]. left. simpl.
  destruct Hg as [[tail Ht]|[c [Hc _]]].
  - destruct (pparts p) as [|x l] eqn:E; [exists tail; exact Ht|].
    exists (last (x :: l) [] :: tail). rewrite Ht.
    assert (E2 : x :: l = removelast (x :: l) ++ [last (x :: l) []]) by (apply app_removelast_last; discriminate).
    rewrite E2 at 1. rewrite <- app_assoc. reflexivity.
  - exists []. rewrite Hc, removelast_snoc, app_nil_r. reflexivity.
Qed.

Lemma t_path_mkdir : forall X fuel p pa eo, GoodP X p ->
  triple (IS X) (path_mkdir cwd fuel p pa eo) (fun _ => IS X) (IS X).
Proof.
  intros X. induction fuel as [|fuel IH]; intros p pa eo Hg; simpl;
    (eapply t_catch; [apply t_sys_mkdir; exact Hg|]); intros x.
  - destruct x; try (destruct (negb eo); [apply t_raise; auto|];
      eapply t_bind; [apply t_query; apply q_is_dir | intros b; destruct b; [apply t_ret | apply t_raise]; auto]).
    destruct (negb pa || p_eqb (pparent p) p); apply t_raise; auto.
  - destruct x; try (destruct (negb eo); [apply t_raise; auto|];
      eapply t_bind; [apply t_query; apply q_is_dir | intros b; destruct b; [apply t_ret | apply t_raise]; auto]).
    destruct (negb pa || p_eqb (pparent p) p); [apply t_raise; auto|].
    eapply t_bind; [apply IH; apply good_parent; exact Hg | intros u; apply IH; exact Hg].
Qed.

End Sys.

Lemma max_link_len_remove : forall f q, (max_link_len (fs_remove f q) <= max_link_len f)%nat.
Proof.
  induction f as [|[a n] f IH]; intros q; simpl; [lia|].
  destruct (negb (rpath_eqb a q)); simpl; specialize (IH q); destruct n; lia.
Qed.

Lemma walk_fuel_remove : forall f q todo, (walk_fuel (fs_remove f q) todo <= walk_fuel f todo)%nat.
Proof. intros. unfold walk_fuel. pose proof (max_link_len_remove f q). nia. Qed.

Section Sys2.
Variables (d cwd : rpath).
Notation Inv' := (Inv d cwd).
Notation IS' := (IS d cwd).

Lemma t_guard : forall p, triple Inv' (guard cwd (Some d) p) (fun _ => IS' p) Inv'.
Proof.
  intros p s Hs. unfold guard, check_inside. destruct (real_inside (s_fs s) cwd d p) eqn:E; [|exact Hs].
  split; [exact Hs | exact E].
Qed.

Lemma follow_under : forall o s q n, IS' o s ->
  (resolve (s_fs s) cwd true o = RFound q n \/ resolve (s_fs s) cwd true o = RMissing q) -> under d q.
Proof.
  intros o s q n [Hi Hs] H. destruct (resolve_walk cwd (s_fs s) true o) as [l W].
  apply (inside_follow d cwd (s_fs s) o _ _ _ l q Hs (le_n _) W). destruct H as [H|H]; rewrite H; reflexivity.
Qed.

Lemma t_open_wb : forall o data, triple (IS' o) (sys_open_wb cwd o data) (fun _ => Inv') Inv'.
Proof.
  intros o data s Hs. unfold sys_open_wb, mbind, res_of.
  destruct (resolve_walk cwd (s_fs s) true o) as [l W]. pose proof Hs as [Hi _]. pose proof Hi as (Hwf & _).
  pose proof (walk_sound _ Hwf _ _ _ _ _ _ _ (start_dir d cwd s o Hi) W) as Snd.
  destruct (resolve (s_fs s) cwd true o) as [q n|q|x] eqn:R; simpl; auto.
  - assert (Hu : under d q) by (apply (follow_under o s q n Hs); auto).
    simpl in Snd.
    pose proof (parent_of_found _ _ _ Hwf Snd) as Hp.
    destruct n as [|dd|t]; simpl.
    + exact Hi.
    + apply (inv_set d cwd s q (File data) KTrunc Hi Hu Hp). left. rewrite Snd. discriminate.
    + apply (inv_set d cwd s q (File data) KTrunc Hi Hu Hp). left. rewrite Snd. discriminate.
  - assert (Hu : under d q) by (apply (follow_under o s q Dir Hs); auto).
    destruct Snd as [Hq (p0 & c0 & E0 & Hp0)].
    apply (inv_set d cwd s q (File data) KCreate Hi Hu); [subst q; rewrite removelast_snoc; exact Hp0 | left; rewrite Hq; discriminate].
Qed.

Lemma t_open_creat : forall o, triple (IS' o) (sys_open_creat cwd o) (fun _ => Inv') Inv'.
Proof.
  intros o s Hs. unfold sys_open_creat, mbind, res_of.
  destruct (resolve_walk cwd (s_fs s) true o) as [l W]. pose proof Hs as [Hi _]. pose proof Hi as (Hwf & _).
  pose proof (walk_sound _ Hwf _ _ _ _ _ _ _ (start_dir d cwd s o Hi) W) as Snd.
  destruct (resolve (s_fs s) cwd true o) as [q n|q|x] eqn:R; simpl; auto.
  - destruct n; simpl; auto.
  - assert (Hu : under d q) by (apply (follow_under o s q Dir Hs); auto).
    destruct Snd as [Hq (p0 & c0 & E0 & Hp0)].
    apply (inv_set d cwd s q (File []) KCreate Hi Hu); [subst q; rewrite removelast_snoc; exact Hp0 | left; rewrite Hq; discriminate].
Qed.

Lemma t_touch_meta : forall k o, triple (IS' o) (sys_touch_meta cwd k o) (fun _ => IS' o) (IS' o).
Proof.
  intros k o s Hs. unfold sys_touch_meta, mbind, res_of.
  destruct (resolve (s_fs s) cwd true o) as [q n|q|x] eqn:R; simpl; auto.
  assert (Hu : under d q) by (apply (follow_under o s q n Hs); auto).
  destruct Hs as [Hi Hsafe]. split; [apply inv_eff; auto | exact Hsafe].
Qed.

Lemma t_touch : forall o, triple (IS' o) (path_touch cwd o) (fun _ => Inv') Inv'.
Proof.
  intros o. unfold path_touch. apply t_catch with (E' := IS' o).
  - eapply t_weaken; [apply (t_touch_meta KUtime o) | auto | intros a s [H _]; exact H | auto].
  - intros x. apply t_open_creat.
Qed.

End Sys2.

Section Sys3.
Variables (d cwd : rpath).
Notation Inv' := (Inv d cwd).
Notation IS' := (IS d cwd).

(* the state between the removal of an old link and the creation of the new one *)
Definition Pre2 (P : ppath) (s : st) : Prop :=
  Inv' s /\ (Safe d cwd P s \/
             exists f0 q0, s_fs s = fs_remove f0 q0 /\ under d q0 /\ real_inside f0 cwd d P = true).

(* o = P / c *)
Definition child_of (P o : ppath) (c : str) : Prop :=
  proot o = proot P /\ pparts o = pparts P ++ [c] /\ is_dotdot c = false.

Lemma child_under : forall P o c s r q, child_of P o c -> IS' P s ->
  resolve (s_fs s) cwd false o = r -> loc_of r = Some q -> under d q.
Proof.
  intros P o c s r q (Hr & Hp & Hc) [Hi Hs] H Hq. destruct (resolve_walk cwd (s_fs s) false o) as [l W].
  rewrite H in W. rewrite (start_same cwd o P Hr), Hp in W.
  apply (inside_child d cwd (s_fs s) P c _ _ _ l q Hs Hc) in W; auto. rewrite walk_fuel_snoc. lia.
Qed.

Lemma t_unlink : forall P o c, child_of P o c -> triple (IS' P) (sys_unlink cwd o) (fun _ => Pre2 P) Inv'.
Proof.
  intros P o c Hch s Hs. unfold sys_unlink, mbind, res_of.
  destruct (resolve_walk cwd (s_fs s) false o) as [l W]. pose proof Hs as [Hi Hsafe]. pose proof Hi as (Hwf & _).
  pose proof (walk_sound _ Hwf _ _ _ _ _ _ _ (start_dir d cwd s o Hi) W) as Snd.
  destruct (resolve (s_fs s) cwd false o) as [q n|q|x] eqn:R; simpl; auto.
  assert (Hu : under d q) by (apply (child_under P o c s _ q Hch Hs R); reflexivity).
  simpl in Snd.
  assert (G : forall n', lookup (s_fs s) q = Some n' -> n' <> Dir ->
              Pre2 P (mkSt (fs_remove (s_fs s) q) ((KUnlink, q) :: s_eff s))).
  { intros n' Hn' Hd. split.
    - apply inv_remove; auto. rewrite Hn'. congruence.
    - right. exists (s_fs s), q. auto. }
  destruct n as [|dd|t]; simpl; [exact Hi | apply (G _ Snd); discriminate | apply (G _ Snd); discriminate].
Qed.

Lemma t_symlink : forall P o c t, child_of P o c -> triple (Pre2 P) (sys_symlink cwd t o) (fun _ => Inv') Inv'.
Proof.
  intros P o c t Hch s [Hi Hpre]. unfold sys_symlink, mbind, res_of.
  destruct (resolve_walk cwd (s_fs s) false o) as [l W]. pose proof Hi as (Hwf & _).
  pose proof (walk_sound _ Hwf _ _ _ _ _ _ _ (start_dir d cwd s o Hi) W) as Snd.
  destruct (resolve (s_fs s) cwd false o) as [q n|q|x] eqn:R; simpl; auto.
  destruct Snd as [Hq (p0 & c0 & E0 & Hp0)].
  assert (Hu : under d q).
  { destruct Hpre as [Hs|(f0 & q0 & Ef & Hu0 & Hin0)].
    - apply (child_under P o c s _ q Hch (conj Hi Hs) R). reflexivity.
    - destruct Hch as (Hr & Hp & Hc). rewrite Ef in W.
      destruct (walk_remove f0 q0 _ _ _ _ _ _ _ q W eq_refl) as [X|X].
      + inversion X; subst. exact Hu0.
      + rewrite (start_same cwd o P Hr), Hp in X.
        apply (inside_child d cwd f0 P c _ _ _ l q Hin0 Hc) in X; auto.
        pose proof (walk_fuel_remove f0 q0 (pparts P ++ [c])) as HH. rewrite !walk_fuel_snoc in HH. rewrite walk_fuel_snoc. lia. }
  apply (inv_set d cwd s q (Link t) KSymlink Hi Hu); [subst q; rewrite removelast_snoc; exact Hp0 | left; rewrite Hq; discriminate].
Qed.

(* the path names no entry of a directory: it is the start directory itself *)
Lemma t_unlink_root : forall o, pparts o = [] -> triple Inv' (sys_unlink cwd o) (fun _ => Inv') Inv'.
Proof.
  intros o Ho s Hs. unfold sys_unlink, mbind, res_of, resolve. rewrite Ho. simpl. exact Hs.
Qed.
Lemma t_symlink_root : forall o t, pparts o = [] -> triple Inv' (sys_symlink cwd t o) (fun _ => Inv') Inv'.
Proof.
  intros o t Ho s Hs. unfold sys_symlink, mbind, res_of, resolve. rewrite Ho. simpl. exact Hs.
Qed.

End Sys3.

(* ------------------------------------------------------------------ canonical_path and the sanitiser *)
Definition alldd (l : list str) : Prop := Forall (fun c => is_dotdot c = true) l.

Lemma canon_shape : forall ps stack,
  (exists rest dds, stack = rest ++ dds /\ nodd rest /\ alldd dds) ->
  exists dds rest, canon_go stack ps = dds ++ rest /\ alldd dds /\ nodd rest.
Proof.
  induction ps as [|p ps IH]; intros stack [rest [dds [Hs [Hr Hdd]]]].
  - simpl. exists (rev dds), (rev rest). subst stack. rewrite rev_app_distr. repeat split.
    + apply Forall_rev. exact Hdd.
    + apply Forall_rev. exact Hr.
  - simpl. destruct stack as [|top st].
    + apply IH. destruct (is_dotdot p) eqn:Ep.
      * exists [], [p]. repeat split; [constructor | constructor; [exact Ep | constructor]].
      * exists [p], []. repeat split; [constructor; [exact Ep | constructor] | constructor].
    + destruct (is_dotdot p) eqn:Ep; simpl.
      * destruct (is_dotdot top) eqn:Et.
        -- apply IH. destruct rest as [|x rest].
           ++ simpl in Hs. exists [], (p :: dds). repeat split; [rewrite Hs; reflexivity | constructor | constructor; auto].
           ++ simpl in Hs. inversion Hs; subst. inversion Hr; subst. congruence.
        -- destruct (str_eqb top [SLASH]).
           ++ apply IH. exists rest, dds. auto.
           ++ apply IH. destruct rest as [|x rest].
              ** simpl in Hs. subst dds. inversion Hdd; subst. congruence.
              ** simpl in Hs. inversion Hs; subst. inversion Hr; subst. exists rest, dds. auto.
      * apply IH. exists (p :: rest), dds. repeat split; [rewrite Hs; reflexivity | constructor; auto | exact Hdd].
Qed.

Lemma canon_root1 : forall X, proot (canonical_path X) = 1 -> nodd (pparts (canonical_path X)).
Proof.
  intros X. unfold canonical_path.
  destruct (canon_shape (items X) []) as [dds [rest [Hc [Hdd Hr]]]].
  { exists [], []. repeat split; constructor. }
  rewrite Hc. destruct dds as [|x dds].
  - simpl. destruct rest as [|y rest]; simpl; [discriminate|].
    inversion Hr; subst.
    destruct (str_eqb y [SLASH]); simpl; [auto|]. destruct (str_eqb y [SLASH; SLASH]); simpl; discriminate.
  - inversion Hdd as [|? ? Hx]; subst. unfold is_dotdot in Hx. apply str_eqb_eq in Hx. subst x. simpl. discriminate.
Qed.

Lemma canon_push : forall ps top st, nodd ps -> canon_go (top :: st) ps = rev (top :: st) ++ ps.
Proof.
  induction ps as [|p ps IH]; intros top st Hn.
  - simpl. rewrite app_nil_r. reflexivity.
  - inversion Hn as [|? ? Hp Hps]; subst. simpl canon_go. rewrite Hp. simpl negb. cbv iota.
    rewrite IH by exact Hps. simpl. rewrite <- !app_assoc. reflexivity.
Qed.

Lemma canon_id : forall parts, nodd parts -> canonical_path (mkP 1 parts) = mkP 1 parts.
Proof.
  intros parts Hn. unfold canonical_path, items, root_item. simpl.
  rewrite canon_push by exact Hn. reflexivity.
Qed.

(* every name the sanitiser accepts for a canonical absolute destination lies lexically below it *)
Lemma sanitize_ok : forall nm cwd0 b o, proot b = 1 -> nodd (pparts b) ->
  get_sanitized_output_path nm cwd0 (Some b) = Some o ->
  proot o = 1 /\ nodd (pparts o) /\ under (pparts b) (pparts o).
Proof.
  intros nm cwd0 b o Hb Hn H. unfold get_sanitized_output_path in H.
  destruct (is_relative_to (canonical_path (pjoin b (remove_relative_path_marker (lstrip SLASH nm)))) b) eqn:E;
    [|discriminate].
  inversion H; subst o; clear H. unfold is_relative_to in E.
  assert (Hcb : canonical_path b = b) by (destruct b as [r ps]; simpl in *; subst r; apply canon_id; exact Hn).
  rewrite Hcb, Hb in E. apply andb_true_iff in E as [E1 E2]. apply Z.eqb_eq in E1.
  split; [exact E1|]. split; [apply canon_root1; exact E1 | apply prefixb_under; exact E2].
Qed.

(* without a destination: the returned path is relative to the current directory and free of ".." *)
Lemma sanitize_none_ok : forall nm cwd0 o, nodd cwd0 ->
  get_sanitized_output_path nm cwd0 None = Some o -> proot o = 0 /\ nodd (pparts o).
Proof.
  intros nm cwd0 o Hn H. unfold get_sanitized_output_path in H.
  rewrite (canon_id cwd0 Hn) in H.
  set (t := canonical_path (pjoin (mkP 1 cwd0) (remove_relative_path_marker (lstrip SLASH nm)))) in *.
  destruct (is_relative_to t (mkP 1 cwd0)) eqn:E; [|discriminate].
  inversion H; subst o; clear H. unfold is_relative_to in E. rewrite (canon_id cwd0 Hn) in E. simpl in E.
  apply andb_true_iff in E as [E1 E2]. apply Z.eqb_eq in E1. apply prefixb_under in E2 as [r Hr].
  split; [reflexivity|]. unfold relative_to. simpl. rewrite Hr.
  rewrite skipn_app, skipn_all, Nat.sub_diag. simpl.
  pose proof (canon_root1 _ E1) as Hp. fold t in Hp. rewrite Hr in Hp. apply nodd_app in Hp. apply Hp.
Qed.

Lemma canon_rooted : forall X, proot (canonical_path X) <> 0 -> nodd (pparts (canonical_path X)).
Proof.
  intros X. unfold canonical_path.
  destruct (canon_shape (items X) []) as [dds [rest [Hc [Hdd Hr]]]].
  { exists [], []. repeat split; constructor. }
  rewrite Hc. destruct dds as [|x dds].
  - simpl. destruct rest as [|y rest]; simpl; [intros H; exfalso; apply H; reflexivity|].
    inversion Hr; subst.
    destruct (str_eqb y [SLASH]); simpl; [auto|]. destruct (str_eqb y [SLASH; SLASH]); simpl; auto.
    all: try (intros HH; exfalso; apply HH; reflexivity).
  - inversion Hdd as [|? ? Hx]; subst. unfold is_dotdot in Hx. apply str_eqb_eq in Hx. subst x. simpl.
    intros HH; exfalso; apply HH; reflexivity.
Qed.

(* the base the sanitiser works from keeps a root when "..", "." and names are resolved in its text (every destination
   that does not begin with exactly two slashes, see rooted_not_two) *)
Definition dest_rooted (cwd : rpath) (dest : option ppath) : Prop :=
  match sanitize_base cwd dest with Some b => proot (canonical_path b) <> 0 | None => True end.

(* every name the sanitiser accepts is free of ".." *)
Lemma sanitize_nodd : forall nm cwd dest o, nodd cwd -> dest_rooted cwd dest ->
  get_sanitized_output_path nm cwd (sanitize_base cwd dest) = Some o -> nodd (pparts o).
Proof.
  intros nm cwd dest o Hcwd Hroot H. unfold dest_rooted in Hroot.
  destruct (sanitize_base cwd dest) as [b|].
  - unfold get_sanitized_output_path in H.
    destruct (is_relative_to (canonical_path (pjoin b (remove_relative_path_marker (lstrip SLASH nm)))) b) eqn:E;
      [|discriminate].
    inversion H; subst o; clear H. unfold is_relative_to in E. apply andb_true_iff in E as [E1 _].
    apply Z.eqb_eq in E1. apply canon_rooted. rewrite E1. exact Hroot.
  - apply (sanitize_none_ok nm cwd o Hcwd H).
Qed.

(* ------------------------------------------------------------------ the extraction program *)
Opaque path_mkdir path_touch sys_touch_meta sys_open_wb sys_symlink sys_unlink path_exists path_is_dir.

Lemma snoc_case : forall (l : list str), l = [] \/ exists l' c, l = l' ++ [c].
Proof. intros l. destruct l as [|x l] using rev_ind; [left; reflexivity | right; exists l, x; reflexivity]. Qed.

Lemma nodd_last : forall l c, nodd (l ++ [c]) -> is_dotdot c = false.
Proof. intros l c H. apply nodd_app in H as [_ H]. inversion H; auto. Qed.

Section Program.
Variables (d cwd : rpath) (dest : option ppath).
Notation Inv' := (Inv d cwd).
Notation IS' := (IS d cwd).
Hypothesis Hsan : forall nm o, get_sanitized_output_path nm cwd (sanitize_base cwd dest) = Some o -> nodd (pparts o).

Definition okout (oo : option ppath) : Prop := match oo with Some o => nodd (pparts o) | None => True end.
Definition regok (r : reg) : Prop :=
  Forall (fun eo : entry * option ppath => okout (snd eo)) (r_out r) /\
  Forall (fun oe : ppath * entry => nodd (pparts (fst oe))) (r_files r) /\
  Forall (fun o : ppath => nodd (pparts o)) (r_dirs r).

Lemma t_register : forall es names r, regok r ->
  triple Inv' (register cwd dest es names r) (fun r' s => Inv' s /\ regok r') Inv'.
Proof.
  induction es as [|e es IH]; intros names r Hr.
  - simpl. apply t_ret. auto.
  - simpl register. destruct (outname names (e_name e)) as [nm names'].
    destruct (get_sanitized_output_path nm cwd (sanitize_base cwd dest)) as [o|] eqn:Es; [|apply t_raise; auto].
    pose proof (Hsan nm o Es) as Ho. destruct Hr as (R1 & R2 & R3).
    destruct (e_kind e =? 1).
    + eapply t_bind; [apply t_query; apply q_exists|]. intros ex. destruct ex; apply IH; (split; [|split]); simpl; auto;
        constructor; simpl; auto.
    + destruct (e_kind e =? 2); apply IH; (split; [|split]); simpl; auto; constructor; simpl; auto.
Qed.

Lemma good_self : forall X, nodd (pparts X) -> GoodP X X.
Proof. intros X H. split; [reflexivity|]. split; [exact H|]. left. exists []. rewrite app_nil_r. reflexivity. Qed.

Lemma good_self_child : forall t, nodd (pparts t) -> GoodP (pparent t) t.
Proof.
  intros t H. split; [reflexivity|]. split; [simpl; apply nodd_removelast; exact H|]. simpl.
  destruct (snoc_case (pparts t)) as [E|(l' & c & E)].
  - left. exists []. rewrite E. reflexivity.
  - right. exists c. rewrite E in *. rewrite removelast_snoc. split; [reflexivity | apply (nodd_last _ _ H)].
Qed.

Lemma t_make_dirs : forall ds, Forall (fun o : ppath => nodd (pparts o)) ds ->
  triple Inv' (make_dirs cwd (Some d) ds) (fun _ => Inv') Inv'.
Proof.
  induction ds as [|t ds IH]; intros H; simpl.
  - apply t_ret. auto.
  - inversion H as [|? ? Ht Hds]; subst.
    eapply t_bind; [apply t_guard|]. intros u.
    eapply t_bind; [|intros u2; apply IH; exact Hds].
    eapply t_weaken with (P := IS' (pparent t)) (Q := fun _ => IS' (pparent t)) (E := IS' (pparent t));
      [|auto | intros a s [Hi _]; exact Hi | intros s [Hi _]; exact Hi].
    eapply t_catch; [apply t_path_mkdir; apply good_self_child; exact Ht|].
    intros x. destruct x; try (apply t_raise; auto).
    eapply t_bind; [apply t_query; apply q_is_dir|]. intros b. destruct b; [apply t_ret | apply t_raise]; auto.
Qed.

Lemma is_to_inv : forall A X (m : M A), triple (IS' X) m (fun _ => IS' X) (IS' X) ->
  triple (IS' X) m (fun _ => Inv') Inv'.
Proof.
  intros A X m H. eapply t_weaken; [exact H | auto | intros a s [Hi _]; exact Hi | intros s [Hi _]; exact Hi].
Qed.

Lemma from_is : forall A X (m : M A) (Q : A -> st -> Prop), triple Inv' m Q Inv' -> triple (IS' X) m Q Inv'.
Proof. intros A X m Q H. eapply t_weaken; [exact H | intros s [Hi _]; exact Hi | auto | auto]. Qed.

Lemma t_extract_one : forall eo, okout (snd eo) -> triple Inv' (extract_one cwd dest (Some d) eo) (fun _ => Inv') Inv'.
Proof.
  intros [e [o|]] Ho; simpl in *; [|apply t_ret; auto].
  set (P := pparent o).
  assert (HP : nodd (pparts P)) by (simpl; apply nodd_removelast; exact Ho).
  eapply t_bind; [apply (t_guard d cwd P)|]. intros u.
  eapply t_bind with (Q := fun _ => IS' P).
  { eapply t_weaken; [apply (t_path_mkdir d cwd P); apply good_self; exact HP | auto | auto | intros s [Hi _]; exact Hi]. }
  intros u2. destruct (e_empty e).
  { apply from_is. eapply t_bind; [apply t_guard | intros u3; apply t_touch]. }
  destruct (e_kind e =? 2).
  2:{ apply from_is. eapply t_bind; [apply t_guard | intros u3; apply t_open_wb]. }
  destruct (is_path_valid (pjoin P (e_data e)) cwd dest); [|apply t_raise; intros s [Hi _]; exact Hi].
  eapply t_bind; [apply t_query; apply q_exists|]. intros ex.
  destruct (snoc_case (pparts o)) as [E|(l' & c & E)].
  - apply from_is. eapply t_bind with (Q := fun _ => Inv').
    + destruct ex; [apply t_unlink_root; exact E | apply t_ret; auto].
    + intros u3. apply t_symlink_root. exact E.
  - assert (Hch : child_of P o c).
    { split; [reflexivity|]. split; [|rewrite E in Ho; apply (nodd_last _ _ Ho)].
      unfold P. simpl. rewrite E, removelast_snoc. reflexivity. }
    eapply t_bind with (Q := fun _ => Pre2 d cwd P).
    + destruct ex; [apply (t_unlink d cwd P o c Hch) | apply t_ret; intros s [Hi Hs]; split; auto].
    + intros u3. apply (t_symlink d cwd P o c _ Hch).
Qed.

Lemma t_extract_each : forall l, Forall (fun eo : entry * option ppath => okout (snd eo)) l ->
  triple Inv' (extract_each cwd dest (Some d) l) (fun _ => Inv') Inv'.
Proof.
  induction l as [|eo l IH]; intros H; simpl.
  - apply t_ret. auto.
  - inversion H; subst. eapply t_bind; [apply t_extract_one; auto | intros u; apply IH; auto].
Qed.

Lemma t_post_pass : forall l, Forall (fun oe : ppath * entry => nodd (pparts (fst oe))) l ->
  triple Inv' (post_pass cwd (Some d) l) (fun _ => Inv') Inv'.
Proof.
  induction l as [|[o e] l IH]; intros H; simpl.
  - apply t_ret. auto.
  - inversion H; subst.
    eapply t_bind; [apply t_guard|]. intros u.
    eapply t_bind with (Q := fun _ => IS' o).
    { destruct (e_mtime e =? 1); [|apply t_ret; auto].
      eapply t_weaken; [apply (t_touch_meta d cwd KUtime o) | auto | auto | intros s [Hi _]; exact Hi]. }
    intros u2. eapply t_bind with (Q := fun _ => IS' o).
    { destruct (e_chmod e); [|apply t_ret; auto].
      eapply t_weaken; [apply (t_touch_meta d cwd KChmod o) | auto | auto | intros s [Hi _]; exact Hi]. }
    intros u3. apply from_is. apply IH. auto.
Qed.
Lemma forall_insert : forall (P : ppath -> Prop) x l, P x -> Forall P l -> Forall P (insert_sorted x l).
Proof.
  induction l as [|y l IH]; intros Hx Hl; simpl; [constructor; auto|].
  destruct (p_ltb x y); [constructor; auto|]. inversion Hl; subst. constructor; auto.
Qed.

Lemma forall_sort : forall (P : ppath -> Prop) l, Forall P l -> Forall P (sort_paths l).
Proof.
  intros P l H. unfold sort_paths.
  assert (G : forall l acc, Forall P l -> Forall P acc -> Forall P (fold_left (fun acc x => insert_sorted x acc) l acc)).
  { induction l0 as [|x l0 IH]; intros acc Hl Ha; simpl; auto.
    inversion Hl; subst. apply IH; auto. apply forall_insert; auto. }
  apply G; auto.
Qed.

Lemma forall_filter : forall A (P : A -> Prop) g l, Forall P l -> Forall P (filter g l).
Proof.
  induction l as [|x l IH]; intros H; simpl; auto. inversion H; subst. destruct (g x); auto.
Qed.

Lemma forall_order : forall (P : entry * option ppath -> Prop) mode l, Forall P l -> Forall P (worker_order mode l).
Proof.
  intros P mode l H. unfold worker_order. destruct (mode =? 0); auto.
  apply Forall_app. split; apply forall_filter; auto.
Qed.

(* the body of _extract once the real place of the destination has been taken *)
Lemma t_body : forall es mode,
  triple Inv' (let* r := register cwd dest es [] (mkR [] [] []) in
               let* _ := make_dirs cwd (Some d) (sort_paths (rev (r_dirs r))) in
               let* _ := extract_each cwd dest (Some d) (worker_order mode (rev (r_out r))) in
               post_pass cwd (Some d) (rev (r_files r))) (fun _ => Inv') Inv'.
Proof.
  intros es mode. eapply t_bind; [apply t_register; split; [|split]; constructor|].
  intros r s [Hi (R1 & R2 & R3)]. revert s Hi. change (triple Inv' (let* _ := make_dirs cwd (Some d) (sort_paths (rev (r_dirs r))) in
               let* _ := extract_each cwd dest (Some d) (worker_order mode (rev (r_out r))) in
               post_pass cwd (Some d) (rev (r_files r))) (fun _ => Inv') Inv').
  eapply t_bind; [apply t_make_dirs; apply forall_sort; apply Forall_rev; exact R3|]. intros u.
  eapply t_bind; [apply t_extract_each; apply forall_order; apply Forall_rev; exact R1|]. intros u2.
  apply t_post_pass. apply Forall_rev. exact R2.
Qed.

End Program.

(* ------------------------------------------------------------------ the theorems *)
Definition final_state {A} (o : out A) : st := match o with Ret _ s => s | Exc _ s => s end.

Lemma wf_real_dir : forall f d, wf f -> lookup f d = Some Dir -> real_dir f d.
Proof.
  intros f d Hwf Hd a b Hab. subst d. revert Hd. induction b as [|c b IH] using rev_ind; intros Hd.
  - rewrite app_nil_r in Hd. exact Hd.
  - apply IH. rewrite app_assoc in Hd. apply (Hwf _ c). rewrite Hd. discriminate.
Qed.

(* every filesystem in which the destination (any form: absolute, relative, reached through links, None = the current
   directory) resolves to a directory d; every archive; completed or raised: the effects lie at or below d, and d is
   still that directory afterwards *)
Theorem extract_confined_all : forall f cwd dest es mode d,
  wf f -> lookup f cwd = Some Dir -> nodd cwd -> dest_rooted cwd dest ->
  resolve f cwd true (dest_path cwd dest) = RFound d Dir ->
  Inv d cwd (final_state (extract_fs f cwd dest es mode)).
Proof.
  intros f cwd dest es mode d Hwf Hcwd Hn Hroot Hres.
  destruct (resolve_walk cwd f true (dest_path cwd dest)) as [l W]. rewrite Hres in W.
  assert (Hd : lookup f d = Some Dir).
  { refine (walk_sound f Hwf _ _ _ _ _ _ _ _ W). unfold start. destruct (p_is_abs (dest_path cwd dest)); auto. }
  assert (I0 : Inv d cwd (mkSt f [])).
  { split; [exact Hwf|]. split; [apply wf_real_dir; auto|]. split; [exact Hcwd | constructor]. }
  assert (Hroot' : py_realpath f cwd (dest_path cwd dest) = Some d).
  { apply (py_of_walk f cwd _ _ _ _ l d) in W; auto. unfold real_fuel. lia. }
  unfold extract_fs, extract, extract_gen.
  assert (Hprep : prepare_dest cwd dest (mkSt f []) = Ret tt (mkSt f [])).
  { unfold prepare_dest. destruct dest as [p0|]; [|reflexivity]. unfold dest_path in Hres.
    Transparent path_exists. unfold mbind, path_exists, res_of, mbind, ret. simpl. rewrite Hres. reflexivity. }
  unfold mbind at 1. rewrite Hprep.
  unfold mbind at 1. unfold mbind at 1. unfold real_root. simpl s_fs. rewrite Hroot'. unfold ret at 1.
  pose proof (t_body d cwd dest (fun nm o => sanitize_nodd nm cwd dest o Hn Hroot) es mode (mkSt f []) I0) as T.
  match goal with |- Inv d cwd (final_state ?X) => destruct X end; simpl; exact T.
Qed.

(* the statement of the property *)
Corollary extract_effects_inside : forall f cwd dest es mode d,
  wf f -> lookup f cwd = Some Dir -> nodd cwd -> dest_rooted cwd dest ->
  resolve f cwd true (dest_path cwd dest) = RFound d Dir ->
  effs_under d (s_eff (final_state (extract_fs f cwd dest es mode))).
Proof. intros. apply (extract_confined_all f cwd dest es mode d); auto. Qed.

(* a rooted text keeps its root under canonical_path *)
Lemma canon_go_bottom : forall ps st, exists rest, canon_go (st ++ [[SLASH]]) ps = [SLASH] :: rest.
Proof.
  induction ps as [|p ps IH]; intros st.
  - simpl. rewrite rev_app_distr. simpl. eexists; reflexivity.
  - simpl. destruct (st ++ [[SLASH]]) as [|top st'] eqn:E; [destruct st; discriminate|].
    destruct (negb (is_dotdot p)); [rewrite <- E; apply (IH (p :: st))|].
    destruct (is_dotdot top); [rewrite <- E; apply (IH (p :: st))|].
    destruct (str_eqb top [SLASH]) eqn:Et; [rewrite <- E; apply IH|].
    destruct st as [|x st]; simpl in E; inversion E; subst.
    + rewrite str_eqb_refl in Et. discriminate.
    + apply IH.
Qed.

Lemma canon_root_kept : forall X, proot X = 1 -> proot (canonical_path X) = 1.
Proof.
  intros [r ps] H. simpl in H. subst r. unfold canonical_path, items, root_item. simpl.
  destruct (canon_go_bottom ps []) as [rest E]. simpl in E.
  assert (G : forall l : list str, l = [SLASH] :: rest -> proot (of_items l) = 1) by (intros l Hl; subst l; reflexivity).
  apply G. exact E.
Qed.

Lemma rooted_not_two : forall cwd dest, match dest with Some p => proot p = 0 \/ proot p = 1 | None => True end ->
  dest_rooted cwd dest.
Proof.
  intros cwd [p|] H; unfold dest_rooted, sanitize_base; [|exact I].
  assert (E : proot (if p_is_abs p then p else pjoinp (mkP 1 cwd) p) = 1).
  { unfold p_is_abs, pjoinp, p_is_abs. destruct H as [H|H]; rewrite H; simpl; auto. }
  rewrite (canon_root_kept _ E). discriminate.
Qed.

(* booleans for concrete states *)
Definition effs_underb (d : rpath) (l : list effect) : bool := forallb (fun e => prefixb d (snd e)) l.
Lemma effs_underb_iff : forall d l, effs_underb d l = true <-> effs_under d l.
Proof. intros. unfold effs_underb, effs_under. rewrite forallb_forall, Forall_forall. reflexivity. Qed.
Definition noddb (l : list str) : bool := forallb (fun c => negb (is_dotdot c)) l.
Lemma noddb_ok : forall l, noddb l = true -> nodd l.
Proof.
  intros l H. unfold noddb in H. rewrite forallb_forall in H. apply Forall_forall. intros c Hc.
  apply H in Hc. destruct (is_dotdot c); [discriminate|reflexivity].
Qed.

Lemma lookup_raw_in : forall f q n, lookup_raw f q = Some n -> In (q, n) f.
Proof.
  induction f as [|[a m] f IH]; intros q n H; simpl in H; [discriminate|].
  destruct (rpath_eqb a q) eqn:E; [apply rpath_eqb_eq in E; inversion H; subst; left; reflexivity|].
  right. apply IH. exact H.
Qed.

Definition wfb (f : fs) : bool :=
  forallb (fun qn => match lookup f (removelast (fst qn)) with Some Dir => true | _ => false end) f.
Lemma wfb_ok : forall f, wfb f = true -> wf f.
Proof.
  intros f H q c Hk. destruct (lookup f (q ++ [c])) as [n|] eqn:E; [|contradiction].
  assert (E' : lookup_raw f (q ++ [c]) = Some n) by (destruct (q ++ [c]) eqn:Eq; [destruct q; discriminate | exact E]).
  apply lookup_raw_in in E'. unfold wfb in H. rewrite forallb_forall in H. apply H in E'.
  cbn [fst] in E'. rewrite removelast_snoc in E'.
  destruct (lookup f q) as [[| |]|]; try discriminate. reflexivity.
Qed.

(* ------------------------------------------------------------------ witnesses *)
Definition w_jail : str := [106; 97; 105; 108].
Definition w_dest : str := [100; 101; 115; 116].
Definition w_out : str := [111; 117; 116].
Definition w_fs : fs := [([w_jail], Dir); ([w_jail; w_dest], Dir); ([w_jail; w_out], Dir)].
Definition w_d : rpath := [w_jail; w_dest].
Definition w_file (name : str) : entry := mkE name 0 [68] false 1 true.
Definition w_link (name target : str) : entry := mkE name 2 target false 1 true.
(* link "l" -> ".", link "l/m" -> "..", file "l/m/x" *)
Definition w_chain : list entry :=
  [w_link [108] [46]; w_link [108; 47; 109] [46; 46]; w_file [108; 47; 109; 47; 120]].
(* file ".//jail/out/x", destination None *)
Definition w_absname : list entry := [w_file ([46; 47; 47] ++ w_jail ++ [47] ++ w_out ++ [47; 120])].
(* file "../zz/../dest/x", destination None *)
Definition w_climb : list entry := [w_file ([46; 46; 47; 122; 122; 47; 46; 46; 47] ++ w_dest ++ [47; 120])].
(* link "A" -> "B/..", link "B" -> ".", file "A/x": A is created while B is missing *)
Definition w_order : list entry :=
  [w_link [65] [66; 47; 46; 46]; w_link [66] [46]; w_file [65; 47; 120]].
(* a populated destination: a directory, links that were there before (to a directory outside, to a file outside, to a
   directory inside), and a second way to the destination through the link /jail/dl *)
Definition y_fs : fs :=
  [([w_jail], Dir); ([w_jail; w_dest], Dir); ([w_jail; w_out], Dir); ([w_jail; w_out; [102]], File [79]);
   ([w_jail; w_dest; [97]], Dir); ([w_jail; w_dest; [108; 111]], Link (mkP 0 [[46; 46]; w_out]));
   ([w_jail; w_dest; [108; 102]], Link (mkP 1 [w_jail; w_out; [102]]));
   ([w_jail; w_dest; [108; 105]], Link (mkP 0 [[97]]));
   ([w_jail; [100; 108]], Link (mkP 0 [w_dest]))].
Definition y_dest : ppath := mkP 1 [w_jail; [100; 108]].
(* file "li/f", directory "n", link "k" -> "li", file "k/g", file "a/f" twice, empty file "e" *)
Definition y_es : list entry :=
  [w_file [108; 105; 47; 102]; mkE [110] 1 [] true 1 true; w_link [107] [108; 105]; w_file [107; 47; 103];
   w_file [97; 47; 102]; w_file [97; 47; 102]; mkE [101] 0 [] true 1 true].
(* file "lo/x" (through the old link to /jail/out) *)
Definition y_out : list entry := [w_file [108; 111; 47; 120]].
Definition y_outf : list entry := [w_file [108; 102]].

Lemma w_hyps : wf w_fs /\ lookup w_fs [w_jail] = Some Dir /\ nodd [w_jail] /\ nodd w_d /\
  resolve w_fs [w_jail] true (mkP 1 w_d) = RFound w_d Dir /\ resolve w_fs w_d true (mkP 1 w_d) = RFound w_d Dir.
Proof.
  split; [apply wfb_ok; reflexivity|]. split; [reflexivity|]. split; [apply noddb_ok; reflexivity|].
  split; [apply noddb_ok; reflexivity|]. split; reflexivity.
Qed.

(* regression witness: the code before the real-path checks (root = None) escaped through a chain of links that each pass
   the lexical is_path_valid: x is created, re-timed and re-moded in the parent of the destination *)
Example chain_unrepaired_escapes :
  extract_fs_unrepaired w_fs [w_jail] (Some (mkP 1 w_d)) w_chain 0 =
    Ret tt (mkSt [([w_jail; [120]], File [68]);
                  ([w_jail; w_dest; [109]], Link (mkP 0 [[46; 46]]));
                  ([w_jail; w_dest; [108]], Link (mkP 0 []));
                  ([w_jail], Dir); ([w_jail; w_dest], Dir); ([w_jail; w_out], Dir)]
                 [(KChmod, [w_jail; [120]]); (KUtime, [w_jail; [120]]); (KCreate, [w_jail; [120]]);
                  (KSymlink, [w_jail; w_dest; [109]]); (KSymlink, [w_jail; w_dest; [108]])]) /\
  effs_underb w_d (s_eff (final_state (extract_fs_unrepaired w_fs [w_jail] (Some (mkP 1 w_d)) w_chain 0))) = false /\
  effs_underb w_d (s_eff (final_state (extract_fs_unrepaired w_fs w_d None w_chain 0))) = false /\
  effs_underb w_d (s_eff (final_state (extract_fs_unrepaired w_fs [w_jail] (Some (mkP 1 w_d)) w_order 0))) = false.
Proof. repeat split; vm_compute; reflexivity. Qed.

(* the same archives with the checks: the two links are made, the member named through them is refused *)
Example chain_repaired_refused :
  extract_fs w_fs [w_jail] (Some (mkP 1 w_d)) w_chain 0 =
    Exc XBad7z (mkSt [([w_jail; w_dest; [109]], Link (mkP 0 [[46; 46]]));
                      ([w_jail; w_dest; [108]], Link (mkP 0 []));
                      ([w_jail], Dir); ([w_jail; w_dest], Dir); ([w_jail; w_out], Dir)]
                     [(KSymlink, [w_jail; w_dest; [109]]); (KSymlink, [w_jail; w_dest; [108]])]) /\
  s_eff (final_state (extract_fs w_fs w_d None w_chain 0)) =
    [(KSymlink, [w_jail; w_dest; [109]]); (KSymlink, [w_jail; w_dest; [108]])] /\
  extract_fs w_fs [w_jail] (Some (mkP 1 w_d)) w_order 0 =
    Exc XBad7z (mkSt [([w_jail; w_dest; [66]], Link (mkP 0 []));
                      ([w_jail; w_dest; [65]], Link (mkP 0 [[66]; [46; 46]]));
                      ([w_jail], Dir); ([w_jail; w_dest], Dir); ([w_jail; w_out], Dir)]
                     [(KSymlink, [w_jail; w_dest; [66]]); (KSymlink, [w_jail; w_dest; [65]])]).
Proof. repeat split; vm_compute; reflexivity. Qed.

(* the former witnesses of the destination None *)
Example none_absolute_name_refused : extract_fs w_fs w_d None w_absname 0 = Exc XBad7z (mkSt w_fs []).
Proof. vm_compute. reflexivity. Qed.

Example none_climb_confined :
  get_sanitized_output_path ([46; 46; 47; 122; 122; 47; 46; 46; 47] ++ w_dest ++ [47; 120]) w_d None = Some (mkP 0 [[120]]) /\
  s_eff (final_state (extract_fs w_fs w_d None w_climb 0)) =
    [(KChmod, [w_jail; w_dest; [120]]); (KUtime, [w_jail; w_dest; [120]]); (KCreate, [w_jail; w_dest; [120]])].
Proof. split; vm_compute; reflexivity. Qed.

(* the hypotheses of extract_confined_all are met by a populated destination reached through a link, holding links that
   lead out of it; an archive with files, a directory, duplicate names, a link member and a member named through it has
   19 effects there; members named through the old links that lead out are refused (the unrepaired code wrote /jail/out/x and
   truncated /jail/out/f) *)
Example all_hyps_satisfiable :
  wf y_fs /\ lookup y_fs [w_jail] = Some Dir /\ nodd [w_jail] /\ dest_rooted [w_jail] (Some y_dest) /\
  resolve y_fs [w_jail] true (dest_path [w_jail] (Some y_dest)) = RFound w_d Dir /\
  (exists s, extract_fs y_fs [w_jail] (Some y_dest) y_es 0 = Ret tt s /\ length (s_eff s) = 19%nat) /\
  extract_fs y_fs [w_jail] (Some y_dest) y_out 0 = Exc XBad7z (mkSt y_fs []) /\
  extract_fs y_fs [w_jail] (Some y_dest) y_outf 0 = Exc XBad7z (mkSt y_fs []) /\
  effs_underb w_d (s_eff (final_state (extract_fs_unrepaired y_fs [w_jail] (Some y_dest) y_out 0))) = false /\
  effs_underb w_d (s_eff (final_state (extract_fs_unrepaired y_fs [w_jail] (Some y_dest) y_outf 0))) = false.
Proof.
  split; [apply wfb_ok; reflexivity|]. split; [reflexivity|]. split; [apply noddb_ok; reflexivity|].
  split; [apply rooted_not_two; right; reflexivity|]. split; [reflexivity|].
  split; [eexists; split; vm_compute; reflexivity|]. repeat split; vm_compute; reflexivity.
Qed.

(* realpath and the kernel on a loop: the kernel gives up (ELOOP), realpath hands the text back *)
Example loop_example :
  let f := [([w_jail], Dir); ([w_jail; [115]], Link (mkP 0 [[115]]))] in
  resolve f [w_jail] true (mkP 0 [[115]; [120]]) = RErr XLoop /\
  py_realpath f [w_jail] (mkP 0 [[115]; [120]]) = Some [w_jail; [115]; [120]].
Proof. split; vm_compute; reflexivity. Qed.
(* the sanitiser with a destination: accepted names are lexically below it (whatever the destination) *)
Theorem sanitized_lexically_inside : forall nm cwd0 b o,
  get_sanitized_output_path nm cwd0 (Some b) = Some o ->
  proot o = proot (canonical_path b) /\ prefixb (pparts (canonical_path b)) (pparts o) = true.
Proof.
  intros nm cwd0 b o H. unfold get_sanitized_output_path in H.
  destruct (is_relative_to (canonical_path (pjoin b (remove_relative_path_marker (lstrip SLASH nm)))) b) eqn:E;
    [|discriminate].
  inversion H; subst o. unfold is_relative_to in E. apply andb_true_iff in E as [E1 E2].
  apply Z.eqb_eq in E1. auto.
Qed.

(* ... and for a canonical absolute destination they are absolute, free of "..", below it *)
Theorem sanitized_canonical_inside : forall nm cwd0 b o, proot b = 1 -> nodd (pparts b) ->
  get_sanitized_output_path nm cwd0 (Some b) = Some o ->
  proot o = 1 /\ nodd (pparts o) /\ prefixb (pparts b) (pparts o) = true.
Proof.
  intros nm cwd0 b o Hb Hn H. destruct (sanitize_ok nm cwd0 b o Hb Hn H) as [H1 [H2 H3]].
  split; [exact H1|]. split; [exact H2|]. apply prefixb_under. exact H3.
Qed.

(* without a destination the returned path is relative to the current directory and free of ".." *)
Theorem sanitized_none_inside : forall nm cwd0 o, nodd cwd0 ->
  get_sanitized_output_path nm cwd0 None = Some o -> proot o = 0 /\ nodd (pparts o).
Proof. exact sanitize_none_ok. Qed.
