(* FSProofs.v -- confinement of extraction on the filesystem model (property C03).

   Main result [extract_confined_general]: when the destination is an existing real directory given
   by a canonical path, every symbolic link already below it has a relative target without "..",
   and every symbolic-link member of the archive has such a target too, then every effect of
   extraction (created / truncated / removed / re-timed / re-moded path, resolved by the kernel
   model) lies below the destination -- whether extraction completes or raises -- and the same
   conditions hold again afterwards.  Archives without link members extracted into a directory
   without links are the special case [extract_confined_nolinks].  *)
From P7 Require Import Prelude FS ExtractFS.
Open Scope Z_scope.

(* ------------------------------------------------------------------ equality, prefixes *)
Lemma str_eqb_eq : forall a b, str_eqb a b = true <-> a = b.
Proof.
  induction a as [|x a IH]; intros [|y b]; simpl; split; intro H; try congruence; try reflexivity.
  - apply andb_true_iff in H as [H1 H2]. apply Z.eqb_eq in H1. apply IH in H2. congruence.
  - inversion H; subst. rewrite Z.eqb_refl. simpl. apply IH. reflexivity.
Qed.

Lemma str_eqb_refl : forall a, str_eqb a a = true.
Proof. intros; apply str_eqb_eq; reflexivity. Qed.

Lemma rpath_eqb_eq : forall a b, rpath_eqb a b = true <-> a = b.
Proof.
  induction a as [|x a IH]; intros [|y b]; simpl; split; intro H; try congruence; try reflexivity.
  - apply andb_true_iff in H as [H1 H2]. apply str_eqb_eq in H1. apply IH in H2. congruence.
  - inversion H; subst. rewrite str_eqb_refl. simpl. apply IH. reflexivity.
Qed.

Lemma rpath_eqb_refl : forall a, rpath_eqb a a = true.
Proof. intros; apply rpath_eqb_eq; reflexivity. Qed.

Lemma rpath_eqb_neq : forall a b, a <> b -> rpath_eqb a b = false.
Proof. intros a b H. destruct (rpath_eqb a b) eqn:E; auto. apply rpath_eqb_eq in E. contradiction. Qed.

(* p lies (inclusively) below d *)
Definition under (d p : rpath) : Prop := exists r, p = d ++ r.

Lemma prefixb_under : forall d p, prefixb d p = true <-> under d p.
Proof.
  induction d as [|x d IH]; intros p; simpl.
  - split; [intros _; exists p; reflexivity | reflexivity].
  - destruct p as [|y p].
    + split; [discriminate | intros [r Hr]; discriminate].
    + split.
      * intro H. apply andb_true_iff in H as [H1 H2]. apply str_eqb_eq in H1. apply IH in H2 as [r Hr].
        exists r. simpl. congruence.
      * intros [r Hr]. simpl in Hr. inversion Hr; subst. rewrite str_eqb_refl. simpl. apply IH. exists r; reflexivity.
Qed.

Lemma under_refl : forall d, under d d.
Proof. intro d; exists []; rewrite app_nil_r; reflexivity. Qed.

Lemma under_snoc : forall d p c, under d p -> under d (p ++ [c]).
Proof. intros d p c [r Hr]. exists (r ++ [c]). rewrite Hr, app_assoc. reflexivity. Qed.

Lemma under_app : forall d p l, under d p -> under d (p ++ l).
Proof. intros d p l [r Hr]. exists (r ++ l). rewrite Hr, app_assoc. reflexivity. Qed.

(* ------------------------------------------------------------------ no ".." *)
Definition nodd (l : list str) : Prop := Forall (fun c => is_dotdot c = false) l.
Definition safe_target (t : ppath) : Prop := proot t = 0 /\ nodd (pparts t).

Lemma nodd_app : forall a b, nodd (a ++ b) <-> nodd a /\ nodd b.
Proof. intros; apply Forall_app. Qed.

Lemma nodd_removelast : forall l, nodd l -> nodd (removelast l).
Proof.
  induction l as [|x l IH]; intro H; [constructor|].
  destruct l as [|y l]; [constructor|].
  change (removelast (x :: y :: l)) with (x :: removelast (y :: l)).
  inversion H as [|? ? H1 H2]; subst. constructor; [exact H1 | apply IH; exact H2].
Qed.

(* ------------------------------------------------------------------ lookup after updates *)
Lemma lookup_raw_remove : forall f p q, lookup_raw (fs_remove f p) q = if rpath_eqb p q then None else lookup_raw f q.
Proof.
  induction f as [|[a n] f IH]; intros p q; simpl.
  - destruct (rpath_eqb p q); reflexivity.
  - destruct (rpath_eqb a p) eqn:Eap; simpl.
    + apply rpath_eqb_eq in Eap; subst a. rewrite IH. destruct (rpath_eqb p q); reflexivity.
    + rewrite IH. destruct (rpath_eqb a q) eqn:Eaq.
      * apply rpath_eqb_eq in Eaq; subst a. destruct (rpath_eqb p q) eqn:Epq; [|reflexivity].
        apply rpath_eqb_eq in Epq; subst q. rewrite rpath_eqb_refl in Eap. discriminate.
      * reflexivity.
Qed.

Lemma lookup_raw_set : forall f p n q, lookup_raw (fs_set f p n) q = if rpath_eqb p q then Some n else lookup_raw f q.
Proof.
  intros. unfold fs_set. simpl. destruct (rpath_eqb p q) eqn:E; auto. rewrite lookup_raw_remove, E. reflexivity.
Qed.

Lemma lookup_set : forall f p n q, q <> [] ->
  lookup (fs_set f p n) q = if rpath_eqb p q then Some n else lookup f q.
Proof. intros f p n [|c q] H; [contradiction|]. unfold lookup. apply lookup_raw_set. Qed.

Lemma lookup_remove : forall f p q, q <> [] ->
  lookup (fs_remove f p) q = if rpath_eqb p q then None else lookup f q.
Proof. intros f p [|c q] H; [contradiction|]. unfold lookup. apply lookup_raw_remove. Qed.

(* ------------------------------------------------------------------ the invariant *)
Definition real_dir (f : fs) (d : rpath) : Prop := forall a b, d = a ++ b -> lookup f a = Some Dir.
Definition links_safe (f : fs) (d : rpath) : Prop :=
  forall q t, under d q -> lookup f q = Some (Link t) -> safe_target t.
Definition no_links_under (f : fs) (d : rpath) : Prop :=
  forall q t, under d q -> lookup f q <> Some (Link t).
Definition effs_under (d : rpath) (l : list effect) : Prop := Forall (fun e => prefixb d (snd e) = true) l.

Definition Inv (d : rpath) (s : st) : Prop :=
  real_dir (s_fs s) d /\ links_safe (s_fs s) d /\ effs_under d (s_eff s).

Lemma no_links_safe : forall f d, no_links_under f d -> links_safe f d.
Proof. intros f d H q t Hu Hl. exfalso. exact (H q t Hu Hl). Qed.

(* setting a node that is not a directory at the moment, or creating a missing one, keeps the chain
   of directories down to d; it keeps links safe when the new node is not an unsafe link *)
Lemma real_dir_set : forall f d q n,
  real_dir f d -> lookup f q <> Some Dir -> real_dir (fs_set f q n) d.
Proof.
  intros f d q n H Hq a b Hab. destruct a as [|c a]; [reflexivity|].
  rewrite lookup_set by discriminate. destruct (rpath_eqb q (c :: a)) eqn:E.
  - apply rpath_eqb_eq in E; subst q. exfalso. apply Hq. apply (H _ _ Hab).
  - apply (H _ _ Hab).
Qed.

Lemma real_dir_set_dir : forall f d q, real_dir f d -> real_dir (fs_set f q Dir) d.
Proof.
  intros f d q H a b Hab. destruct a as [|c a]; [reflexivity|].
  rewrite lookup_set by discriminate. destruct (rpath_eqb q (c :: a)); auto. apply (H _ _ Hab).
Qed.

Lemma real_dir_remove : forall f d q,
  real_dir f d -> lookup f q <> Some Dir -> real_dir (fs_remove f q) d.
Proof.
  intros f d q H Hq a b Hab. destruct a as [|c a]; [reflexivity|].
  rewrite lookup_remove by discriminate. destruct (rpath_eqb q (c :: a)) eqn:E.
  - apply rpath_eqb_eq in E; subst q. exfalso. apply Hq. apply (H _ _ Hab).
  - apply (H _ _ Hab).
Qed.

Lemma links_safe_set : forall f d q n,
  links_safe f d -> (forall t, n = Link t -> safe_target t) -> links_safe (fs_set f q n) d.
Proof.
  intros f d q n H Hn q' t Hu Hl. destruct q' as [|c q']; [discriminate|].
  rewrite lookup_set in Hl by discriminate. destruct (rpath_eqb q (c :: q')).
  - inversion Hl; subst. apply Hn; reflexivity.
  - apply (H _ _ Hu Hl).
Qed.

Lemma links_safe_remove : forall f d q, links_safe f d -> links_safe (fs_remove f q) d.
Proof.
  intros f d q H q' t Hu Hl. destruct q' as [|c q']; [discriminate|].
  rewrite lookup_remove in Hl by discriminate. destruct (rpath_eqb q (c :: q')); [discriminate|].
  apply (H _ _ Hu Hl).
Qed.

(* ------------------------------------------------------------------ the kernel walk stays below d *)
Section Walk.
Variables (f : fs) (d : rpath).
Hypothesis Hreal : real_dir f d.
Hypothesis Hsafe : links_safe f d.
Hypothesis Hd : nodd d.

Definition res_ok (r : rres) : Prop :=
  match r with
  | RFound q n => under d q /\ lookup f q = Some n
  | RMissing q => under d q /\ lookup f q = None
  | RErr _ => True
  end.

Lemma walk_inside : forall fuel follow links cur todo,
  nodd todo -> under d cur -> lookup f cur = Some Dir ->
  res_ok (walk fuel f follow links cur todo).
Proof.
  induction fuel as [|fuel IH]; intros follow links cur todo Hn Hu Hc; simpl; [exact I|].
  destruct todo as [|c rest]; [simpl; auto|].
  inversion Hn as [|? ? Hc0 Hrest]; subst. rewrite Hc0.
  assert (Hh : under d (cur ++ [c])) by (apply under_snoc; exact Hu).
  destruct (lookup f (cur ++ [c])) as [[| dd | t]|] eqn:L.
  - apply IH; auto.
  - destruct rest; simpl; auto.
  - assert (Hs : safe_target t) by (apply (Hsafe _ _ Hh L)). destruct Hs as [Hr Hp].
    assert (Habs : p_is_abs t = false) by (unfold p_is_abs; rewrite Hr; reflexivity).
    destruct rest as [|c2 rest]; destruct follow; simpl; auto;
      (destruct links as [|links]; [exact I|]; rewrite Habs; apply IH; auto; apply nodd_app; split; auto).
  - destruct rest; simpl; auto.
Qed.

Lemma walk_down : forall d2 fuel follow links cur r,
  d = cur ++ d2 -> nodd (d2 ++ r) ->
  res_ok (walk fuel f follow links cur (d2 ++ r)).
Proof.
  induction d2 as [|c d2 IH]; intros fuel follow links cur r Hdc Hn.
  - simpl. apply walk_inside; auto.
    + exists []. rewrite Hdc, !app_nil_r. reflexivity.
    + apply (Hreal cur []). exact Hdc.
  - destruct fuel as [|fuel]; [exact I|]. simpl.
    inversion Hn as [|? ? Hc0 Hrest]; subst. rewrite Hc0.
    assert (L : lookup f (cur ++ [c]) = Some Dir).
    { apply (Hreal (cur ++ [c]) d2). rewrite <- app_assoc. exact Hdc. }
    rewrite L. apply IH; auto. rewrite <- app_assoc. exact Hdc.
Qed.

Lemma walk_above : forall todo fuel follow links cur r,
  d = cur ++ todo ++ r ->
  walk fuel f follow links cur todo = RFound (cur ++ todo) Dir \/
  exists x, walk fuel f follow links cur todo = RErr x.
Proof.
  induction todo as [|c todo IH]; intros fuel follow links cur r Hdc.
  - destruct fuel; simpl; [right; eexists; reflexivity|]. left. rewrite app_nil_r. reflexivity.
  - destruct fuel as [|fuel]; simpl; [right; eexists; reflexivity|].
    assert (Hc0 : is_dotdot c = false).
    { unfold nodd in Hd. rewrite Hdc in Hd. apply Forall_app in Hd as [_ Hd]. inversion Hd; auto. }
    rewrite Hc0.
    assert (L : lookup f (cur ++ [c]) = Some Dir).
    { apply (Hreal (cur ++ [c]) (todo ++ r)). rewrite Hdc, <- app_assoc. reflexivity. }
    rewrite L.
    replace (cur ++ c :: todo) with ((cur ++ [c]) ++ todo) by (rewrite <- app_assoc; reflexivity).
    apply (IH fuel follow links (cur ++ [c]) r). rewrite Hdc, <- app_assoc. reflexivity.
Qed.

(* paths the extraction hands to system calls *)
Variable cwd : rpath.
Definition start (p : ppath) : rpath := if p_is_abs p then [] else cwd.

(* lexically at or below d: relative from a directory below d, or leading down through d *)
Definition good_in (p : ppath) : Prop :=
  nodd (pparts p) /\
  ((under d (start p) /\ lookup f (start p) = Some Dir) \/
   (exists d2 r, d = start p ++ d2 /\ pparts p = d2 ++ r)).
(* lexically at or above d *)
Definition good_above (p : ppath) : Prop := exists r, d = start p ++ pparts p ++ r.
Definition good (p : ppath) : Prop := good_in p \/ good_above p.

Lemma resolve_in : forall follow p, good_in p -> res_ok (resolve f cwd follow p).
Proof.
  intros follow p [Hn [[Hu Hl] | [d2 [r [Hd2 Hp]]]]]; unfold resolve; fold (start p).
  - apply walk_inside; auto.
  - rewrite Hp. apply walk_down; auto. rewrite <- Hp. exact Hn.
Qed.

Lemma resolve_above : forall follow p, good_above p ->
  resolve f cwd follow p = RFound (start p ++ pparts p) Dir \/ exists x, resolve f cwd follow p = RErr x.
Proof. intros follow p [r Hr]. unfold resolve; fold (start p). apply walk_above with (r := r). exact Hr. Qed.

End Walk.

(* good_in / good_above mention the filesystem only through "the start directory exists"; for the
   absolute paths and for cwd = d that is implied by real_dir, so goodness survives updates *)
Definition good_abs (d : rpath) (p : ppath) : Prop :=
  p_is_abs p = true /\ nodd (pparts p) /\ under d (pparts p).

Lemma good_abs_in : forall f d cwd p, good_abs d p -> good_in f d cwd p.
Proof.
  intros f d cwd p [Ha [Hn [r Hr]]]. split; auto. right. exists d, r. unfold start. rewrite Ha. simpl. auto.
Qed.

(* ------------------------------------------------------------------ Hoare triples over M *)
Definition hoare {A} (d : rpath) (m : M A) (Q : A -> Prop) : Prop :=
  forall s, Inv d s -> match m s with Ret a s' => Inv d s' /\ Q a | Exc _ s' => Inv d s' end.

Lemma hoare_ret : forall A d (a : A) (Q : A -> Prop), Q a -> hoare d (ret a) Q.
Proof. intros A d a Q H s Hs. simpl. auto. Qed.

Lemma hoare_raise : forall A d x (Q : A -> Prop), hoare d (raise x) Q.
Proof. intros A d x Q s Hs. simpl. auto. Qed.

Lemma hoare_bind : forall A B d (m : M A) (k : A -> M B) (Q : A -> Prop) (R : B -> Prop),
  hoare d m Q -> (forall a, Q a -> hoare d (k a) R) -> hoare d (mbind m k) R.
Proof.
  intros A B d m k Q R Hm Hk s Hs. unfold mbind. specialize (Hm s Hs).
  destruct (m s) as [a s'|x s']; auto. destruct Hm as [Hi Hq]. apply (Hk a Hq s' Hi).
Qed.

Lemma hoare_catch : forall A d (m : M A) (h : exn -> M A) (Q : A -> Prop),
  hoare d m Q -> (forall x, hoare d (h x) Q) -> hoare d (catch m h) Q.
Proof.
  intros A d m h Q Hm Hh s Hs. unfold catch. specialize (Hm s Hs).
  destruct (m s) as [a s'|x s']; auto. apply (Hh x s' Hm).
Qed.

Lemma hoare_weaken : forall A d (m : M A) (Q R : A -> Prop),
  hoare d m Q -> (forall a, Q a -> R a) -> hoare d m R.
Proof.
  intros A d m Q R Hm HQR s Hs. specialize (Hm s Hs). destruct (m s); auto. destruct Hm; auto.
Qed.

(* reading the filesystem changes nothing *)
Lemma hoare_res_of : forall d cwd follow p, hoare d (res_of cwd follow p) (fun _ => True).
Proof. intros d cwd follow p s Hs. simpl. auto. Qed.

Lemma hoare_query : forall d cwd p (g : rres -> bool),
  hoare d (let* r := res_of cwd true p in ret (g r)) (fun _ => True).
Proof. intros d cwd p g s Hs. simpl. auto. Qed.

Lemma hoare_exists : forall d cwd p, hoare d (path_exists cwd p) (fun _ => True).
Proof. intros d cwd p s Hs. simpl. auto. Qed.
Lemma hoare_is_dir : forall d cwd p, hoare d (path_is_dir cwd p) (fun _ => True).
Proof. intros d cwd p s Hs. simpl. auto. Qed.

(* ------------------------------------------------------------------ system calls *)
Section Sys.
Variables (d cwd : rpath).
Hypothesis Hd : nodd d.

(* goodness relative to the current state *)
Definition goodS (p : ppath) : Prop := forall s, Inv d s -> good (s_fs s) d cwd p.
Definition good_inS (p : ppath) : Prop := forall s, Inv d s -> good_in (s_fs s) d cwd p.

Ltac start_sys s Hs Hr Hl He :=
  intros s Hs; destruct Hs as [Hr [Hl He]]; unfold mbind, res_of; simpl.

Lemma add_eff : forall k q l, under d q -> effs_under d l -> effs_under d ((k, q) :: l).
Proof. intros k q l Hu Hl. constructor; auto. simpl. apply prefixb_under. exact Hu. Qed.

Ltac same_state := match goal with Hr : real_dir _ _, Hl : links_safe _ _, He : effs_under _ _ |- _ =>
  first [exact (conj Hr (conj Hl He)) | exact (conj (conj Hr (conj Hl He)) I)] end.

Lemma hoare_mkdir : forall p, goodS p -> hoare d (sys_mkdir cwd p) (fun _ => True).
Proof.
  intros p Hg s Hs. pose proof (Hg s Hs) as G. destruct Hs as [Hr [Hl He]].
  unfold sys_mkdir, mbind, res_of.
  destruct G as [G|G].
  - pose proof (resolve_in (s_fs s) d Hr Hl cwd false p G) as R.
    destruct (resolve (s_fs s) cwd false p) as [q n|q|x]; simpl; try same_state.
    destruct R as [Hu Hn]. split; [|exact I]. split; [|split]; simpl.
    + apply real_dir_set_dir; auto.
    + apply links_safe_set; auto. intros t Ht; discriminate.
    + apply add_eff; auto.
  - destruct (resolve_above (s_fs s) d Hr Hd cwd false p G) as [R|[x R]]; rewrite R; simpl; same_state.
Qed.

Lemma hoare_symlink : forall t p, safe_target t -> good_inS p -> hoare d (sys_symlink cwd t p) (fun _ => True).
Proof.
  intros t p Ht Hg s Hs. pose proof (Hg s Hs) as G. destruct Hs as [Hr [Hl He]].
  unfold sys_symlink, mbind, res_of.
  pose proof (resolve_in (s_fs s) d Hr Hl cwd false p G) as R.
  destruct (resolve (s_fs s) cwd false p) as [q n|q|x]; simpl; try same_state.
  destruct R as [Hu Hn]. split; [|exact I]. split; [|split]; simpl.
  - apply real_dir_set; auto. rewrite Hn. discriminate.
  - apply links_safe_set; auto. intros t' Ht'. inversion Ht'; subst; auto.
  - apply add_eff; auto.
Qed.

Lemma hoare_unlink : forall p, good_inS p -> hoare d (sys_unlink cwd p) (fun _ => True).
Proof.
  intros p Hg s Hs. pose proof (Hg s Hs) as G. destruct Hs as [Hr [Hl He]].
  unfold sys_unlink, mbind, res_of.
  pose proof (resolve_in (s_fs s) d Hr Hl cwd false p G) as R.
  destruct (resolve (s_fs s) cwd false p) as [q n|q|x]; simpl; try same_state.
  destruct R as [Hu Hn].
  destruct n as [|c|t]; simpl; try same_state;
    (split; [|exact I]; split; [|split]; simpl;
     [apply real_dir_remove; auto; rewrite Hn; discriminate
     |apply links_safe_remove; auto
     |apply add_eff; auto]).
Qed.

Lemma hoare_open_wb : forall p data, good_inS p -> hoare d (sys_open_wb cwd p data) (fun _ => True).
Proof.
  intros p data Hg s Hs. pose proof (Hg s Hs) as G. destruct Hs as [Hr [Hl He]].
  unfold sys_open_wb, mbind, res_of.
  pose proof (resolve_in (s_fs s) d Hr Hl cwd true p G) as R.
  destruct (resolve (s_fs s) cwd true p) as [q n|q|x]; simpl; try same_state.
  - destruct R as [Hu Hn].
    destruct n as [|c|t]; simpl; try same_state;
      (split; [|exact I]; split; [|split]; simpl;
       [apply real_dir_set; auto; rewrite Hn; discriminate
       |apply links_safe_set; auto; intros t' Ht'; discriminate
       |apply add_eff; auto]).
  - destruct R as [Hu Hn]. split; [|exact I]. split; [|split]; simpl.
    + apply real_dir_set; auto. rewrite Hn; discriminate.
    + apply links_safe_set; auto. intros t' Ht'; discriminate.
    + apply add_eff; auto.
Qed.

Lemma hoare_open_creat : forall p, good_inS p -> hoare d (sys_open_creat cwd p) (fun _ => True).
Proof.
  intros p Hg s Hs. pose proof (Hg s Hs) as G. destruct Hs as [Hr [Hl He]].
  unfold sys_open_creat, mbind, res_of.
  pose proof (resolve_in (s_fs s) d Hr Hl cwd true p G) as R.
  destruct (resolve (s_fs s) cwd true p) as [q n|q|x]; simpl; try same_state.
  - destruct n; simpl; same_state.
  - destruct R as [Hu Hn]. split; [|exact I]. split; [|split]; simpl.
    + apply real_dir_set; auto. rewrite Hn; discriminate.
    + apply links_safe_set; auto. intros t' Ht'; discriminate.
    + apply add_eff; auto.
Qed.

Lemma hoare_touch_meta : forall k p, good_inS p -> hoare d (sys_touch_meta cwd k p) (fun _ => True).
Proof.
  intros k p Hg s Hs. pose proof (Hg s Hs) as G. destruct Hs as [Hr [Hl He]].
  unfold sys_touch_meta, mbind, res_of.
  pose proof (resolve_in (s_fs s) d Hr Hl cwd true p G) as R.
  destruct (resolve (s_fs s) cwd true p) as [q n|q|x]; simpl; try same_state.
  destruct R as [Hu Hn]. split; [|exact I]. split; [|split]; simpl; auto. apply add_eff; auto.
Qed.

Lemma hoare_touch : forall p, good_inS p -> hoare d (path_touch cwd p) (fun _ => True).
Proof.
  intros p Hg. unfold path_touch. apply hoare_catch.
  - apply hoare_touch_meta; auto.
  - intros x. apply hoare_open_creat; auto.
Qed.

End Sys.

(* ------------------------------------------------------------------ the paths extraction uses *)
Section Paths.
Variables (d cwd : rpath).
Hypothesis Hd : nodd d.

(* state-independent: a path without ".." that is relative while cwd = d, or leads down through d *)
Definition okp (p : ppath) : Prop :=
  nodd (pparts p) /\
  ((p_is_abs p = false /\ cwd = d) \/ (exists d2 r, d = start cwd p ++ d2 /\ pparts p = d2 ++ r)).
Definition okg (p : ppath) : Prop := okp p \/ good_above d cwd p.

Lemma okp_good_in : forall p, okp p -> good_inS d cwd p.
Proof.
  intros p [Hn [[Ha Hc] | Hdown]] s [Hr [Hl He]]; split; auto.
  left. unfold start. rewrite Ha. subst cwd. split; [apply under_refl|]. apply (Hr d []). rewrite app_nil_r; reflexivity.
Qed.

Lemma okg_good : forall p, okg p -> goodS d cwd p.
Proof.
  intros p [H|H] s Hs; [left; apply (okp_good_in p H s Hs) | right; exact H].
Qed.

Lemma start_parent : forall p, start cwd (pparent p) = start cwd p.
Proof. intros; reflexivity. Qed.

Lemma split_last : forall (l : list str), l <> [] -> l = removelast l ++ [last l []].
Proof. intros l H. apply app_removelast_last. exact H. Qed.

Lemma okg_parent : forall p, okg p -> okg (pparent p).
Proof.
  intros p [[Hn [[Ha Hc] | [d2 [r [Hd2 Hp]]]]] | H].
  - left. split; [apply nodd_removelast; exact Hn|]. left. split; auto.
  - destruct r as [|c r].
    + right. unfold good_above. rewrite start_parent. simpl. rewrite app_nil_r in Hp. rewrite Hp.
      destruct d2 as [|c d2].
      * exists []. simpl. exact Hd2.
      * exists [last (c :: d2) []]. rewrite <- split_last by discriminate. exact Hd2.
    + left. split; [apply nodd_removelast; exact Hn|]. right. exists d2, (removelast (c :: r)).
      rewrite start_parent. split; auto. simpl pparts. rewrite Hp. apply removelast_app. discriminate.
  - right. destruct H as [r Hr]. unfold good_above. rewrite start_parent. simpl pparts.
    destruct (pparts p) as [|c l] eqn:E; [exists r; exact Hr|].
    exists (last (c :: l) [] :: r).
    change (last (c :: l) [] :: r) with ([last (c :: l) []] ++ r).
    rewrite (app_assoc (removelast (c :: l))). rewrite <- split_last by discriminate. exact Hr.
Qed.

Lemma hoare_path_mkdir : forall fuel p pa eo, okg p -> hoare d (path_mkdir cwd fuel p pa eo) (fun _ => True).
Proof.
  induction fuel as [|fuel IH]; intros p pa eo Hg.
  - simpl. apply hoare_catch; [apply hoare_mkdir; auto; apply okg_good; exact Hg|].
    intros x. destruct x; try (destruct (negb eo); [apply hoare_raise|];
      eapply hoare_bind; [apply hoare_is_dir | intros b _; destruct b; [apply hoare_ret; exact I | apply hoare_raise]]).
    destruct (negb pa || p_eqb (pparent p) p); apply hoare_raise.
  - simpl. apply hoare_catch; [apply hoare_mkdir; auto; apply okg_good; exact Hg|].
    intros x. destruct x; try (destruct (negb eo); [apply hoare_raise|];
      eapply hoare_bind; [apply hoare_is_dir | intros b _; destruct b; [apply hoare_ret; exact I | apply hoare_raise]]).
    destruct (negb pa || p_eqb (pparent p) p); [apply hoare_raise|].
    eapply hoare_bind; [apply IH; apply okg_parent; exact Hg | intros _ _; apply IH; exact Hg].
Qed.

End Paths.

(* ------------------------------------------------------------------ canonical_path and the sanitiser *)
Definition alldd (l : list str) : Prop := Forall (fun c => is_dotdot c = true) l.

Lemma canon_shape : forall ps stack,
  (exists rest dds, stack = rest ++ dds /\ nodd rest /\ alldd dds) ->
  exists dds rest, canon_go stack ps = dds ++ rest /\ alldd dds /\ nodd rest.
Proof.
  induction ps as [|p ps IH]; intros stack [rest [dds [Hs [Hr Hdd]]]].
  - simpl. exists (rev dds), (rev rest). subst stack. rewrite rev_app_distr. repeat split.
    + apply Forall_rev. exact Hdd.
    + apply Forall_rev. exact Hr.
  - simpl. destruct stack as [|top st].
    + apply IH. destruct (is_dotdot p) eqn:Ep.
      * exists [], [p]. repeat split; [constructor | constructor; [exact Ep | constructor]].
      * exists [p], []. repeat split; [constructor; [exact Ep | constructor] | constructor].
    + destruct (is_dotdot p) eqn:Ep; simpl.
      * destruct (is_dotdot top) eqn:Et.
        -- apply IH. destruct rest as [|x rest].
           ++ simpl in Hs. exists [], (p :: dds). repeat split; [rewrite Hs; reflexivity | constructor | constructor; auto].
           ++ simpl in Hs. inversion Hs; subst. inversion Hr; subst. congruence.
        -- destruct (str_eqb top [SLASH]).
           ++ apply IH. exists rest, dds. auto.
           ++ apply IH. destruct rest as [|x rest].
              ** simpl in Hs. subst dds. inversion Hdd; subst. congruence.
              ** simpl in Hs. inversion Hs; subst. inversion Hr; subst. exists rest, dds. auto.
      * apply IH. exists (p :: rest), dds. repeat split; [rewrite Hs; reflexivity | constructor; auto | exact Hdd].
Qed.

Lemma canon_root1 : forall X, proot (canonical_path X) = 1 -> nodd (pparts (canonical_path X)).
Proof.
  intros X. unfold canonical_path.
  destruct (canon_shape (items X) []) as [dds [rest [Hc [Hdd Hr]]]].
  { exists [], []. repeat split; constructor. }
  rewrite Hc. destruct dds as [|x dds].
  - simpl. destruct rest as [|y rest]; simpl; [discriminate|].
    inversion Hr; subst.
    destruct (str_eqb y [SLASH]); simpl; [auto|]. destruct (str_eqb y [SLASH; SLASH]); simpl; discriminate.
  - inversion Hdd as [|? ? Hx]; subst. unfold is_dotdot in Hx. apply str_eqb_eq in Hx. subst x. simpl. discriminate.
Qed.

Lemma canon_push : forall ps top st, nodd ps -> canon_go (top :: st) ps = rev (top :: st) ++ ps.
Proof.
  induction ps as [|p ps IH]; intros top st Hn.
  - simpl. rewrite app_nil_r. reflexivity.
  - inversion Hn as [|? ? Hp Hps]; subst. simpl canon_go. rewrite Hp. simpl negb. cbv iota.
    rewrite IH by exact Hps. simpl. rewrite <- !app_assoc. reflexivity.
Qed.

Lemma canon_id : forall parts, nodd parts -> canonical_path (mkP 1 parts) = mkP 1 parts.
Proof.
  intros parts Hn. unfold canonical_path, items, root_item. simpl.
  rewrite canon_push by exact Hn. reflexivity.
Qed.

(* every name the sanitiser accepts for a canonical absolute destination lies lexically below it *)
Lemma sanitize_ok : forall nm cwd0 b o, proot b = 1 -> nodd (pparts b) ->
  get_sanitized_output_path nm cwd0 (Some b) = Some o ->
  proot o = 1 /\ nodd (pparts o) /\ under (pparts b) (pparts o).
Proof.
  intros nm cwd0 b o Hb Hn H. unfold get_sanitized_output_path in H.
  destruct (is_relative_to (canonical_path (pjoin b (remove_relative_path_marker (lstrip SLASH nm)))) b) eqn:E;
    [|discriminate].
  inversion H; subst o; clear H. unfold is_relative_to in E.
  assert (Hcb : canonical_path b = b) by (destruct b as [r ps]; simpl in *; subst r; apply canon_id; exact Hn).
  rewrite Hcb, Hb in E. apply andb_true_iff in E as [E1 E2]. apply Z.eqb_eq in E1.
  split; [exact E1|]. split; [apply canon_root1; exact E1 | apply prefixb_under; exact E2].
Qed.

(* without a destination: the returned path is relative to the current directory and free of ".." *)
Lemma sanitize_none_ok : forall nm cwd0 o, nodd cwd0 ->
  get_sanitized_output_path nm cwd0 None = Some o -> proot o = 0 /\ nodd (pparts o).
Proof.
  intros nm cwd0 o Hn H. unfold get_sanitized_output_path in H.
  rewrite (canon_id cwd0 Hn) in H.
  set (t := canonical_path (pjoin (mkP 1 cwd0) (remove_relative_path_marker (lstrip SLASH nm)))) in *.
  destruct (is_relative_to t (mkP 1 cwd0)) eqn:E; [|discriminate].
  inversion H; subst o; clear H. unfold is_relative_to in E. rewrite (canon_id cwd0 Hn) in E. simpl in E.
  apply andb_true_iff in E as [E1 E2]. apply Z.eqb_eq in E1. apply prefixb_under in E2 as [r Hr].
  split; [reflexivity|]. unfold relative_to. simpl. rewrite Hr.
  rewrite skipn_app, skipn_all, Nat.sub_diag. simpl.
  pose proof (canon_root1 _ E1) as Hp. fold t in Hp. rewrite Hr in Hp. apply nodd_app in Hp. apply Hp.
Qed.

(* ------------------------------------------------------------------ the extraction program *)
(* a symbolic-link member whose target text is relative and has no ".." (members that are not links,
   or links with an empty stream -- extracted as empty files -- are unconstrained) *)
Definition entry_ok (e : entry) : Prop :=
  e_kind e = 2 -> e_empty e = false -> safe_target (pparse (e_data e)).

(* the names members are written under (duplicates renamed), as the registration loop computes them *)
Fixpoint outnames (es : list entry) (names : list (str * Z)) : list str :=
  match es with
  | [] => []
  | e :: es' => let '(nm, names') := outname names (e_name e) in nm :: outnames es' names'
  end.

Opaque path_mkdir path_touch sys_touch_meta sys_open_wb sys_symlink sys_unlink path_exists path_is_dir.

Section Program.
Variables (d cwd : rpath) (dest : option ppath).
Hypothesis Hd : nodd d.
Variable N : str -> Prop.
Hypothesis Hsan : forall nm o, N nm ->
  get_sanitized_output_path nm cwd (sanitize_base cwd dest) = Some o -> okp d cwd o.

Definition regok (r : reg) : Prop :=
  Forall (fun eo => entry_ok (fst eo) /\ match snd eo with Some o => okp d cwd o | None => True end) (r_out r) /\
  Forall (fun oe => okp d cwd (fst oe)) (r_files r) /\
  Forall (okp d cwd) (r_dirs r).

Lemma hoare_register : forall es names r,
  Forall N (outnames es names) -> Forall entry_ok es -> regok r ->
  hoare d (register cwd dest es names r) regok.
Proof.
  induction es as [|e es IH]; intros names r HN He Hr.
  - simpl. apply hoare_ret. exact Hr.
  - simpl in HN. simpl register. destruct (outname names (e_name e)) as [nm names'] eqn:Eo.
    inversion HN as [|? ? HN1 HN2]; subst. inversion He as [|? ? He1 He2]; subst.
    destruct (get_sanitized_output_path nm cwd (sanitize_base cwd dest)) as [o|] eqn:Es; [|apply hoare_raise].
    pose proof (Hsan nm o HN1 Es) as Ho. destruct Hr as [R1 [R2 R3]].
    assert (FA : forall A (P : A -> Prop) x l, P x -> Forall P l -> Forall P (x :: l)) by (intros; constructor; auto).
    assert (O1 : forall oo, match oo with Some o0 => okp d cwd o0 | None => True end ->
                 Forall (fun eo : entry * option ppath => entry_ok (fst eo) /\
                           match snd eo with Some o0 => okp d cwd o0 | None => True end) ((e, oo) :: r_out r))
      by (intros oo Hoo; constructor; [split; simpl; auto | exact R1]).
    destruct (e_kind e =? 1).
    + eapply hoare_bind; [apply hoare_exists|]. intros ex _. destruct ex.
      * apply IH; auto. split; [|split]; simpl; auto; try (apply (O1 None); exact I).
      * apply IH; auto. split; [|split]; simpl; auto; try (apply (O1 None); exact I).
    + destruct (e_kind e =? 2).
      * apply IH; auto. split; [|split]; simpl; auto; try (apply (O1 (Some o)); exact Ho).
      * apply IH; auto. split; [|split]; simpl; auto; try (apply (O1 (Some o)); exact Ho).
Qed.

Lemma hoare_make_dirs : forall ds, Forall (okp d cwd) ds -> hoare d (make_dirs cwd ds) (fun _ => True).
Proof.
  induction ds as [|p ds IH]; intros H; simpl.
  - apply hoare_ret. exact I.
  - inversion H; subst. eapply hoare_bind; [|intros _ _; apply IH; auto].
    apply hoare_catch; [apply hoare_path_mkdir; auto; left; auto|].
    intros x. destruct x; try apply hoare_raise.
    eapply hoare_bind; [apply hoare_is_dir|]. intros b _. destruct b; [apply hoare_ret; exact I | apply hoare_raise].
Qed.

Lemma hoare_extract_one : forall eo,
  entry_ok (fst eo) -> match snd eo with Some o => okp d cwd o | None => True end ->
  hoare d (extract_one cwd dest eo) (fun _ => True).
Proof.
  intros [e [o|]] He Ho; simpl in *; [|apply hoare_ret; exact I].
  eapply hoare_bind.
  { apply hoare_path_mkdir; auto. apply okg_parent. left. exact Ho. }
  intros _ _. destruct (e_empty e) eqn:Ee.
  - apply hoare_touch; auto. apply okp_good_in; auto.
  - destruct (e_kind e =? 2) eqn:Ek.
    + destruct (is_path_valid (pjoin (pparent o) (e_data e)) cwd dest); [|apply hoare_raise].
      eapply hoare_bind; [apply hoare_exists|]. intros ex _.
      eapply hoare_bind.
      { instantiate (1 := fun _ => True). destruct ex; [apply hoare_unlink; auto; apply okp_good_in; auto | apply hoare_ret; exact I]. }
      intros _ _. apply hoare_symlink; auto.
      * apply He; auto. apply Z.eqb_eq. exact Ek.
      * apply okp_good_in; auto.
    + apply hoare_open_wb; auto. apply okp_good_in; auto.
Qed.

Lemma hoare_extract_each : forall l,
  Forall (fun eo => entry_ok (fst eo) /\ match snd eo with Some o => okp d cwd o | None => True end) l ->
  hoare d (extract_each cwd dest l) (fun _ => True).
Proof.
  induction l as [|eo l IH]; intros H; simpl.
  - apply hoare_ret. exact I.
  - inversion H as [|? ? [H1 H2] H3]; subst.
    eapply hoare_bind; [apply hoare_extract_one; auto | intros _ _; apply IH; auto].
Qed.

Lemma hoare_post_pass : forall l, Forall (fun oe => okp d cwd (fst oe)) l -> hoare d (post_pass cwd l) (fun _ => True).
Proof.
  induction l as [|[o e] l IH]; intros H; simpl.
  - apply hoare_ret. exact I.
  - inversion H as [|? ? H1 H2]; subst. simpl in H1.
    eapply hoare_bind.
    { instantiate (1 := fun _ => True). destruct (e_mtime e =? 1); [|apply hoare_ret; exact I].
      apply hoare_touch_meta; auto. apply okp_good_in; auto. }
    intros _ _. eapply hoare_bind.
    { instantiate (1 := fun _ => True). destruct (e_chmod e); [|apply hoare_ret; exact I].
      apply hoare_touch_meta; auto. apply okp_good_in; auto. }
    intros _ _. apply IH; auto.
Qed.

Lemma forall_insert : forall (P : ppath -> Prop) x l, P x -> Forall P l -> Forall P (insert_sorted x l).
Proof.
  induction l as [|y l IH]; intros Hx Hl; simpl; [constructor; auto|].
  destruct (p_ltb x y); [constructor; auto|]. inversion Hl; subst. constructor; auto.
Qed.

Lemma forall_sort : forall (P : ppath -> Prop) l, Forall P l -> Forall P (sort_paths l).
Proof.
  intros P l H. unfold sort_paths.
  assert (G : forall l acc, Forall P l -> Forall P acc -> Forall P (fold_left (fun acc x => insert_sorted x acc) l acc)).
  { induction l0 as [|x l0 IH]; intros acc Hl Ha; simpl; auto.
    inversion Hl; subst. apply IH; auto. apply forall_insert; auto. }
  apply G; auto.
Qed.

Lemma forall_filter : forall A (P : A -> Prop) g l, Forall P l -> Forall P (filter g l).
Proof.
  induction l as [|x l IH]; intros H; simpl; auto. inversion H; subst. destruct (g x); auto.
Qed.

Lemma forall_order : forall (P : entry * option ppath -> Prop) mode l, Forall P l -> Forall P (worker_order mode l).
Proof.
  intros P mode l H. unfold worker_order. destruct (mode =? 0); auto.
  apply Forall_app. split; apply forall_filter; auto.
Qed.

Hypothesis Hdest : match dest with Some p0 => okp d cwd p0 | None => True end.

Lemma hoare_prepare : hoare d (prepare_dest cwd dest) (fun _ => True).
Proof.
  unfold prepare_dest. destruct dest as [p0|]; [|apply hoare_ret; exact I].
  eapply hoare_bind; [apply hoare_exists|]. intros ex _. destruct ex; [apply hoare_ret; exact I|].
  apply hoare_catch; [apply hoare_path_mkdir; auto; left; auto|].
  intros x. destruct x; try apply hoare_raise.
  eapply hoare_bind; [apply hoare_is_dir|]. intros b _. destruct b; [apply hoare_ret; exact I | apply hoare_raise].
Qed.

Lemma hoare_extract : forall es mode,
  Forall N (outnames es []) -> Forall entry_ok es ->
  hoare d (extract cwd dest es mode) (fun _ => True).
Proof.
  intros es mode HN He. unfold extract.
  eapply hoare_bind; [apply hoare_prepare|]. intros _ _.
  eapply hoare_bind.
  { apply hoare_register; auto. split; [|split]; constructor. }
  intros r [R1 [R2 R3]].
  eapply hoare_bind; [apply hoare_make_dirs; apply forall_sort; apply Forall_rev; exact R3|]. intros _ _.
  eapply hoare_bind; [apply hoare_extract_each; apply forall_order; apply Forall_rev; exact R1|]. intros _ _.
  apply hoare_post_pass. apply Forall_rev. exact R2.
Qed.

End Program.

(* ------------------------------------------------------------------ the theorems *)
Definition final_state {A} (o : out A) : st := match o with Ret _ s => s | Exc _ s => s end.

(* the destination as given (absolute canonical path / path relative to cwd / None = cwd) and the real
   directory d it denotes *)
Definition dest_ok (cwd : rpath) (dest : option ppath) (d : rpath) : Prop :=
  match dest with
  | Some p0 => (proot p0 = 1 /\ d = pparts p0) \/ (proot p0 = 0 /\ d = cwd ++ pparts p0)
  | None => d = cwd
  end.

Theorem extract_confined_general : forall f cwd dest es mode d,
  dest_ok cwd dest d -> nodd d -> real_dir f d -> links_safe f d ->
  Forall entry_ok es ->
  Inv d (final_state (extract_fs f cwd dest es mode)).
Proof.
  intros f cwd dest es mode d Hdest Hd Hr Hl He.
  assert (H : hoare d (extract cwd dest es mode) (fun _ => True)).
  { apply hoare_extract with (N := fun _ => True); auto.
    - (* the sanitiser *)
      intros nm o HN Hs. destruct dest as [p0|]; unfold sanitize_base in Hs; simpl in Hdest.
      + assert (Hb : exists b, (if p_is_abs p0 then p0 else pjoinp (mkP 1 cwd) p0) = b /\ proot b = 1 /\ pparts b = d).
        { destruct Hdest as [[H1 H2]|[H1 H2]]; unfold p_is_abs, pjoinp; rewrite H1; simpl.
          - exists p0. auto.
          - unfold p_is_abs. rewrite H1. simpl. eexists; split; [reflexivity|]. simpl. auto. }
        destruct Hb as [b [Eb [Hb1 Hb2]]]. rewrite Eb in Hs.
        assert (Hbn : nodd (pparts b)) by (rewrite Hb2; exact Hd).
        destruct (sanitize_ok nm cwd b o Hb1 Hbn Hs) as [Ho1 [Ho2 [r Ho3]]]. split; [exact Ho2|]. right.
        exists d, r. unfold start, p_is_abs. rewrite Ho1. simpl. rewrite <- Hb2. auto.
      + simpl in Hdest. subst d. destruct (sanitize_none_ok nm cwd o Hd Hs) as [N1 N2].
        split; [exact N2|]. left. unfold p_is_abs. rewrite N1. auto.
    - (* the destination itself *)
      destruct dest as [p0|]; [|exact I]. simpl in Hdest. destruct Hdest as [[H1 H2]|[H1 H2]].
      + split; [rewrite <- H2; exact Hd|]. right. exists d, []. unfold start, p_is_abs. rewrite H1. simpl.
        rewrite app_nil_r. auto.
      + split; [rewrite H2 in Hd; apply nodd_app in Hd; apply Hd|]. right. exists (pparts p0), [].
        unfold start, p_is_abs. rewrite H1. simpl. rewrite app_nil_r. auto.
    - clear. induction (outnames es []); constructor; auto. }
  specialize (H (mkSt f [])). unfold extract_fs.
  assert (I0 : Inv d (mkSt f [])) by (split; [|split]; simpl; auto; constructor).
  specialize (H I0). destruct (extract cwd dest es mode (mkSt f [])); simpl; [apply H | exact H].
Qed.

(* the statement asked for: no symbolic-link member, no link below the destination *)
Theorem extract_confined_nolinks : forall f cwd p0 es mode d,
  dest_ok cwd (Some p0) d -> nodd d -> real_dir f d -> no_links_under f d ->
  Forall (fun e => e_kind e <> 2) es ->
  effs_under d (s_eff (final_state (extract_fs f cwd (Some p0) es mode))).
Proof.
  intros f cwd p0 es mode d Hdest Hd Hr Hl He.
  apply (extract_confined_general f cwd (Some p0) es mode d); auto.
  - apply no_links_safe; exact Hl.
  - clear -He. induction He; constructor; auto. intros Hk. contradiction.
Qed.

(* booleans for concrete states *)
Definition effs_underb (d : rpath) (l : list effect) : bool := forallb (fun e => prefixb d (snd e)) l.
Lemma effs_underb_iff : forall d l, effs_underb d l = true <-> effs_under d l.
Proof. intros. unfold effs_underb, effs_under. rewrite forallb_forall, Forall_forall. reflexivity. Qed.

Definition noddb (l : list str) : bool := forallb (fun c => negb (is_dotdot c)) l.
Lemma noddb_ok : forall l, noddb l = true -> nodd l.
Proof.
  intros l H. unfold noddb in H. rewrite forallb_forall in H. apply Forall_forall. intros c Hc.
  apply H in Hc. destruct (is_dotdot c); [discriminate|reflexivity].
Qed.

Lemma lookup_raw_in : forall f q n, lookup_raw f q = Some n -> In (q, n) f.
Proof.
  induction f as [|[a m] f IH]; intros q n H; simpl in H; [discriminate|].
  destruct (rpath_eqb a q) eqn:E; [apply rpath_eqb_eq in E; inversion H; subst; left; reflexivity|].
  right. apply IH. exact H.
Qed.
Definition links_safeb (f : fs) (d : rpath) : bool :=
  forallb (fun qn => match snd qn with
                     | Link t => negb (prefixb d (fst qn)) || ((proot t =? 0) && noddb (pparts t))
                     | _ => true end) f.
Lemma links_safeb_ok : forall f d, links_safeb f d = true -> links_safe f d.
Proof.
  intros f d H q t Hu Hl. destruct q as [|c q]; [discriminate|]. unfold lookup in Hl.
  apply lookup_raw_in in Hl. unfold links_safeb in H. rewrite forallb_forall in H.
  apply H in Hl. simpl in Hl. apply prefixb_under in Hu. rewrite Hu in Hl. simpl in Hl.
  apply andb_true_iff in Hl as [H1 H2]. split; [apply Z.eqb_eq; exact H1 | apply noddb_ok; exact H2].
Qed.
Definition nolinksb (f : fs) (d : rpath) : bool :=
  forallb (fun qn => match snd qn with Link _ => negb (prefixb d (fst qn)) | _ => true end) f.
Lemma nolinksb_ok : forall f d, nolinksb f d = true -> no_links_under f d.
Proof.
  intros f d H q t Hu Hl. destruct q as [|c q]; [discriminate|]. unfold lookup in Hl.
  apply lookup_raw_in in Hl. unfold nolinksb in H. rewrite forallb_forall in H.
  apply H in Hl. simpl in Hl. apply prefixb_under in Hu. rewrite Hu in Hl. discriminate.
Qed.

Definition real_dirb (f : fs) (d : rpath) : bool :=
  forallb (fun k => match lookup f (firstn k d) with Some Dir => true | _ => false end) (seq 0 (S (length d))).
Lemma real_dirb_ok : forall f d, real_dirb f d = true -> real_dir f d.
Proof.
  intros f d H a b Hab. unfold real_dirb in H. rewrite forallb_forall in H.
  assert (Hin : In (length a) (seq 0 (S (length d)))).
  { apply in_seq. subst d. rewrite app_length. simpl. split; [apply Nat.le_0_l|]. apply Nat.lt_succ_r. apply Nat.le_add_r. }
  apply H in Hin. subst d. rewrite firstn_app, Nat.sub_diag, firstn_all in Hin. simpl in Hin. rewrite app_nil_r in Hin.
  destruct (lookup f a) as [[| |]|]; try discriminate. reflexivity.
Qed.

(* ---- the full statement is false of the faithful model: the checks are lexical, the kernel follows links *)
Definition extract_confined_statement : Prop :=
  forall f cwd dest es mode d,
    dest_ok cwd dest d -> nodd d -> real_dir f d -> no_links_under f d ->
    effs_under d (s_eff (final_state (extract_fs f cwd dest es mode))).

Definition w_jail : str := [106; 97; 105; 108].
Definition w_dest : str := [100; 101; 115; 116].
Definition w_out : str := [111; 117; 116].
Definition w_fs : fs := [([w_jail], Dir); ([w_jail; w_dest], Dir); ([w_jail; w_out], Dir)].
Definition w_d : rpath := [w_jail; w_dest].
Definition w_file (name : str) : entry := mkE name 0 [68] false 1 true.
Definition w_link (name target : str) : entry := mkE name 2 target false 1 true.
(* link "l" -> ".", link "l/m" -> "..", file "l/m/x" *)
Definition w_chain : list entry :=
  [w_link [108] [46]; w_link [108; 47; 109] [46; 46]; w_file [108; 47; 109; 47; 120]].
(* file ".//jail/out/x", destination None *)
Definition w_absname : list entry := [w_file ([46; 47; 47] ++ w_jail ++ [47] ++ w_out ++ [47; 120])].
(* file "../zz/../dest/x", destination None *)
Definition w_climb : list entry := [w_file ([46; 46; 47; 122; 122; 47; 46; 46; 47] ++ w_dest ++ [47; 120])].

Lemma w_hyps : nodd w_d /\ real_dir w_fs w_d /\ no_links_under w_fs w_d.
Proof.
  split; [apply noddb_ok; reflexivity|]. split; [apply real_dirb_ok; reflexivity | apply nolinksb_ok; reflexivity].
Qed.

(* destination given as an absolute path: two links that each pass is_path_valid, then a file through them *)
Theorem extract_confined_chain_refuted :
  dest_ok [w_jail] (Some (mkP 1 w_d)) w_d /\ nodd w_d /\ real_dir w_fs w_d /\ no_links_under w_fs w_d /\
  extract_fs w_fs [w_jail] (Some (mkP 1 w_d)) w_chain 0 =
    Ret tt (mkSt [([w_jail; [120]], File [68]);
                  ([w_jail; w_dest; [109]], Link (mkP 0 [[46; 46]]));
                  ([w_jail; w_dest; [108]], Link (mkP 0 []));
                  ([w_jail], Dir); ([w_jail; w_dest], Dir); ([w_jail; w_out], Dir)]
                 [(KChmod, [w_jail; [120]]); (KUtime, [w_jail; [120]]); (KCreate, [w_jail; [120]]);
                  (KSymlink, [w_jail; w_dest; [109]]); (KSymlink, [w_jail; w_dest; [108]])]) /\
  ~ effs_under w_d (s_eff (final_state (extract_fs w_fs [w_jail] (Some (mkP 1 w_d)) w_chain 0))).
Proof.
  destruct w_hyps as [H1 [H2 H3]]. repeat split; auto.
  - left. split; reflexivity.
  - intro H. apply effs_underb_iff in H. vm_compute in H. discriminate.
Qed.

(* destination None (the current directory): no hypothesis on the names is needed any more -- the sanitiser
   returns the checked path, relative and free of ".." *)
Theorem extract_confined_none : forall f cwd es mode,
  nodd cwd -> real_dir f cwd -> links_safe f cwd -> Forall entry_ok es ->
  effs_under cwd (s_eff (final_state (extract_fs f cwd None es mode))).
Proof.
  intros f cwd es mode Hd Hr Hl He.
  apply (extract_confined_general f cwd None es mode cwd); auto. reflexivity.
Qed.

(* the former witnesses: ".//jail/out/x" is refused before anything is written, "../zz/../dest/x" is written
   as "x" without creating the detour *)
Example none_absolute_name_refused : extract_fs w_fs w_d None w_absname 0 = Exc XBad7z (mkSt w_fs []).
Proof. vm_compute. reflexivity. Qed.

Example none_climb_confined :
  get_sanitized_output_path ([46; 46; 47; 122; 122; 47; 46; 46; 47] ++ w_dest ++ [47; 120]) w_d None = Some (mkP 0 [[120]]) /\
  s_eff (final_state (extract_fs w_fs w_d None w_climb 0)) =
    [(KChmod, [w_jail; w_dest; [120]]); (KUtime, [w_jail; w_dest; [120]]); (KCreate, [w_jail; w_dest; [120]])].
Proof. split; vm_compute; reflexivity. Qed.

(* the chain escapes without a destination as well, now that link members are extracted there *)
Theorem extract_confined_chain_none_refuted :
  dest_ok w_d None w_d /\ nodd w_d /\ real_dir w_fs w_d /\ no_links_under w_fs w_d /\
  In (KCreate, [w_jail; [120]]) (s_eff (final_state (extract_fs w_fs w_d None w_chain 0))) /\
  ~ effs_under w_d (s_eff (final_state (extract_fs w_fs w_d None w_chain 0))).
Proof.
  destruct w_hyps as [H1 [H2 H3]]. repeat split; auto.
  - vm_compute. auto 10.
  - intro H. apply effs_underb_iff in H. vm_compute in H. discriminate.
Qed.

Theorem extract_confined_refuted : ~ extract_confined_statement.
Proof.
  intro H. destruct extract_confined_chain_refuted as [H0 [H1 [H2 [H3 [_ H4]]]]].
  apply H4. apply H; auto.
Qed.

(* the sanitiser with a destination: accepted names are lexically below it (whatever the destination) *)
Theorem sanitized_lexically_inside : forall nm cwd0 b o,
  get_sanitized_output_path nm cwd0 (Some b) = Some o ->
  proot o = proot (canonical_path b) /\ prefixb (pparts (canonical_path b)) (pparts o) = true.
Proof.
  intros nm cwd0 b o H. unfold get_sanitized_output_path in H.
  destruct (is_relative_to (canonical_path (pjoin b (remove_relative_path_marker (lstrip SLASH nm)))) b) eqn:E;
    [|discriminate].
  inversion H; subst o. unfold is_relative_to in E. apply andb_true_iff in E as [E1 E2].
  apply Z.eqb_eq in E1. auto.
Qed.

(* ... and for a canonical absolute destination they are absolute, free of "..", below it *)
Theorem sanitized_canonical_inside : forall nm cwd0 b o, proot b = 1 -> nodd (pparts b) ->
  get_sanitized_output_path nm cwd0 (Some b) = Some o ->
  proot o = 1 /\ nodd (pparts o) /\ prefixb (pparts b) (pparts o) = true.
Proof.
  intros nm cwd0 b o Hb Hn H. destruct (sanitize_ok nm cwd0 b o Hb Hn H) as [H1 [H2 H3]].
  split; [exact H1|]. split; [exact H2|]. apply prefixb_under. exact H3.
Qed.

(* without a destination the returned path is relative to the current directory and free of ".." *)
Theorem sanitized_none_inside : forall nm cwd0 o, nodd cwd0 ->
  get_sanitized_output_path nm cwd0 None = Some o -> proot o = 0 /\ nodd (pparts o).
Proof. exact sanitize_none_ok. Qed.

(* hypotheses of the general theorem are met by a populated destination holding a link, and an archive
   with files, a directory, duplicate names and a (safe) link member; 13 effects take place *)
Definition x_fs : fs :=
  [([w_jail], Dir); ([w_jail; w_dest], Dir); ([w_jail; w_dest; [97]], Dir); ([w_jail; w_dest; [97]; [98]], File [111]);
   ([w_jail; w_dest; [115]], Link (mkP 0 [[97]])); ([w_jail; w_out], Link (mkP 1 [])) ].
Definition x_es : list entry :=
  [w_file [97; 47; 102]; mkE [98] 1 [] true 1 true; w_link [107] [97]; w_file [115; 47; 103]; w_file [97; 47; 102];
   mkE [46; 46; 47; 120] 0 [] true 1 true].
Example general_hyps_satisfiable :
  dest_ok [w_jail] (Some (mkP 0 [w_dest])) w_d /\ nodd w_d /\ real_dir x_fs w_d /\ links_safe x_fs w_d /\
  Forall entry_ok (firstn 5 x_es) /\
  length (s_eff (final_state (extract_fs x_fs [w_jail] (Some (mkP 0 [w_dest])) (firstn 5 x_es) 0))) = 13%nat /\
  (* a refused name aborts before anything is written *)
  extract_fs x_fs [w_jail] (Some (mkP 0 [w_dest])) x_es 0 = Exc XBad7z (mkSt x_fs []).
Proof.
  split; [right; split; reflexivity|]. split; [apply noddb_ok; reflexivity|].
  split; [apply real_dirb_ok; reflexivity|]. split; [apply links_safeb_ok; reflexivity|].
  split.
  { repeat (apply Forall_cons || apply Forall_nil); intros Hk He; try discriminate.
    split; [reflexivity | apply noddb_ok; reflexivity]. }
  split; vm_compute; reflexivity.
Qed.

Example none_hyps_satisfiable :
  dest_ok w_d None w_d /\ nodd w_d /\ real_dir w_fs w_d /\ links_safe w_fs w_d /\
  Forall entry_ok [w_file [97; 47; 102]; w_link [107] [97]; w_file [107; 47; 103]; w_file [97; 47; 102]] /\
  length (s_eff (final_state (extract_fs w_fs w_d None [w_file [97; 47; 102]; w_link [107] [97]; w_file [107; 47; 103]; w_file [97; 47; 102]] 0))) = 11%nat.
Proof.
  split; [reflexivity|]. split; [apply noddb_ok; reflexivity|]. split; [apply real_dirb_ok; reflexivity|].
  split; [apply links_safeb_ok; reflexivity|]. split.
  - repeat (apply Forall_cons || apply Forall_nil); intros Hk He; try discriminate.
    split; [reflexivity | apply noddb_ok; reflexivity].
  - vm_compute. reflexivity.
Qed.
