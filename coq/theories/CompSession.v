(* CompSession.v -- a write session made of the methods generated from SevenZipCompressor (gen/CompChain.v); definitions only
   (used by the dispatcher and by CompGen.v). *)
From P7 Require Import Prelude PyPrims PyStr.
From P7gen Require CompChain.
Open Scope Z_scope.

(* ------------------------------------------------------------------ a write session made of the generated methods:
   compress for every member in order (what Worker.archive / writestr do on one folder), then flush.  [written] collects
   what the calls wrote to fp. *)
Section Session.
Variable stage : Type.
Variable cstep : stage -> bytes -> stage * bytes.
Variable cflush : stage -> stage * bytes.
Variable zcrc32 : bytes -> Z -> Z.

Fixpoint gen_members (fuel : nat) (o : CompChain.SevenZipCompressor stage) (written : bytes) (ms : list (bytes * list nat))
  : res (CompChain.SevenZipCompressor stage * bytes * list (Z * Z * Z)) :=
  match ms with
  | [] => Ok (o, written, [])
  | (content, sched) :: ms' =>
    do r <- CompChain.SevenZipCompressor_compress stage cstep zcrc32 o content fuel 0 sched;
    let '(((o1, info), _), out) := r in
    do r' <- gen_members fuel o1 (written ++ out) ms';
    let '(o2, w2, infos) := r' in
    Ok (o2, w2, info :: infos)
  end.

Definition gen_session (fuel : nat) (o : CompChain.SevenZipCompressor stage) (ms : list (bytes * list nat))
  : res (CompChain.SevenZipCompressor stage * bytes * list (Z * Z * Z) * Z) :=
  do r <- gen_members fuel o [] ms;
  let '(o1, w1, infos) := r in
  do f <- CompChain.SevenZipCompressor_flush stage cstep cflush zcrc32 o1 fuel;
  let '((o2, n), out) := f in
  Ok (o2, w1 ++ out, infos, n).
End Session.
