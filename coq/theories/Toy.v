(* Toy.v -- executable entry points (FN 380-399) of the streaming models, for the
   correspondence check of property C01 (tools/harness/c01.py):

     Decomp.v  SevenZipDecompressor.decompress / Worker.decompress over toy stages,
     Comp.v    SevenZipCompressor.compress / flush / unpacksizes over toy stages,
     Aes.v     AESCompressor / AESDecompressor over the toy block cipher (xor 90),
     and chains mixing toy stages with the AES residue machines on both sides.

   The Python harness replaces `.chain` of real SevenZipCompressor / SevenZipDecompressor
   objects by Python mirrors of these toy stages (and the `.cipher` of real AESCompressor /
   AESDecompressor objects by a mirror of the toy cipher) and compares every call.
   Definitions only; the theorems about them are in Decomp.v, Comp.v, Aes.v, RoundTrip.v. *)
From P7 Require Import Prelude Crc32 Decomp Comp RoundTrip.
From P7 Require Aes.
Open Scope Z_scope.

(* ---- stages: a toy stage or an AES residue machine ---------------------- *)
Inductive dstage := DS (s : toy_state) | DA (s : aes_dstage).
Inductive cstage := CS (s : toy_state) | CA (s : Aes.cstate).

Definition mix_dstep (s : dstage) (data : bytes) (ml : Z) : dstage * bytes :=
  match s with
  | DS t => let '(t', o) := toy_dstep t data ml in (DS t', o)
  | DA a => let '(a', o) := aes_dstep Aes.toyD a data ml in (DA a', o)
  end.

Definition mix_cstep (s : cstage) (data : bytes) : cstage * bytes :=
  match s with
  | CS t => let '(t', o) := toy_cstep t data in (CS t', o)
  | CA a => let '(a', o) := aes_cstep Aes.toyE a data in (CA a', o)
  end.

Definition mix_cflush (s : cstage) : cstage * bytes :=
  match s with
  | CS t => let '(t', o) := toy_cflush t in (CS t', o)
  | CA a => let '(a', o) := aes_cflush Aes.toyE a in (CA a', o)
  end.

(* stage trees: [tag; k; pending] for a toy stage, [9; iv; buffered] for AES *)
Definition t_dstage (t : tree) : dstage :=
  if of_TI (tnth t 0) =? 9
  then DA (Ok {| Aes.dbuf := of_bytes (tnth t 2); Aes.dcst := of_bytes (tnth t 1) |})
  else DS (t_toy_state t).
Definition t_cstage (t : tree) : cstage :=
  if of_TI (tnth t 0) =? 9
  then CA {| Aes.cbuf := of_bytes (tnth t 2); Aes.ccst := of_bytes (tnth t 1) |}
  else CS (t_toy_state t).

Definition dstage_failed (s : dstage) : bool :=
  match s with DA (Err _) => true | _ => false end.

(* per-call results; a call during which the AES stage raised is reported as Err EOther
   (ValueError of pycryptodome) and ends the trace *)
Fixpoint mix_trace (st : dstate dstage) (calls : list (Z * nat)) : list (res bytes) :=
  match calls with
  | [] => []
  | (ml, rd) :: calls' =>
    match decompress mix_dstep st ml rd with
    | Ok (st', out) =>
      if existsb dstage_failed (stages st') then [Err EOther]
      else Ok out :: mix_trace st' calls'
    | Err e => [Err e]
    end
  end.

(* args: [states; unpacksizes; input_size; block_size; packed; calls] *)
Definition mix_run_t (t : tree) : tree :=
  TL (map (t_res t_bytes)
          (mix_trace (init_state (map t_dstage (of_TL (tnth t 0))) (map of_TI (of_TL (tnth t 1)))
                                 (of_TI (tnth t 2)) (of_TI (tnth t 3)) (of_bytes (tnth t 4)))
                     (map t_call (of_TL (tnth t 5))))).

(* args: [fuel; states; unpacksizes; input_size; block_size; packed; sizes; mb; scheds]
   result: res [member bytes ...]; Err EOther if the AES stage raised on the way, Err EBad7z if the
   stall guard of Worker.decompress fired (RoundTrip.gworker / gextract) *)
Definition mix_extract_t (t : tree) : tree :=
  let st0 := init_state (map t_dstage (of_TL (tnth t 1))) (map of_TI (of_TL (tnth t 2)))
                        (of_TI (tnth t 3)) (of_TI (tnth t 4)) (of_bytes (tnth t 5)) in
  t_res (fun l => TL (map t_bytes l))
        (do r <- gextract mix_dstep dstage_failed (Z.to_nat (of_TI (tnth t 0))) st0
                             (map of_TI (of_TL (tnth t 6))) (of_TI (tnth t 7))
                             (map (fun s => map (fun x => Z.to_nat (of_TI x)) (of_TL s))
                                  (of_TL (tnth t 8)));
         Ok (snd r)).

Definition t_cstage_out (s : cstage) : tree :=
  match s with
  | CS (tag, k, pend) => TL [TI tag; TI k; t_bytes pend]
  | CA a => TL [TI 9; t_bytes (Aes.ccst a); t_bytes (Aes.cbuf a)]
  end.

(* args: [fuel; states; block_size; members = [[bytes; sched] ...]]
   result: res [[unpacksizes; digest; packsize; written; states]; infos; flush result] *)
Definition mix_session_t (t : tree) : tree :=
  t_res (fun r : cstate cstage * list (Z * Z * Z) * Z =>
           let '(st, infos, n) := r in
           TL [TL [TL (map TI (cunpack st)); TI (cdigest st); TI (cpacksize st); t_bytes (cout st);
                   TL (map t_cstage_out (cstages st))];
               TL (map t_info infos); TI n])
        (write_session mix_cstep mix_cflush (Z.to_nat (of_TI (tnth t 0)))
                       (cinit (map t_cstage (of_TL (tnth t 1))) (of_TI (tnth t 2)))
                       (map t_member (of_TL (tnth t 3)))).

(* ---- AESCompressor / AESDecompressor alone, toy cipher ----------------------- *)
(* ops: a byte list = compress(data); an integer = flush().  One result per op:
   res bytes (Err EOther = the cipher was handed a length that is not a multiple of 16) *)
Fixpoint aes_c_run (st : Aes.cstate) (ops : list tree) : list tree :=
  match ops with
  | [] => [TL [t_bytes (Aes.ccst st); t_bytes (Aes.cbuf st)]]
  | op :: ops' =>
    let r := match op with
             | TI _ => Aes.aes_flush_chk Aes.toyE st
             | TL _ => Aes.aes_compress_chk Aes.toyE st (of_bytes op)
             end in
    match r with
    | Ok (st', o) => TL [TI 0; t_bytes o] :: aes_c_run st' ops'
    | Err e => [TL [TI 1; t_err e]]
    end
  end.

Fixpoint aes_d_run (st : Aes.dstate) (chunks : list tree) : list tree :=
  match chunks with
  | [] => [TL [t_bytes (Aes.dcst st); t_bytes (Aes.dbuf st)]]
  | c :: chunks' =>
    match Aes.aes_decompress_chk Aes.toyD st (of_bytes c) with
    | Ok (st', o) => TL [TI 0; t_bytes o] :: aes_d_run st' chunks'
    | Err e => [TL [TI 1; t_err e]]
    end
  end.

(* reference stream functions *)
Definition aes_ref_enc_t (t : tree) : tree :=
  t_bytes (fst (Aes.cbc_enc Aes.toyE (of_bytes (tnth t 0)) (Aes.pad16 (of_bytes (tnth t 1))))).
Definition aes_ref_dec_t (t : tree) : tree :=
  t_bytes (fst (Aes.cbc_dec Aes.toyD (of_bytes (tnth t 0)) (Aes.pad16 (of_bytes (tnth t 1))))).

Definition toy_dispatch (fn : Z) (a : tree) : tree :=
  match fn with
  (* FN 380 toy_run_t : (states unpacksizes input_size block_size packed calls) -> [res bytes ...] *)
  | 380 => toy_run_t a
  (* FN 381 toy_worker_t : (fuel states unpacksizes input_size block_size packed size mb sched) -> res bytes *)
  | 381 => toy_worker_t a
  (* FN 382 toy_session_t : (fuel states block_size members) -> res (state infos flushed) *)
  | 382 => toy_session_t a
  (* FN 383 toy_ops_t : (fuel states unpacksizes block_size ops) -> [res ... ; state] *)
  | 383 => toy_ops_t a
  (* FN 384 unpacksizes_prop_t : (methods_map unpacksizes) -> res [int ...] *)
  | 384 => unpacksizes_prop_t a
  (* FN 385 dec_unpacksizes_t : (methods_map unpacksizes) -> res [int ...] *)
  | 385 => dec_unpacksizes_t a
  (* FN 386 aes_c_run_t : (iv buffered ops) -> [res bytes ... ; (cipher_state buffered)] *)
  | 386 => TL (aes_c_run {| Aes.cbuf := of_bytes (tnth a 1); Aes.ccst := of_bytes (tnth a 0) |}
                         (of_TL (tnth a 2)))
  (* FN 387 aes_d_run_t : (iv buffered chunks) -> [res bytes ... ; (cipher_state buffered)] *)
  | 387 => TL (aes_d_run {| Aes.dbuf := of_bytes (tnth a 1); Aes.dcst := of_bytes (tnth a 0) |}
                         (of_TL (tnth a 2)))
  (* FN 388 mix_run_t : (states unpacksizes input_size block_size packed calls) -> [res bytes ...] *)
  | 388 => mix_run_t a
  (* FN 389 mix_extract_t : (fuel states unpacksizes input_size block_size packed sizes mb scheds) -> res [bytes ...] *)
  | 389 => mix_extract_t a
  (* FN 390 mix_session_t : (fuel states block_size members) -> res (state infos flushed) *)
  | 390 => mix_session_t a
  (* FN 391 aes_ref_enc_t : (iv plain) -> bytes *)
  | 391 => aes_ref_enc_t a
  (* FN 392 aes_ref_dec_t : (iv cipher) -> bytes *)
  | 392 => aes_ref_dec_t a
  (* FN 393 mv_chunks_t : (fuel p n bs V) -> ([chunk ...] ok) *)
  | 393 => let cs := mv_chunks (Z.to_nat (of_TI (tnth a 0))) (of_TI (tnth a 1)) (of_TI (tnth a 2))
                               (of_TI (tnth a 3)) (of_TI (tnth a 4)) in
           TL [TL (map TI cs); t_bool (dec_sizes_ok 0 cs)]
  | _ => TL [TI (-2)]
  end.
