(* Enc.v -- model of what py7zr does when a password is given (property C11).

   Python sources mirrored here (py7zr, read-only):
     py7zr/helpers.py     _calculate_key1 / _calculate_key3                       (l.64-151)
     py7zr/compressor.py  AESCompressor.__init__ / encode_filter_properties       (l.109-139)
                          AESDecompressor.__init__                                 (l.186-210)
                          SevenZipDecompressor.__init__ (checks before any decode) (l.588-612)
                          SevenZipCompressor.compress / flush / unpacksizes        (l.893-935)
     py7zr/archiveinfo.py Header.write / _encode_header, HeaderStreamsInfo.write,
                          Header._read (encoded header branch), SignatureHeader.write
     py7zr/py7zr.py       _make_file_info_from_name, Worker.writestr/_after_write/flush_archive,
                          Worker.decompress + CRC check of extract_single (l.1433-1437, 1461-1506)

   NOT modelled (Section variables, contracts; see EncProofs.v for the instances showing they
   are satisfiable):  the hash (SHA-256) -- only  update(update h a) b = update h (a ++ b);
   the AES block function under a key;  the compressors in front of AES (stateful stages with an
   arbitrary step / flush function);  the LZMA2 coder of a non-encrypted encoded header;  the RNG
   (an infinite byte stream read left to right).

   Definitions only (proofs: EncProofs.v), everything computable.  *)
From P7 Require Import Prelude PyPrims Number Crc32 Header Aes.
Open Scope Z_scope.

(* ====================================================================== *)
(* 1. Password -> bytes:  password.encode("utf-16LE")                      *)
(* ====================================================================== *)
(* code points -> UTF-16-LE, no terminator; a lone surrogate raises UnicodeEncodeError *)
Definition pw_utf16 (pw : list Z) : res bytes := wr_list utf16_enc_char pw.

(* ====================================================================== *)
(* 2. Key derivation over an abstract hash                                 *)
(* ====================================================================== *)
Definition range0 (n : Z) : list Z := range_from 0 (Z.to_nat n).

Section KDF.
Variable H : Type.
Variable hinit : H.
Variable hupdate : H -> bytes -> H.
Variable hdigest : H -> bytes.

(* salt + password + round.to_bytes(8, "little") *)
Definition kdf_block (sp : bytes) (r : Z) : bytes := sp ++ le_bytes 8 r.

(* _calculate_key1: one update() per round.
     assert cycles <= 0x3F           -> Err EOther (AssertionError)
     1 << cycles with cycles < 0     -> Err EOther (ValueError)                       *)
Definition key1 (pw : bytes) (cycles : Z) (salt : bytes) : res bytes :=
  if 63 <? cycles then Err EOther
  else if cycles =? 63 then Ok (firstn 32 (salt ++ pw ++ zeros 32))
  else if cycles <? 0 then Err EOther
  else
    let rounds := 2 ^ cycles in
    let m := fold_left (fun h r => hupdate h (kdf_block (salt ++ pw) r)) (range0 rounds) hinit in
    Ok (firstn 32 (hdigest m)).

(* _calculate_key3: rounds grouped, one update() per stage of 2^6 rounds *)
Definition kdf_stage (sp : bytes) (rounds s : Z) : bytes :=
  concat (map (fun i => kdf_block sp (s + i)) (range0 rounds)).

Definition key3 (pw : bytes) (cycles : Z) (salt : bytes) : res bytes :=
  if 63 <? cycles then Err EOther
  else if cycles =? 63 then Ok (firstn 32 (salt ++ pw ++ zeros 32))
  else if cycles <? 0 then Err EOther
  else
    let cat_cycle := 6 in
    let rounds := if cat_cycle <? cycles then 2 ^ cat_cycle else 2 ^ cycles in
    let stages := if cat_cycle <? cycles then 2 ^ (cycles - cat_cycle) else 1 in
    (* for _ in range(stages): m.update(b"".join(...)); s += rounds *)
    let ms := fold_left (fun (st : H * Z) (_ : Z) =>
                           (hupdate (fst st) (kdf_stage (salt ++ pw) rounds (snd st)), snd st + rounds))
                        (range0 stages) (hinit, 0) in
    Ok (firstn 32 (hdigest (fst ms))).
End KDF.

(* The free hash: the state is everything fed so far (kept reversed so that update is
   linear), the "digest" is that transcript.  Every hash satisfying the Section hypothesis
   factors through it; the harness feeds the transcript to hashlib.sha256. *)
Definition fh_update (h : bytes) (a : bytes) : bytes := rev_append a h.
Definition fh_digest (h : bytes) : bytes := rev_append h [].

(* the message that is hashed (cycles < 63), or the key itself (cycles = 63) *)
Definition kdf_transcript (which : Z) (pw : bytes) (cycles : Z) (salt : bytes) : res bytes :=
  if 63 <? cycles then Err EOther
  else if cycles =? 63 then Ok (firstn 32 (salt ++ pw ++ zeros 32))
  else if cycles <? 0 then Err EOther
  else
    if which =? 1 then
      Ok (fh_digest (fold_left (fun h r => fh_update h (kdf_block (salt ++ pw) r)) (range0 (2 ^ cycles)) []))
    else
      let rounds := if 6 <? cycles then 2 ^ 6 else 2 ^ cycles in
      let stages := if 6 <? cycles then 2 ^ (cycles - 6) else 1 in
      Ok (fh_digest (fst (fold_left (fun (st : bytes * Z) (_ : Z) =>
                           (fh_update (fst st) (kdf_stage (salt ++ pw) rounds (snd st)), snd st + rounds))
                        (range0 stages) ([], 0)))).

(* ====================================================================== *)
(* 3. 7zAES coder properties                                               *)
(* ====================================================================== *)
Definition AES_METHOD : bytes := [6; 241; 7; 1].
Definition WRITER_CYCLES : Z := 19.

(* AESCompressor.encode_filter_properties (self.cycles, self.salt, self.iv) *)
Definition aes_encode_props (cycles : Z) (salt iv : bytes) : res bytes :=
  let saltsize := blen salt in
  let ivsize := blen iv in
  let ivfirst := 1 in
  let saltfirst := if 0 <? saltsize then 1 else 0 in
  do firstbyte <- py_to_bytes_le (cycles + Z.shiftl ivfirst 6 + Z.shiftl saltfirst 7) 1;
  do secondbyte <- py_to_bytes_le (Z.land (ivsize - 1) 15 + Z.land (Z.shiftl (saltsize - saltfirst) 4) 240) 1;
  Ok (firstbyte ++ secondbyte ++ salt ++ iv).

(* AESDecompressor.__init__, up to the key derivation: (numcyclespower, salt, iv padded to 16) *)
Definition aes_parse_props (props : bytes) : res (Z * bytes * bytes) :=
  match props with
  | [] => Err EOther                                        (* IndexError *)
  | firstbyte :: _ =>
      let numcyclespower := Z.land firstbyte 63 in
      if negb (Z.land firstbyte 192 =? 0) then
        let saltsize0 := Z.land (Z.shiftr firstbyte 7) 1 in
        let ivsize0 := Z.land (Z.shiftr firstbyte 6) 1 in
        match props with
        | _ :: secondbyte :: _ =>
            let saltsize := saltsize0 + Z.shiftr secondbyte 4 in
            let ivsize := ivsize0 + Z.land secondbyte 15 in
            if negb (blen props =? 2 + saltsize + ivsize) then Err EOther     (* assert *)
            else
              let salt := takeZ saltsize (dropZ 2 props) in
              let iv := takeZ ivsize (dropZ (2 + saltsize) props) in
              if 24 <? numcyclespower then Err EOther                           (* assert *)
              else
                let iv16 := if ivsize <? 16 then iv ++ zeros (16 - ivsize) else iv in
                Ok (numcyclespower, salt, iv16)
        | _ => Err EOther                                   (* IndexError *)
        end
      else Err EUnsupported                                 (* "Wrong 7zAES properties" *)
  end.

(* ====================================================================== *)
(* 4. RNG: an infinite stream consumed left to right                       *)
(* ====================================================================== *)
Definition rng := nat -> Z.
(* get_random_bytes(16) at stream position p *)
Definition draw16 (r : rng) (p : nat) : bytes := map r (seq p 16).
(* position of the k-th AESCompressor construction of a run that started at p0 *)
Definition draw_pos (p0 k : nat) : nat := (p0 + 16 * k)%nat.

(* ====================================================================== *)
(* 5. Layout of an archive (L1): a function of metadata and opaque streams *)
(* ====================================================================== *)
Definition le_res (n : nat) (v : Z) : res bytes := wr_fixed n v.

(* SignatureHeader.calccrc + write *)
Definition sig_header (ofs size crc : Z) : res bytes :=
  do a <- le_res 8 ofs; do b <- le_res 8 size; do c <- le_res 4 crc;
  let startdata := a ++ b ++ c in
  do s <- le_res 4 (crc32 startdata);
  Ok (MAGIC ++ [0; 4] ++ s ++ startdata).

(* UnpackInfo.write(file, with_crcs=True) -- the form HeaderStreamsInfo.write uses: after the unpack sizes
   a CRC record for the folders whose digest is defined *)
Definition folder_crc_defined (f : folder) : bool :=
  f_digestdefined f && (match f_crc f with Some _ => true | None => false end).
Definition write_unpackinfo_crcs (fs : list folder) : res bytes :=
  do n <- wr_number (zlen fs);
  do body <- wr_list write_folder fs;
  do us <- wr_list (fun f => wr_list wr_number (f_unpacksizes f)) fs;
  let defined := map folder_crc_defined fs in
  do cr <- (if any_true defined then
              do x <- wr_list (fun f => if folder_crc_defined f
                                        then wr_fixed 4 (match f_crc f with Some c => c | None => 0 end)
                                        else Ok []) fs;
              Ok ([10] ++ wr_boolean defined true ++ x)
            else Ok []);
  Ok ([7; 11] ++ n ++ [0] ++ body ++ [12] ++ us ++ cr ++ [0]).

(* HeaderStreamsInfo.write for the one folder of an encoded header: no packed CRC (enable_digests = False,
   digestdefined empty), but the folder CRC = CRC-32 of the PLAIN header (Header._encode_header:
   folder.crc = raw_crc; folder.digestdefined = True) -- stored in the clear, also when the header is encrypted *)
Definition mk_bonds (ncoders : Z) : list (Z * Z) := map (fun i => (i + 1, i)) (range0 (ncoders - 1)).
Definition hdr_descriptor (packpos : Z) (hcoders : list coder) (hpacksize hrawlen : Z) (hpcrc hrawcrc : Z) : res bytes :=
  do a <- write_packinfo false (mkPack packpos 1 [hpacksize] [] [hpcrc]);
  do b <- write_unpackinfo_crcs [mkFolder hcoders (mk_bonds (zlen hcoders)) [] [hrawlen] true (Some hrawcrc)];
  Ok ([23] ++ a ++ b ++ [0]).

(* mode 0: raw header; 1: encoded (LZMA2) header; 2: encrypted header.
   packed  = the main packed stream, hpacked = the packed header stream (modes 1, 2),
   hcoders = the coders of the header folder, h = the header graph.               *)
Definition assemble (mode : Z) (h : header) (packed : bytes) (hcoders : list coder) (hpacked : bytes) : res bytes :=
  if mode =? 0 then
    do hb <- write_header true (32 + blen packed) h;
    do sg <- sig_header (blen packed) (blen hb) (crc32 hb);
    Ok (sg ++ packed ++ hb)
  else
    do hraw <- write_header true 0 h;
    do desc <- hdr_descriptor (blen packed) hcoders (blen hpacked) (blen hraw) (crc32 hpacked) (crc32 hraw);
    do sg <- sig_header (blen packed + blen hpacked) (blen desc) (crc32 desc);
    Ok (sg ++ packed ++ hpacked ++ desc).

(* the part of an archive with an encoded/encrypted header that is NOT the two packed streams:
   a function of sizes, the header coder, the header ciphertext and the CRC-32 of the plain header *)
Definition plain_parts (packsize : Z) (hcoders : list coder) (hpacked : bytes) (hrawlen hrawcrc : Z) : res (bytes * bytes) :=
  do desc <- hdr_descriptor packsize hcoders (blen hpacked) hrawlen (crc32 hpacked) hrawcrc;
  do sg <- sig_header (packsize + blen hpacked) (blen desc) (crc32 desc);
  Ok (sg, desc).

(* ---- metadata of a one-folder write session ---- *)
Record meta := mkMeta {
  mt_names : list (list Z);        (* code points *)
  mt_mtimes : list Z;
  mt_attrs : list Z;
  mt_sizes : list Z;               (* len(content) *)
  mt_crcs : list Z;                (* CRC-32 of each PLAINTEXT content: stored by construction *)
  mt_usizes : list Z;              (* folder.unpacksizes: input length of every coder *)
  mt_pre_coders : list coder;      (* coders behind AES, header order *)
  mt_iv : bytes                    (* IV of the folder's AES coder *)
}.

Definition aes_coder (iv : bytes) : res coder :=
  do p <- aes_encode_props WRITER_CYCLES [] iv;
  Ok (mkCoder AES_METHOD 1 1 (Some p)).

Fixpoint mk_files (names : list (list Z)) (mtimes attrs : list Z) : list fileent :=
  match names, mtimes, attrs with
  | n :: ns, t :: ts, a :: ats =>
      mkFile false (Some n) None None (Some (Some t)) (Some (Some a)) :: mk_files ns ts ats
  | _, _, _ => []
  end.

(* Header.initialize + Worker._after_write + Worker.flush_archive, one folder, password given
   (packinfo.enable_digests = True: the CRC of the CIPHERTEXT is stored too) *)
Definition mk_header (m : meta) (packsize pcrc : Z) : res header :=
  do ac <- aes_coder (mt_iv m);
  let coders := ac :: mt_pre_coders m in
  let n := length (mt_names m) in
  let fo := mkFolder coders (mk_bonds (zlen coders)) [] (mt_usizes m) false None in
  Ok (mkHeader
        (Some (mkStreams (Some (mkPack 0 1 [packsize] [true] [pcrc]))
                         (Some [fo])
                         (Some (mkSub [Z.of_nat n] (Some (mt_sizes m)) (repeat true n) (mt_crcs m)))))
        (Some (mk_files (mt_names m) (mt_mtimes m) (mt_attrs m)))
        (repeat false n)).

Definition assemble_meta (mode : Z) (m : meta) (packed : bytes) (hcoders : list coder) (hpacked : bytes)
  : res bytes :=
  do h <- mk_header m (blen packed) (crc32 packed);
  assemble mode h packed hcoders hpacked.

(* raw header bytes of a session (what gets LZMA2-compressed or encrypted in modes 1, 2) *)
Definition header_raw (m : meta) (packed : bytes) : res bytes :=
  do h <- mk_header m (blen packed) (crc32 packed);
  write_header true 0 h.

(* ====================================================================== *)
(* 6. The writer, step by step (L2)                                        *)
(* ====================================================================== *)
(* fd.read(block_size) until b"" *)
Fixpoint chunks_fuel (fuel : nat) (bs : Z) (d : bytes) : list bytes :=
  match fuel with
  | O => []
  | S f => match d with
           | [] => []
           | _ => takeZ bs d :: chunks_fuel f bs (dropZ bs d)
           end
  end.
Definition chunks_of (bs : Z) (d : bytes) : list bytes := chunks_fuel (length d) bs d.

Fixpoint zip_add (a b : list Z) : list Z :=
  match a, b with
  | x :: a', y :: b' => (x + y) :: zip_add a' b'
  | _, _ => a
  end.

(* SevenZipCompressor.unpacksizes: reversed, consecutive native filters share an entry *)
Fixpoint unpacksizes_aux (mm : list bool) (i shift : Z) (prev : bool) (usz acc : list Z) : res (list Z) :=
  match mm with
  | [] => Ok acc
  | r :: rest =>
      let shift' := if r && prev then shift + 1 else shift in
      do x <- PyPrims.py_index usz (i - shift');
      unpacksizes_aux rest (i + 1) shift' r usz (x :: acc)
  end.
Definition unpacksizes_prop (mm : list bool) (usz : list Z) : res (list Z) :=
  unpacksizes_aux mm 0 0 false usz [].

Record member := mkMember { m_name : list Z; m_mtime : Z; m_attr : Z; m_data : bytes }.

Section Session.
Variable Eb : bytes -> bytes.                 (* AES block encryption under the derived key *)
Variable C : Type.                            (* state of a coder in front of AES *)
Variable c_step : C -> bytes -> C * bytes.    (* compressor.compress(data) *)
Variable c_flush : C -> bytes.                (* compressor.flush() *)

(* for i, compressor in enumerate(self.chain): self._unpacksizes[i] += len(data); data = compressor.compress(data)
   restricted to the stages in front of AES: (new states, len(data) seen by each stage, what reaches AES) *)
Fixpoint run_stages (cs : list C) (data : bytes) : list C * list Z * bytes :=
  match cs with
  | [] => ([], [], data)
  | c :: r =>
      let (c', o) := c_step c data in
      let '(r', szs, out) := run_stages r o in
      (c' :: r', blen data :: szs, out)
  end.

(* SevenZipCompressor.flush over the stages in front of AES.  data = None | bytes; `if data:` *)
Fixpoint flush_stages (cs : list C) (data : option bytes) : list Z * option bytes :=
  match cs with
  | [] => ([], data)
  | c :: r =>
      let '(inc, d') :=
        match data with
        | Some (x :: xs) => let (c', o) := c_step c (x :: xs) in (blen (x :: xs), o ++ c_flush c')
        | _ => (0, c_flush c)
        end in
      let (incs, out) := flush_stages r (Some d') in
      (inc :: incs, out)
  end.

(* chain = stages in front of AES ++ [AESCompressor]; _unpacksizes = ch_usz_pre ++ [ch_usz_aes] *)
Record chain := mkChain { ch_pre : list C; ch_aes : cstate; ch_usz_pre : list Z; ch_usz_aes : Z }.

Definition chain_init (cs : list C) (iv : bytes) : chain :=
  mkChain cs (cinit iv) (repeat 0 (length cs)) 0.

(* one iteration of `while data:` in SevenZipCompressor.compress; returns what fp.write gets *)
Definition sz_block (ch : chain) (data : bytes) : chain * bytes :=
  let '(pre', szs, mid) := run_stages (ch_pre ch) data in
  let (a', out) := aes_compress Eb (ch_aes ch) mid in
  (mkChain pre' a' (zip_add (ch_usz_pre ch) szs) (ch_usz_aes ch + blen mid), out).

Fixpoint sz_blocks (ch : chain) (blocks : list bytes) : chain * bytes :=
  match blocks with
  | [] => (ch, [])
  | d :: rest =>
      let (ch1, o1) := sz_block ch d in
      let (ch2, o2) := sz_blocks ch1 rest in
      (ch2, o1 ++ o2)
  end.

(* SevenZipCompressor.flush *)
Definition sz_flush (ch : chain) : chain * bytes :=
  let (incs, d) := flush_stages (ch_pre ch) None in
  match d with
  | Some (x :: xs) =>
      let (a1, o1) := aes_compress Eb (ch_aes ch) (x :: xs) in
      let (a2, o2) := aes_flush Eb a1 in
      (mkChain (ch_pre ch) a2 (zip_add (ch_usz_pre ch) incs) (ch_usz_aes ch + blen (x :: xs)), o1 ++ o2)
  | _ =>
      let (a2, o2) := aes_flush Eb (ch_aes ch) in
      (mkChain (ch_pre ch) a2 (zip_add (ch_usz_pre ch) incs) (ch_usz_aes ch), o2)
  end.

(* all members of the session through one folder compressor, then flush_archive *)
Definition session_blocks (bs : Z) (ms : list member) : list bytes :=
  flat_map (fun m => chunks_of bs (m_data m)) ms.

Definition session_packed (bs : Z) (cs : list C) (iv : bytes) (ms : list member) : chain * bytes :=
  let (ch1, o1) := sz_blocks (chain_init cs iv) (session_blocks bs ms) in
  let (ch2, o2) := sz_flush ch1 in
  (ch2, o1 ++ o2).

(* ---- the same run WITHOUT the cipher: what AES is given, and the stage input sizes ---- *)
Fixpoint pre_blocks (cs : list C) (usz : list Z) (blocks : list bytes) : list C * list Z * list bytes :=
  match blocks with
  | [] => (cs, usz, [])
  | d :: rest =>
      let '(cs1, szs, mid) := run_stages cs d in
      let '(cs2, usz2, mids) := pre_blocks cs1 (zip_add usz szs) rest in
      (cs2, usz2, mid :: mids)
  end.

Definition opt_bytes (d : option bytes) : bytes := match d with Some x => x | None => [] end.

(* (input sizes of the stages in front of AES, the byte string handed to AES) *)
Definition pre_run (cs : list C) (blocks : list bytes) : list Z * bytes :=
  let '(cs1, usz1, mids) := pre_blocks cs (repeat 0 (length cs)) blocks in
  let (incs, d) := flush_stages cs1 None in
  (zip_add usz1 incs, concat mids ++ opt_bytes d).

Definition pre_stream (bs : Z) (cs : list C) (ms : list member) : bytes :=
  snd (pre_run cs (session_blocks bs ms)).

Definition session_meta (mm : list bool) (pre_coders : list coder) (bs : Z) (cs : list C) (iv : bytes)
           (ms : list member) : res meta :=
  let (uszpre, stream) := pre_run cs (session_blocks bs ms) in
  do us <- unpacksizes_prop mm (uszpre ++ [blen stream]);
  Ok (mkMeta (map m_name ms) (map m_mtime ms) (map m_attr ms)
             (map (fun m => blen (m_data m)) ms) (map (fun m => crc32 (m_data m)) ms)
             us pre_coders iv).

(* ---- the whole write session: SevenZipFile(..., "w", filters, password, header_encryption),
        writestr x n, close().  hdr_lzma / hcoder: the LZMA2 stage of mode 1 (abstract).
        r, p0: RNG stream and its position when the session starts. ---- *)
Variable hdr_lzma : bytes -> bytes.

Definition session_usz (ch : chain) : list Z := ch_usz_pre ch ++ [ch_usz_aes ch].

Definition write_archive (mode : Z) (mm : list bool) (pre_coders : list coder) (hcoder : coder) (bs : Z)
           (cs : list C) (r : rng) (p0 : nat) (ms : list member) : res (bytes * nat) :=
  (* Header.initialize -> Folder.prepare_coderinfo -> AESCompressor(password): first draw *)
  let iv := draw16 r (draw_pos p0 0) in
  let (ch, packed) := session_packed bs cs iv ms in
  do us <- unpacksizes_prop mm (session_usz ch);
  let m := mkMeta (map m_name ms) (map m_mtime ms) (map m_attr ms)
                  (map (fun m => blen (m_data m)) ms) (map (fun m => crc32 (m_data m)) ms)
                  us pre_coders iv in
  do h <- mk_header m (blen packed) (crc32 packed);
  if mode =? 0 then
    do a <- assemble 0 h packed [] [];
    Ok (a, draw_pos p0 1)
  else if mode =? 1 then
    do hraw <- write_header true 0 h;
    do a <- assemble 1 h packed [hcoder] (hdr_lzma hraw);
    Ok (a, draw_pos p0 1)
  else
    (* Header._encode_header with ENCRYPTED_HEADER_FILTER: a second AESCompressor, second draw *)
    let ivh := draw16 r (draw_pos p0 1) in
    do hraw <- write_header true 0 h;
    do hc <- aes_coder ivh;
    let (ch1, o1) := sz_blocks (chain_init [] ivh) (chunks_of bs hraw) in
    let (_, o2) := sz_flush ch1 in
    do a <- assemble 2 h packed [hc] (o1 ++ o2);
    Ok (a, draw_pos p0 2).

End Session.

(* What the writer produces once the metadata and the main ciphertext are known.  NOTE the
   arguments: no member, no content bytes -- only the metadata record, the packed (encrypted)
   stream, the RNG and the abstract coders. *)
Definition archive_of (Eb : bytes -> bytes) (hdr_lzma : bytes -> bytes) (mode : Z) (hcoder : coder)
           (m : meta) (packed : bytes) (r : rng) (p0 : nat) : res (bytes * nat) :=
  do h <- mk_header m (blen packed) (crc32 packed);
  if mode =? 0 then
    do a <- assemble 0 h packed [] [];
    Ok (a, draw_pos p0 1)
  else if mode =? 1 then
    do hraw <- write_header true 0 h;
    do a <- assemble 1 h packed [hcoder] (hdr_lzma hraw);
    Ok (a, draw_pos p0 1)
  else
    let ivh := draw16 r (draw_pos p0 1) in
    do hraw <- write_header true 0 h;
    do hc <- aes_coder ivh;
    do a <- assemble 2 h packed [hc] (fst (cbc_enc Eb ivh (pad16 hraw)));
    Ok (a, draw_pos p0 2).

(* ====================================================================== *)
(* 7. Reading: decisions                                                   *)
(* ====================================================================== *)
(* SupportedMethods.methods: (method id, native) *)
Definition METHODS : list (bytes * bool) :=
  [([0], false); ([33], true); ([3], true); ([3;1;1], true); ([3;3;1;3], true); ([3;3;2;5], true);
   ([3;3;4;1], true); ([3;3;5;1], true); ([3;3;7;1], true); ([3;3;8;5], true); ([4;1;8], false);
   ([4;2;2], false); ([4;247;17;1], false); ([3;4;1], false); ([4;247;17;2], false); ([4;1;9], false);
   (AES_METHOD, false)].

Fixpoint bytes_eqb (a b : bytes) : bool :=
  match a, b with
  | [], [] => true
  | x :: a', y :: b' => (x =? y) && bytes_eqb a' b'
  | _, _ => false
  end.
Definition find_method (m : bytes) : option bool :=
  match find (fun e => bytes_eqb (fst e) m) METHODS with Some e => Some (snd e) | None => None end.
Definition needs_password (methods : list bytes) : bool := existsb (bytes_eqb AES_METHOD) methods.

(* SevenZipDecompressor.__init__ up to and including the password test: everything that can
   happen before the first decoder object exists *)
Definition sz_decompressor_precheck (methods : list bytes) (has_password : bool) : res unit :=
  if 4 <? zlen methods then Err EUnsupported
  else if negb (forallb (fun m => match find_method m with Some _ => true | None => false end) methods)
  then Err EUnsupported                                   (* is_native_coder -> raise_unsupported_method_id *)
  else if needs_password methods && negb has_password then Err EPassword
  else Ok tt.

(* Worker.extract_single over the members of one folder, given the decoded folder stream that the
   decoders can produce (all of it).  Worker.decompress loops `while out_remaining > 0` calling the
   decoder; when the decoders have nothing more to give and no input is left, MAX_STALLED_ROUNDS = 16 empty
   rounds are tolerated, then Bad7zFile("unexpected end of compressed stream") is raised (before that
   repair the loop never ended).  CRC is compared AFTER the member's bytes have been written to the output. *)
Fixpoint extract_members (stream : bytes) (sizes crcs : list Z) : res (list bytes) :=
  match sizes, crcs with
  | n :: ns, c :: cs =>
      if blen stream <? n then Err EBad7z
      else
        let g := takeZ n stream in
        if crc32 g =? c then
          do rest <- extract_members (dropZ n stream) ns cs; Ok (g :: rest)
        else Err ECrc
  | _, _ => Ok []
  end.

(* a folder [AES] or [Copy, AES] read with block decryption Db (right or wrong key) *)
Definition read_aes_folder (Db : bytes -> bytes) (iv packed : bytes) (sizes crcs : list Z) : res (list bytes) :=
  extract_members (fst (cbc_dec Db iv packed)) sizes crcs.

(* a folder [X, AES]: Dz = what the decoder of X makes of the decrypted stream
   (an error, or as many bytes as it can produce) *)
Definition read_chain_folder (Db : bytes -> bytes) (Dz : bytes -> res bytes) (iv packed : bytes)
           (sizes crcs : list Z) : res (list bytes) :=
  do s <- Dz (fst (cbc_dec Db iv packed));
  extract_members s sizes crcs.

(* Header._read, ENCODED_HEADER branch with one AES folder: decrypt, cut to the unpack size, compare with the
   folder CRC WHEN ONE IS STORED (py7zr now always stores it; a foreign writer may not: None), then the first
   byte must be HEADER and the rest must parse *)
Definition decoded_header (lim : Z) (buf : bytes) : res header :=
  match buf with
  | 1 :: r => do (h, _) <- parse_header_body lim r; Ok h     (* pid == HEADER *)
  | _ => Err EOther                                           (* TypeError("Unknown field") *)
  end.
Definition checked_header (lim : Z) (fcrc : option Z) (buf : bytes) : res header :=
  match fcrc with
  | Some c => if crc32 buf =? c then decoded_header lim buf else Err EBad7z   (* Bad7zFile("invalid block data") *)
  | None => decoded_header lim buf
  end.
Definition open_encrypted_header (Db : bytes -> bytes) (lim : Z) (ivh hpacked : bytes) (hrawlen : Z) (fcrc : option Z)
  : res header :=
  checked_header lim fcrc (takeZ hrawlen (fst (cbc_dec Db ivh hpacked))).

(* ====================================================================== *)
(* 8. Toy instances (runnable; also the satisfiability witnesses)          *)
(* ====================================================================== *)
(* keyed toy block cipher: xor with the first 16 key bytes *)
Definition toyK (key blk : bytes) : bytes := xor_bytes blk (firstn 16 key).
(* CopyCompressor as a stage *)
Definition copy_step (c : unit) (d : bytes) : unit * bytes := (c, d).
Definition copy_flush (c : unit) : bytes := [].

(* ====================================================================== *)
(* 9. Dispatcher                                                           *)
(* ====================================================================== *)
Definition t_unit (_ : unit) : tree := TL [].
Definition of_Zlist (t : tree) : list Z := map of_TI (of_TL t).
Definition of_coder' (t : tree) : coder :=
  mkCoder (of_bytes (tnth t 0)) (of_TI (tnth t 1)) (of_TI (tnth t 2)) (of_opt of_bytes (tnth t 3)).
Definition of_meta (t : tree) : meta :=
  mkMeta (map of_Zlist (of_TL (tnth t 0))) (of_Zlist (tnth t 1)) (of_Zlist (tnth t 2)) (of_Zlist (tnth t 3))
         (of_Zlist (tnth t 4)) (of_Zlist (tnth t 5)) (map of_coder' (of_TL (tnth t 6))) (of_bytes (tnth t 7)).
Definition of_member (t : tree) : member :=
  mkMember (of_Zlist (tnth t 0)) (of_TI (tnth t 1)) (of_TI (tnth t 2)) (of_bytes (tnth t 3)).
Definition rng_of_bytes (b : bytes) : rng := fun i => nth i b 0.

Definition enc_dispatch (fn : Z) (a : tree) : tree :=
  match fn with
  (* FN 360 kdf_transcript : (which pw_bytes cycles salt) -> res bytes *)
  | 360 => t_res t_bytes (kdf_transcript (of_TI (tnth a 0)) (of_bytes (tnth a 1)) (of_TI (tnth a 2)) (of_bytes (tnth a 3)))
  (* FN 361 pw_utf16 : codepoints -> res bytes *)
  | 361 => t_res t_bytes (pw_utf16 (of_Zlist a))
  (* FN 362 aes_encode_props : (cycles salt iv) -> res bytes *)
  | 362 => t_res t_bytes (aes_encode_props (of_TI (tnth a 0)) (of_bytes (tnth a 1)) (of_bytes (tnth a 2)))
  (* FN 363 aes_parse_props : bytes -> res (cycles salt iv16) *)
  | 363 => t_res (fun '(c, s, i) => TL [TI c; t_bytes s; t_bytes i]) (aes_parse_props (of_bytes a))
  (* FN 364 assemble_meta : (mode meta packed hcoders hpacked) -> res bytes *)
  | 364 => t_res t_bytes (assemble_meta (of_TI (tnth a 0)) (of_meta (tnth a 1)) (of_bytes (tnth a 2))
                                        (map of_coder' (of_TL (tnth a 3))) (of_bytes (tnth a 4)))
  (* FN 365 header_raw : (meta packed) -> res bytes *)
  | 365 => t_res t_bytes (header_raw (of_meta (tnth a 0)) (of_bytes (tnth a 1)))
  (* FN 366 write_archive_toy : (mode mm pre_coders bs ncopy rngbytes key members) -> res (bytes pos) ;
        toy cipher xor key[:16], ncopy Copy stages in front of AES, header "LZMA2" stage = identity *)
  | 366 => t_res (fun '(b, p) => TL [t_bytes b; TI (Z.of_nat p)])
             (write_archive (toyK (of_bytes (tnth a 6))) unit copy_step copy_flush (fun x => x)
                (of_TI (tnth a 0)) (map of_bool (of_TL (tnth a 1))) (map of_coder' (of_TL (tnth a 2)))
                (mkCoder [0] 1 1 None) (of_TI (tnth a 3)) (repeat tt (Z.to_nat (of_TI (tnth a 4))))
                (rng_of_bytes (of_bytes (tnth a 5))) 0 (map of_member (of_TL (tnth a 7))))
  (* FN 367 sz_decompressor_precheck : (methods has_password) -> res () *)
  | 367 => t_res t_unit (sz_decompressor_precheck (map of_bytes (of_TL (tnth a 0))) (of_bool (tnth a 1)))
  (* FN 368 extract_members : (stream sizes crcs) -> res (list bytes) *)
  | 368 => t_res (fun l => TL (map t_bytes l))
             (extract_members (of_bytes (tnth a 0)) (of_Zlist (tnth a 1)) (of_Zlist (tnth a 2)))
  (* FN 369 unpacksizes_prop : (methods_map usz) -> res sizes *)
  | 369 => t_res (fun l => TL (map TI l)) (unpacksizes_prop (map of_bool (of_TL (tnth a 0))) (of_Zlist (tnth a 1)))
  (* FN 370 plain_parts : (packsize hcoders hpacked hrawlen hrawcrc) -> res (sig desc) *)
  | 370 => t_res (fun '(s, d) => TL [t_bytes s; t_bytes d])
             (plain_parts (of_TI (tnth a 0)) (map of_coder' (of_TL (tnth a 1))) (of_bytes (tnth a 2)) (of_TI (tnth a 3))
                          (of_TI (tnth a 4)))
  (* FN 371 checked_header_ok : (lim crc_opt bytes) -> res () ; does the reader accept these bytes as a decoded header *)
  | 371 => t_res t_unit (do _ <- checked_header (of_TI (tnth a 0)) (of_opt of_TI (tnth a 1)) (of_bytes (tnth a 2)); Ok tt)
  | _ => TL [TI (-2)]
  end.
