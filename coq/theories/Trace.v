(* Trace.v -- model of what a crash can leave on disk while py7zr writes an archive (C14).

   The file under construction is a byte string with a cursor; a write session is the
   ordered list of seek/write operations that SevenZipFile issues on the archive file:

     create  (py7zr.py _prepare_write, _write_flush/_write_header; archiveinfo.py
              SignatureHeader._write_skeleton / .write):
        seek 0, the placeholder signature header in SEVEN writes
              (magic, version major, version minor, crc=1, ofs=2, size=3, crc=4),
        seek 32, the writes that precede the next header (packed data; for an encoded
              header also the packed header), the writes of the next header itself
              (Header.write issues one write per field),
        seek 0, the signature header again in SEVEN writes (magic, 2 version bytes,
              start-header CRC, next-header offset, next-header size, next-header CRC).
     append  (_prepare_append): seek to afterheader + packpositions[-1], i.e. to the end
              of the packed streams = ON the old (packed) header, then as above, the
              version bytes being those read from the old file.

   A crash point is (k, j): the first k operations took effect completely and the first j
   bytes of operation k+1 did.  [image_at old trace k j] is the file then.

   The reader side is SignatureHeader._read + SevenZipFile._real_get_contents: magic,
   CRC of bytes 12..31 against the field at 8..11, then the CRC of the bytes at
   (32+ofs, size) against the field at 28..31.  [open_view img] is the next header that
   the reader goes on to parse (None = the reader raises).  For an encoded header (first
   byte 0x17) Header._read decodes the packed header and checks its CRC when the descriptor
   defines one ([plain_header]).  Since the repair "store the CRC of the plain header in an
   encoded header" py7zr's writer always defines it (Header._encode_header sets
   folder.digestdefined, HeaderStreamsInfo.write emits the CRC record): [desc_protected].
   Descriptors written by earlier versions carry none; for those the window of
   C14_append_legacy_descriptor_window is still open.

   Definitions only (computable, extracted); the proofs are in TraceProofs.v. *)
From P7 Require Import Prelude PyPrims Crc32 Header.
Open Scope Z_scope.

(* ------------------------------------------------------------------ *)
(* File images and operations                                          *)
(* ------------------------------------------------------------------ *)
Inductive op := Seek (pos : nat) | Write (data : bytes).

Definition zeros (n : nat) : bytes := repeatZ 0 n.

(* write [d] at offset [pos]: a gap between the end of the file and [pos] is zero-filled
   (POSIX, io.BytesIO); a zero-length write changes nothing, not even the length *)
Definition write_at (img : bytes) (pos : nat) (d : bytes) : bytes :=
  match d with
  | [] => img
  | _ => firstn pos img ++ zeros (pos - length img) ++ d ++ skipn (pos + length d) img
  end.

Definition fstate := (bytes * nat)%type.      (* image, cursor *)

Definition apply_op (st : fstate) (o : op) : fstate :=
  match o with
  | Seek p => (fst st, p)
  | Write d => (write_at (fst st) (snd st) d, (snd st + length d)%nat)
  end.

Definition run (tr : list op) (st : fstate) : fstate := fold_left apply_op tr st.

(* the first k operations completely, then the first j bytes of the next one *)
Definition image_from (st : fstate) (tr : list op) (k j : nat) : bytes :=
  let st' := run (firstn k tr) st in
  match nth_error tr k with
  | Some (Write d) => write_at (fst st') (snd st') (firstn j d)
  | _ => fst st'
  end.

Definition image_at (old : bytes) (tr : list op) (k j : nat) : bytes := image_from (old, O) tr k j.

Definition final_image (old : bytes) (tr : list op) : bytes := fst (run tr (old, O)).

(* crash with one earlier write lost: operation number d (a write that had been issued
   before the crash point) never reached the disk; the cursor moved all the same *)
Definition drop_op (o : op) : op :=
  match o with Seek p => Seek p | Write d => Write [] end.
Definition apply_op_lost (st : fstate) (o : op) : fstate :=
  match o with
  | Seek p => (fst st, p)
  | Write d => (fst st, (snd st + length d)%nat)
  end.
Fixpoint run_lost (tr : list op) (d : nat) (st : fstate) : fstate :=
  match tr with
  | [] => st
  | o :: r => match d with
              | O => run r (apply_op_lost st o)
              | S d' => run_lost r d' (apply_op st o)
              end
  end.
Definition image_lost (old : bytes) (tr : list op) (d k j : nat) : bytes :=
  (* d < k: operation d is lost; operations 0..k-1 otherwise complete; j bytes of operation k *)
  let st' := run_lost (firstn k tr) d (old, O) in
  match nth_error tr k with
  | Some (Write x) => write_at (fst st') (snd st') (firstn j x)
  | _ => fst st'
  end.

(* ------------------------------------------------------------------ *)
(* The sessions                                                        *)
(* ------------------------------------------------------------------ *)
Definition sig_fields (crc ofs size hcrc : Z) : bytes :=
  le_bytes 4 crc ++ le_bytes 8 ofs ++ le_bytes 8 size ++ le_bytes 4 hcrc.

Definition start_fields (ofs size hcrc : Z) : bytes :=
  le_bytes 8 ofs ++ le_bytes 8 size ++ le_bytes 4 hcrc.

(* SignatureHeader.calccrc *)
Definition start_crc (ofs size hcrc : Z) : Z := crc32 (start_fields ofs size hcrc).

(* SignatureHeader.write / _write_skeleton: seek(0) and seven writes *)
Definition sig_writes (magic : bytes) (v0 v1 crc ofs size hcrc : Z) : list op :=
  [Seek 0; Write magic; Write [v0]; Write [v1]; Write (le_bytes 4 crc);
   Write (le_bytes 8 ofs); Write (le_bytes 8 size); Write (le_bytes 4 hcrc)].

Definition skeleton_writes : list op := sig_writes MAGIC 0 4 1 2 3 4.

(* the 32 bytes of the placeholder *)
Definition skeleton32 : bytes := MAGIC ++ [0; 4] ++ sig_fields 1 2 3 4.

Definition zlenb (b : bytes) : Z := Z.of_nat (length b).

(* [pre]: the chunks written before the next header starts; [hdr]: the chunks of the next header *)
Definition create_trace (pre hdr : list bytes) : list op :=
  let ofs := zlenb (concat pre) in
  let size := zlenb (concat hdr) in
  let hc := crc32 (concat hdr) in
  skeleton_writes ++ [Seek 32] ++ map Write pre ++ map Write hdr ++
  sig_writes MAGIC 0 4 (start_crc ofs size hc) ofs size hc.

(* [p]: afterheader + packpositions[-1]; the version bytes are the ones read from the old file *)
Definition append_trace (old : bytes) (p : nat) (pre hdr : list bytes) : list op :=
  let ofs := Z.of_nat p - 32 + zlenb (concat pre) in
  let size := zlenb (concat hdr) in
  let hc := crc32 (concat hdr) in
  [Seek p] ++ map Write pre ++ map Write hdr ++
  sig_writes MAGIC (nth 6 old 0) (nth 7 old 0) (start_crc ofs size hc) ofs size hc.

(* ------------------------------------------------------------------ *)
(* The reader                                                          *)
(* ------------------------------------------------------------------ *)
Definition bytes_eqb (a b : bytes) : bool := if list_eq_dec Z.eq_dec a b then true else false.

(* file.seek(a); file.read(n): what is there, possibly fewer than n bytes *)
Definition slice (img : bytes) (a n : Z) : bytes := takeZ n (dropZ a img).

(* _check_7zfile + SignatureHeader._read: struct.error on a short file, Bad7zFile on a
   CRC mismatch; the version bytes are not looked at *)
Definition sig_ok (img : bytes) : bool :=
  (32 <=? zlenb img) && bytes_eqb (firstn 6 img) MAGIC &&
  (crc32 (slice img 12 20) =? le_value (slice img 8 4)).

Definition sig_ofs (img : bytes) : Z := le_value (slice img 12 8).
Definition sig_size (img : bytes) : Z := le_value (slice img 20 8).
Definition sig_hcrc (img : bytes) : Z := le_value (slice img 28 4).

(* _real_get_contents up to the call of Header.retrieve: the bytes handed to the header
   parser.  fp.seek(ofs, SEEK_CUR) / fp.read(size) of io.BytesIO raise OverflowError from
   2^63 on. *)
Definition open_view (img : bytes) : option bytes :=
  if sig_ok img then
    if (2 ^ 63 <=? 32 + sig_ofs img) || (2 ^ 63 <=? sig_size img) then None
    else
      let h := slice img (32 + sig_ofs img) (sig_size img) in
      if crc32 h =? sig_hcrc img then Some h else None
  else None.

(* the descriptor of an encoded header (next header starting with 0x17), restricted to
   the shape py7zr writes: one pack stream, one folder.
   (packpos, packsize, unpacksize, digestdefined, crc) *)
Definition enc_desc (lim : Z) (h : bytes) : option (folder * (Z * Z * Z)) :=
  match h with
  | 23 :: r =>
      match parse_streams lim r with
      | Ok (si, _) =>
          match si_pack si, si_folders si with
          | Some p, Some [f] =>
              match p_sizes p, rev (f_unpacksizes f) with
              | ps :: _, us :: _ => Some (f, (p_pos p, ps, us))
              | _, _ => None
              end
          | _, _ => None
          end
      | Err _ => None
      end
  | _ => None
  end.

(* the descriptor carries the CRC of the plain header (what the repaired writer always emits); a raw
   header needs none: it is covered by the next-header CRC itself *)
Definition desc_protected (lim : Z) (h : bytes) : bool :=
  match enc_desc lim h with
  | Some (f, _) => f_digestdefined f && match f_crc f with Some _ => true | None => false end
  | None => true
  end.

Section Encoded.
  Variable lim : Z.
  (* the decoder chain of the folder run over the packed bytes for the declared unpack
     size; None = it raises *)
  Variable dec : folder -> bytes -> Z -> option bytes.

  (* Header._read: the plain header bytes that end up in _extract_header_info *)
  Definition plain_header (img : bytes) : option bytes :=
    match open_view img with
    | None => None
    | Some h =>
        match enc_desc lim h with
        | Some (f, (pp, ps, us)) =>
            match dec f (slice img (32 + pp) ps) us with
            | Some d =>
                if f_digestdefined f then
                  match f_crc f with
                  | Some c => if crc32 d =? c then Some d else None
                  | None => None
                  end
                else Some d          (* no CRC defined: nothing is checked *)
            | None => None
            end
        | None =>
            match h with
            | 23 :: _ => None      (* an encoded header of another shape: outside this model *)
            | _ => Some h          (* raw header (0x01 ...), or the empty archive *)
            end
        end
    end.
End Encoded.

(* ------------------------------------------------------------------ *)
(* Vocabulary of the theorems                                           *)
(* ------------------------------------------------------------------ *)
(* two DIFFERENT byte strings with the same CRC-32 *)
Definition collides (a b : bytes) : Prop := a <> b /\ crc32 a = crc32 b.

(* the first n bytes already those of [a] (new), the others still those of [b] (before) *)
Definition mix (n : nat) (a b : bytes) : bytes := firstn n a ++ skipn n b.

Definition skel20 : bytes := start_fields 2 3 4.
Definition new20 (base : Z) (pre hdr : list bytes) : bytes :=
  start_fields (base + zlenb (concat pre)) (zlenb (concat hdr)) (crc32 (concat hdr)).

(* ------------------------------------------------------------------ *)
(* Segment view of a session (used by the proofs; exported for the tie) *)
(* ------------------------------------------------------------------ *)
(* a session is a list of segments (position, chunks written consecutively from there) *)
Definition seg_trace (s : nat * list bytes) : list op := Seek (fst s) :: map Write (snd s).
Definition segs_trace (ss : list (nat * list bytes)) : list op := flat_map seg_trace ss.

Definition new_sig24 (pre hdr : list bytes) (base : Z) : bytes :=
  let ofs := base + zlenb (concat pre) in
  let size := zlenb (concat hdr) in
  let hc := crc32 (concat hdr) in
  sig_fields (start_crc ofs size hc) ofs size hc.

Definition create_segs (pre hdr : list bytes) : list (nat * list bytes) :=
  let ofs := zlenb (concat pre) in
  let size := zlenb (concat hdr) in
  let hc := crc32 (concat hdr) in
  [ (O, [MAGIC; [0]; [4]; le_bytes 4 1; le_bytes 8 2; le_bytes 8 3; le_bytes 4 4]);
    (32%nat, pre ++ hdr);
    (O, [MAGIC; [0]; [4]; le_bytes 4 (start_crc ofs size hc); le_bytes 8 ofs; le_bytes 8 size; le_bytes 4 hc]) ].

Definition append_segs (old : bytes) (p : nat) (pre hdr : list bytes) : list (nat * list bytes) :=
  let ofs := Z.of_nat p - 32 + zlenb (concat pre) in
  let size := zlenb (concat hdr) in
  let hc := crc32 (concat hdr) in
  [ (p, pre ++ hdr);
    (O, [MAGIC; [nth 6 old 0]; [nth 7 old 0]; le_bytes 4 (start_crc ofs size hc); le_bytes 8 ofs;
         le_bytes 8 size; le_bytes 4 hc]) ].

(* ------------------------------------------------------------------ *)
(* Dispatcher (FN 280-299)                                             *)
(* ------------------------------------------------------------------ *)
Definition t_nat (n : nat) : tree := TI (Z.of_nat n).
Definition of_nat_t (t : tree) : nat := Z.to_nat (of_TI t).
Definition t_op (o : op) : tree :=
  match o with Seek p => TL [TI 0; t_nat p] | Write d => TL [TI 1; t_bytes d] end.
Definition of_op (t : tree) : op :=
  if of_TI (tnth t 0) =? 0 then Seek (of_nat_t (tnth t 1)) else Write (of_bytes (tnth t 1)).
Definition of_ops (t : tree) : list op := map of_op (of_TL t).
Definition of_chunks (t : tree) : list bytes := map of_bytes (of_TL t).
Definition t_optb (o : option bytes) : tree :=
  match o with Some b => TL [t_bytes b] | None => TL [] end.

Definition trace_dispatch (fn : Z) (a : tree) : tree :=
  match fn with
  (* FN 280 trace_create : (pre_chunks hdr_chunks) -> ops, op = (0 pos) | (1 bytes) *)
  | 280 => TL (map t_op (create_trace (of_chunks (tnth a 0)) (of_chunks (tnth a 1))))
  (* FN 281 trace_append : (old p pre_chunks hdr_chunks) -> ops *)
  | 281 => TL (map t_op (append_trace (of_bytes (tnth a 0)) (of_nat_t (tnth a 1))
                                      (of_chunks (tnth a 2)) (of_chunks (tnth a 3))))
  (* FN 282 trace_image_at : (old ops k j) -> bytes *)
  | 282 => t_bytes (image_at (of_bytes (tnth a 0)) (of_ops (tnth a 1)) (of_nat_t (tnth a 2)) (of_nat_t (tnth a 3)))
  (* FN 283 trace_open_view : img -> () | (next header bytes) *)
  | 283 => t_optb (open_view (of_bytes a))
  (* FN 284 trace_sig_ok : img -> bool *)
  | 284 => t_bool (sig_ok (of_bytes a))
  (* FN 285 trace_final : (old ops) -> (img cursor) *)
  | 285 => let st := run (of_ops (tnth a 1)) (of_bytes (tnth a 0), O) in TL [t_bytes (fst st); t_nat (snd st)]
  (* FN 286 trace_enc_desc : (lim hdr) -> () | (packpos packsize unpacksize digestdefined) *)
  | 286 => match enc_desc (of_TI (tnth a 0)) (of_bytes (tnth a 1)) with
           | Some (f, (pp, ps, us)) => TL [TI pp; TI ps; TI us; t_bool (f_digestdefined f)]
           | None => TL []
           end
  (* FN 287 trace_image_lost : (old ops d k j) -> bytes *)
  | 287 => t_bytes (image_lost (of_bytes (tnth a 0)) (of_ops (tnth a 1)) (of_nat_t (tnth a 2))
                               (of_nat_t (tnth a 3)) (of_nat_t (tnth a 4)))
  (* FN 288 trace_start_crc : (ofs size hcrc) -> int *)
  | 288 => TI (start_crc (of_TI (tnth a 0)) (of_TI (tnth a 1)) (of_TI (tnth a 2)))
  (* FN 289 trace_desc_protected : (lim hdr) -> bool *)
  | 289 => t_bool (desc_protected (of_TI (tnth a 0)) (of_bytes (tnth a 1)))
  | _ => TL [TI (-2)]
  end.
