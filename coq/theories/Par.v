(* Par.v -- model of the multi-folder extraction paths of py7zr (py7zr/py7zr.py; line numbers of /repo at
   commit 5112351):

     SevenZipFile._extract   l.586-607   output names: `fnames`, repeated names get the first free suffix _<k>
     SevenZipFile._extract   l.644-655   parallel = not password_protected and not _filePassed
     Worker.extract          l.1302-1377 one folder: extract_single on the caller's handle;
                                         several folders, not parallel: empty members, then folder by folder
                                         on the caller's handle (an exception propagates at once: the later
                                         folders are never touched);
                                         several folders, parallel: empty members in the caller, then one
                                         Thread (mp=False) or Process (mp=True) per selected folder, each
                                         given the archive's *name*; start all, join all, then (l.1370-1374)
                                         `if exc_q.empty(): pass else: raise exc_q.get()[1]`
     Worker.extract_single   l.1379-1405 `fp = open(fp, "rb")` when given a name (own handle per worker);
                                         with exc_q: every Exception is put on exc_q and the worker ends
     Worker._extract_single  l.1407-1484 / decompress l.1496-   per member: open the output "wb" (create/
                                         truncate, position 0), write chunk after chunk (each <=
                                         get_memory_limit()), compare the CRC after the last chunk, next member
     SevenZipFile._extract   l.661-680   (path target only) utime/chmod of every registered output file:
                                         a file that was never created raises FileNotFoundError here

   A worker is the list of atomic actions its folder's packed bytes determine (its decoder, its handle
   and its position in the output file are its own); the outputs are shared (a filesystem / a factory),
   the exception channel is shared between threads and *copied* into processes: exc_q is a thread
   queue.Queue created in the parent and duplicated by fork, so what a child puts there never reaches
   the parent, and neither do the MemIO products a child creates.

   Definitions only; the proofs are in ParProofs.v.  stdlib only, no axioms. *)
From P7 Require Import Prelude.
From Coq Require Import Arith PeanoNat.
Local Open Scope nat_scope.

(* ------------------------------------------------------------------ actions and states *)
Inductive action :=
| ACreate (o : nat)                  (* fileish.open("wb"): create or truncate output o, own position := 0 *)
| AWrite (o : nat) (bs : bytes)      (* obfp.write(chunk) at the worker's own position *)
| AFail (e : err).                   (* an exception leaves _extract_single: queued (or raised), worker ends *)

Notation worker := (list action).
Definition outmap := nat -> option bytes.      (* None: the output does not exist *)

Record wst := mkW { w_done : list action;      (* actions performed so far (history, never read by step) *)
                    w_pos : nat;               (* position of the worker's own output handle *)
                    w_rem : list action }.     (* actions still to perform *)
Record st := mkS { s_out : outmap; s_chan : list (nat * err); s_ws : list wst }.

Definition upd (m : outmap) (o : nat) (v : option bytes) : outmap :=
  fun x => if Nat.eqb x o then v else m x.
Definition cur (m : outmap) (o : nat) : bytes := match m o with Some b => b | None => [] end.

(* a write of bs at position pos into a file whose content is c (the hole, if any, reads as zeros) *)
Definition wr (c : bytes) (pos : nat) (bs : bytes) : bytes :=
  firstn pos (c ++ repeatZ 0%Z (pos - length c)) ++ bs ++ skipn (pos + length bs) c.

(* effect of one action on the outputs and on the acting worker's position *)
Definition aout (a : action) (m : outmap) (pos : nat) : outmap :=
  match a with
  | ACreate o => upd m o (Some [])
  | AWrite o bs => upd m o (Some (wr (cur m o) pos bs))
  | AFail _ => m
  end.
Definition apos (a : action) (pos : nat) : nat :=
  match a with ACreate _ => 0 | AWrite _ bs => pos + length bs | AFail _ => pos end.
Definition afp (a : action) : list nat :=
  match a with ACreate o => [o] | AWrite o _ => [o] | AFail _ => [] end.
Definition fp (w : worker) : list nat := flat_map afp w.

Fixpoint set_nth {A} (i : nat) (x : A) (l : list A) : list A :=
  match l, i with
  | [], _ => []
  | _ :: r, O => x :: r
  | y :: r, S i' => y :: set_nth i' x r
  end.

(* one scheduling decision: worker i performs its next action (nothing happens when it has none) *)
Definition step (i : nat) (s : st) : st :=
  match nth_error (s_ws s) i with
  | None => s
  | Some w =>
    match w_rem w with
    | [] => s
    | a :: rest =>
      mkS (aout a (s_out s) (w_pos w))
          (match a with AFail e => s_chan s ++ [(i, e)] | _ => s_chan s end)
          (set_nth i (mkW (w_done w ++ [a]) (apos a (w_pos w))
                          (match a with AFail _ => [] | _ => rest end)) (s_ws s))
    end
  end.

Definition run (sched : list nat) (s : st) : st := fold_left (fun s i => step i s) sched s.
Definition init (o0 : outmap) (ws : list worker) : st :=
  mkS o0 [] (map (fun w => mkW [] 0 w) ws).
Definition finished (s : st) : bool :=
  forallb (fun w => match w_rem w with [] => true | _ => false end) (s_ws s).
(* a schedule is complete for a set of workers when it lets every one of them end *)
Definition complete (sched : list nat) (o0 : outmap) (ws : list worker) : Prop :=
  finished (run sched (init o0 ws)) = true.

(* the schedule "one worker after the other, each to its end" *)
Fixpoint seq_from (i : nat) (ws : list worker) : list nat :=
  match ws with [] => [] | w :: r => repeat i (length w) ++ seq_from (S i) r end.
Definition seq_sched (ws : list worker) : list nat := seq_from 0 ws.
Definition sequential (o0 : outmap) (ws : list worker) : st := run (seq_sched ws) (init o0 ws).

(* the sequential path of Worker.extract: folder by folder in the caller; the first exception propagates,
   the later folders are not touched *)
Fixpoint seq_abort_from (i : nat) (ws : list worker) (s : st) : st :=
  match ws with
  | [] => s
  | w :: r => let s' := run (repeat i (length w)) s in
              match s_chan s' with [] => seq_abort_from (S i) r s' | _ :: _ => s' end
  end.
Definition seq_abort (o0 : outmap) (ws : list worker) : st := seq_abort_from 0 ws (init o0 ws).

(* ------------------------------------------------------------------ a worker on its own *)
(* the actions a worker really performs: up to and including its first failure *)
Fixpoint eff (w : worker) : worker :=
  match w with
  | [] => []
  | AFail e :: _ => [AFail e]
  | a :: r => a :: eff r
  end.
Fixpoint first_fail (w : worker) : option err :=
  match w with [] => None | AFail e :: _ => Some e | _ :: r => first_fail r end.
Fixpoint lrun (acts : list action) (m : outmap) (pos : nat) : outmap * nat :=
  match acts with
  | [] => (m, pos)
  | a :: r => lrun r (aout a m pos) (apos a pos)
  end.

Fixpoint disjoint_from (seen : list nat) (ws : list worker) : bool :=
  match ws with
  | [] => true
  | w :: r => forallb (fun o => negb (existsb (Nat.eqb o) seen)) (fp w) && disjoint_from (fp w ++ seen) r
  end.
Definition disjointb (ws : list worker) : bool := disjoint_from [] ws.
(* every output belongs to at most one worker *)
Definition disjoint (ws : list worker) : Prop :=
  forall i j wi wj o, i <> j -> nth_error ws i = Some wi -> nth_error ws j = Some wj ->
                      In o (fp wi) -> ~ In o (fp wj).

(* ------------------------------------------------------------------ what the caller sees *)
Inductive mode := MSeq | MThreads | MProcs
                  | MProcsFixed.   (* not the code as it is: processes after the proposed repair (a process queue for
                                      the exceptions; a factory target falls back to threads) *)
Inductive target := TFile | TMem.     (* extractall(path) | extractall(factory=...) *)

(* `if exc_q.empty(): pass else: raise exc_q.get()[1]` -- the first exception queued *)
Definition result_of (ch : list (nat * err)) : res unit :=
  match ch with [] => Ok tt | (_, e) :: _ => Err e end.

Definition exists_out (m : outmap) (o : nat) : bool := match m o with Some _ => true | None => false end.
Definition targets (ws : list worker) : list nat := flat_map fp ws.
(* utime/chmod over the registered files (path target only; the factory variant returns before) *)
Definition post_pass (t : target) (tg : list nat) (m : outmap) : res unit :=
  match t with
  | TMem => Ok tt
  | TFile => if forallb (exists_out m) tg then Ok tt else Err EOther
  end.

Definition after (r : res unit) (k : res unit) : res unit := match r with Ok _ => k | Err e => Err e end.

(* extractall on an archive whose selected folders are ws; `pre` are the empty members, which the
   caller handles itself before any worker is started (its exceptions propagate directly) *)
Definition extract (md : mode) (t : target) (sched : list nat) (o0 : outmap) (pre : worker) (ws : list worker)
  : outmap * res unit :=
  let o1 := fst (lrun (eff pre) o0 0) in
  match first_fail pre with
  | Some e => (o1, Err e)
  | None =>
    match md with
    | MSeq => let s := seq_abort o1 ws in
              (s_out s, after (result_of (s_chan s)) (post_pass t (fp pre ++ targets ws) (s_out s)))
    | MThreads => let s := run sched (init o1 ws) in
              (s_out s, after (result_of (s_chan s)) (post_pass t (fp pre ++ targets ws) (s_out s)))
    | MProcs => let s := run sched (init o1 ws) in
              (* the children's queue is a copy: the parent's stays empty; files are on the shared
                 filesystem, factory products live and die in the children *)
              (match t with TFile => s_out s | TMem => o1 end,
               post_pass t (fp pre ++ targets ws) (s_out s))
    | MProcsFixed => let s := run sched (init o1 ws) in
              (s_out s, after (result_of (s_chan s)) (post_pass t (fp pre ++ targets ws) (s_out s)))
    end
  end.

(* _extract l.619-631 and Worker.extract l.1277, 1291: which path is taken *)
Definition select_mode (mp password_protected by_name : bool) (nfolders : nat) : mode :=
  if Nat.leb nfolders 1 then MSeq
  else if negb password_protected && by_name then (if mp then MProcs else MThreads)
  else MSeq.

(* two SevenZipFile objects extracting at the same time: the workers of both run interleaved; each
   object has its own queue (exc_q is local to its Worker.extract call): it sees the entries of its own
   workers only *)
Definition chan_of (lo hi : nat) (ch : list (nat * err)) : list (nat * err) :=
  filter (fun p => Nat.leb lo (fst p) && Nat.ltb (fst p) hi) ch.

(* ------------------------------------------------------------------ output names (_extract, `fnames`) *)
(* outname = f.filename
   while outname in fnames: outname = f.filename + "_%d" % fnames[f.filename]; fnames[f.filename] += 1
   fnames[outname] = 0
   (the code after commit 5112351: a generated name is never one that was handed out before) *)
Definition bytes_eq_dec : forall a b : bytes, {a = b} + {a <> b} := list_eq_dec Z.eq_dec.
Fixpoint uint_bytes (u : Decimal.uint) : bytes :=
  match u with
  | Decimal.Nil => []
  | Decimal.D0 r => 48%Z :: uint_bytes r | Decimal.D1 r => 49%Z :: uint_bytes r
  | Decimal.D2 r => 50%Z :: uint_bytes r | Decimal.D3 r => 51%Z :: uint_bytes r
  | Decimal.D4 r => 52%Z :: uint_bytes r | Decimal.D5 r => 53%Z :: uint_bytes r
  | Decimal.D6 r => 54%Z :: uint_bytes r | Decimal.D7 r => 55%Z :: uint_bytes r
  | Decimal.D8 r => 56%Z :: uint_bytes r | Decimal.D9 r => 57%Z :: uint_bytes r
  end.
Definition dec (n : nat) : bytes := uint_bytes (Nat.to_uint n).       (* "%d" % n *)
Definition cand (n : bytes) (c : nat) : bytes := n ++ [95%Z] ++ dec c.  (* n + "_%d" % c *)

Definition fdict := list (bytes * nat).      (* the dict fnames, keys in order of insertion *)
Fixpoint fget (d : fdict) (n : bytes) : option nat :=
  match d with
  | [] => None
  | (k, v) :: r => if bytes_eq_dec k n then Some v else fget r n
  end.
Fixpoint fset (d : fdict) (n : bytes) (v : nat) : fdict :=
  match d with
  | [] => [(n, v)]
  | (k, w) :: r => if bytes_eq_dec k n then (k, v) :: r else (k, w) :: fset r n v
  end.
Definition cnt (d : fdict) (n : bytes) : nat := match fget d n with Some c => c | None => 0 end.
(* the while loop; it ends within |fnames|+1 tests (ParProofs.rename_loop_fresh), so the fuel is never used up *)
Fixpoint rename_loop (fuel : nat) (d : fdict) (n out : bytes) : bytes * fdict :=
  match fuel with
  | O => (out, d)
  | S f => match fget d out with
           | None => (out, d)
           | Some _ => rename_loop f (fset d n (S (cnt d n))) n (cand n (cnt d n))
           end
  end.
Fixpoint outnames_from (d : fdict) (names : list bytes) : list bytes :=
  match names with
  | [] => []
  | n :: r => let od := rename_loop (S (length d)) d n n in
              fst od :: outnames_from (fset (snd od) (fst od) 0) r
  end.
Definition outnames (names : list bytes) : list bytes := outnames_from [] names.

(* ------------------------------------------------------------------ dispatcher (FN 240-259) *)
Definition of_nat_t (t : tree) : nat := Z.to_nat (of_TI t).
Definition of_err (z : Z) : err :=
  match z with 1%Z => EBad7z | 2%Z => ECrc | 3%Z => EPassword | 4%Z => EUnsupported | 5%Z => EEof | 7%Z => EFuel | _ => EOther end.
(* action: (0 o) | (1 o bytes) | (2 errcode) *)
Definition of_action (t : tree) : action :=
  match of_TI (tnth t 0) with
  | 0%Z => ACreate (of_nat_t (tnth t 1))
  | 1%Z => AWrite (of_nat_t (tnth t 1)) (of_bytes (tnth t 2))
  | _ => AFail (of_err (of_TI (tnth t 1)))
  end.
Definition of_worker (t : tree) : worker := map of_action (of_TL t).
Definition of_workers (t : tree) : list worker := map of_worker (of_TL t).
Definition of_sched (t : tree) : list nat := map of_nat_t (of_TL t).
Definition t_nat (n : nat) : tree := TI (Z.of_nat n).
Definition t_outs (n : nat) (m : outmap) : tree := TL (map (fun o => t_opt t_bytes (m o)) (seq 0 n)).
Definition t_chan (ch : list (nat * err)) : tree := TL (map (fun p => TL [t_nat (fst p); t_err (snd p)]) ch).
Definition t_unit_res (r : res unit) : tree := t_res (fun _ => TL []) r.
Definition of_mode (z : Z) : mode := match z with 0%Z => MSeq | 1%Z => MThreads | 2%Z => MProcs | _ => MProcsFixed end.
Definition of_target (z : Z) : target := match z with 0%Z => TFile | _ => TMem end.
Definition none_map : outmap := fun _ => None.

Definition par_dispatch (fn : Z) (a : tree) : tree :=
  match fn with
  (* FN 240 par_extract : (mode target sched pre workers nouts) -> (outs result) ; mode 0 seq 1 threads 2 processes 3 processes-repaired *)
  | 240%Z =>
      let r := extract (of_mode (of_TI (tnth a 0))) (of_target (of_TI (tnth a 1))) (of_sched (tnth a 2))
                       none_map (of_worker (tnth a 3)) (of_workers (tnth a 4)) in
      TL [t_outs (of_nat_t (tnth a 5)) (fst r); t_unit_res (snd r)]
  (* FN 241 par_run : (sched workers nouts) -> (outs chan finished remaining) *)
  | 241%Z =>
      let s := run (of_sched (tnth a 0)) (init none_map (of_workers (tnth a 1))) in
      TL [t_outs (of_nat_t (tnth a 2)) (s_out s); t_chan (s_chan s); t_bool (finished s);
          TL (map (fun w => t_nat (length (w_rem w))) (s_ws s))]
  (* FN 242 par_disjoint : workers -> bool *)
  | 242%Z => t_bool (disjointb (of_workers a))
  (* FN 243 par_select_mode : (mp password_protected by_name nfolders) -> 0 seq | 1 threads | 2 processes *)
  | 243%Z =>
      TI (match select_mode (of_bool (tnth a 0)) (of_bool (tnth a 1)) (of_bool (tnth a 2)) (of_nat_t (tnth a 3)) with
          | MSeq => 0%Z | MThreads => 1%Z | MProcs => 2%Z | MProcsFixed => 3%Z end)
  (* FN 244 par_outnames : names -> names *)
  | 244%Z => TL (map t_bytes (outnames (map of_bytes (of_TL a))))
  (* FN 245 par_two : (sched workersA workersB nouts) -> (outs resultA resultB finished) *)
  | 245%Z =>
      let wa := of_workers (tnth a 1) in
      let wb := of_workers (tnth a 2) in
      let s := run (of_sched (tnth a 0)) (init none_map (wa ++ wb)) in
      TL [t_outs (of_nat_t (tnth a 3)) (s_out s);
          t_unit_res (result_of (chan_of 0 (length wa) (s_chan s)));
          t_unit_res (result_of (chan_of (length wa) (length wa + length wb) (s_chan s)));
          t_bool (finished s)]
  (* FN 246 par_seq_sched : workers -> sched *)
  | 246%Z => TL (map t_nat (seq_sched (of_workers a)))
  | _ => TL [TI (-2)%Z]
  end.
