(* Comp.v -- model of py7zr.compressor.SevenZipCompressor.compress / flush /
   unpacksizes (compressor.py l.893-935) and of the write session that
   Worker.archive / Worker.writestr / Worker.flush_archive run on it
   (py7zr.py l.1533-1593).

   Part 1 "Model"  : all definitions (computable; extracted and run against Python).
   Part 2 "Proofs" : the packed stream is the composition of the stages' stream
                     encoders applied to the concatenation of the members
                     (compress_chain); insize / crc / foutsize / packsize / digest /
                     _unpacksizes bookkeeping (sizes_and_crcs, session_bookkeeping);
                     totality (no IndexError, the block loop terminates);
                     the `unpacksizes` property and the decompressor's mirror of it.
   The stage encoders are ABSTRACT (Section variables cstep / cflush); what is
   assumed of them is the stream-encoder contract [enc_contract]; it is shown
   satisfiable by the toy stages at the end of the file, and by the AES residue
   machine of Aes.v in RoundTrip.v.  stdlib only; no axioms. *)
From P7 Require Import Prelude Crc32 Decomp.
From Coq Require Import ZifyBool.

(* ===================================================================== *)
(*                              PART 1 : MODEL                           *)
(* ===================================================================== *)

(* ---- fd.read(n) on the member's source ------------------------------- *)
(* n < 0 reads everything (io semantics); a short read returns at least one
   byte unless the source is exhausted (an empty result means EOF to the
   loop below).  k is the element of the read schedule. *)
Definition fd_read (avail : bytes) (n : Z) (k : nat) : bytes * bytes :=
  let m := if n <? 0 then Nat.max 1 k else Nat.min (Z.to_nat n) (Nat.max 1 k) in
  (firstn m avail, skipn m avail).

(* next element of the read schedule; an exhausted schedule means full reads *)
Definition fd_hd (sched : list nat) (avail : bytes) : nat :=
  match sched with k :: _ => k | [] => length avail end.

Section CChain.

  (* one element of self.chain: compress(data) and flush() *)
  Variable cst : Type.
  Variable cstep : cst -> bytes -> cst * bytes.
  Variable cflush : cst -> cst * bytes.

  Record cstate : Type := mkC {
    cstages   : list cst;   (* self.chain                                   *)
    cunpack   : list Z;     (* self._unpacksizes                            *)
    cdigest   : Z;          (* self.digest                                  *)
    cpacksize : Z;          (* self.packsize                                *)
    cblock    : Z;          (* self._block_size                             *)
    cout      : bytes       (* everything fp.write() received, in order     *)
  }.

  (* for i, compressor in enumerate(self.chain):
         self._unpacksizes[i] += len(data); data = compressor.compress(data)
     an index missing in _unpacksizes is IndexError -> Err EOther; entries of
     _unpacksizes beyond len(chain) stay untouched. *)
  Fixpoint pipe (ss : list cst) (us : list Z) (data : bytes)
    : res (list cst * list Z * bytes) :=
    match ss with
    | [] => Ok ([], us, data)
    | s :: ss' =>
      match us with
      | u :: us' =>
        let '(s', out) := cstep s data in
        do r <- pipe ss' us' out;
        let '(ss'', us'', d) := r in
        Ok (s' :: ss'', (u + zlen data) :: us'', d)
      | [] => Err EOther
      end
    end.

  (* body of `while data:` (l.897-907); [data] is the block already read *)
  Fixpoint comp_loop (fuel : nat) (st : cstate) (data fd : bytes) (sched : list nat)
           (insize foutsize crc : Z) : res (cstate * bytes * (Z * Z * Z)) :=
    if zlen data =? 0 then Ok (st, fd, (insize, foutsize, crc))
    else
      match fuel with
      | O => Err EFuel
      | S fuel' =>
        let crc1 := crc32_update crc data in
        do r <- pipe (cstages st) (cunpack st) data;
        let '(ss, us, out) := r in
        let st1 := mkC ss us (crc32_update (cdigest st) out) (cpacksize st + zlen out)
                       (cblock st) (cout st ++ out) in
        let '(data', fd') := fd_read fd (cblock st) (fd_hd sched fd) in
        comp_loop fuel' st1 data' fd' (tl sched) (insize + zlen data') (foutsize + zlen out) crc1
      end.

  (* SevenZipCompressor.compress(fd, fp, crc) -> (insize, foutsize, crc);
     result: new state, unread rest of fd, the returned triple *)
  Definition compress (fuel : nat) (st : cstate) (fd : bytes) (sched : list nat) (crc : Z)
    : res (cstate * bytes * (Z * Z * Z)) :=
    let '(data, fd') := fd_read fd (cblock st) (fd_hd sched fd) in
    comp_loop fuel st data fd' (tl sched) (zlen data) 0 crc.

  (* the loop of flush (l.911-918); [data] = None is Python's None.
     `if data:` is true for a non-empty bytes object only. *)
  Fixpoint flush_pipe (ss : list cst) (us : list Z) (data : option bytes)
    : res (list cst * list Z * option bytes) :=
    match ss with
    | [] => Ok ([], us, data)
    | s :: ss' =>
      match data with
      | Some (b :: d') =>
        let d := b :: d' in
        match us with
        | u :: us' =>
          let '(s1, o1) := cstep s d in
          let '(s2, o2) := cflush s1 in
          do r <- flush_pipe ss' us' (Some (o1 ++ o2));
          let '(ss'', us'', dd) := r in
          Ok (s2 :: ss'', (u + zlen d) :: us'', dd)
        | [] => Err EOther
        end
      | _ =>
        let '(s2, o2) := cflush s in
        do r <- flush_pipe ss' (tl us) (Some o2);
        let '(ss'', us'', dd) := r in
        Ok (s2 :: ss'', (match us with u :: _ => [u] | [] => [] end) ++ us'', dd)
      end
    end.

  (* SevenZipCompressor.flush(fp) -> number of bytes written *)
  Definition flush (st : cstate) : res (cstate * Z) :=
    do r <- flush_pipe (cstages st) (cunpack st) None;
    let '(ss, us, d) := r in
    match d with
    | None => Ok (mkC ss us (cdigest st) (cpacksize st) (cblock st) (cout st), 0)
    | Some data =>
      Ok (mkC ss us (crc32_update (cdigest st) data) (cpacksize st + zlen data)
              (cblock st) (cout st ++ data), zlen data)
    end.

  (* state right after SevenZipCompressor.__init__ *)
  Definition cinit (ss : list cst) (bsz : Z) : cstate :=
    mkC ss (map (fun _ => 0) ss) 0 0 bsz [].

  (* One write session on one folder: Worker.archive -> writestr -> compress for
     every member in order (each member = its bytes and the read schedule of its
     source), then SevenZipFile.close -> flush_archive -> flush.
     Result: final state, the (insize, foutsize, crc) recorded per member by
     _after_write, and what flush returned. *)
  Fixpoint members_loop (fuel : nat) (st : cstate) (ms : list (bytes * list nat))
    : res (cstate * list (Z * Z * Z)) :=
    match ms with
    | [] => Ok (st, [])
    | (content, sched) :: ms' =>
      do r <- compress fuel st content sched 0;
      let '(st1, _, info) := r in
      do r' <- members_loop fuel st1 ms';
      let '(st2, infos) := r' in
      Ok (st2, info :: infos)
    end.

  Definition write_session (fuel : nat) (st : cstate) (ms : list (bytes * list nat))
    : res (cstate * list (Z * Z * Z) * Z) :=
    do r <- members_loop fuel st ms;
    let '(st1, infos) := r in
    do r' <- flush st1;
    let '(st2, n) := r' in
    Ok (st2, infos, n).

  (* ---- specification-level definitions (Prop; not extracted) -------- *)

  (* run of one encoder stage from s0: fed chunks whose concatenation is cin it is in
     state s and the concatenation of what compress() returned is cout *)
  Inductive ereach (s0 : cst) : cst -> bytes -> bytes -> Prop :=
  | ereach_init : ereach s0 s0 [] []
  | ereach_step : forall s cin cout c,
      ereach s0 s cin cout ->
      ereach s0 (fst (cstep s c)) (cin ++ c) (cout ++ snd (cstep s c)).

  (* runs of a whole chain: stage i's accumulated output is stage i+1's accumulated
     input; [ins] lists every stage's accumulated input *)
  Inductive ecreach : list cst -> list cst -> bytes -> list bytes -> bytes -> Prop :=
  | ecreach_nil : forall x, ecreach [] [] x [] x
  | ecreach_cons : forall s0 s x y s0s ss ins z,
      ereach s0 s x y -> ecreach s0s ss y ins z ->
      ecreach (s0 :: s0s) (s :: ss) x (x :: ins) z.

  (* E s0 x y : "y is an encoding of x by a stage created in state s0" (a relation: the
     bytes a real codec emits may depend on how its input was chunked).
     Echain E s0s x ins z : z is what the chain makes of x, stage by stage; ins lists the
     input stream of every stage. *)
  Inductive Echain (E : cst -> bytes -> bytes -> Prop)
    : list cst -> bytes -> list bytes -> bytes -> Prop :=
  | Echain_nil : forall x, Echain E [] x [] x
  | Echain_cons : forall s t x y ins z,
      E s x y -> Echain E t y ins z -> Echain E (s :: t) x (x :: ins) z.

  (* the same for encoders that are functions of their input stream *)
  Fixpoint Echainf (E : cst -> bytes -> bytes) (s0s : list cst) (x : bytes) : bytes :=
    match s0s with [] => x | s :: t => Echainf E t (E s x) end.
  Fixpoint Einputsf (E : cst -> bytes -> bytes) (s0s : list cst) (x : bytes) : list bytes :=
    match s0s with [] => [] | s :: t => x :: Einputsf E t (E s x) end.

End CChain.

Arguments mkC {cst}.
Arguments cstages {cst}.
Arguments cunpack {cst}.
Arguments cdigest {cst}.
Arguments cpacksize {cst}.
Arguments cblock {cst}.
Arguments cout {cst}.
Arguments pipe {cst}.
Arguments comp_loop {cst}.
Arguments compress {cst}.
Arguments flush_pipe {cst}.
Arguments flush {cst}.
Arguments cinit {cst}.
Arguments members_loop {cst}.
Arguments write_session {cst}.
Arguments ereach {cst}.
Arguments ecreach {cst}.
Arguments Echain {cst}.
Arguments Echainf {cst}.
Arguments Einputsf {cst}.

(* the triple compress() returns / _after_write records: (insize, foutsize, crc) *)
Definition info_in (i : Z * Z * Z) : Z := fst (fst i).
Definition info_out (i : Z * Z * Z) : Z := snd (fst i).
Definition info_crc (i : Z * Z * Z) : Z := snd i.
Fixpoint zsum (l : list Z) : Z := match l with [] => 0 | x :: t => x + zsum t end.
Definition crc_ok (v : Z) : Prop := 0 <= v < 2 ^ 32.

(* ---- the `unpacksizes` property (l.926-935) and its mirror in
        SevenZipDecompressor.__init__ (l.637-642) ------------------------ *)
(* Python list indexing l[i]: negative i counts from the end; out of range is
   IndexError. *)
Definition py_nth (l : list Z) (i : Z) : res Z :=
  let n := Z.of_nat (length l) in
  let j := if i <? 0 then i + n else i in
  if (0 <=? j) && (j <? n) then Ok (nth (Z.to_nat j) l 0) else Err EOther.

(* result = []; shift = 0; prev = False
   for i, r in enumerate(self.methods_map):
       shift += 1 if r and prev else 0; prev = r
       result.insert(0, self._unpacksizes[i - shift]) *)
Fixpoint unpacksizes_loop (mm : list bool) (us : list Z) (i shift : Z) (prev : bool)
         (result : list Z) : res (list Z) :=
  match mm with
  | [] => Ok result
  | r :: mm' =>
    let shift' := shift + (if r && prev then 1 else 0) in
    do v <- py_nth us (i - shift');
    unpacksizes_loop mm' us (i + 1) shift' r (v :: result)
  end.
Definition unpacksizes_prop (mm : list bool) (us : list Z) : res (list Z) :=
  unpacksizes_loop mm us 0 0 false [].

(* shift = 0; prev = False
   for i, r in enumerate(self.methods_map):
       shift += 1 if r and prev else 0; prev = r
       self._unpacksizes.append(unpacksizes[i - shift]) *)
Fixpoint dec_unpacksizes_loop (mm : list bool) (us : list Z) (i shift : Z) (prev : bool)
  : res (list Z) :=
  match mm with
  | [] => Ok []
  | r :: mm' =>
    let shift' := shift + (if r && prev then 1 else 0) in
    do v <- py_nth us (i - shift');
    do rest <- dec_unpacksizes_loop mm' us (i + 1) shift' r;
    Ok (v :: rest)
  end.
Definition dec_unpacksizes (mm : list bool) (us : list Z) : res (list Z) :=
  dec_unpacksizes_loop mm us 0 0 false.

(* ---- toy encoder stages for differential testing ---------------------- *)
(* state = (tag, k, pending).
   tag 0 : copy           -- compress returns its input, flush returns b""
   tag 1 : lagging copy   -- avail = pending ++ input; compress returns all but the
                             last k bytes of avail (k<0 counts as 0) and keeps the
                             rest pending; flush returns what is pending
   tag 2 : expander       -- every input byte twice; flush b""
   tag 3 : hoarder        -- compress returns b"" and keeps everything pending; flush
                             returns it all (a block codec on a small input)
   tag 4 : padder         -- like tag 1 with lag = (len avail) mod k (whole k-byte
                             groups are released, k<=0 counts as 1); flush returns the
                             pending bytes padded with zero bytes to k bytes (nothing
                             if nothing is pending): the AES residue machine without
                             the cipher
   tag 5 : trailer        -- copy; flush returns the single byte k mod 256 (an end
                             marker)
   other : as tag 0 *)
Definition toy_cstep (s : toy_state) (data : bytes) : toy_state * bytes :=
  let '(tag, k, pend) := s in
  if tag =? 1 then
    let avail := pend ++ data in
    let nout := (length avail - Z.to_nat k)%nat in
    ((tag, k, skipn nout avail), firstn nout avail)
  else if tag =? 2 then (s, dup data)
  else if tag =? 3 then ((tag, k, pend ++ data), [])
  else if tag =? 4 then
    let avail := pend ++ data in
    let kk := Z.max 1 k in
    let nout := Z.to_nat (zlen avail - zlen avail mod kk) in
    ((tag, k, skipn nout avail), firstn nout avail)
  else (s, data).

Definition toy_cflush (s : toy_state) : toy_state * bytes :=
  let '(tag, k, pend) := s in
  if (tag =? 1) || (tag =? 3) then ((tag, k, []), pend)
  else if tag =? 4 then
    let kk := Z.max 1 k in
    if zlen pend =? 0 then (s, [])
    else ((tag, k, []), pend ++ repeatZ 0 (Z.to_nat ((- zlen pend) mod kk)))
  else if tag =? 5 then (s, [k mod 256])
  else (s, []).

(* stream denotation of a toy encoder started in state s *)
Definition toy_E (s : toy_state) (x : bytes) : bytes :=
  let '(tag, k, pend) := s in
  if (tag =? 1) || (tag =? 3) then pend ++ x
  else if tag =? 2 then dup x
  else if tag =? 4 then
    let kk := Z.max 1 k in
    let a := pend ++ x in
    a ++ repeatZ 0 (Z.to_nat ((- zlen a) mod kk))
  else if tag =? 5 then x ++ [k mod 256]
  else x.

(* driver entry points *)
Definition t_member (t : tree) : bytes * list nat :=
  (of_bytes (tnth t 0), map (fun x => Z.to_nat (of_TI x)) (of_TL (tnth t 1))).
Definition t_info (i : Z * Z * Z) : tree :=
  let '(a, b, c) := i in TL [TI a; TI b; TI c].
Definition t_cstate (st : cstate toy_state) : tree :=
  TL [TL (map TI (cunpack st)); TI (cdigest st); TI (cpacksize st); t_bytes (cout st);
      TL (map (fun s : toy_state => let '(tag, k, pend) := s in TL [TI tag; TI k; t_bytes pend])
              (cstages st))].

(* args: [fuel; states; block_size; members = [[bytes; sched] ...]]
   result: res [state; infos; flush result] *)
Definition toy_session_t (t : tree) : tree :=
  t_res (fun r : cstate toy_state * list (Z * Z * Z) * Z =>
           let '(st, infos, n) := r in TL [t_cstate st; TL (map t_info infos); TI n])
        (write_session toy_cstep toy_cflush (Z.to_nat (of_TI (tnth t 0)))
                       (cinit (map t_toy_state (of_TL (tnth t 1))) (of_TI (tnth t 2)))
                       (map t_member (of_TL (tnth t 3)))).

(* per-call trace: a list of operations on one compressor object,
   op = [0; bytes; sched; crc] (compress) | [1] (flush);
   result per op: res [insize; foutsize; crc; len(cout)] | res [n; len(cout)];
   after the last op the whole state is appended *)
Fixpoint toy_ops (fuel : nat) (st : cstate toy_state) (ops : list tree) : list tree :=
  match ops with
  | [] => [t_cstate st]
  | op :: ops' =>
    if of_TI (tnth op 0) =? 0 then
      match compress toy_cstep fuel st (of_bytes (tnth op 1))
                     (map (fun x => Z.to_nat (of_TI x)) (of_TL (tnth op 2))) (of_TI (tnth op 3)) with
      | Ok (st', _, (a, b, c)) =>
        TL [TI 0; TL [TI a; TI b; TI c; TI (zlen (cout st'))]] :: toy_ops fuel st' ops'
      | Err e => [TL [TI 1; t_err e]]
      end
    else
      match flush toy_cstep toy_cflush st with
      | Ok (st', n) => TL [TI 0; TL [TI n; TI (zlen (cout st'))]] :: toy_ops fuel st' ops'
      | Err e => [TL [TI 1; t_err e]]
      end
  end.

(* args: [fuel; states; unpacksizes (initial _unpacksizes); block_size; ops] *)
Definition toy_ops_t (t : tree) : tree :=
  let st0 := cinit (map t_toy_state (of_TL (tnth t 1))) (of_TI (tnth t 3)) in
  let st := mkC (cstages st0) (map of_TI (of_TL (tnth t 2))) 0 0 (cblock st0) [] in
  TL (toy_ops (Z.to_nat (of_TI (tnth t 0))) st (of_TL (tnth t 4))).

(* args: [methods_map (0/1 ...); _unpacksizes] *)
Definition unpacksizes_prop_t (t : tree) : tree :=
  t_res (fun l => TL (map TI l))
        (unpacksizes_prop (map of_bool (of_TL (tnth t 0))) (map of_TI (of_TL (tnth t 1)))).
Definition dec_unpacksizes_t (t : tree) : tree :=
  t_res (fun l => TL (map TI l))
        (dec_unpacksizes (map of_bool (of_TL (tnth t 0))) (map of_TI (of_TL (tnth t 1)))).

(* ===================================================================== *)
(*                              PART 2 : PROOFS                          *)
(* ===================================================================== *)

Lemma fd_read_app (avail : bytes) (n : Z) (k : nat) :
  fst (fd_read avail n k) ++ snd (fd_read avail n k) = avail.
Proof. unfold fd_read. simpl. apply firstn_skipn. Qed.

Lemma fd_read_nonempty (avail : bytes) (n : Z) (k : nat) :
  n <> 0 -> avail <> [] -> fst (fd_read avail n k) <> [].
Proof.
  intros Hn Ha. unfold fd_read. cbn [fst].
  destruct avail as [|a avail]; [congruence|].
  destruct (n <? 0) eqn:E.
  - destruct (Nat.max 1 k) eqn:Em; [lia|]. simpl. discriminate.
  - destruct (Nat.min (Z.to_nat n) (Nat.max 1 k)) eqn:Em; [lia|]. simpl. discriminate.
Qed.

Lemma fd_read_nil (n : Z) (k : nat) : fd_read [] n k = ([], []).
Proof. unfold fd_read. now rewrite firstn_nil, skipn_nil. Qed.

Lemma fd_read_rest_length (avail : bytes) (n : Z) (k : nat) :
  n <> 0 -> avail <> [] -> (length (snd (fd_read avail n k)) < length avail)%nat.
Proof.
  intros Hn Ha. pose proof (fd_read_nonempty avail n k Hn Ha) as Hne.
  pose proof (fd_read_app avail n k) as Happ.
  destruct (fd_read avail n k) as [d r]. cbn [fst snd] in *.
  rewrite <- Happ, app_length. destruct d; [congruence|]. simpl. lia.
Qed.

Arguments fd_read : simpl never.

Lemma zlen_0_nil (b : bytes) : zlen b = 0 -> b = [].
Proof. intros H. apply zlen_le0_nil. lia. Qed.

Section CompProofs.

  Variable cst : Type.
  Variable cstep : cst -> bytes -> cst * bytes.
  Variable cflush : cst -> cst * bytes.

  Notation cstt := (cstate cst).


  Lemma ecreach_init (ss : list cst) :
    ecreach cstep ss ss [] (map (fun _ => []) ss) [].
  Proof.
    induction ss as [|s ss IH]; [apply ecreach_nil|].
    simpl. eapply ecreach_cons; [apply ereach_init|exact IH].
  Qed.

  Lemma ecreach_length (s0s ss : list cst) (x : bytes) (ins : list bytes) (z : bytes) :
    ecreach cstep s0s ss x ins z -> length ins = length ss /\ length s0s = length ss.
  Proof. induction 1; simpl; [split; reflexivity|]. destruct IHecreach. split; congruence. Qed.

  (* ---- one block through the chain ----------------------------------- *)
  Lemma pipe_ecreach (s0s ss : list cst) (x : bytes) (ins : list bytes) (z : bytes) :
    ecreach cstep s0s ss x ins z ->
    forall data : bytes,
    exists ss' ins' out,
      pipe cstep ss (map zlen ins) data = Ok (ss', map zlen ins', out) /\
      ecreach cstep s0s ss' (x ++ data) ins' (z ++ out).
  Proof.
    induction 1 as [x|s0 s x y s0s ss ins z Hr Hc IH]; intros data.
    - exists [], [], data. split; [reflexivity|apply ecreach_nil].
    - cbn [map pipe].
      destruct (cstep s data) as [s' o] eqn:Hs.
      destruct (IH o) as (ss' & ins' & out & Hp & Hc').
      exists (s' :: ss'), ((x ++ data) :: ins'), out. split.
      + rewrite Hp. simpl. now rewrite zlen_app.
      + eapply ecreach_cons; [|exact Hc'].
        pose proof (@ereach_step cst cstep s0 s x y data Hr) as Hst.
        rewrite Hs in Hst. exact Hst.
  Qed.

  (* ---- the block loop -------------------------------------------------- *)
  Lemma comp_loop_unfold (fuel : nat) (st : cstt) (data fd : bytes) (sched : list nat)
        (insize foutsize crc : Z) :
    comp_loop cstep fuel st data fd sched insize foutsize crc =
    if zlen data =? 0 then Ok (st, fd, (insize, foutsize, crc))
    else
      match fuel with
      | O => Err EFuel
      | S fuel' =>
        do r <- pipe cstep (cstages st) (cunpack st) data;
        let '(ss, us, out) := r in
        let st1 := mkC ss us (crc32_update (cdigest st) out) (cpacksize st + zlen out)
                       (cblock st) (cout st ++ out) in
        let '(data', fd') := fd_read fd (cblock st) (fd_hd sched fd) in
        comp_loop cstep fuel' st1 data' fd' (tl sched) (insize + zlen data') (foutsize + zlen out)
                  (crc32_update crc data)
      end.
  Proof. destruct fuel; reflexivity. Qed.

  Lemma comp_loop_spec (s0s : list cst) :
    forall (fuel : nat) (st : cstt) (data fd : bytes) (sched : list nat)
           (insize foutsize crc : Z) (X : bytes) (ins : list bytes)
           (st' : cstt) (rest : bytes) (a b c : Z),
      cblock st <> 0 -> (data = [] -> fd = []) ->
      ecreach cstep s0s (cstages st) X ins (cout st) -> cunpack st = map zlen ins ->
      crc_ok crc -> crc_ok (cdigest st) ->
      comp_loop cstep fuel st data fd sched insize foutsize crc = Ok (st', rest, (a, b, c)) ->
      rest = [] /\
      exists ins' w,
        ecreach cstep s0s (cstages st') (X ++ data ++ fd) ins' (cout st') /\
        cunpack st' = map zlen ins' /\
        a = insize + zlen fd /\ c = crc32_update crc (data ++ fd) /\ crc_ok c /\
        cout st' = cout st ++ w /\ b = foutsize + zlen w /\
        cpacksize st' = cpacksize st + zlen w /\
        cdigest st' = crc32_update (cdigest st) w /\ crc_ok (cdigest st') /\
        cblock st' = cblock st.
  Proof.
    induction fuel as [|fuel IH]; intros st data fd sched insize foutsize crc X ins st' rest a b c
                                         Hb Hde Hec Hun Hcrc Hdg H.
    - rewrite comp_loop_unfold in H. destruct (zlen data =? 0) eqn:E; [|discriminate].
      apply Z.eqb_eq, zlen_0_nil in E. subst data. rewrite (Hde eq_refl) in *.
      injection H as <- <- <- <- <-. split; [reflexivity|].
      exists ins, []. rewrite !app_nil_r, zlen_nil.
      repeat split; try assumption; try lia; try apply Hcrc; try apply Hdg.
      + symmetry. apply crc32_update_nil. exact Hcrc.
      + symmetry. apply crc32_update_nil. exact Hdg.
    - rewrite comp_loop_unfold in H. destruct (zlen data =? 0) eqn:E.
      + apply Z.eqb_eq, zlen_0_nil in E. subst data. rewrite (Hde eq_refl) in *.
        injection H as <- <- <- <- <-. split; [reflexivity|].
        exists ins, []. rewrite !app_nil_r, zlen_nil.
        repeat split; try assumption; try lia; try apply Hcrc; try apply Hdg.
        * symmetry. apply crc32_update_nil. exact Hcrc.
        * symmetry. apply crc32_update_nil. exact Hdg.
      + destruct (pipe_ecreach s0s _ X ins _ Hec data) as (ss1 & ins1 & out & Hp & Hec1).
        rewrite Hun, Hp in H. cbn [bind] in H.
        destruct (fd_read fd (cblock st) (fd_hd sched fd)) as [data' fd'] eqn:Hrd.
        pose proof (fd_read_app fd (cblock st) (fd_hd sched fd)) as Happ.
        rewrite Hrd in Happ. cbn [fst snd] in Happ.
        assert (Hde' : data' = [] -> fd' = []).
        { intros ->. destruct fd as [|f fd0]; [rewrite fd_read_nil in Hrd; congruence|].
          exfalso. pose proof (fd_read_nonempty (f :: fd0) (cblock st) (fd_hd sched (f :: fd0)) Hb) as Hne.
          rewrite Hrd in Hne. apply Hne; [discriminate|reflexivity]. }
        set (st1 := mkC ss1 (map zlen ins1) (crc32_update (cdigest st) out) (cpacksize st + zlen out)
                        (cblock st) (cout st ++ out)) in H.
        assert (Hdg1 : crc_ok (cdigest st1)) by (apply crc32_update_range; exact Hdg).
        assert (Hcrc1 : crc_ok (crc32_update crc data)) by (apply crc32_update_range; exact Hcrc).
        destruct (IH st1 data' fd' (tl sched) _ _ _ (X ++ data) ins1 st' rest a b c
                     Hb Hde' Hec1 eq_refl Hcrc1 Hdg1 H)
          as (Hrest & ins' & w & Hec' & Hun' & Ha & Hc & Hcok & Hco & Hbq & Hps & Hdg' & Hdgok & Hbs).
        split; [exact Hrest|]. exists ins', (out ++ w).
        cbn [st1 cout cpacksize cdigest cblock] in *.
        rewrite <- Happ.
        repeat split; try assumption; try apply Hcok; try apply Hdgok.
        * rewrite <- app_assoc in Hec'. exact Hec'.
        * rewrite zlen_app. lia.
        * rewrite Hc. symmetry. apply crc32_update_app. exact Hcrc.
        * rewrite Hco. now rewrite app_assoc.
        * rewrite zlen_app. lia.
        * rewrite zlen_app. lia.
        * rewrite Hdg'. symmetry. apply crc32_update_app. exact Hdg.
  Qed.

  (* what one call of compress() does *)
  Lemma compress_spec (s0s : list cst) (fuel : nat) (st st' : cstt) (content rest : bytes)
        (sched : list nat) (crc a b c : Z) (X : bytes) (ins : list bytes) :
    cblock st <> 0 ->
    ecreach cstep s0s (cstages st) X ins (cout st) -> cunpack st = map zlen ins ->
    crc_ok crc -> crc_ok (cdigest st) ->
    compress cstep fuel st content sched crc = Ok (st', rest, (a, b, c)) ->
    rest = [] /\
    exists ins' w,
      ecreach cstep s0s (cstages st') (X ++ content) ins' (cout st') /\
      cunpack st' = map zlen ins' /\
      a = zlen content /\ c = crc32_update crc content /\
      cout st' = cout st ++ w /\ b = zlen w /\
      cpacksize st' = cpacksize st + zlen w /\
      cdigest st' = crc32_update (cdigest st) w /\ crc_ok (cdigest st') /\
      cblock st' = cblock st.
  Proof.
    intros Hb Hec Hun Hcrc Hdg H. unfold compress in H.
    destruct (fd_read content (cblock st) (fd_hd sched content)) as [data fd'] eqn:Hrd.
    pose proof (fd_read_app content (cblock st) (fd_hd sched content)) as Happ.
    rewrite Hrd in Happ. cbn [fst snd] in Happ.
    assert (Hde : data = [] -> fd' = []).
    { intros ->. destruct content as [|f fd0]; [rewrite fd_read_nil in Hrd; congruence|].
      exfalso. pose proof (fd_read_nonempty (f :: fd0) (cblock st) (fd_hd sched (f :: fd0)) Hb) as Hne.
      rewrite Hrd in Hne. apply Hne; [discriminate|reflexivity]. }
    destruct (comp_loop_spec s0s fuel st data fd' (tl sched) _ _ _ X ins st' rest a b c
                             Hb Hde Hec Hun Hcrc Hdg H)
      as (Hrest & ins' & w & Hec' & Hun' & Ha & Hc & _ & Hco & Hbq & Hps & Hdg' & Hdgok & Hbs).
    split; [exact Hrest|]. exists ins', w. rewrite Happ in *.
    repeat split; try assumption; try apply Hdgok.
    rewrite Ha, <- Happ, zlen_app. lia.
  Qed.

  (* the block loop terminates and raises nothing *)
  Lemma comp_loop_total (s0s : list cst) :
    forall (fuel : nat) (st : cstt) (data fd : bytes) (sched : list nat)
           (insize foutsize crc : Z) (X : bytes) (ins : list bytes),
      cblock st <> 0 -> (length fd < fuel)%nat ->
      ecreach cstep s0s (cstages st) X ins (cout st) -> cunpack st = map zlen ins ->
      exists r, comp_loop cstep fuel st data fd sched insize foutsize crc = Ok r.
  Proof.
    induction fuel as [|fuel IH]; intros st data fd sched insize foutsize crc X ins Hb Hf Hec Hun;
      [lia|].
    rewrite comp_loop_unfold. destruct (zlen data =? 0) eqn:E; [eexists; reflexivity|].
    destruct (pipe_ecreach s0s _ X ins _ Hec data) as (ss1 & ins1 & out & Hp & Hec1).
    rewrite Hun, Hp. cbn [bind].
    destruct (fd_read fd (cblock st) (fd_hd sched fd)) as [data' fd'] eqn:Hrd.
    destruct fd as [|f fd0].
    - rewrite fd_read_nil in Hrd. injection Hrd as <- <-.
      rewrite comp_loop_unfold. change (zlen [] =? 0) with true. cbv iota. eexists; reflexivity.
    - pose proof (fd_read_rest_length (f :: fd0) (cblock st) (fd_hd sched (f :: fd0)) Hb) as Hl.
      rewrite Hrd in Hl. cbn [snd] in Hl.
      eapply (IH _ data' fd' (tl sched) _ _ _ (X ++ data) ins1); cbn [cblock cstages cout cunpack].
      + exact Hb.
      + assert (f :: fd0 <> []) by discriminate. specialize (Hl H). simpl in *. lia.
      + exact Hec1.
      + reflexivity.
  Qed.

  Lemma compress_total (s0s : list cst) (fuel : nat) (st : cstt) (content : bytes)
        (sched : list nat) (crc : Z) (X : bytes) (ins : list bytes) :
    cblock st <> 0 -> (length content < fuel)%nat ->
    ecreach cstep s0s (cstages st) X ins (cout st) -> cunpack st = map zlen ins ->
    exists r, compress cstep fuel st content sched crc = Ok r.
  Proof.
    intros Hb Hf Hec Hun. unfold compress.
    destruct (fd_read content (cblock st) (fd_hd sched content)) as [data fd'] eqn:Hrd.
    pose proof (fd_read_app content (cblock st) (fd_hd sched content)) as Happ.
    rewrite Hrd in Happ. cbn [fst snd] in Happ.
    eapply comp_loop_total; try eassumption.
    rewrite <- Happ, app_length in Hf. lia.
  Qed.

  (* ---- all members of a session ---------------------------------------- *)
  Lemma members_loop_spec (s0s : list cst) (fuel : nat) :
    forall (ms : list (bytes * list nat)) (st st' : cstt) (infos : list (Z * Z * Z))
           (X : bytes) (ins : list bytes),
      cblock st <> 0 ->
      ecreach cstep s0s (cstages st) X ins (cout st) -> cunpack st = map zlen ins ->
      crc_ok (cdigest st) ->
      members_loop cstep fuel st ms = Ok (st', infos) ->
      exists ins' w,
        ecreach cstep s0s (cstages st') (X ++ concat (map fst ms)) ins' (cout st') /\
        cunpack st' = map zlen ins' /\
        map info_in infos = map (fun m => zlen (fst m)) ms /\
        map info_crc infos = map (fun m => crc32 (fst m)) ms /\
        cout st' = cout st ++ w /\ zsum (map info_out infos) = zlen w /\
        cpacksize st' = cpacksize st + zlen w /\
        cdigest st' = crc32_update (cdigest st) w /\ crc_ok (cdigest st') /\
        cblock st' = cblock st.
  Proof.
    induction ms as [|[content sched] ms IH]; intros st st' infos X ins Hb Hec Hun Hdg H.
    - simpl in H. injection H as <- <-. exists ins, []. simpl. rewrite !app_nil_r, zlen_nil.
      repeat split; try assumption; try lia; try apply Hdg.
      symmetry. apply crc32_update_nil. exact Hdg.
    - cbn [members_loop] in H.
      destruct (compress cstep fuel st content sched 0) as [[[st1 rest] [[a b] c]]|e] eqn:Hc;
        [|discriminate]. cbn [bind] in H.
      destruct (members_loop cstep fuel st1 ms) as [[st2 infos2]|e] eqn:Hm; [|discriminate].
      cbn [bind] in H. injection H as <- <-.
      assert (H0 : crc_ok 0) by (unfold crc_ok; lia).
      destruct (compress_spec s0s fuel st st1 content rest sched 0 a b c X ins Hb Hec Hun H0 Hdg Hc)
        as (_ & ins1 & w1 & Hec1 & Hun1 & Ha & Hcc & Hco1 & Hb1 & Hps1 & Hdg1 & Hdgok1 & Hbs1).
      assert (Hb' : cblock st1 <> 0) by (rewrite Hbs1; exact Hb).
      destruct (IH st1 st2 infos2 (X ++ content) ins1 Hb' Hec1 Hun1 Hdgok1 Hm)
        as (ins2 & w2 & Hec2 & Hun2 & Hin & Hcr & Hco2 & Hs2 & Hps2 & Hdg2 & Hdgok2 & Hbs2).
      exists ins2, (w1 ++ w2). cbn [map concat fst].
      repeat split; try assumption; try apply Hdgok2.
      + rewrite app_assoc. exact Hec2.
      + cbn [info_in fst]. rewrite Ha, Hin. reflexivity.
      + cbn [info_crc snd]. rewrite Hcc, Hcr. reflexivity.
      + rewrite Hco2, Hco1. now rewrite app_assoc.
      + cbn [zsum info_out fst snd]. rewrite zlen_app. lia.
      + rewrite zlen_app. lia.
      + rewrite Hdg2, Hdg1. symmetry. apply crc32_update_app. exact Hdg.
      + congruence.
  Qed.

  (* ---- flush, under the stream-encoder contract -------------------------- *)
  Section Contract.
    (* the stream-encoder contract: whatever the chunking, the outputs of compress()
       followed by the output of flush() are an encoding (E s0) of the concatenation of
       the inputs *)
    Variable E : cst -> bytes -> bytes -> Prop.
    (* wf = what the contract may assume of the state a stage is created in (e.g. an
       empty residue buffer) *)
    Variable wf : cst -> Prop.
    Hypothesis enc_contract : forall s0 s cin cout,
        wf s0 -> ereach cstep s0 s cin cout -> E s0 cin (cout ++ snd (cflush s)).

    Definition obytes (d : option bytes) : bytes := match d with Some b => b | None => [] end.

    Lemma flush_pipe_spec (s0s ss : list cst) (x : bytes) (ins : list bytes) (z : bytes) :
      ecreach cstep s0s ss x ins z -> Forall wf s0s ->
      forall d : option bytes,
      exists ss' ins' d',
        flush_pipe cstep cflush ss (map zlen ins) d = Ok (ss', map zlen ins', d') /\
        Echain E s0s (x ++ obytes d) ins' (z ++ obytes d') /\
        (ss <> [] -> d' <> None) /\ (ss = [] -> d' = d).
    Proof.
      induction 1 as [x|s0 s x y s0s ss ins z Hr Hc IH]; intros Hwf d.
      - exists [], [], d. simpl. repeat split; try congruence. apply Echain_nil.
      - inversion Hwf as [|? ? Hwf0 Hwfs]; subst. specialize (IH Hwfs).
        assert (Hcase : (exists b d0, d = Some (b :: d0)) \/ obytes d = []).
        { destruct d as [[|b d0]|]; [right; reflexivity|left; eauto|right; reflexivity]. }
        destruct Hcase as [(b & d0 & ->)|Hd].
        + cbn [flush_pipe map obytes].
          set (dd := b :: d0).
          destruct (cstep s dd) as [s1 o1] eqn:Hs1.
          destruct (cflush s1) as [s2 o2] eqn:Hf.
          pose proof (@ereach_step cst cstep s0 s x y dd Hr) as Hst. rewrite Hs1 in Hst. cbn [fst snd] in Hst.
          pose proof (enc_contract _ _ _ _ Hwf0 Hst) as Hct. rewrite Hf in Hct. cbn [snd] in Hct.
          destruct (IH (Some (o1 ++ o2))) as (ss' & ins' & d' & Hfp & Hz & Hne & _).
          cbn [obytes] in Hfp, Hz. rewrite app_assoc in Hz.
          exists (s2 :: ss'), ((x ++ dd) :: ins'), d'. split; [|split; [|split]].
          * rewrite Hfp. cbn [bind map]. now rewrite zlen_app.
          * eapply Echain_cons; [exact Hct|exact Hz].
          * intros _. destruct ss as [|s' ss0].
            -- inversion Hc; subst. simpl in Hfp. injection Hfp as _ _ <-. discriminate.
            -- apply Hne. discriminate.
          * discriminate.
        + assert (Hfl : flush_pipe cstep cflush (s :: ss) (map zlen (x :: ins)) d
                        = let '(s2, o2) := cflush s in
                          do r <- flush_pipe cstep cflush ss (map zlen ins) (Some o2);
                          let '(ss'', us'', dd) := r in Ok (s2 :: ss'', zlen x :: us'', dd)).
          { destruct d as [[|b d0]|]; try reflexivity. discriminate Hd. }
          rewrite Hfl, Hd, app_nil_r. clear Hfl.
          destruct (cflush s) as [s2 o2] eqn:Hf.
          pose proof (enc_contract _ _ _ _ Hwf0 Hr) as Hct. rewrite Hf in Hct. cbn [snd] in Hct.
          destruct (IH (Some o2)) as (ss' & ins' & d' & Hfp & Hz & Hne & _).
          cbn [obytes] in Hfp, Hz.
          exists (s2 :: ss'), (x :: ins'), d'. split; [|split; [|split]].
          * rewrite Hfp. reflexivity.
          * eapply Echain_cons; [exact Hct|exact Hz].
          * intros _. destruct ss as [|s' ss0].
            -- inversion Hc; subst. simpl in Hfp. injection Hfp as _ _ <-. discriminate.
            -- apply Hne. discriminate.
          * discriminate.
    Qed.

    Lemma flush_spec (s0s : list cst) (st st' : cstt) (n : Z) (X : bytes) (ins : list bytes) :
      Forall wf s0s ->
      ecreach cstep s0s (cstages st) X ins (cout st) -> cunpack st = map zlen ins ->
      crc_ok (cdigest st) ->
      flush cstep cflush st = Ok (st', n) ->
      exists w ins',
        cout st' = cout st ++ w /\ Echain E s0s X ins' (cout st') /\ n = zlen w /\
        cunpack st' = map zlen ins' /\
        cpacksize st' = cpacksize st + zlen w /\
        cdigest st' = crc32_update (cdigest st) w /\ cblock st' = cblock st.
    Proof.
      intros Hwf Hec Hun Hdg H. unfold flush in H. rewrite Hun in H.
      destruct (flush_pipe_spec s0s _ X ins _ Hec Hwf None) as (ss' & ins' & d' & Hfp & Hz & _ & _).
      rewrite Hfp in H. cbn [bind obytes] in H, Hz. rewrite app_nil_r in *.
      destruct d' as [data|]; injection H as <- <-; cbn [cout cunpack cpacksize cdigest cblock obytes] in *.
      - exists data, ins'. repeat split; try assumption; reflexivity.
      - exists [], ins'. rewrite app_nil_r in *. rewrite zlen_nil.
        repeat split; try assumption; try lia. symmetry. apply crc32_update_nil. exact Hdg.
    Qed.

    Lemma flush_total (s0s : list cst) (st : cstt) (X : bytes) (ins : list bytes) :
      Forall wf s0s ->
      ecreach cstep s0s (cstages st) X ins (cout st) -> cunpack st = map zlen ins ->
      exists r, flush cstep cflush st = Ok r.
    Proof.
      intros Hwf Hec Hun. unfold flush. rewrite Hun.
      destruct (flush_pipe_spec s0s _ X ins _ Hec Hwf None) as (ss' & ins' & d' & Hfp & _).
      rewrite Hfp. cbn [bind]. destruct d'; eexists; reflexivity.
    Qed.

    (* ==== THE PACKED STREAM ============================================== *)
    (* for every block size (<> 0), every read schedule of every member's source, every
       number of members and every fuel: if the session returns at all, the bytes written
       to the archive are an encoding by the chain, stage after stage, of the concatenation
       of the members' bytes *)
    Theorem compress_chain (s0s : list cst) (bsz : Z) (fuel : nat)
            (ms : list (bytes * list nat)) (st : cstt) (infos : list (Z * Z * Z)) (n : Z) :
      Forall wf s0s -> bsz <> 0 ->
      write_session cstep cflush fuel (cinit s0s bsz) ms = Ok (st, infos, n) ->
      exists ins, Echain E s0s (concat (map fst ms)) ins (cout st).
    Proof.
      intros Hwf Hb H. unfold write_session in H.
      destruct (members_loop cstep fuel (cinit s0s bsz) ms) as [[st1 infos1]|e] eqn:Hm; [|discriminate].
      cbn [bind] in H.
      destruct (flush cstep cflush st1) as [[st2 n2]|e] eqn:Hf; [|discriminate].
      cbn [bind] in H. injection H as <- <- <-.
      assert (H0 : crc_ok 0) by (unfold crc_ok; lia).
      destruct (members_loop_spec s0s fuel ms (cinit s0s bsz) st1 infos1 [] _
                  Hb (ecreach_init s0s) (eq_sym (map_map _ _ _)) H0 Hm)
        as (ins1 & w1 & Hec1 & Hun1 & _ & _ & _ & _ & _ & _ & Hdg1 & _).
      destruct (flush_spec s0s st1 st2 n2 _ ins1 Hwf Hec1 Hun1 Hdg1 Hf) as (w & ins' & _ & Hz & _).
      exists ins'. exact Hz.
    Qed.

    (* ==== SIZES AND CRCS ================================================== *)
    (* what _after_write / flush_archive record in the header: per member the length and
       the CRC-32 of its bytes; for the folder the pack size and the CRC-32 of the packed
       stream; per stage the length of its input stream (_unpacksizes); the per-member
       foutsize values and the flush result add up to the pack size *)
    Theorem sizes_and_crcs (s0s : list cst) (bsz : Z) (fuel : nat)
            (ms : list (bytes * list nat)) (st : cstt) (infos : list (Z * Z * Z)) (n : Z) :
      Forall wf s0s -> bsz <> 0 ->
      write_session cstep cflush fuel (cinit s0s bsz) ms = Ok (st, infos, n) ->
      map info_in infos = map (fun m => zlen (fst m)) ms /\
      map info_crc infos = map (fun m => crc32 (fst m)) ms /\
      cpacksize st = zlen (cout st) /\
      cdigest st = crc32 (cout st) /\
      zsum (map info_out infos) + n = cpacksize st /\
      exists ins, Echain E s0s (concat (map fst ms)) ins (cout st) /\ cunpack st = map zlen ins.
    Proof.
      intros Hwf Hb H. unfold write_session in H.
      destruct (members_loop cstep fuel (cinit s0s bsz) ms) as [[st1 infos1]|e] eqn:Hm; [|discriminate].
      cbn [bind] in H.
      destruct (flush cstep cflush st1) as [[st2 n2]|e] eqn:Hf; [|discriminate].
      cbn [bind] in H. injection H as <- <- <-.
      assert (H0 : crc_ok 0) by (unfold crc_ok; lia).
      destruct (members_loop_spec s0s fuel ms (cinit s0s bsz) st1 infos1 [] _
                  Hb (ecreach_init s0s) (eq_sym (map_map _ _ _)) H0 Hm)
        as (ins1 & w1 & Hec1 & Hun1 & Hin & Hcr & Hco1 & Hs1 & Hps1 & Hdg1 & Hdgok1 & _).
      destruct (flush_spec s0s st1 st2 n2 _ ins1 Hwf Hec1 Hun1 Hdgok1 Hf)
        as (w & ins2 & Hco2 & Hz2 & Hn & Hun2 & Hps2 & Hdg2 & _).
      cbn [cinit cout cpacksize cdigest] in *. simpl in Hco1.
      split; [exact Hin|]. split; [exact Hcr|].
      split; [rewrite Hco2, Hco1, zlen_app; lia|].
      split; [rewrite Hdg2, Hdg1, Hco2, Hco1; unfold crc32; symmetry; apply crc32_update_app; exact H0|].
      split; [rewrite Hs1; lia|]. exists ins2. split; [exact Hz2|exact Hun2].
    Qed.

    (* the session raises nothing and its block loops terminate *)
    Theorem write_session_total (s0s : list cst) (bsz : Z) (fuel : nat)
            (ms : list (bytes * list nat)) :
      Forall wf s0s -> bsz <> 0 -> Forall (fun m => (length (fst m) < fuel)%nat) ms ->
      exists r, write_session cstep cflush fuel (cinit s0s bsz) ms = Ok r.
    Proof.
      intros Hwf Hb Hf.
      assert (H0 : crc_ok 0) by (unfold crc_ok; lia).
      assert (Hgen : forall (ms : list (bytes * list nat)) (st : cstt) X ins,
                 Forall (fun m => (length (fst m) < fuel)%nat) ms ->
                 cblock st <> 0 -> ecreach cstep s0s (cstages st) X ins (cout st) ->
                 cunpack st = map zlen ins -> crc_ok (cdigest st) ->
                 exists r, members_loop cstep fuel st ms = Ok r).
      { clear ms Hf. induction ms as [|[content sched] ms IH]; intros st X ins Hfa Hbs Hec Hun Hdg.
        - eexists; reflexivity.
        - inversion Hfa as [|? ? Hlt Hfa']; subst. cbn [fst] in Hlt. cbn [members_loop].
          destruct (compress_total s0s fuel st content sched 0 X ins Hbs Hlt Hec Hun)
            as ([[st1 rest] [[a b] c]] & Hc).
          rewrite Hc. cbn [bind].
          destruct (compress_spec s0s fuel st st1 content rest sched 0 a b c X ins Hbs Hec Hun H0 Hdg Hc)
            as (_ & ins1 & w1 & Hec1 & Hun1 & _ & _ & _ & _ & _ & _ & Hdgok1 & Hbs1).
          assert (Hb' : cblock st1 <> 0) by (rewrite Hbs1; exact Hbs).
          destruct (IH st1 _ ins1 Hfa' Hb' Hec1 Hun1 Hdgok1) as ([st2 infos2] & Hm).
          rewrite Hm. eexists; reflexivity. }
      destruct (Hgen ms (cinit s0s bsz) [] _ Hf Hb (ecreach_init s0s) (eq_sym (map_map _ _ _)) H0)
        as ([st1 infos1] & Hm).
      unfold write_session. rewrite Hm. cbn [bind].
      destruct (members_loop_spec s0s fuel ms (cinit s0s bsz) st1 infos1 [] _
                  Hb (ecreach_init s0s) (eq_sym (map_map _ _ _)) H0 Hm)
        as (ins1 & w1 & Hec1 & Hun1 & _).
      destruct (flush_total s0s st1 _ ins1 Hwf Hec1 Hun1) as ([st2 n2] & Hfl).
      rewrite Hfl. eexists; reflexivity.
    Qed.

  End Contract.

  (* encoders that are functions of their input stream *)
  Lemma Echain_fun (f : cst -> bytes -> bytes) (s0s : list cst) (x : bytes) (ins : list bytes) (z : bytes) :
    Echain (fun s a b => b = f s a) s0s x ins z -> z = Echainf f s0s x /\ ins = Einputsf f s0s x.
  Proof.
    induction 1 as [x|s t x y ins z Hs Hc [IH1 IH2]]; [split; reflexivity|].
    subst y. cbn [Echainf Einputsf]. split; [exact IH1|now rewrite IH2].
  Qed.

End CompProofs.

(* ---- non-vacuity: the toy encoder stages satisfy the contract -------------- *)
Lemma zlen_repeatZ (x : Z) (n : nat) : zlen (repeatZ x n) = Z.of_nat n.
Proof. unfold zlen. induction n as [|n IH]; simpl; [reflexivity|]. lia. Qed.

Lemma zlen_firstn_le (n : nat) (l : bytes) : (n <= length l)%nat -> zlen (firstn n l) = Z.of_nat n.
Proof. intros H. unfold zlen. rewrite firstn_length. lia. Qed.

Lemma neg_mod_shift (a b kk : Z) : 0 < kk -> a mod kk = 0 -> (- (a + b)) mod kk = (- b) mod kk.
Proof.
  intros Hk Ha. apply Z.mod_divide in Ha; [|lia]. destruct Ha as [q ->].
  replace (- (q * kk + b)) with (- b + (- q) * kk) by lia. apply Z_mod_plus_full.
Qed.

Lemma toy_ereach_inv (s0 s : toy_state) (cin cout : bytes) :
  ereach toy_cstep s0 s cin cout ->
  fst (fst s) = fst (fst s0) /\ snd (fst s) = snd (fst s0) /\
  (let tag := fst (fst s0) in let k := snd (fst s0) in
   if (tag =? 1) || (tag =? 3) then snd s0 ++ cin = cout ++ snd s
   else if tag =? 2 then cout = dup cin /\ snd s = snd s0
   else if tag =? 4 then snd s0 ++ cin = cout ++ snd s /\ zlen cout mod (Z.max 1 k) = 0
   else cout = cin /\ snd s = snd s0).
Proof.
  induction 1 as [|s cin cout c Hr (IHt & IHk & IH)].
  - split; [reflexivity|]. split; [reflexivity|]. cbv zeta.
    destruct ((fst (fst s0) =? 1) || (fst (fst s0) =? 3)); [now rewrite app_nil_r|].
    destruct (fst (fst s0) =? 2); [split; reflexivity|].
    destruct (fst (fst s0) =? 4); [|split; reflexivity].
    split; [now rewrite app_nil_r|]. apply Z.mod_0_l. lia.
  - destruct s as [[t k] p]. destruct s0 as [[t0 k0] p0].
    cbn [fst snd] in IHt, IHk, IH |- *. subst t k. cbv zeta in IH |- *.
    unfold toy_cstep.
    destruct (t0 =? 1) eqn:E1.
    + cbn [orb] in IH |- *. cbv zeta. cbn [fst snd].
      split; [reflexivity|]. split; [reflexivity|].
      rewrite <- app_assoc, firstn_skipn, !app_assoc, IH. reflexivity.
    + destruct (t0 =? 2) eqn:E2.
      * assert (E3 : (t0 =? 3) = false) by lia. rewrite E3 in IH |- *. cbn [orb] in IH |- *.
        cbn [fst snd]. destruct IH as [-> ->].
        split; [reflexivity|]. split; [reflexivity|]. split; [symmetry; apply dup_app|reflexivity].
      * destruct (t0 =? 3) eqn:E3.
        -- cbn [orb] in IH |- *. cbn [fst snd].
           split; [reflexivity|]. split; [reflexivity|].
           rewrite app_nil_r, !app_assoc, IH. reflexivity.
        -- cbn [orb] in IH |- *. destruct (t0 =? 4) eqn:E4.
           ++ cbv zeta. cbn [fst snd]. destruct IH as [IH Hm].
              split; [reflexivity|]. split; [reflexivity|].
              set (avail := p ++ c). set (kk := Z.max 1 k0) in *.
              assert (Hkk : 0 < kk) by (subst kk; lia).
              pose proof (zlen_nonneg avail) as Hav.
              pose proof (Z.mod_pos_bound (zlen avail) kk Hkk) as Hmb.
              pose proof (Z.mod_le (zlen avail) kk Hav Hkk) as Hml.
              set (nout := Z.to_nat (zlen avail - zlen avail mod kk)).
              assert (Hn : (nout <= length avail)%nat) by (subst nout; unfold zlen in *; lia).
              split.
              ** rewrite <- app_assoc, firstn_skipn. subst avail. rewrite !app_assoc, IH. reflexivity.
              ** rewrite zlen_app, (zlen_firstn_le nout avail Hn). subst nout.
                 rewrite Z2Nat.id by lia.
                 rewrite Z.add_mod, Hm by lia.
                 rewrite (Z.div_mod (zlen avail) kk) at 1 by lia.
                 replace (kk * (zlen avail / kk) + zlen avail mod kk - zlen avail mod kk)
                   with ((zlen avail / kk) * kk) by lia.
                 rewrite Z.mod_mul by lia. reflexivity.
           ++ cbn [fst snd]. destruct IH as [-> ->].
              split; [reflexivity|]. split; [reflexivity|]. split; reflexivity.
Qed.

Theorem toy_enc_contract (s0 s : toy_state) (cin cout : bytes) :
  True -> ereach toy_cstep s0 s cin cout -> cout ++ snd (toy_cflush s) = toy_E s0 cin.
Proof.
  intros _ H.  apply toy_ereach_inv in H. destruct H as (Ht & Hk & H).
  destruct s as [[t k] p]. destruct s0 as [[t0 k0] p0].
  cbn [fst snd] in Ht, Hk, H. subst t k. cbv zeta in H.
  unfold toy_cflush, toy_E.
  destruct ((t0 =? 1) || (t0 =? 3)); [cbn [snd]; now rewrite H|].
  destruct (t0 =? 2) eqn:E2.
  { assert (E4 : (t0 =? 4) = false) by lia. assert (E5 : (t0 =? 5) = false) by lia.
    rewrite E4, E5. destruct H as [-> _]. cbn [snd]. now rewrite app_nil_r. }
  destruct (t0 =? 4).
  - destruct H as [H Hm]. set (kk := Z.max 1 k0) in *.
    assert (Hkk : 0 < kk) by (subst kk; lia).
    destruct (zlen p =? 0) eqn:Ep.
    + apply Z.eqb_eq, zlen_0_nil in Ep. subst p. cbn [snd]. rewrite !app_nil_r in *.
      rewrite H. replace ((- zlen cout) mod kk) with 0; [simpl; now rewrite app_nil_r|].
      symmetry. apply Z.mod_opp_l_z; [lia|exact Hm].
    + cbn [snd]. rewrite H, app_assoc, zlen_app.
      rewrite (neg_mod_shift (zlen cout) (zlen p) kk Hkk Hm). reflexivity.
  - destruct H as [-> _]. destruct (t0 =? 5); cbn [snd]; [reflexivity|now rewrite app_nil_r].
Qed.

(* the main theorems instantiated: the Section hypothesis is satisfiable *)
Theorem toy_compress_chain (s0s : list toy_state) (bsz : Z) (fuel : nat)
        (ms : list (bytes * list nat)) (st : cstate toy_state) (infos : list (Z * Z * Z)) (n : Z) :
  bsz <> 0 ->
  write_session toy_cstep toy_cflush fuel (cinit s0s bsz) ms = Ok (st, infos, n) ->
  cout st = Echainf toy_E s0s (concat (map fst ms)).
Proof.
  intros Hb H.
  destruct (compress_chain toy_state toy_cstep toy_cflush (fun s a b => b = toy_E s a) (fun _ => True)
              toy_enc_contract s0s bsz fuel ms st infos n) as (ins & Hc); [|exact Hb|exact H|].
  - apply Forall_forall. intros; exact I.
  - apply Echain_fun in Hc. apply Hc.
Qed.

(* ---- the `unpacksizes` property on the three chain shapes the constructor accepts -- *)
(* all alternative (k stages for k filters): the list reversed *)
Lemma py_nth_ok (l : list Z) (i : nat) : (i < length l)%nat -> py_nth l (Z.of_nat i) = Ok (nth i l 0).
Proof.
  intros H. unfold py_nth.
  destruct (Z.of_nat i <? 0) eqn:E; [lia|].
  replace ((0 <=? Z.of_nat i) && (Z.of_nat i <? Z.of_nat (length l))) with true by lia.
  now rewrite Nat2Z.id.
Qed.

Lemma unpacksizes_loop_alt (n : nat) : forall (us : list Z) (i : nat) (shift : Z) (prev : bool) (acc : list Z),
  (i + n <= length us)%nat ->
  unpacksizes_loop (repeat false n) us (Z.of_nat i) 0 prev acc
  = Ok (rev (firstn n (skipn i us)) ++ acc).
Proof.
  induction n as [|n IH]; intros us i shift prev acc Hl; [reflexivity|].
  cbn [repeat unpacksizes_loop andb]. rewrite Z.add_0_r, Z.sub_0_r.
  rewrite py_nth_ok by lia. cbn [bind].
  replace (Z.of_nat i + 1) with (Z.of_nat (S i)) by lia.
  rewrite (IH us (S i) 0 false) by lia.
  f_equal.
  assert (Hsk : skipn i us = nth i us 0 :: skipn (S i) us).
  { clear - Hl. revert us Hl. induction i as [|i IHi]; intros [|u us] Hl; simpl in *; try lia; [reflexivity|].
    apply IHi. lia. }
  rewrite Hsk. cbn [firstn rev]. now rewrite <- app_assoc.
Qed.

Theorem unpacksizes_all_alternative (us : list Z) :
  unpacksizes_prop (repeat false (length us)) us = Ok (rev us).
Proof.
  unfold unpacksizes_prop.
  pose proof (unpacksizes_loop_alt (length us) us 0 0 false [] ltac:(lia)) as H.
  change (Z.of_nat 0) with 0 in H. rewrite H.
  simpl. now rewrite firstn_all, app_nil_r.
Qed.

Lemma dec_unpacksizes_loop_alt (n : nat) : forall (us : list Z) (i : nat) (prev : bool),
  (i + n <= length us)%nat ->
  dec_unpacksizes_loop (repeat false n) us (Z.of_nat i) 0 prev = Ok (firstn n (skipn i us)).
Proof.
  induction n as [|n IH]; intros us i prev Hl; [reflexivity|].
  cbn [repeat dec_unpacksizes_loop andb]. rewrite Z.add_0_r, Z.sub_0_r.
  rewrite py_nth_ok by lia. cbn [bind].
  replace (Z.of_nat i + 1) with (Z.of_nat (S i)) by lia.
  rewrite (IH us (S i) false) by lia. cbn [bind].
  assert (Hsk : skipn i us = nth i us 0 :: skipn (S i) us).
  { clear - Hl. revert us Hl. induction i as [|i IHi]; intros [|u us] Hl; simpl in *; try lia; [reflexivity|].
    apply IHi. lia. }
  rewrite Hsk. reflexivity.
Qed.

(* ... and SevenZipDecompressor.__init__ turns it into one gate per decoder stage:
   decoder stage j (= encoder stage n-1-j) is gated by the length of that encoder's input *)
Theorem unpacksizes_roundtrip_all_alternative (us : list Z) :
  (do f <- unpacksizes_prop (repeat false (length us)) us;
   dec_unpacksizes (repeat false (length f)) f) = Ok (rev us).
Proof.
  rewrite unpacksizes_all_alternative. cbn [bind]. unfold dec_unpacksizes.
  pose proof (dec_unpacksizes_loop_alt (length (rev us)) (rev us) 0 false ltac:(lia)) as H.
  change (Z.of_nat 0) with 0 in H. rewrite H.
  simpl. now rewrite firstn_all.
Qed.

Lemma repeat_snoc (u : Z) (n : nat) (acc : list Z) : repeat u n ++ u :: acc = u :: repeat u n ++ acc.
Proof. induction n as [|n IHn]; [reflexivity|]. simpl. now rewrite IHn. Qed.

(* all native, k filters in ONE liblzma stage: every coder gets that stage's input size *)
Lemma unpacksizes_loop_native (n : nat) : forall (u : Z) (i : nat) (acc : list Z),
  unpacksizes_loop (repeat true n) [u] (Z.of_nat (S i)) (Z.of_nat i) true acc
  = Ok (repeat u n ++ acc).
Proof.
  induction n as [|n IH]; intros u i acc; [reflexivity|].
  cbn [repeat unpacksizes_loop andb].
  replace (Z.of_nat (S i) - (Z.of_nat i + 1)) with (Z.of_nat 0) by lia.
  rewrite py_nth_ok by (simpl; lia). cbn [bind nth].
  replace (Z.of_nat (S i) + 1) with (Z.of_nat (S (S i))) by lia.
  replace (Z.of_nat i + 1) with (Z.of_nat (S i)) by lia.
  rewrite IH. f_equal. apply repeat_snoc.
Qed.

Theorem unpacksizes_all_native (u : Z) (n : nat) :
  unpacksizes_prop (repeat true (S n)) [u] = Ok (repeat u (S n)).
Proof.
  unfold unpacksizes_prop. cbn [repeat unpacksizes_loop andb].
  change (0 - (0 + 0)) with (Z.of_nat 0). rewrite py_nth_ok by (simpl; lia). cbn [bind nth].
  change (0 + 1) with (Z.of_nat 1). change (0 + 0) with (Z.of_nat 0).
  rewrite unpacksizes_loop_native. f_equal. rewrite repeat_snoc, app_nil_r. reflexivity.
Qed.

(* n native filters in one liblzma stage followed by 7zAES (the only mixed shape the
   constructor accepts): folder.unpacksizes = [AES input size; lzma input size x n] *)
Theorem unpacksizes_native_then_aes (u v : Z) (n : nat) :
  unpacksizes_prop (repeat true (S n) ++ [false]) [u; v] = Ok (v :: repeat u (S n)).
Proof.
  unfold unpacksizes_prop. cbn [repeat app unpacksizes_loop andb].
  change (0 - (0 + 0)) with (Z.of_nat 0). rewrite py_nth_ok by (simpl; lia). cbn [bind nth].
  change (0 + 1) with (Z.of_nat 1). change (0 + 0) with (Z.of_nat 0).
  assert (Hgen : forall (m i : nat) acc,
             unpacksizes_loop (repeat true m ++ [false]) [u; v] (Z.of_nat (S i)) (Z.of_nat i) true acc
             = Ok (v :: repeat u m ++ acc)).
  { induction m as [|m IH]; intros i acc.
    - cbn [repeat app unpacksizes_loop andb]. rewrite Z.add_0_r.
      replace (Z.of_nat (S i) - Z.of_nat i) with (Z.of_nat 1) by lia.
      rewrite py_nth_ok by (simpl; lia). reflexivity.
    - cbn [repeat app unpacksizes_loop andb].
      replace (Z.of_nat (S i) - (Z.of_nat i + 1)) with (Z.of_nat 0) by lia.
      rewrite py_nth_ok by (simpl; lia). cbn [bind nth].
      replace (Z.of_nat (S i) + 1) with (Z.of_nat (S (S i))) by lia.
      replace (Z.of_nat i + 1) with (Z.of_nat (S i)) by lia.
      rewrite IH. do 2 f_equal. apply repeat_snoc. }
  rewrite Hgen. do 2 f_equal. rewrite repeat_snoc, app_nil_r. reflexivity.
Qed.

(* ---- regression vectors (also useful for the Python mirror) ----------------- *)
Example toy_session_ex :
  let '(st, infos, n) :=
      match write_session toy_cstep toy_cflush 20 (cinit [toy_st 1 2 []; toy_st 4 4 []] 3)
                          [([1; 2; 3; 4; 5], [2%nat]); ([], []); ([6; 7], [])] with
      | Ok r => r | Err _ => (cinit [] 0, [], -1) end in
  cout st = [1; 2; 3; 4; 5; 6; 7; 0] /\ cunpack st = [7; 7] /\ cpacksize st = 8 /\ n = 4 /\
  map (fun i => fst (fst i)) infos = [5; 0; 2] /\
  map (fun i => snd (fst i)) infos = [0; 0; 4].
Proof. vm_compute. repeat split; reflexivity. Qed.

Example unpacksizes_ex :
  unpacksizes_prop [true; true; false] [100; 37] = Ok [37; 100; 100] /\
  dec_unpacksizes [false; true; true] [37; 100; 100] = Ok [37; 100; 100] /\
  unpacksizes_prop [false; false] [100; 100] = Ok [100; 100] /\
  unpacksizes_prop [true] [] = Err EOther.
Proof. vm_compute. repeat split; reflexivity. Qed.

Print Assumptions compress_chain.
Print Assumptions sizes_and_crcs.
Print Assumptions write_session_total.
Print Assumptions toy_enc_contract.
Print Assumptions toy_compress_chain.
Print Assumptions unpacksizes_roundtrip_all_alternative.
Print Assumptions unpacksizes_all_native.
Print Assumptions unpacksizes_native_then_aes.
