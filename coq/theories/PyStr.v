(* PyStr.v -- semantics of the Python str / list primitives the second wave of tools/translate.py maps
   source constructs to (strings are lists of code points).  Same status as PyPrims.v: these definitions
   are what the translator assumes CPython does; each is differential-tested against CPython by
   tools/harness/prims.py on every run. *)
From P7 Require Import Prelude PyPrims.
Open Scope Z_scope.

(* truth value of a str / bytes / list *)
Definition py_nonempty {A} (l : list A) : bool := match l with [] => false | _ :: _ => true end.

(* a == b on str *)
Fixpoint py_str_eqb (a b : list Z) : bool :=
  match a, b with
  | [], [] => true
  | x :: a', y :: b' => (x =? y) && py_str_eqb a' b'
  | _, _ => false
  end.

Fixpoint py_prefixb (p s : list Z) : bool :=
  match p, s with
  | [], _ => true
  | x :: p', y :: s' => (x =? y) && py_prefixb p' s'
  | _ :: _, [] => false
  end.
(* s.startswith(p), s.endswith(p) with a str argument *)
Definition py_startswith (s p : list Z) : bool := py_prefixb p s.
Definition py_endswith (s p : list Z) : bool := py_prefixb (rev p) (rev s).

(* s.lstrip(chars): drop leading characters that occur in chars *)
Fixpoint py_lstrip (s chars : list Z) : list Z :=
  match s with
  | c :: r => if existsb (Z.eqb c) chars then py_lstrip r chars else s
  | [] => []
  end.

(* s.rstrip(chars) *)
Definition py_rstrip (s chars : list Z) : list Z := rev (py_lstrip (rev s) chars).
(* os.path.normcase on posix: os.fspath(s), the str itself *)
Definition py_posix_normcase (s : list Z) : list Z := s.
(* os.path.isabs on POSIX (posixpath.isabs): s.startswith('/') *)
Definition py_posix_isabs (s : list Z) : bool := py_startswith s [47].

(* x in s  for a set / list of ints *)
Definition py_in_ints (x : Z) (l : list Z) : bool := existsb (Z.eqb x) l.
(* sum(l) *)
Definition py_sum (l : list Z) : Z := fold_left Z.add l 0.
(* l.count(True) on a list of bools *)
Definition py_count_true (l : list bool) : Z := Z.of_nat (length (filter (fun b => b) l)).
(* next(it) on an iterator over a list (what is left of it): StopIteration at the end *)
Definition py_next {A} (l : list A) : res (A * list A) := match l with [] => Err EOther | x :: r => Ok (x, r) end.

(* range(a, b, -1): a, a-1, ..., b+1 *)
Fixpoint range_down_from (a : Z) (n : nat) : list Z :=
  match n with O => [] | S n' => a :: range_down_from (a - 1) n' end.
Definition py_range_down (a b : Z) : list Z := range_down_from a (Z.to_nat (a - b)).

(* l.pop() as a statement (the element is discarded): IndexError on the empty list *)
Definition py_pop_ {A} (l : list A) : res (list A) :=
  match l with [] => Err EOther | _ :: _ => Ok (removelast l) end.

(* an Optional[int] used where an int is needed (arithmetic, argument): TypeError when it is None *)
(* ---- UTF-16LE (third wave, FilesInfo names) ----
   bytes.decode("utf-16LE"): pairs of bytes are code units (an odd length raises UnicodeDecodeError), a high surrogate must be
   followed by a low one, a lone low surrogate raises *)
Fixpoint py_utf16_units (bs : bytes) : res (list Z) :=
  match bs with
  | [] => Ok []
  | [_] => Err EOther
  | a :: b :: r => do t <- py_utf16_units r; Ok (a + 256 * b :: t)
  end.
Fixpoint py_utf16_points (us : list Z) : res (list Z) :=
  match us with
  | [] => Ok []
  | u :: r =>
      if (55296 <=? u) && (u <? 56320) then
        match r with
        | v :: r' => if (56320 <=? v) && (v <? 57344)
                     then do t <- py_utf16_points r'; Ok (65536 + (u - 55296) * 1024 + (v - 56320) :: t)
                     else Err EOther
        | [] => Err EOther
        end
      else if (56320 <=? u) && (u <? 57344) then Err EOther
      else do t <- py_utf16_points r; Ok (u :: t)
  end.
Definition py_decode_utf16le (bs : bytes) : res (list Z) := do us <- py_utf16_units bs; py_utf16_points us.
(* c.encode("utf-16LE") for a one-character str c (a code point): surrogates cannot be encoded (UnicodeEncodeError) *)
Definition py_encode_utf16le_char (c : Z) : res bytes :=
  if (c <? 0) || (1114111 <? c) then Err EOther
  else if (55296 <=? c) && (c <? 57344) then Err EOther
  else if c <? 65536 then Ok [c mod 256; c / 256]
  else let v := c - 65536 in
       let hi := 55296 + v / 1024 in let lo := 56320 + v mod 1024 in
       Ok [hi mod 256; hi / 256; lo mod 256; lo / 256].
Fixpoint py_encode_utf16le (s : list Z) : res bytes :=
  match s with
  | [] => Ok []
  | c :: r => do a <- py_encode_utf16le_char c; do b <- py_encode_utf16le r; Ok (a ++ b)
  end.
(* s.replace(a, b) for one-character strings a, b *)
Definition py_replace_char (s : list Z) (a b : Z) : list Z := map (fun c => if c =? a then b else c) s.
(* d.get(k) is not None, for a key that may be absent and may hold None *)
Definition py_get_defined {A} (o : option (option A)) : bool := match o with Some (Some _) => true | _ => false end.

(* for x, y in zip(l, m): x is replaced by f x y; the entries of l beyond the length of m stay *)
Fixpoint py_zip_update {A B} (f : A -> B -> A) (l : list A) (m : list B) : list A :=
  match l, m with
  | a :: l', b :: m' => f a b :: py_zip_update f l' m'
  | _, _ => l
  end.
(* next(it, default) *)
Definition py_next_default {A} (l : list A) (d : A) : A * list A := match l with [] => (d, []) | x :: r => (x, r) end.

(* fp.read(n) on a file that may return fewer bytes than asked for: at most k of them (k >= n: a full read) *)
Definition py_read_short (avail : bytes) (n : Z) (k : nat) : bytes * bytes :=
  let m := Nat.min (Z.to_nat n) k in (firstn m avail, skipn m avail).

(* fd.read(n) on a source that may return short reads, read after read: sched lists the most each successive read returns
   (an exhausted schedule means full reads); n < 0 reads everything (io semantics); a short read returns at least one
   byte unless the source is exhausted *)
Definition py_read_sched (avail : bytes) (n : Z) (sched : list nat) : bytes * bytes * list nat :=
  let k := match sched with k :: _ => k | [] => length avail end in
  let m := if n <? 0 then Nat.max 1 k else Nat.min (Z.to_nat n) (Nat.max 1 k) in
  (firstn m avail, skipn m avail, tl sched).

Definition py_unwrap {A} (o : option A) : res A := match o with Some v => Ok v | None => Err EOther end.

(* while c: body  on explicit fuel: Err EFuel when the fuel runs out while the condition still holds;
   the body returns the new state and whether it executed `break` *)
Fixpoint while_m {S} (fuel : nat) (cond : S -> bool) (body : S -> res (S * bool)) (s : S) : res S :=
  if cond s then
    match fuel with
    | O => Err EFuel
    | Datatypes.S f => match body s with
             | Err e => Err e
             | Ok (s', true) => Ok s'
             | Ok (s', false) => while_m f cond body s'
             end
    end
  else Ok s.

(* ---------------------------------------------------------------- lemmas *)
Lemma py_str_eqb_eq a : forall b, py_str_eqb a b = true <-> a = b.
Proof.
  induction a as [|x a IH]; intros [|y b]; simpl; split; intros H; try reflexivity; try discriminate.
  - apply andb_true_iff in H as [H1 H2]. apply Z.eqb_eq in H1. apply IH in H2. congruence.
  - inversion H; subst. rewrite Z.eqb_refl. simpl. now apply IH.
Qed.

Lemma py_str_eqb_refl a : py_str_eqb a a = true.
Proof. now apply py_str_eqb_eq. Qed.

Lemma py_prefixb_app p s : py_prefixb p (p ++ s) = true.
Proof. induction p as [|x p IH]; simpl; [reflexivity|]. now rewrite Z.eqb_refl, IH. Qed.

Lemma py_prefixb_true p : forall s, py_prefixb p s = true -> s = p ++ skipn (length p) s.
Proof.
  induction p as [|x p IH]; intros s H; [reflexivity|].
  destruct s as [|y s]; [discriminate|]. simpl in H. apply andb_true_iff in H as [H1 H2].
  apply Z.eqb_eq in H1. subst y. simpl. f_equal. now apply IH.
Qed.

Lemma py_index_last_app {A} (l : list A) (x : A) : py_index (l ++ [x]) (-1) = Ok x.
Proof.
  unfold py_index, py_len. rewrite app_length. cbn [length].
  change ((-1) <? 0) with true. cbv iota.
  replace (-1 + Z.of_nat (length l + 1)) with (Z.of_nat (length l)) by lia.
  destruct ((Z.of_nat (length l) <? 0) || (Z.of_nat (length l + 1) <=? Z.of_nat (length l))) eqn:E; [lia|].
  rewrite Nat2Z.id, nth_error_app2 by lia. now rewrite Nat.sub_diag.
Qed.

Lemma py_pop_app {A} (l : list A) (x : A) : py_pop_ (l ++ [x]) = Ok l.
Proof.
  unfold py_pop_. destruct (l ++ [x]) eqn:E; [now destruct l|]. rewrite <- E. now rewrite removelast_last.
Qed.
