(* FS.v -- a model of the part of pathlib / the Linux VFS that py7zr's extraction uses.

   * strings are lists of code points (str); a path as pathlib sees it is a ppath
     (root kind 0 = relative, 1 = "/", 2 = "//"; parts without "", "." -- ".." is kept);
   * the filesystem is a finite map from canonical absolute paths (list of components from
     the root, no ".", "..", links) to nodes Dir / File content / Link target;
   * [walk] is the kernel's path resolution: component by component from a real directory,
     ".." physical, symbolic links followed (40 per resolution, then ELOOP; a link in the
     middle of a path by a nested walk that has to end in a directory), the final component
     followed or not according to the system call;
   * [pyreal] / [py_realpath] is os.path.realpath as CPython 3.12 computes it (no limit on
     links, loops detected through `seen`, missing names kept): what the extraction's
     real-path checks see;
   * system calls return the new state and record an *effect* (kind, real path) for every
     mutation that took place.

   Everything here is hand-written from the CPython 3.12 pathlib source and the Linux man
   pages; tools/harness/c03.py validates it against the running kernel (random operation
   sequences) and against py7zr's helpers (sanitiser, is_path_valid) on every run. *)
From P7 Require Import Prelude.
Open Scope Z_scope.

(* ------------------------------------------------------------------ strings, paths *)
Definition str := list Z.
Definition rpath := list str.         (* canonical absolute real path, root = [] *)

Fixpoint str_eqb (a b : str) : bool :=
  match a, b with
  | [], [] => true
  | x :: a', y :: b' => (x =? y) && str_eqb a' b'
  | _, _ => false
  end.

Fixpoint rpath_eqb (a b : rpath) : bool :=
  match a, b with
  | [], [] => true
  | x :: a', y :: b' => str_eqb x y && rpath_eqb a' b'
  | _, _ => false
  end.

(* a is a (non strict) prefix of b *)
Fixpoint prefixb (a b : rpath) : bool :=
  match a, b with
  | [], _ => true
  | x :: a', y :: b' => str_eqb x y && prefixb a' b'
  | _ :: _, [] => false
  end.

Definition SLASH : Z := 47.
Definition DOT : Z := 46.
Definition dotdot : str := [46; 46].
Definition is_dotdot (c : str) : bool := str_eqb c dotdot.

Record ppath := mkP { proot : Z; pparts : list str }.

(* str.split(sep) *)
Fixpoint split_on (sep : Z) (s : str) (cur : str) : list str :=
  match s with
  | [] => [rev cur]
  | c :: s' => if c =? sep then rev cur :: split_on sep s' [] else split_on sep s' (c :: cur)
  end.

Definition keep_comp (c : str) : bool := negb (str_eqb c []) && negb (str_eqb c [DOT]).

Fixpoint leading (c : Z) (s : str) : nat :=
  match s with x :: s' => if x =? c then S (leading c s') else O | [] => O end.

(* pathlib.PurePosixPath(s): posixpath.splitroot + split on "/" dropping "" and "." *)
Definition pparse (s : str) : ppath :=
  let root := match leading SLASH s with O => 0 | S O => 1 | S (S O) => 2 | _ => 1 end in
  mkP root (filter keep_comp (split_on SLASH s [])).

Definition p_is_abs (p : ppath) : bool := negb (proot p =? 0).

(* a.joinpath(s) for a string s (posixpath.join then parse) *)
Definition pjoin (a : ppath) (s : str) : ppath :=
  match s with
  | c :: _ => if c =? SLASH then pparse s else mkP (proot a) (pparts a ++ pparts (pparse s))
  | [] => a
  end.
(* a.joinpath(b) for a path object b *)
Definition pjoinp (a b : ppath) : ppath :=
  if p_is_abs b then b else mkP (proot a) (pparts a ++ pparts b).

Definition pparent (p : ppath) : ppath := mkP (proot p) (removelast (pparts p)).
Definition p_eqb (a b : ppath) : bool := (proot a =? proot b) && rpath_eqb (pparts a) (pparts b).

(* Path.parts: the root is the first part *)
Definition root_item (r : Z) : list str :=
  if r =? 0 then [] else if r =? 1 then [[SLASH]] else [[SLASH; SLASH]].
Definition items (p : ppath) : list str := root_item (proot p) ++ pparts p.
(* pathlib.Path( *stack ) for a stack of parts *)
Definition of_items (l : list str) : ppath :=
  match l with
  | x :: r => if str_eqb x [SLASH] then mkP 1 r else if str_eqb x [SLASH; SLASH] then mkP 2 r else mkP 0 l
  | [] => mkP 0 []
  end.

(* helpers.canonical_path; the stack is kept reversed (head = top) *)
Fixpoint canon_go (stack : list str) (ps : list str) : list str :=
  match ps with
  | [] => rev stack
  | p :: ps' =>
    match stack with
    | [] => canon_go [p] ps'
    | top :: st' =>
      if negb (is_dotdot p) then canon_go (p :: stack) ps'
      else if is_dotdot top then canon_go (p :: stack) ps'
      else if str_eqb top [SLASH] then canon_go stack ps'
      else canon_go st' ps'
    end
  end.
Definition canonical_path (p : ppath) : ppath := of_items (canon_go [] (items p)).

(* helpers.is_relative_to(my, other) = my.relative_to(canonical_path(other)) does not raise *)
Definition is_relative_to (my other : ppath) : bool :=
  let o := canonical_path other in
  (proot my =? proot o) && prefixb (pparts o) (pparts my).

Definition starts_with (pre s : str) : bool := str_eqb pre (firstn (length pre) s).
Fixpoint lstrip (c : Z) (s : str) : str :=
  match s with x :: s' => if x =? c then lstrip c s' else s | [] => [] end.
Definition remove_relative_path_marker (s : str) : str :=
  if starts_with [DOT; SLASH] s then skipn 2 s else s.

(* my.relative_to(other) when it does not raise: the parts behind other's *)
Definition relative_to (my other : ppath) : ppath := mkP 0 (skipn (length (pparts other)) (pparts my)).

(* helpers.get_sanitized_output_path(fname, path); cwd is Path.cwd(); None = Bad7zFile.
   Without a destination the checked path itself is returned, relative to the current directory. *)
Definition get_sanitized_output_path (fname : str) (cwd : rpath) (path : option ppath) : option ppath :=
  let fname := lstrip SLASH fname in
  match path with
  | None =>
    let c := canonical_path (mkP 1 cwd) in
    let target := canonical_path (pjoin c (remove_relative_path_marker fname)) in
    if is_relative_to target c then Some (relative_to target c) else None
  | Some path =>
    let outfile := canonical_path (pjoin path (remove_relative_path_marker fname)) in
    if is_relative_to outfile path then Some outfile else None
  end.

(* helpers.is_path_valid(target, parent); parent None = extraction without a destination: relative to the
   current directory *)
Definition is_path_valid (target : ppath) (cwd : rpath) (parent : option ppath) : bool :=
  match parent with
  | None =>
    let c := canonical_path (mkP 1 cwd) in
    is_relative_to (canonical_path (pjoinp c target)) c
  | Some parent =>
    if p_is_abs parent then is_relative_to (canonical_path target) parent
    else is_relative_to (canonical_path target) (pjoinp (mkP 1 cwd) parent)
  end.

(* order of pathlib paths: str(p).split("/") compared as lists of strings *)
Definition sort_key (p : ppath) : list str :=
  let tail := match pparts p with [] => [[]] | l => l end in
  if proot p =? 0 then (match pparts p with [] => [[DOT]] | l => l end)
  else if proot p =? 1 then [] :: tail else [] :: [] :: tail.
Fixpoint str_ltb (a b : str) : bool :=
  match a, b with
  | _, [] => false
  | [], _ :: _ => true
  | x :: a', y :: b' => if x <? y then true else if y <? x then false else str_ltb a' b'
  end.
Fixpoint key_ltb (a b : list str) : bool :=
  match a, b with
  | _, [] => false
  | [], _ :: _ => true
  | x :: a', y :: b' => if str_ltb x y then true else if str_ltb y x then false else key_ltb a' b'
  end.
Definition p_ltb (a b : ppath) : bool := key_ltb (sort_key a) (sort_key b).
(* sorted(): stable *)
Fixpoint insert_sorted (x : ppath) (l : list ppath) : list ppath :=
  match l with
  | [] => [x]
  | y :: l' => if p_ltb x y then x :: l else y :: insert_sorted x l'
  end.
Definition sort_paths (l : list ppath) : list ppath := fold_left (fun acc x => insert_sorted x acc) l [].

(* ------------------------------------------------------------------ the filesystem *)
Inductive node := Dir | File (c : str) | Link (t : ppath).
Definition fs := list (rpath * node).

Fixpoint lookup_raw (f : fs) (p : rpath) : option node :=
  match f with
  | [] => None
  | (q, n) :: f' => if rpath_eqb q p then Some n else lookup_raw f' p
  end.
(* the root always exists *)
Definition lookup (f : fs) (p : rpath) : option node :=
  match p with [] => Some Dir | _ => lookup_raw f p end.
Definition fs_remove (f : fs) (p : rpath) : fs := filter (fun qn => negb (rpath_eqb (fst qn) p)) f.
Definition fs_set (f : fs) (p : rpath) (n : node) : fs := (p, n) :: fs_remove f p.

Inductive exn := XBad7z | XExist | XIsDir | XNotDir | XNoEnt | XLoop | XDecomp | XAttr | XType.

Inductive rres :=
| RFound (p : rpath) (n : node)      (* exists at real path p *)
| RMissing (p : rpath)               (* the directory of p exists, the last name does not *)
| RErr (x : exn).

Definition MAXSYMLINKS : nat := 40%nat.

(* the kernel's walk: cur is a real directory, todo the remaining components, links the number of
   symbolic links that may still be followed, fuel a bound on the depth of this definition.  A link in
   the middle of a path is resolved by a nested walk over its target that has to end in a directory;
   a link at the end is replaced by its target (when the system call follows).  The number of links
   still allowed is handed back. *)
Fixpoint walk (fuel : nat) (f : fs) (follow : bool) (links : nat) (cur : rpath) (todo : list str) : rres * nat :=
  match fuel with
  | O => (RErr XLoop, links)
  | S fuel' =>
    match todo with
    | [] => (RFound cur Dir, links)
    | c :: rest =>
      if is_dotdot c then walk fuel' f follow links (removelast cur) rest
      else
        let here := cur ++ [c] in
        match lookup f here with
        | None => (match rest with [] => RMissing here | _ => RErr XNoEnt end, links)
        | Some Dir => walk fuel' f follow links here rest
        | Some (File d) => (match rest with [] => RFound here (File d) | _ => RErr XNotDir end, links)
        | Some (Link t) =>
          match rest, follow with
          | [], false => (RFound here (Link t), links)
          | _, _ =>
            match links with
            | O => (RErr XLoop, O)
            | S links' =>
              let start := if p_is_abs t then [] else cur in
              match rest with
              | [] => walk fuel' f true links' start (pparts t)
              | _ =>
                match walk fuel' f true links' start (pparts t) with
                | (RFound q Dir, l2) => walk fuel' f follow l2 q rest
                | (RFound _ _, l2) => (RErr XNotDir, l2)
                | (RMissing _, l2) => (RErr XNoEnt, l2)
                | (RErr x, l2) => (RErr x, l2)
                end
              end
            end
          end
        end
    end
  end.

Definition max_link_len (f : fs) : nat :=
  fold_right (fun qn m => match snd qn with Link t => Nat.max (length (pparts t)) m | _ => m end) O f.
(* enough steps for every resolution that does not exceed the link budget *)
Definition walk_fuel (f : fs) (todo : list str) : nat :=
  (length todo + 41 * S (max_link_len f) + 1)%nat.

Definition resolve (f : fs) (cwd : rpath) (follow : bool) (p : ppath) : rres :=
  fst (walk (walk_fuel f (pparts p)) f follow MAXSYMLINKS (if p_is_abs p then [] else cwd) (pparts p)).

(* ------------------------------------------------------------------ os.path.realpath (strict=False)
   posixpath._joinrealpath of CPython 3.12: component by component; a name that is no symbolic link --
   a directory, a file, or nothing at all -- is appended as it is; ".." removes the last name of what has
   been resolved so far; a symbolic link is resolved by a nested call over its target, unless that link
   is being resolved already (seen[newpath] is None): then the link's path and whatever was still to be
   resolved are given back unresolved, and abspath() normalises that text.  There is no limit on the
   number of links.  `seen` also caches finished links; resolution being a function of the tree, that
   changes no result.  inprog = the links whose resolution is under way. *)
Inductive pres :=
| POk (ab : bool) (q : rpath)
| PLoop (l : rpath) (rest : list str)
| PFuel.

(* the keys of `seen` are path texts: the text of a place is relative to the current directory until an
   absolute link target has been met, and absolute from then on (ab) *)
Fixpoint mem_key (ab : bool) (p : rpath) (l : list (bool * rpath)) : bool :=
  match l with [] => false | (b, q) :: l' => (Bool.eqb b ab && rpath_eqb q p) || mem_key ab p l' end.

Fixpoint pyreal (fuel : nat) (f : fs) (inprog : list (bool * rpath)) (ab : bool) (cur : rpath) (todo : list str) : pres :=
  match fuel with
  | O => PFuel
  | S fuel' =>
    match todo with
    | [] => POk ab cur
    | c :: rest =>
      if is_dotdot c then pyreal fuel' f inprog ab (removelast cur) rest
      else
        let here := cur ++ [c] in
        match lookup f here with
        | Some (Link t) =>
          if mem_key ab here inprog then PLoop here rest
          else
            match pyreal fuel' f ((ab, here) :: inprog) (ab || p_is_abs t) (if p_is_abs t then [] else cur) (pparts t) with
            | POk ab2 q => pyreal fuel' f inprog ab2 q rest
            | PLoop l r => PLoop l (r ++ rest)
            | PFuel => PFuel
            end
        | _ => pyreal fuel' f inprog ab here rest
        end
    end
  end.

(* os.path.normpath on the text of a path that starts at a real path *)
Definition lexnorm (q : rpath) (rest : list str) : rpath :=
  fold_left (fun acc c => if is_dotdot c then removelast acc else acc ++ [c]) rest q.

Definition count_links (f : fs) : nat :=
  fold_right (fun qn m => match snd qn with Link _ => S m | _ => m end) O f.
Definition real_fuel (f : fs) (todo : list str) : nat :=
  (walk_fuel f todo + 2 + S (count_links f) * S (max_link_len f))%nat.

(* os.path.realpath(p); the current directory is a real path.  None = the bound of this definition was
   reached (it is not reached when the kernel resolves the path, see FSProofs.v) *)
Definition py_realpath (f : fs) (cwd : rpath) (p : ppath) : option rpath :=
  match pyreal (real_fuel f (pparts p)) f [] (p_is_abs p) (if p_is_abs p then [] else cwd) (pparts p) with
  | POk _ q => Some q
  | PLoop l rest => Some (lexnorm l rest)
  | PFuel => None
  end.

(* helpers.is_real_path_inside(target, real_root): real_root is a real path *)
Definition real_inside (f : fs) (cwd : rpath) (root : rpath) (p : ppath) : bool :=
  match py_realpath f cwd p with Some q => prefixb root q | None => false end.

(* ------------------------------------------------------------------ effects, state *)
Inductive ekind := KMkdir | KCreate | KTrunc | KSymlink | KUnlink | KUtime | KChmod.
Definition effect := (ekind * rpath)%type.
Record st := mkSt { s_fs : fs; s_eff : list effect }.    (* effects newest first *)

Inductive out (A : Type) := Ret (a : A) (s : st) | Exc (x : exn) (s : st).
Arguments Ret {A} a s.
Arguments Exc {A} x s.
Definition M (A : Type) := st -> out A.
Definition ret {A} (a : A) : M A := fun s => Ret a s.
Definition raise {A} (x : exn) : M A := fun s => Exc x s.
Definition mbind {A B} (m : M A) (k : A -> M B) : M B :=
  fun s => match m s with Ret a s' => k a s' | Exc x s' => Exc x s' end.
Definition catch {A} (m : M A) (h : exn -> M A) : M A :=
  fun s => match m s with Ret a s' => Ret a s' | Exc x s' => h x s' end.
Notation "'let*' x := m 'in' k" := (mbind m (fun x => k))
  (at level 200, x pattern, m at level 100, k at level 200, right associativity).

Definition effect_do (k : ekind) (p : rpath) (f' : fs) : M unit :=
  fun s => Ret tt (mkSt f' ((k, p) :: s_eff s)).

Section Syscalls.
Variable cwd : rpath.

Definition res_of (follow : bool) (p : ppath) : M rres := fun s => Ret (resolve (s_fs s) cwd follow p) s.

(* mkdir(2) *)
Definition sys_mkdir (p : ppath) : M unit :=
  let* r := res_of false p in
  match r with
  | RFound _ _ => raise XExist
  | RMissing q => fun s => effect_do KMkdir q (fs_set (s_fs s) q Dir) s
  | RErr x => raise x
  end.

(* symlink(2) *)
Definition sys_symlink (t : ppath) (p : ppath) : M unit :=
  let* r := res_of false p in
  match r with
  | RFound _ _ => raise XExist
  | RMissing q => fun s => effect_do KSymlink q (fs_set (s_fs s) q (Link t)) s
  | RErr x => raise x
  end.

(* unlink(2) *)
Definition sys_unlink (p : ppath) : M unit :=
  let* r := res_of false p in
  match r with
  | RFound _ Dir => raise XIsDir
  | RFound q _ => fun s => effect_do KUnlink q (fs_remove (s_fs s) q) s
  | RMissing _ => raise XNoEnt
  | RErr x => raise x
  end.

(* open(p, O_WRONLY|O_CREAT|O_TRUNC) + write(data) + close *)
Definition sys_open_wb (p : ppath) (data : str) : M unit :=
  let* r := res_of true p in
  match r with
  | RFound _ Dir => raise XIsDir
  | RFound q _ => fun s => effect_do KTrunc q (fs_set (s_fs s) q (File data)) s
  | RMissing q => fun s => effect_do KCreate q (fs_set (s_fs s) q (File data)) s
  | RErr x => raise x
  end.

(* open(p, O_WRONLY|O_CREAT) + close : creates, never truncates *)
Definition sys_open_creat (p : ppath) : M unit :=
  let* r := res_of true p in
  match r with
  | RFound _ Dir => raise XIsDir
  | RFound _ _ => ret tt
  | RMissing q => fun s => effect_do KCreate q (fs_set (s_fs s) q (File [])) s
  | RErr x => raise x
  end.

(* utimensat / chmod, following links *)
Definition sys_touch_meta (k : ekind) (p : ppath) : M unit :=
  let* r := res_of true p in
  match r with
  | RFound q _ => fun s => effect_do k q (s_fs s) s
  | RMissing _ => raise XNoEnt
  | RErr x => raise x
  end.
Definition sys_utime := sys_touch_meta KUtime.
Definition sys_chmod := sys_touch_meta KChmod.

(* stat(2) through Path.exists / is_dir / is_file: ENOENT, ENOTDIR, ELOOP give False *)
Definition path_exists (p : ppath) : M bool :=
  let* r := res_of true p in ret (match r with RFound _ _ => true | _ => false end).
Definition path_is_dir (p : ppath) : M bool :=
  let* r := res_of true p in ret (match r with RFound _ Dir => true | _ => false end).
Definition path_is_file (p : ppath) : M bool :=
  let* r := res_of true p in ret (match r with RFound _ (File _) => true | _ => false end).

(* pathlib.Path.mkdir(parents, exist_ok); fuel bounds the recursion over .parent *)
Fixpoint path_mkdir (fuel : nat) (p : ppath) (parents exist_ok : bool) : M unit :=
  catch (sys_mkdir p) (fun x =>
    match x with
    | XNoEnt =>
      if negb parents || p_eqb (pparent p) p then raise XNoEnt
      else match fuel with
           | O => raise XNoEnt
           | S fuel' =>
             let* _ := path_mkdir fuel' (pparent p) true true in
             path_mkdir fuel' p false exist_ok
           end
    | _ =>
      if negb exist_ok then raise x
      else let* d := path_is_dir p in if d then ret tt else raise x
    end).
Definition mkdir_fuel (p : ppath) : nat := S (S (length (pparts p))).

(* helpers.check_real_path_inside(p, root) *)
Definition check_inside (root : rpath) (p : ppath) : M unit :=
  fun s => if real_inside (s_fs s) cwd root p then Ret tt s else Exc XBad7z s.

(* pathlib.Path.touch() *)
Definition path_touch (p : ppath) : M unit :=
  catch (sys_utime p) (fun _ => sys_open_creat p).

End Syscalls.

(* ------------------------------------------------------------------ single operations, for the
   correspondence of this file with the kernel *)
Inductive fsop :=
| OMkdir (p : ppath) (parents exist_ok : bool)
| OOpenWb (p : ppath) (d : str)
| OExists (p : ppath) | OIsDir (p : ppath) | OIsFile (p : ppath)
| OUnlink (p : ppath) | OSymlink (t p : ppath) | OTouch (p : ppath) | OUtime (p : ppath) | OChmod (p : ppath).

Definition run_op (cwd : rpath) (o : fsop) : M Z :=
  let u (m : M unit) : M Z := let* _ := m in ret 0 in
  let b (m : M bool) : M Z := let* x := m in ret (if x then 1 else 0) in
  match o with
  | OMkdir p pa eo => u (path_mkdir cwd (mkdir_fuel p) p pa eo)
  | OOpenWb p d => u (sys_open_wb cwd p d)
  | OExists p => b (path_exists cwd p)
  | OIsDir p => b (path_is_dir cwd p)
  | OIsFile p => b (path_is_file cwd p)
  | OUnlink p => u (sys_unlink cwd p)
  | OSymlink t p => u (sys_symlink cwd t p)
  | OTouch p => u (path_touch cwd p)
  | OUtime p => u (sys_utime cwd p)
  | OChmod p => u (sys_chmod cwd p)
  end.

Definition exn_code (x : exn) : Z :=
  match x with XBad7z => 1 | XExist => 2 | XIsDir => 3 | XNotDir => 4 | XNoEnt => 5 | XLoop => 6
             | XDecomp => 7 | XAttr => 8 | XType => 9 end.

(* every operation is run (an exception of one does not stop the sequence); result codes:
   0 / 1 for values, -(code) for exceptions *)
Fixpoint run_ops (cwd : rpath) (os : list fsop) (s : st) : list Z * st :=
  match os with
  | [] => ([], s)
  | o :: os' =>
    match run_op cwd o s with
    | Ret v s' => let '(l, s'') := run_ops cwd os' s' in (v :: l, s'')
    | Exc x s' => let '(l, s'') := run_ops cwd os' s' in (- exn_code x :: l, s'')
    end
  end.

(* ------------------------------------------------------------------ tree protocol *)
Definition t_str (s : str) : tree := TL (map TI s).
Definition of_str (t : tree) : str := map of_TI (of_TL t).
Definition t_rpath (p : rpath) : tree := TL (map t_str p).
Definition of_rpath (t : tree) : rpath := map of_str (of_TL t).
Definition t_ppath (p : ppath) : tree := TL [TI (proot p); t_rpath (pparts p)].
Definition of_ppath (t : tree) : ppath := mkP (of_TI (tnth t 0)) (of_rpath (tnth t 1)).
Definition t_node (n : node) : tree :=
  match n with Dir => TL [TI 0] | File c => TL [TI 1; t_str c] | Link t => TL [TI 2; t_ppath t] end.
Definition of_node (t : tree) : node :=
  let k := of_TI (tnth t 0) in
  if k =? 0 then Dir else if k =? 1 then File (of_str (tnth t 1)) else Link (of_ppath (tnth t 1)).
Definition t_fs (f : fs) : tree := TL (map (fun qn => TL [t_rpath (fst qn); t_node (snd qn)]) f).
Definition of_fs (t : tree) : fs := map (fun x => (of_rpath (tnth x 0), of_node (tnth x 1))) (of_TL t).
Definition ekind_code (k : ekind) : Z :=
  match k with KMkdir => 1 | KCreate => 2 | KTrunc => 3 | KSymlink => 4 | KUnlink => 5 | KUtime => 6 | KChmod => 7 end.
Definition t_effects (l : list effect) : tree :=
  TL (map (fun e => TL [TI (ekind_code (fst e)); t_rpath (snd e)]) (rev l)).
Definition of_fsop (t : tree) : fsop :=
  let k := of_TI (tnth t 0) in
  let p := of_ppath (tnth t 1) in
  if k =? 0 then OMkdir p (of_bool (tnth t 2)) (of_bool (tnth t 3))
  else if k =? 1 then OOpenWb p (of_str (tnth t 2))
  else if k =? 2 then OExists p
  else if k =? 3 then OIsDir p
  else if k =? 4 then OIsFile p
  else if k =? 5 then OUnlink p
  else if k =? 6 then OSymlink (of_ppath (tnth t 2)) p
  else if k =? 7 then OTouch p
  else if k =? 8 then OUtime p
  else OChmod p.
