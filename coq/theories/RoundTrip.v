(* RoundTrip.v -- composition of Comp.v (what a write session puts into the archive)
   with Decomp.v (what Worker.decompress delivers from it), and the place of the AES
   residue machines of Aes.v in both.

   What is PROVED here
     * extract_members_spec : the member loop of Worker._extract_single delivers consecutive
       slices (of the recorded sizes) of D_n(...D_1(packed));
     * roundtrip_single_stage / roundtrip_chain : if every stage decoder inverts its stage
       encoder up to trailing bytes (prefix x (D (E x))) then every member comes back
       exactly, whatever the block sizes, read schedules on either side, chunk limit, and
       whatever follows the packed stream in the file;
     * aes_enc_contract : the AESCompressor residue machine IS a stream encoder in the
       sense of Comp.v, E = CBC-encrypt o pad16 (so compress_chain covers chains ending in
       7zAES);  aes_codec_inverse: cbc_dec (cbc_enc (pad16 x)) = pad16 x, x a prefix of it;
     * mv_schedules_ok : every read schedule _read_data produces on a (multi-volume) file, for any
       block size and volume size, satisfies the condition under which Aes.v proves the
       AESDecompressor correct (since the repair: no empty chunk on a non-empty residue);
       aes_short_read_delivered : through the model of SevenZipDecompressor, the short read at a
       volume boundary that used to make the AES stage raise (0 < len(buf)+len(data) < 16) is
       buffered and every byte is delivered.
   What is ASSUMED (Section hypotheses, named):
     enc_contract  -- each real stage encoder is a stream encoder (Comp.v);
     D_mono, stage_safe -- each real stage decoder is a monotone, prefix-safe stream decoder
                     (Decomp.v);
     codec_inverse -- D_i (E_i x) has x as a prefix.
   For the real codecs (liblzma, zlib, bz2, zstd, ppmd, brotli, bcj, pycryptodome AES) these
   are NOT proved; the harness validates them on random chunkings (contract validation).
   All three are satisfiable: instances for the toy stages and the toy cipher below.
   stdlib only; no axioms. *)
From P7 Require Import Prelude Crc32 Decomp Comp.
From P7 Require Aes.
From Coq Require Import ZifyBool.

(* ===================================================================== *)
(*                              PART 1 : MODEL                           *)
(* ===================================================================== *)

Section Extract.
  Variable dst : Type.
  Variable dstep : dst -> bytes -> Z -> dst * bytes.

  (* Worker._extract_single on one folder: Worker.decompress for every non-empty-stream
     member in header order, on the folder's one SevenZipDecompressor.  sizes = the
     members' recorded unpack sizes, scheds = one read schedule per member. *)
  Fixpoint extract_members (fuel : nat) (st : dstate dst) (sizes : list Z) (mb : Z)
           (scheds : list (list nat)) : res (dstate dst * list bytes) :=
    match sizes with
    | [] => Ok (st, [])
    | size :: sizes' =>
      do r <- worker_decompress dstep fuel st size mb (hd [] scheds);
      let '(st1, out) := r in
      do r' <- extract_members fuel st1 sizes' mb (tl scheds);
      let '(st2, outs) := r' in
      Ok (st2, out :: outs)
    end.

  (* The same two loops as the code stands since the repair "decoding loops spin forever when
     the stream ends before its declared size" (py7zr.py, MAX_STALLED_ROUNDS = 16):
     Worker.decompress counts the consecutive rounds that deliver nothing, take no input and in
     which no coder of the chain puts anything out (Decomp.idle: consumed and produced unchanged)
     and raises Bad7zFile at the 17th.  [failed] marks a stage that has raised (the AES stage
     of Toy.v); a run on which a stage raised ends with Err EOther. *)
  Variable failed : dst -> bool.

  Fixpoint gworker (fuel : nat) (st : dstate dst) (size mb : Z) (sched : list nat) (stalled : Z)
    : res (dstate dst * bytes) :=
    if size >? 0 then
      match fuel with
      | O => Err EFuel
      | S fuel' =>
        do r <- decompress dstep st (Z.min size mb) (sched_hd st sched);
        let '(st', tmp) := r in
        if existsb failed (stages st') then Err EOther
        else if zlen tmp >? 0 then
          if size - zlen tmp <=? 0 then Ok (st', tmp)
          else
            do r' <- gworker fuel' st' (size - zlen tmp) mb (tl sched) 0;
            let '(st'', out) := r' in
            Ok (st'', tmp ++ out)
        else
          let idle := idle st st' in
          let stalled' := if idle then stalled + 1 else stalled in
          if idle && (stalled' >? 16) then Err EBad7z
          else
            do r' <- gworker fuel' st' size mb (tl sched) stalled';
            let '(st'', out) := r' in
            Ok (st'', tmp ++ out)
      end
    else Ok (st, []).

  Fixpoint gextract (fuel : nat) (st : dstate dst) (sizes : list Z) (mb : Z)
           (scheds : list (list nat)) : res (dstate dst * list bytes) :=
    match sizes with
    | [] => Ok (st, [])
    | size :: sizes' =>
      do r <- gworker fuel st size mb (hd [] scheds) 0;
      let '(st1, out) := r in
      do r' <- gextract fuel st1 sizes' mb (tl scheds);
      let '(st2, outs) := r' in
      Ok (st2, out :: outs)
    end.

  (* the guard only ever turns a run into an error: whenever the guarded loop returns, the
     loop of Decomp.v returns the same, so every theorem about worker_decompress /
     extract_members (partial correctness) holds of the guarded loops *)
  Lemma gworker_ok (fuel : nat) : forall st size mb sched stalled r,
    gworker fuel st size mb sched stalled = Ok r ->
    worker_decompress dstep fuel st size mb sched = Ok r.
  Proof.
    induction fuel as [|fuel IH]; intros st size mb sched stalled r H; simpl in *.
    - destruct (size >? 0); [discriminate|exact H].
    - destruct (size >? 0) eqn:Es; [|exact H].
      destruct (decompress dstep st (Z.min size mb) (sched_hd st sched)) as [[st' tmp]|e]; [|discriminate].
      cbn [bind] in *. destruct (existsb failed (stages st')); [discriminate|].
      destruct (zlen tmp >? 0).
      + destruct (size - zlen tmp <=? 0); [exact H|].
        destruct (gworker fuel st' (size - zlen tmp) mb (tl sched) 0) as [[st'' out]|e] eqn:Hg; [|discriminate].
        rewrite (IH _ _ _ _ _ _ Hg). exact H.
      + destruct (size <=? 0) eqn:El; [apply Z.gtb_lt in Es; apply Z.leb_le in El; lia|].
        destruct ((idle st st') &&
                  ((if idle st st' then stalled + 1 else stalled) >? 16)); [discriminate|].
        destruct (gworker fuel st' size mb (tl sched) (if idle st st' then stalled + 1 else stalled))
          as [[st'' out]|e] eqn:Hg; [|discriminate].
        rewrite (IH _ _ _ _ _ _ Hg). exact H.
  Qed.

  Lemma gextract_ok (fuel : nat) (mb : Z) : forall sizes st scheds r,
    gextract fuel st sizes mb scheds = Ok r -> extract_members fuel st sizes mb scheds = Ok r.
  Proof.
    induction sizes as [|size sizes IH]; intros st scheds r H; simpl in *; [exact H|].
    destruct (gworker fuel st size mb (hd [] scheds) 0) as [[st1 out]|e] eqn:Hw; [|discriminate].
    rewrite (gworker_ok _ _ _ _ _ _ _ Hw). cbn [bind] in *.
    destruct (gextract fuel st1 sizes mb (tl scheds)) as [[st2 outs]|e] eqn:Hx; [|discriminate].
    rewrite (IH _ _ _ Hx). exact H.
  Qed.

  (* ... and it does what it was added for: from a state in which every stage is quiet on empty
     input and the packed stream is exhausted, the guarded loop raises Bad7zFile after 17 rounds
     instead of spinning (Decomp.worker_spins) *)
  Section Guard.
    Variable quiet : dst -> Prop.
    Hypothesis quiet_step : forall s ml,
        quiet s -> snd (dstep s [] ml) = [] /\ quiet (fst (dstep s [] ml)).
    Hypothesis quiet_ok : forall s, quiet s -> failed s = false.

    Definition ended (st : dstate dst) : Prop :=
      stuck quiet st /\ (fp_rest st = [] \/ input_size st <= consumed st).

    Lemma ended_step (st : dstate dst) (ml : Z) (rd : nat) :
      ended st -> 0 < ml ->
      exists st', decompress dstep st ml rd = Ok (st', []) /\ ended st' /\ idle st st' = true.
    Proof.
      intros [Hst Hend] Hml.
      destruct (stuck_step dst dstep quiet quiet_step st ml rd Hst Hml) as (st' & Hd & Hst').
      exists st'. split; [exact Hd|].
      pose proof Hst as Hst0. destruct Hst as (_ & _ & _ & Hun & Hpos & _).
      assert (Hp : 0 <= pos st <= zlen (buf st)) by (pose proof (zlen_nonneg (buf st)); lia).
      destruct (decompress_spec dst dstep st st' ml rd [] Hp Hun Hd)
        as (data & tmp & _ & Hfp & Hcons & Hdl & _ & His & _).
      assert (Hdata : data = []).
      { destruct Hend as [Hnil|Hle].
        - rewrite Hnil in Hfp. symmetry in Hfp. apply app_eq_nil in Hfp. apply Hfp.
        - apply zlen_le0_nil. lia. }
      subst data. rewrite zlen_nil in Hcons.
      split; [|exact (stuck_step_idle dst dstep quiet quiet_step st st' ml rd [] Hst0 Hml Hd)].
      split; [exact Hst'|]. destruct Hend as [Hnil|Hle]; [left|right].
      - rewrite Hnil in Hfp. simpl in Hfp. now symmetry.
      - lia.
    Qed.

    Lemma ended_not_failed (st : dstate dst) : ended st -> existsb failed (stages st) = false.
    Proof.
      intros [(Hq & _) _]. induction Hq as [|s ss Hs _ IH]; [reflexivity|].
      simpl. now rewrite (quiet_ok s Hs), IH.
    Qed.

    Theorem gworker_raises (n : nat) : forall (fuel : nat) (st : dstate dst) (size mb : Z)
                                              (sched : list nat) (stalled : Z),
      ended st -> 0 < size -> 0 < mb -> stalled = 16 - Z.of_nat n -> (n < fuel)%nat ->
      gworker fuel st size mb sched stalled = Err EBad7z.
    Proof.
      induction n as [|n IH]; intros fuel st size mb sched stalled He Hsz Hmb Hst Hf;
        (destruct fuel as [|fuel]; [lia|]); cbn [gworker];
        (destruct (size >? 0) eqn:Es; [|lia]);
        (destruct (ended_step st (Z.min size mb) (sched_hd st sched) He ltac:(lia)) as (st' & Hd & He' & Hc));
        rewrite Hd; cbn [bind]; rewrite (ended_not_failed st' He');
        change (zlen [] >? 0) with false; cbv iota; rewrite Hc; cbn [andb].
      - replace (stalled + 1 >? 16) with true by lia. reflexivity.
      - replace (stalled + 1 >? 16) with false by lia.
        rewrite (IH fuel st' size mb (tl sched) (stalled + 1) He' Hsz Hmb ltac:(lia) ltac:(lia)).
        reflexivity.
    Qed.
  End Guard.
End Extract.
Arguments extract_members {dst}.
Arguments gworker {dst}.
Arguments gextract {dst}.

(* consecutive slices of the given sizes *)
Fixpoint split_sizes (l : bytes) (sizes : list Z) : list bytes :=
  match sizes with
  | [] => []
  | n :: t => firstn (Z.to_nat n) l :: split_sizes (skipn (Z.to_nat n) l) t
  end.

(* ---- the AES residue machines as stages -------------------------------- *)
(* AESCompressor as an element of SevenZipCompressor.chain *)
Definition aes_cstep (Eb : bytes -> bytes) (s : Aes.cstate) (data : bytes) : Aes.cstate * bytes :=
  Aes.aes_compress Eb s data.
Definition aes_cflush (Eb : bytes -> bytes) (s : Aes.cstate) : Aes.cstate * bytes :=
  Aes.aes_flush Eb s.
Definition aes_E (Eb : bytes -> bytes) (s : Aes.cstate) (x : bytes) : bytes :=
  fst (Aes.cbc_enc Eb (Aes.ccst s) (Aes.pad16 (Aes.cbuf s ++ x))).
Definition aes_cwf (s : Aes.cstate) : Prop := Aes.blen (Aes.cbuf s) < 16.

(* AESDecompressor as an element of SevenZipDecompressor.chain, with pycryptodome's
   ValueError made explicit: once a call has raised the stage is Err (nothing after an
   exception is observable).  max_length is ignored by AESDecompressor.decompress. *)
Definition aes_dstage : Type := res Aes.dstate.
Definition aes_dstep (Db : bytes -> bytes) (s : aes_dstage) (data : bytes) (ml : Z)
  : aes_dstage * bytes :=
  match s with
  | Err e => (Err e, [])
  | Ok st =>
    match Aes.aes_decompress_chk Db st data with
    | Ok (st', o) => (Ok st', o)
    | Err e => (Err e, [])
    end
  end.

(* chunks a reader hands out from a stream of n bytes when every read asks for at most
   bs bytes and never crosses a multiple of the volume size V (position p0 of the first
   byte in the file): the read schedule of _read_data on a multivolumefile *)
Fixpoint mv_chunks (fuel : nat) (p n bs V : Z) : list Z :=
  match fuel with
  | O => []
  | S f =>
    if n <=? 0 then []
    else
      let to_boundary := V - p mod V in
      let c := Z.min (Z.min n bs) to_boundary in
      if c <=? 0 then [] else c :: mv_chunks f (p + c) (n - c) bs V
  end.

(* ===================================================================== *)
(*                              PART 2 : PROOFS                          *)
(* ===================================================================== *)

Lemma split_sizes_concat (ms : list bytes) (junk : bytes) :
  split_sizes (concat ms ++ junk) (map zlen ms) = ms.
Proof.
  induction ms as [|m ms IH]; [reflexivity|].
  cbn [map concat split_sizes]. unfold zlen at 1 2. rewrite Nat2Z.id.
  rewrite <- app_assoc, firstn_app, Nat.sub_diag, firstn_all. cbn [firstn]. rewrite app_nil_r.
  rewrite skipn_app, Nat.sub_diag, skipn_all. cbn [skipn app]. now rewrite IH.
Qed.

Lemma prefix_skipn_firstn (x full acc m rest : bytes) :
  prefix x full -> x = acc ++ m ++ rest ->
  firstn (length m) (skipn (length acc) full) = m.
Proof.
  intros [c ->] ->. rewrite <- !app_assoc.
  rewrite skipn_app, skipn_all, Nat.sub_diag. cbn [skipn app].
  rewrite firstn_app, Nat.sub_diag, firstn_all. cbn [firstn]. now rewrite app_nil_r.
Qed.

Section RoundTrip.

  (* encoder side (Comp.v) *)
  Variable cst : Type.
  Variable cstep : cst -> bytes -> cst * bytes.
  Variable cflush : cst -> cst * bytes.
  Variable E : cst -> bytes -> bytes -> Prop.
  Variable wf : cst -> Prop.
  Hypothesis enc_contract : forall s0 s cin cout,
      wf s0 -> ereach cstep s0 s cin cout -> E s0 cin (cout ++ snd (cflush s)).

  (* decoder side (Decomp.v) *)
  Variable dst : Type.
  Variable dstep : dst -> bytes -> Z -> dst * bytes.
  Variable D : dst -> bytes -> bytes.
  Hypothesis D_mono : forall s0 a b, prefix (D s0 a) (D s0 (a ++ b)).
  Hypothesis stage_safe : forall s0 s cin cout,
      reach dstep s0 s cin cout -> prefix cout (D s0 cin).

  (* the member loop delivers consecutive slices of the decoded stream *)
  Lemma extract_members_spec (s0s : list dst) (P0 : bytes) (fuel : nat) (mb : Z) :
    forall (sizes : list Z) (st st' : dstate dst) (scheds : list (list nat)) (acc : bytes)
           (outs : list bytes),
      safe_state dstep s0s P0 st acc -> Forall (fun n => 0 <= n) sizes -> 0 < mb ->
      extract_members dstep fuel st sizes mb scheds = Ok (st', outs) ->
      outs = split_sizes (skipn (length acc)
                                (Dchain D s0s (firstn (Z.to_nat (input_size st)) P0))) sizes /\
      map zlen outs = sizes.
  Proof.
    induction sizes as [|size sizes IH]; intros st st' scheds acc outs Hs Hsz Hmb H.
    - simpl in H. injection H as _ <-. split; reflexivity.
    - cbn [extract_members] in H. inversion Hsz as [|? ? Hsz0 Hsz']; subst.
      destruct (worker_decompress dstep fuel st size mb (hd [] scheds)) as [[st1 out]|e] eqn:Hw;
        [|discriminate]. cbn [bind] in H.
      destruct (extract_members dstep fuel st1 sizes mb (tl scheds)) as [[st2 outs2]|e] eqn:Hx;
        [|discriminate]. cbn [bind] in H. injection H as <- <-.
      destruct (worker_next dst dstep D D_mono stage_safe s0s P0 fuel st st1 size mb _ acc out
                            Hs Hsz0 Hmb Hw) as (Hs1 & Hl & Ho).
      pose proof (worker_safe dst dstep s0s P0 fuel st st1 size mb _ acc out Hs Hsz0 Hmb Hw)
        as (_ & Hi & _).
      destruct (IH st1 st2 (tl scheds) (acc ++ out) outs2 Hs1 Hsz' Hmb Hx) as (Ho2 & Hl2).
      rewrite Hi in Ho2.
      split.
      + cbn [split_sizes]. f_equal; [exact Ho|].
        rewrite Ho2. f_equal. rewrite app_length, skipn_add. f_equal. f_equal.
        unfold zlen in Hl. lia.
      + cbn [map]. now rewrite Hl, Hl2.
  Qed.

  (* pairing of the two chains: the compressor applies its stages first to last, the
     coders are recorded last to first, so decoder stage j undoes encoder stage n-1-j *)
  Definition codec_inverse (s0s : list cst) (d0s : list dst) : Prop :=
    Forall2 (fun s d => forall x y, E s x y -> prefix x (D d y)) s0s (rev d0s).

  Lemma Dchain_app (a b : list dst) (x : bytes) : Dchain D (a ++ b) x = Dchain D b (Dchain D a x).
  Proof. revert x. induction a as [|d a IH]; intros x; [reflexivity|]. simpl. apply IH. Qed.

  Lemma Dchain_mono' (ds : list dst) (a b : bytes) :
    prefix a b -> prefix (Dchain D ds a) (Dchain D ds b).
  Proof.
    revert a b. induction ds as [|d ds IH]; intros a b Hp; [exact Hp|].
    simpl. apply IH. destruct Hp as [c ->]. apply D_mono.
  Qed.

  Lemma D_mono_prefix (d : dst) (a b : bytes) : prefix a b -> prefix (D d a) (D d b).
  Proof. intros [c ->]. apply D_mono. Qed.

  Lemma Dchain_Echain_prefix (s0s : list cst) (x : bytes) (ins : list bytes) (z : bytes) :
    Echain E s0s x ins z ->
    forall rd0s : list dst,
      Forall2 (fun s d => forall x y, E s x y -> prefix x (D d y)) s0s rd0s ->
      prefix x (Dchain D (rev rd0s) z).
  Proof.
    induction 1 as [x|s t x y ins z Hs Hc IH]; intros rd0s HF;
      inversion HF as [|? d ? rd Hsd HF']; subst.
    - simpl. apply prefix_refl.
    - cbn [rev]. rewrite Dchain_app. cbn [Dchain].
      eapply prefix_trans; [apply (Hsd _ _ Hs)|]. apply D_mono_prefix.
      apply IH. exact HF'.
  Qed.

  (* ==== ROUND TRIP ========================================================= *)
  (* One write session (any number of members, any block size <> 0, any read schedule of
     the members' sources) followed by extraction of all members in order on a fresh
     SevenZipDecompressor (any block size, any gate sizes us, any read schedules, any chunk
     limit mb > 0, anything after the packed stream in the file): IF the extraction loop
     returns at all, it returns exactly the members' bytes, and the CRC-32 it computes for
     each member is the one the session recorded. *)
  Theorem roundtrip_chain (s0s : list cst) (d0s : list dst) (bsz : Z) (fuel : nat)
          (ms : list (bytes * list nat)) (cs : cstate cst) (infos : list (Z * Z * Z)) (n : Z)
          (us : list Z) (bsr : Z) (trailer : bytes) (fuelr : nat) (mb : Z)
          (scheds : list (list nat)) (ds : dstate dst) (outs : list bytes) :
    Forall wf s0s -> codec_inverse s0s d0s -> bsz <> 0 -> 0 < mb ->
    write_session cstep cflush fuel (cinit s0s bsz) ms = Ok (cs, infos, n) ->
    extract_members dstep fuelr (init_state d0s us (cpacksize cs) bsr (cout cs ++ trailer))
                    (map (info_in) infos) mb scheds = Ok (ds, outs) ->
    outs = map fst ms /\ map crc32 outs = map info_crc infos.
  Proof.
    intros Hwf Hci Hb Hmb Hw Hx.
    destruct (compress_chain cst cstep cflush E wf enc_contract s0s bsz fuel ms cs infos n Hwf Hb Hw)
      as (ins & Hpacked).
    destruct (sizes_and_crcs cst cstep cflush E wf enc_contract s0s bsz fuel ms cs infos n Hwf Hb Hw)
      as (Hin & Hcr & Hps & _).
    set (st0 := init_state d0s us (cpacksize cs) bsr (cout cs ++ trailer)) in *.
    assert (Hfresh : fresh st0) by (repeat split; reflexivity).
    pose proof (fresh_safe dst dstep st0 Hfresh) as Hs0.
    assert (Hsz : Forall (fun k => 0 <= k) (map info_in infos)).
    { rewrite Hin. apply Forall_forall. intros k Hk. apply in_map_iff in Hk.
      destruct Hk as (m & <- & _). apply zlen_nonneg. }
    destruct (extract_members_spec (stages st0) (fp_rest st0) fuelr mb (map info_in infos) st0 ds scheds
                                   [] outs Hs0 Hsz Hmb Hx) as (Ho & _).
    cbn [st0 init_state stages fp_rest input_size length skipn] in Ho.
    rewrite Hps in Ho. unfold zlen in Ho. rewrite Nat2Z.id in Ho.
    rewrite firstn_app, Nat.sub_diag, firstn_all in Ho. cbn [firstn] in Ho. rewrite app_nil_r in Ho.
    pose proof (Dchain_Echain_prefix s0s (concat (map fst ms)) ins (cout cs) Hpacked (rev d0s) Hci) as Hp.
    rewrite rev_involutive in Hp. destruct Hp as [junk Hj].
    rewrite Hj, Hin in Ho.
    replace (map (fun m : bytes * list nat => zlen (fst m)) ms)
      with (map zlen (map fst ms)) in Ho by (rewrite map_map; reflexivity).
    rewrite split_sizes_concat in Ho.
    split; [exact Ho|]. rewrite Ho, Hcr, map_map. reflexivity.
  Qed.

  (* chain of length 1 *)
  Corollary roundtrip_single_stage (s0 : cst) (d0 : dst) (bsz : Z) (fuel : nat)
            (ms : list (bytes * list nat)) (cs : cstate cst) (infos : list (Z * Z * Z)) (n : Z)
            (us : list Z) (bsr : Z) (trailer : bytes) (fuelr : nat) (mb : Z)
            (scheds : list (list nat)) (ds : dstate dst) (outs : list bytes) :
    wf s0 -> (forall x y, E s0 x y -> prefix x (D d0 y)) -> bsz <> 0 -> 0 < mb ->
    write_session cstep cflush fuel (cinit [s0] bsz) ms = Ok (cs, infos, n) ->
    extract_members dstep fuelr (init_state [d0] us (cpacksize cs) bsr (cout cs ++ trailer))
                    (map (info_in) infos) mb scheds = Ok (ds, outs) ->
    outs = map fst ms /\ map crc32 outs = map info_crc infos.
  Proof.
    intros Hwf Hinv. apply roundtrip_chain.
    - constructor; [exact Hwf|constructor].
    - unfold codec_inverse. simpl. constructor; [exact Hinv|constructor].
  Qed.

End RoundTrip.

(* ===================================================================== *)
(*        AES: the residue machines as stages; which schedules are safe   *)
(* ===================================================================== *)

Section AesStage.
  Variable Eb Db : bytes -> bytes.

  Lemma compress_all_snoc (chunks : list bytes) :
    forall (st : Aes.cstate) (c : bytes),
      Aes.compress_all Eb st (chunks ++ [c]) =
      let '(s1, o1) := Aes.compress_all Eb st chunks in
      let '(s2, o2) := Aes.aes_compress Eb s1 c in (s2, o1 ++ o2).
  Proof.
    induction chunks as [|d chunks IH]; intros st c.
    - cbn [app Aes.compress_all]. destruct (Aes.aes_compress Eb st c) as [s2 o2].
      now rewrite app_nil_r.
    - cbn [app Aes.compress_all]. destruct (Aes.aes_compress Eb st d) as [st1 o1].
      rewrite IH. destruct (Aes.compress_all Eb st1 chunks) as [s1 o1'].
      destruct (Aes.aes_compress Eb s1 c) as [s2 o2]. now rewrite app_assoc.
  Qed.

  (* a run of the stage is a run of Aes.compress_all on some chunking *)
  Lemma aes_ereach_chunks (s0 s : Aes.cstate) (cin cout : bytes) :
    ereach (aes_cstep Eb) s0 s cin cout ->
    exists chunks, concat chunks = cin /\ Aes.compress_all Eb s0 chunks = (s, cout).
  Proof.
    induction 1 as [|s cin cout c Hr (chunks & Hc & Hall)].
    - exists []. split; reflexivity.
    - exists (chunks ++ [c]). split.
      + rewrite concat_app, Hc. simpl. now rewrite app_nil_r.
      + rewrite compress_all_snoc, Hall. unfold aes_cstep.
        destruct (Aes.aes_compress Eb s c) as [s2 o2]. reflexivity.
  Qed.

  (* AESCompressor is a stream encoder: E = CBC-encrypt o pad16 *)
  Theorem aes_enc_contract (s0 s : Aes.cstate) (cin cout : bytes) :
    aes_cwf s0 -> ereach (aes_cstep Eb) s0 s cin cout ->
    cout ++ snd (aes_cflush Eb s) = aes_E Eb s0 cin.
  Proof.
    intros Hwf Hr. destruct (aes_ereach_chunks s0 s cin cout Hr) as (chunks & <- & Hall).
    pose proof (Aes.compress_run_gen Eb chunks s0 Hwf) as H.
    rewrite Hall in H. cbn [fst snd] in H. exact H.
  Qed.

  Hypothesis Db_Eb : forall x : bytes, length x = 16%nat -> Db (Eb x) = x.
  Hypothesis Eb_len : forall x : bytes, length x = 16%nat -> length (Eb x) = 16%nat.

  (* the stream decoder (CBC-decrypt o pad16) inverts the stream encoder up to the zero
     padding: what the decoder side appends is cut off by the recorded member sizes *)
  Theorem aes_codec_inverse (iv x : bytes) :
    length iv = 16%nat ->
    fst (Aes.cbc_dec Db iv (Aes.pad16 (aes_E Eb (Aes.cinit iv) x))) = Aes.pad16 x /\
    prefix x (Aes.pad16 x).
  Proof.
    intros Hiv. unfold aes_E. cbn [Aes.cinit Aes.ccst Aes.cbuf app]. split.
    - pose proof (Aes.pad16_aligned x) as Hal.
      destruct (Aes.cbc_enc_length Eb Eb_len iv (Aes.pad16 x) Hiv) as [Hlen _].
      rewrite Aes.pad16_id by (rewrite Hlen; apply Aes.mult16_mod).
      apply (Aes.cbc_dec_enc Eb Db Db_Eb Eb_len); assumption.
    - unfold Aes.pad16. apply prefix_app.
  Qed.
End AesStage.

(* ---- which chunk schedules satisfy Aes.dec_chunks_ok -------------------- *)
(* the condition only looks at lengths *)
Fixpoint dec_sizes_ok (r : Z) (sizes : list Z) : bool :=
  match sizes with
  | [] => true
  | d :: rest => ((r =? 0) || (0 <? d)) && dec_sizes_ok ((r + d) mod 16) rest
  end.

Lemma dec_chunks_ok_sizes (chunks : list bytes) :
  forall r, Aes.dec_chunks_ok r chunks = dec_sizes_ok r (map Aes.blen chunks).
Proof. induction chunks as [|d rest IH]; intros r; [reflexivity|]. simpl. now rewrite IH. Qed.

(* every chunk but the last has at least 16 bytes *)
Fixpoint all_but_last_ge16 (sizes : list Z) : Prop :=
  match sizes with
  | [] => True
  | d :: rest => match rest with [] => 0 <= d | _ => 16 <= d /\ all_but_last_ge16 rest end
  end.

Ltac Zify.zify_post_hook ::= Z.to_euclidean_division_equations.

Theorem dec_sizes_ok_regular (sizes : list Z) :
  forall r, 0 <= r < 16 -> (r + zsum sizes) mod 16 = 0 -> all_but_last_ge16 sizes ->
            dec_sizes_ok r sizes = true.
Proof.
  induction sizes as [|d rest IH]; intros r Hr Hsum Hall; [reflexivity|].
  cbn [dec_sizes_ok]. destruct rest as [|d2 rest'].
  - cbn [zsum dec_sizes_ok all_but_last_ge16] in *. rewrite andb_true_r.
    apply orb_true_iff. destruct (Z.eq_dec r 0) as [->|Hne]; [left; reflexivity|right].
    apply Z.ltb_lt. lia.
  - destruct Hall as [Hd Hall]. apply andb_true_iff. split.
    + apply orb_true_iff. right. apply Z.ltb_lt. lia.
    + apply IH; [apply Z.mod_pos_bound; lia| |exact Hall].
      cbn [zsum] in Hsum |- *. rewrite Z.add_mod_idemp_l by lia.
      rewrite <- Hsum. f_equal. lia.
Qed.

Ltac Zify.zify_post_hook ::= idtac.

(* the form used: chunks of a stream whose length is a multiple of 16 *)
Corollary dec_chunks_ok_regular (chunks : list bytes) :
  Aes.blen (concat chunks) mod 16 = 0 ->
  all_but_last_ge16 (map Aes.blen chunks) ->
  Aes.dec_chunks_ok 0 chunks = true.
Proof.
  intros Hlen Hall. rewrite dec_chunks_ok_sizes. apply dec_sizes_ok_regular; [lia| |exact Hall].
  replace (zsum (map Aes.blen chunks)) with (Aes.blen (concat chunks)); [exact Hlen|].
  clear. induction chunks as [|c chunks IH]; [reflexivity|].
  cbn [concat map zsum]. rewrite Aes.blen_app, IH. reflexivity.
Qed.

(* since the repair of AESDecompressor.decompress the condition only excludes an EMPTY chunk on a
   non-empty residue: every schedule of non-empty chunks is safe ... *)
Theorem dec_sizes_ok_positive (sizes : list Z) :
  forall r, Forall (fun d => 0 < d) sizes -> dec_sizes_ok r sizes = true.
Proof.
  induction sizes as [|d rest IH]; intros r Hall; [reflexivity|].
  inversion Hall as [|? ? Hd Hrest]; subst. cbn [dec_sizes_ok].
  rewrite (IH _ Hrest), andb_true_r. apply orb_true_iff. right. apply Z.ltb_lt. exact Hd.
Qed.

(* ... and _read_data never hands out an empty chunk before the packed stream is exhausted, whatever
   the block size and the volume size: EVERY read schedule on a multi-volume file is safe *)
Lemma mv_chunks_positive (fuel : nat) : forall p n bs V, Forall (fun d => 0 < d) (mv_chunks fuel p n bs V).
Proof.
  induction fuel as [|f IH]; intros p n bs V; cbn [mv_chunks]; [constructor|].
  destruct (n <=? 0); [constructor|].
  destruct (Z.min (Z.min n bs) (V - p mod V) <=? 0) eqn:E; [constructor|].
  constructor; [apply Z.leb_gt in E; exact E|apply IH].
Qed.

Theorem mv_schedules_ok (fuel : nat) (p n bs V : Z) : dec_sizes_ok 0 (mv_chunks fuel p n bs V) = true.
Proof. apply dec_sizes_ok_positive, mv_chunks_positive. Qed.

(* read schedules of _read_data, by computation (the last two raised ValueError before the repair:
   volumes of 1 MiB + 4 bytes at the default block size; block size 32 with volumes of 70 bytes) *)
Example mv_chunks_examples :
  mv_chunks 10 32 3145744 1048576 (2 ^ 62) = [1048576; 1048576; 1048576; 16] /\
  mv_chunks 10 32 208 1048576 70 = [38; 70; 70; 30] /\
  mv_chunks 10 32 2097200 1048576 1048580 = [1048548; 1048576; 4; 72] /\
  dec_sizes_ok 0 (mv_chunks 10 32 2097200 1048576 1048580) = true /\
  mv_chunks 10 32 112 32 70 = [32; 6; 32; 32; 6; 4] /\
  dec_sizes_ok 0 (mv_chunks 10 32 112 32 70) = true.
Proof. vm_compute. repeat split; reflexivity. Qed.

(* ---- short reads through SevenZipDecompressor -------------------------------------
   112 bytes of genuine ciphertext (toy cipher) at offset 32 of a multi-volume file with
   volumes of 70 bytes, block size 32: the reads return 32, 6, 32, 32, 6, 4 bytes; the
   fifth hands AESDecompressor.decompress 6 bytes on a residue of 6.  Before the repair the
   stage raised there (ValueError); now the 6 bytes are kept, the sixth read completes the
   block, and the loop delivers all 112 bytes, exactly as with full reads. *)
Definition rt_plain : bytes := Aes.ex_plain 112.
Definition rt_cipher : bytes := fst (Aes.cbc_enc Aes.toyE Aes.ex_iv rt_plain).
Definition rt_state (bs : Z) : dstate aes_dstage :=
  init_state [Ok (Aes.dinit Aes.ex_iv)] [112] 112 bs (rt_cipher ++ [23; 6; 1; 9]).

Theorem aes_short_read_delivered :
  (exists st', worker_decompress (aes_dstep Aes.toyD) 10 (rt_state 32) 112 1000
                                 (map Z.to_nat (mv_chunks 10 32 112 32 70)) = Ok (st', rt_plain)) /\
  (exists st'', worker_decompress (aes_dstep Aes.toyD) 10 (rt_state 32) 112 1000 [] = Ok (st'', rt_plain)) /\
  (* the fifth call: six bytes on a residue of six, nothing raised, nothing delivered yet *)
  (exists st5 outs, decompress_seq (aes_dstep Aes.toyD) (rt_state 32)
                      [(112, 32%nat); (80, 6%nat); (80, 32%nat); (48, 32%nat); (16, 6%nat)] = Ok (st5, outs) /\
                    zlen outs = 96 /\
                    exists a, stages st5 = [Ok a] /\ Aes.blen (Aes.dbuf a) = 12).
Proof.
  split; [eexists; vm_compute; reflexivity|]. split; [eexists; vm_compute; reflexivity|].
  eexists. eexists. split; [vm_compute; reflexivity|]. split; [vm_compute; reflexivity|].
  eexists. split; vm_compute; reflexivity.
Qed.

(* ===================================================================== *)
(*        Non-vacuity: the hypotheses of roundtrip_chain are satisfiable  *)
(* ===================================================================== *)
(* decoders of Decomp.v's toy kinds undo encoders of Comp.v's toy kinds:
   copy/lagging/hoarder/trailer/padder encoders are undone by the copy and the lagging
   decoder (up to trailing bytes) *)
Definition toy_pair_ok (s d : toy_state) : bool :=
  let '(ct, _, cp) := s in
  let '(dt, _, dp) := d in
  negb (ct =? 2) && negb (dt =? 2) &&
  match cp, dp with [], [] => true | _, _ => false end.

Lemma toy_pair_inverse (s d : toy_state) :
  toy_pair_ok s d = true -> forall x, prefix x (toy_D d (toy_E s x)).
Proof.
  destruct s as [[ct ck] cp]. destruct d as [[dt dk] dp]. unfold toy_pair_ok.
  intros H x. destruct cp; [|rewrite andb_false_r in H; discriminate].
  destruct dp; [|rewrite andb_false_r in H; discriminate].
  rewrite andb_true_r in H. apply andb_true_iff in H as [H1 H2].
  apply negb_true_iff in H1, H2. unfold toy_D, toy_E. rewrite H1, H2.
  assert (HE : prefix x (if (ct =? 1) || (ct =? 3) then [] ++ x
                         else if ct =? 4
                              then ([] ++ x) ++ repeatZ 0 (Z.to_nat (- zlen ([] ++ x) mod Z.max 1 ck))
                              else if ct =? 5 then x ++ [ck mod 256] else x)).
  { destruct ((ct =? 1) || (ct =? 3)); [apply prefix_refl|].
    destruct (ct =? 4); [apply prefix_app|]. destruct (ct =? 5); [apply prefix_app|apply prefix_refl]. }
  destruct (dt =? 1); [exact HE|exact HE].
Qed.

Theorem toy_roundtrip_chain (s0s d0s : list toy_state) (bsz : Z) (fuel : nat)
        (ms : list (bytes * list nat)) (cs : cstate toy_state) (infos : list (Z * Z * Z)) (n : Z)
        (us : list Z) (bsr : Z) (trailer : bytes) (fuelr : nat) (mb : Z)
        (scheds : list (list nat)) (ds : dstate toy_state) (outs : list bytes) :
  Forall2 (fun s d => toy_pair_ok s d = true) s0s (rev d0s) -> bsz <> 0 -> 0 < mb ->
  write_session toy_cstep toy_cflush fuel (cinit s0s bsz) ms = Ok (cs, infos, n) ->
  extract_members toy_dstep fuelr (init_state d0s us (cpacksize cs) bsr (cout cs ++ trailer))
                  (map info_in infos) mb scheds = Ok (ds, outs) ->
  outs = map fst ms /\ map crc32 outs = map info_crc infos.
Proof.
  intros HF. apply (roundtrip_chain toy_state toy_cstep toy_cflush (fun s a b => b = toy_E s a) (fun _ => True)
                                    toy_enc_contract toy_state toy_dstep toy_D toy_D_mono toy_stage_safe).
  - apply Forall_forall. intros; exact I.
  - unfold codec_inverse. induction HF; constructor; [|assumption].
    intros a b ->. apply toy_pair_inverse; assumption.
Qed.

(* a concrete, non-trivial session on which every hypothesis holds and both sides return:
   chain [lagging(2); padder(4)] written with block size 3 and a short read, read back through
   [copy; lagging(1)] with block size 2, chunk limit 3 and short reads, 5 bytes of trailer *)
Example toy_roundtrip_ex :
  match write_session toy_cstep toy_cflush 20 (cinit [toy_st 1 2 []; toy_st 4 4 []] 3)
                      [([1; 2; 3; 4; 5], [2%nat]); ([], []); ([6; 7], [])] with
  | Ok (cs, infos, n) =>
    cout cs = [1; 2; 3; 4; 5; 6; 7; 0] /\
    match extract_members toy_dstep 30
            (init_state [toy_st 0 0 []; toy_st 1 1 []] [8; 8] (cpacksize cs) 2 (cout cs ++ [9; 9; 9; 9; 9]))
            (map info_in infos) 3 [[1%nat]; []; []] with
    | Ok (_, outs) => outs = [[1; 2; 3; 4; 5]; []; [6; 7]]
    | Err _ => False
    end
  | Err _ => False
  end.
Proof. vm_compute. split; reflexivity. Qed.

(* the guard, concretely: declared unpack size 10, the stream holds 3 bytes (the witness on which
   Decomp.toy_worker_spins shows the unguarded loop spinning) *)
Example toy_guard_ex :
  (exists st, gworker toy_dstep (fun _ => false) 30 (init_state [toy_st 0 0 []] [10] 3 100 [1; 2; 3]) 3 100 [] 0
              = Ok (st, [1; 2; 3])) /\
  gworker toy_dstep (fun _ => false) 30 (init_state [toy_st 0 0 []] [10] 3 100 [1; 2; 3]) 10 100 [] 0 = Err EBad7z /\
  gworker toy_dstep (fun _ => false) 17 (init_state [toy_st 0 0 []] [10] 3 100 [1; 2; 3]) 10 100 [] 0 = Err EFuel.
Proof. split; [eexists; vm_compute; reflexivity|]. split; vm_compute; reflexivity. Qed.

Print Assumptions roundtrip_chain.
Print Assumptions gworker_ok.
Print Assumptions gworker_raises.
Print Assumptions roundtrip_single_stage.
Print Assumptions aes_enc_contract.
Print Assumptions aes_codec_inverse.
Print Assumptions dec_chunks_ok_regular.
Print Assumptions aes_short_read_delivered.
Print Assumptions mv_schedules_ok.
Print Assumptions toy_roundtrip_chain.
