(* PackInfoGen.v -- PackInfo._read / retrieve / write as generated from py7zr/archiveinfo.py
   (gen/ArchiveinfoRecords.v) are Header.v's parse_packinfo / write_packinfo, on all inputs. *)
From P7 Require Import Prelude PyPrims PyStr PyTac Number NumberGen BoolVec BoolVecGen Header HeaderPrims HeaderGenPrims.
From P7gen Require Import ArchiveinfoPrims ArchiveinfoRecords.
From Coq Require Import ZifyBool ZifyNat.
Open Scope Z_scope.

(* the record the model keeps of a PackInfo object (packpositions and enable_digests are derived) *)
Definition pack_of (o : PackInfo) : packinfo :=
  mkPack (PackInfo_packpos o) (PackInfo_numstreams o) (PackInfo_packsizes o) (PackInfo_digestdefined o) (PackInfo_crcs o).

(* for crcexist in self.digestdefined: self.crcs.append(read_uint32(file)[0] if crcexist else 0) *)
Lemma gen_crc_loop (body : bool -> bool * list Z * bytes -> res ((bool * list Z * bytes) * bool)) :
  (forall crcexist en crcs inp, body crcexist (en, crcs, inp) =
     if crcexist then (do t9r <- read_uint32 inp; let '(t9, inp) := t9r in Ok ((true, crcs ++ [fst t9], inp), false))
     else Ok ((true, crcs ++ [0], inp), false)) ->
  forall (defined : list bool) (en : bool) (crcs : list Z) (bs : bytes) (f : nat),
  (length bs < f)%nat ->
  for_m defined body (en, crcs, bs)
  = (do (vals, r) <- rd_rep f (count_true defined) (rd_fixed 4) bs;
     do c <- expand_crcs defined vals;
     Ok (match defined with [] => en | _ => true end, crcs ++ c, r)).
Proof.
  intros Hbody. induction defined as [|d ds IH]; intros en crcs bs f Hf.
  - cbn [for_m]. rewrite rd_rep_nonpos by reflexivity. cbn [bind expand_crcs]. now rewrite app_nil_r.
  - cbn [for_m]. rewrite Hbody, count_true_cons. pose proof (count_true_bounds ds) as Hc. destruct d.
    + rewrite gen_read_uint32_rd_fixed. destruct f as [|f]; [lia|]. cbn [rd_rep].
      destruct (1 + count_true ds <=? 0) eqn:E0; [lia|].
      destruct (rd_fixed 4 bs) as [[v r1]|e] eqn:Er; cbn [bind fst]; [|reflexivity].
      apply rd_fixed_progress in Er; [|lia].
      rewrite (IH true (crcs ++ [v]) r1 f ltac:(lia)).
      replace (1 + count_true ds - 1) with (count_true ds) by lia.
      destruct (rd_rep f (count_true ds) (rd_fixed 4) r1) as [[vals r]|e]; cbn [bind expand_crcs]; [|reflexivity].
      destruct (expand_crcs ds vals) as [c|e]; cbn [bind]; [|reflexivity].
      rewrite <- app_assoc. destruct ds; reflexivity.
    + rewrite (IH true (crcs ++ [0]) bs f Hf). replace (0 + count_true ds) with (count_true ds) by lia.
      destruct (rd_rep f (count_true ds) (rd_fixed 4) bs) as [[vals r]|e]; cbn [bind expand_crcs]; [|reflexivity].
      destruct (expand_crcs ds vals) as [c|e]; cbn [bind]; [|reflexivity].
      rewrite <- app_assoc. destruct ds; reflexivity.
Qed.

(* self.packpositions: running totals; the loop cannot fail *)
Lemma gen_packpositions_loop (body : Z -> list Z -> res (list Z * bool)) :
  (forall size pp, body size pp = do t <- py_index pp (-1); Ok (pp ++ [t + size], false)) ->
  forall (sizes pp : list Z), pp <> [] ->
  exists pp', for_m sizes body pp = Ok pp' /\ length pp' = (length pp + length sizes)%nat.
Proof.
  intros Hbody. induction sizes as [|s sizes IH]; intros pp Hne.
  - exists pp. split; [reflexivity | cbn [length]; lia].
  - cbn [for_m]. rewrite Hbody, (py_index_last pp 0 Hne). cbn [bind].
    destruct (IH (pp ++ [last pp 0 + s])) as [pp' [H1 H2]]; [now destruct pp|].
    exists pp'. split; [exact H1|]. rewrite H2, app_length. cbn [length]. lia.
Qed.

Lemma rdnum_inv : forall bs x r, wf_bytes bs = true -> rd_number bs = Ok (x, r) -> wf_bytes r = true /\ (length r < length bs)%nat.
Proof. intros bs x r Hw H. split; [eapply rd_number_wf; eassumption | eapply rd_number_progress; eassumption]. Qed.

Definition pid_bytes (o : option Z) : bytes := match o with None => [] | Some b => [b] end.
Lemma pid_bytes_eqb pid k : bytes_eqb (pid_bytes pid) [k] = match pid with Some p => p =? k | None => false end.
Proof. destruct pid as [p|]; [|reflexivity]. cbn. now rewrite andb_true_r. Qed.

Lemma gen_pid b : exists pid r, rd_pid b = Ok (pid, r) /\ rd_read b 1 = (pid_bytes pid, r) /\
                                 (wf_bytes b = true -> wf_bytes r = true) /\ (length r <= length b)%nat.
Proof.
  destruct b as [|x t]; [exists None, [] | exists (Some x), t]; (split; [reflexivity|split; [reflexivity|split]]);
    cbn [length]; try lia; try easy.
  cbn [wf_bytes forallb]. intros H. apply andb_true_iff in H. apply H.
Qed.

(* the end of PackInfo._read: END expected, packpositions, enable_digests *)
Lemma gen_packinfo_tail pos n sizes (pid : option Z) (inp : bytes) dd crcs :
  (do (o, r) <-
     (do _ <- (if negb (bytes_eqb (pid_bytes pid) [0]) then Err EBad7z else Ok tt);
      do t15s <- for_m sizes (fun (size : Z) (self_packpositions : list Z) =>
                   do t14 <- py_index self_packpositions (-1);
                   Ok (self_packpositions ++ [t14 + size], false)) [0];
      Ok (mkPackInfo pos n sizes t15s crcs dd (py_any false dd), inp));
   Ok (pack_of o, r))
  = match pid with Some 0 => Ok (mkPack pos n sizes dd crcs, inp) | _ => Err EBad7z end.
Proof.
  rewrite pid_bytes_eqb, match_pid_0. destruct pid as [p|]; [|reflexivity].
  destruct (p =? 0); cbn [negb bind]; [|reflexivity].
  match goal with |- context[for_m sizes ?b _] => destruct (gen_packpositions_loop b ltac:(intros; reflexivity) sizes [0] ltac:(discriminate)) as [pp [Hpp _]] end.
  rewrite Hpp. reflexivity.
Qed.

Theorem gen_PackInfo_retrieve_eq_model_or lim bs : wf_bytes bs = true ->
  parse_packinfo lim bs = Err EFuel \/
  (do (o, r) <- PackInfo_retrieve bs; Ok (pack_of o, r)) = parse_packinfo lim bs.
Proof.
  intros Hw. unfold PackInfo_retrieve, PackInfo_read, PackInfo_init, parse_packinfo in *.
  cbn [PackInfo_packpos PackInfo_numstreams PackInfo_packsizes PackInfo_packpositions PackInfo_crcs
       PackInfo_digestdefined PackInfo_enable_digests]. cbv zeta.
  rewrite gen_read_uint64_rd_number by exact Hw.
  destruct (rd_number bs) as [[pos bs1]|e] eqn:E1; cbn [bind]; [|right; reflexivity].
  pose proof (rd_number_wf _ _ _ Hw E1) as Hw1.
  rewrite gen_read_uint64_rd_number by exact Hw1.
  destruct (rd_number bs1) as [[n bs2]|e] eqn:E2; cbn [bind] in *; [|right; reflexivity].
  pose proof (rd_number_wf _ _ _ Hw1 E2) as Hw2.
  destruct (gen_pid bs2) as (pid & bs3 & Hp1 & Hp2 & Hp3 & _). rewrite Hp1, Hp2. cbn [bind]. specialize (Hp3 Hw2).
  destruct (lim <? n) eqn:Elim; [left; reflexivity|].
  rewrite pid_bytes_eqb, match_pid_9.
  destruct pid as [p|]; [destruct (p =? 9) eqn:E9|].
  2: { right. cbn [bind]. exact (gen_packinfo_tail _ _ _ (Some p) _ _ _). }
  2: { right. cbn [bind]. exact (gen_packinfo_tail _ _ _ None _ _ _). }
  rewrite (gen_read_many read_uint64 rd_number (fun b => wf_bytes b = true) gen_read_uint64_rd_number rdnum_inv n bs3 Hp3).
  unfold rd_many.
  destruct (rd_rep (S (length bs3)) n rd_number bs3) as [[sizes bs4]|e] eqn:E3; cbn [bind] in *; [|right; reflexivity].
  destruct (rd_rep_inv rd_number (fun b => wf_bytes b = true) rdnum_inv _ _ _ _ _ Hp3 E3) as (Hw4 & _ & _).
  destruct (gen_pid bs4) as (pid2 & bs5 & Hq1 & Hq2 & Hq3 & _). rewrite Hq1, Hq2. cbn [bind]. specialize (Hq3 Hw4).
  rewrite pid_bytes_eqb.
  rewrite match_pid_10.
  destruct pid2 as [q|]; [destruct (q =? 10) eqn:E10|].
  2: { right. cbn [bind]. exact (gen_packinfo_tail _ _ _ (Some q) _ _ _). }
  2: { right. cbn [bind]. exact (gen_packinfo_tail _ _ _ None _ _ _). }
  destruct (rd_boolean lim n true bs5) as [[dd bs6]|e] eqn:Eb.
  2: { destruct e; try (right; rewrite (gen_read_boolean_rd_boolean lim n true bs5 Hq3) by (rewrite Eb; discriminate);
                        rewrite Eb; reflexivity).
       left. reflexivity. }
  right. rewrite (gen_read_boolean_rd_boolean lim n true bs5 Hq3) by (rewrite Eb; discriminate). rewrite Eb. cbn [bind].
  pose proof (rd_boolean_wf _ _ _ _ _ _ Hq3 Eb) as Hw6.
  match goal with |- context[for_m dd ?b _] =>
    rewrite (gen_crc_loop b ltac:(intros; reflexivity) dd true [] bs6 (S (length bs6)) ltac:(lia)) end.
  unfold rd_defined_crcs, rd_many.
  destruct (rd_rep (S (length bs6)) (count_true dd) (rd_fixed 4) bs6) as [[vals bs7]|e] eqn:Ev; cbn [bind]; [|reflexivity].
  destruct (expand_crcs dd vals) as [crcs|e]; cbn [bind app]; [|reflexivity].
  destruct (gen_pid bs7) as (pid3 & bs8 & Hr1 & Hr2 & _). rewrite Hr1, Hr2. cbn [bind].
  exact (gen_packinfo_tail _ _ _ pid3 _ _ _).
Qed.

(* the form with the hypothesis: whenever the model does not answer "resource limit" *)
Theorem gen_PackInfo_retrieve_eq_model lim bs : wf_bytes bs = true -> parse_packinfo lim bs <> Err EFuel ->
  (do (o, r) <- PackInfo_retrieve bs; Ok (pack_of o, r)) = parse_packinfo lim bs.
Proof. intros Hw Hne. destruct (gen_PackInfo_retrieve_eq_model_or lim bs Hw) as [H|H]; [contradiction | exact H]. Qed.

(* ------------------------------------------------------------------ PackInfo.write *)
Lemma py_index_out {A} (l : list A) k : (length l <= k)%nat -> py_index l (Z.of_nat k) = Err EOther.
Proof.
  intros H. unfold py_index, py_len. destruct (Z.of_nat k <? 0) eqn:E; [lia|].
  destruct ((Z.of_nat k <? 0) || (Z.of_nat (length l) <=? Z.of_nat k)) eqn:E2; [reflexivity|lia].
Qed.

Lemma wr_fixed_err n v e : wr_fixed n v = Err e -> e = EOther.
Proof. unfold wr_fixed. destruct ((v <? 0) || (256 ^ Z.of_nat n <=? v)); congruence. Qed.

Lemma wr_pack_crcs_err : forall dd crcs e, wr_pack_crcs dd crcs = Err e -> e = EOther.
Proof.
  induction dd as [|d ds IH]; intros crcs e; cbn [wr_pack_crcs]; [discriminate|].
  destruct crcs as [|c cs].
  - destruct d; [congruence | apply IH].
  - destruct d.
    + destruct (wr_fixed 4 c) as [a|e1] eqn:E1; cbn [bind]; [|intros H; injection H as <-; now apply wr_fixed_err in E1].
      destruct (wr_pack_crcs ds cs) as [b|e2] eqn:E2; cbn [bind]; [discriminate|]. intros H; injection H as <-. now apply IH in E2.
    + cbn [bind]. destruct (wr_pack_crcs ds cs) as [b|e2] eqn:E2; cbn [bind]; [discriminate|]. intros H; injection H as <-. now apply IH in E2.
Qed.

(* for i in range(numstreams): if self.digestdefined[i]: write_uint32(file, self.crcs[i]) *)
Lemma gen_pack_crc_loop (body : Z -> bytes -> res (bytes * bool)) (dd : list bool) (crcs : list Z) :
  (forall i out, body i out =
     do t15 <- py_index dd i;
     if t15 then (do t16 <- py_index crcs i; do t17 <- write_uint32 t16; Ok (out ++ t17, false)) else Ok (out, false)) ->
  forall (m i : nat) out, (i + m = length crcs)%nat -> (i <= length dd)%nat ->
  for_m (range_from (Z.of_nat i) m) body out
  = if (length dd <? i + m)%nat then Err EOther
    else do x <- wr_pack_crcs (firstn m (skipn i dd)) (skipn i crcs); Ok (out ++ x).
Proof.
  intros Hbody. induction m as [|m IH]; intros i out Hlen Hi.
  - cbn [range_from for_m firstn wr_pack_crcs bind]. replace (length dd <? i + 0)%nat with false by lia. now rewrite app_nil_r.
  - cbn [range_from for_m]. rewrite Hbody.
    destruct (Nat.ltb_spec i (length dd)) as [Hlt|Hge].
    + rewrite (py_index_nat dd i false Hlt). cbn [bind].
      assert (Hd : skipn i dd = nth i dd false :: skipn (S i) dd).
      { rewrite <- (firstn_skipn i dd) at 2. rewrite app_nth2; rewrite firstn_length; [|lia].
        replace (i - Nat.min i (length dd))%nat with O by lia.
        destruct (skipn i dd) as [|x t] eqn:Es. { apply (f_equal (@length bool)) in Es. rewrite skipn_length in Es. cbn in Es. lia. }
        cbn [nth]. f_equal. rewrite <- (firstn_skipn i dd) at 1. 
        replace (S i) with (length (firstn i dd) + 1)%nat by (rewrite firstn_length; lia).
        rewrite skipn_app, skipn_all2 by (rewrite firstn_length; lia). rewrite firstn_length.
        replace (Nat.min i (length dd) + 1 - Nat.min i (length dd))%nat with 1%nat by lia. rewrite Es. reflexivity. }
      assert (Hc : skipn i crcs = nth i crcs 0 :: skipn (S i) crcs).
      { rewrite <- (firstn_skipn i crcs) at 2. rewrite app_nth2; rewrite firstn_length; [|lia].
        replace (i - Nat.min i (length crcs))%nat with O by lia.
        destruct (skipn i crcs) as [|x t] eqn:Es. { apply (f_equal (@length Z)) in Es. rewrite skipn_length in Es. cbn in Es. lia. }
        cbn [nth]. f_equal. rewrite <- (firstn_skipn i crcs) at 1.
        replace (S i) with (length (firstn i crcs) + 1)%nat by (rewrite firstn_length; lia).
        rewrite skipn_app, skipn_all2 by (rewrite firstn_length; lia). rewrite firstn_length.
        replace (Nat.min i (length crcs) + 1 - Nat.min i (length crcs))%nat with 1%nat by lia. rewrite Es. reflexivity. }
      rewrite Hd, Hc. cbn [firstn wr_pack_crcs].
      replace (Z.of_nat i + 1) with (Z.of_nat (S i)) by lia.
      destruct (nth i dd false).
      * rewrite (py_index_nat crcs i 0 ltac:(lia)). cbn [bind]. rewrite gen_write_uint32_wr_fixed.
        destruct (wr_fixed 4 (nth i crcs 0)) as [a|e] eqn:Ea; cbn [bind].
        -- rewrite (IH (S i) (out ++ a) ltac:(lia) ltac:(lia)).
           replace (S i + m)%nat with (i + S m)%nat by lia.
           destruct (length dd <? i + S m)%nat; [reflexivity|].
           destruct (wr_pack_crcs (firstn m (skipn (S i) dd)) (skipn (S i) crcs)); cbn [bind]; [|reflexivity].
           now rewrite app_assoc.
        -- apply wr_fixed_err in Ea. subst e. destruct (length dd <? i + S m)%nat; reflexivity.
      * rewrite (IH (S i) out ltac:(lia) ltac:(lia)). replace (S i + m)%nat with (i + S m)%nat by lia.
        destruct (length dd <? i + S m)%nat; [reflexivity|]. cbn [bind app].
        destruct (wr_pack_crcs (firstn m (skipn (S i) dd)) (skipn (S i) crcs)); reflexivity.
    + rewrite (py_index_out dd i Hge). cbn [bind]. replace (length dd <? i + S m)%nat with true by lia. reflexivity.
Qed.

Lemma gen_write_byte b : write_byte [b] = Ok [b].
Proof. reflexivity. Qed.

Theorem gen_PackInfo_write_eq_model (self : PackInfo) :
  (do (o, out) <- PackInfo_write self; Ok out) = write_packinfo (PackInfo_enable_digests self) (pack_of self).
Proof.
  destruct self as [pos n sizes pp crcs dd en]. unfold PackInfo_write, write_packinfo, pack_of.
  cbn [PackInfo_packpos PackInfo_numstreams PackInfo_packsizes PackInfo_packpositions PackInfo_crcs
       PackInfo_digestdefined PackInfo_enable_digests p_pos p_numstreams p_sizes p_digestdefined p_crcs]. cbv zeta.
  change (py_len sizes) with (zlen sizes). change (py_len crcs) with (zlen crcs).
  destruct (n =? zlen sizes) eqn:En; cbn [negb]; [|reflexivity].
  rewrite !gen_write_byte. cbn [bind app]. rewrite !gen_write_uint64_wr_number.
  destruct (wr_number pos) as [a|e]; cbn [bind]; [|reflexivity].
  destruct (wr_number n) as [b|e]; cbn [bind]; [|reflexivity].
  rewrite (gen_write_loop write_uint64 wr_number gen_write_uint64_wr_number).
  destruct (wr_list wr_number sizes) as [c|e]; cbn [bind]; [|reflexivity].
  rewrite py_any_any_true, (orb_comm en).
  destruct (any_true dd || en) eqn:Een.
  2: { cbn [bind app]. rewrite <- !app_assoc. reflexivity. }
  rewrite (Z.eqb_sym (zlen crcs) n).
  destruct (n =? zlen crcs) eqn:Ec; cbn [negb]; [|reflexivity].
  rewrite gen_write_boolean_wr_boolean. cbn [bind].
  assert (Hn : n = Z.of_nat (length crcs)) by (unfold zlen in Ec; lia).
  assert (Hs : length sizes = length crcs) by (unfold zlen in *; lia).
  unfold py_range. rewrite Z.sub_0_r, Hn, Nat2Z.id. change 0 with (Z.of_nat 0).
  match goal with |- context[for_m _ ?body _] =>
    rewrite (gen_pack_crc_loop body dd crcs ltac:(intros; reflexivity) (length crcs) 0%nat _ ltac:(lia) ltac:(lia)) end.
  cbn [skipn plus]. rewrite Hs.
  destruct (length dd <? length crcs)%nat; [reflexivity|].
  destruct (wr_pack_crcs (firstn (length crcs) dd) crcs) as [x|e]; cbn [bind]; [|reflexivity].
  f_equal. repeat (progress (rewrite <- ?app_assoc; cbn [app])). reflexivity.
Qed.

(* what the object is after write(): only enable_digests changes (reduce(or_, digestdefined, enable_digests)) *)
Theorem gen_PackInfo_write_state (self o : PackInfo) out : PackInfo_write self = Ok (o, out) ->
  o = mkPackInfo (PackInfo_packpos self) (PackInfo_numstreams self) (PackInfo_packsizes self) (PackInfo_packpositions self)
                 (PackInfo_crcs self) (PackInfo_digestdefined self)
                 (PackInfo_enable_digests self || any_true (PackInfo_digestdefined self)).
Proof.
  destruct self as [pos n sizes pp crcs dd en]. unfold PackInfo_write.
  cbn [PackInfo_packpos PackInfo_numstreams PackInfo_packsizes PackInfo_packpositions PackInfo_crcs
       PackInfo_digestdefined PackInfo_enable_digests]. cbv zeta. rewrite py_any_any_true.
  repeat match goal with
         | |- context[if ?c then _ else _] => destruct c
         | |- context[bind ?x _] => lazymatch x with Ok _ => fail | Err _ => fail | _ => destruct x end
         | _ => progress cbn [bind]
         end; try discriminate; intros H; injection H as <- _; reflexivity.
Qed.

(* non-vacuity: PackInfo with two streams, CRC of the first defined; and a truncated / wrong-id record *)
Example ex_gen_packinfo :
  PackInfo_write (mkPackInfo 5 2 [40; 300] [] [305419896; 0] [true; false] false)
    = Ok (mkPackInfo 5 2 [40; 300] [] [305419896; 0] [true; false] true, [6; 5; 2; 9; 40; 129; 44; 10; 0; 128; 120; 86; 52; 18; 0])
  /\ (do (o, r) <- PackInfo_retrieve [5; 2; 9; 40; 129; 44; 10; 0; 128; 120; 86; 52; 18; 0; 77]; Ok (pack_of o, PackInfo_packpositions o, r))
     = Ok (mkPack 5 2 [40; 300] [true; false] [305419896; 0], [0; 40; 340], [77])
  /\ PackInfo_retrieve [5; 2; 9; 40] = Err EOther /\ PackInfo_retrieve [5; 0; 7] = Err EBad7z.
Proof. repeat match goal with |- _ /\ _ => split end; vm_compute; reflexivity. Qed.

Print Assumptions gen_PackInfo_retrieve_eq_model.
Print Assumptions gen_PackInfo_write_eq_model.
