(* HeaderCodec.v -- tree protocol <-> header object graph (driver glue, all Gallina). *)
From P7 Require Import Prelude PyPrims Number Header.
Open Scope Z_scope.

Definition t_list {A} (f : A -> tree) (l : list A) : tree := TL (map f l).
Definition of_list {A} (f : tree -> A) (t : tree) : list A := map f (of_TL t).
Definition t_Zs (l : list Z) : tree := t_list TI l.
Definition of_Zs (t : tree) : list Z := of_list of_TI t.
Definition t_bools (l : list bool) : tree := t_list t_bool l.
Definition of_bools (t : tree) : list bool := of_list of_bool t.
Definition t_optopt (o : option (option Z)) : tree := t_opt (t_opt TI) o.
Definition of_optopt (t : tree) : option (option Z) := of_opt (of_opt of_TI) t.

Definition t_coder (c : coder) : tree :=
  TL [t_bytes (c_method c); TI (c_nin c); TI (c_nout c); t_opt t_bytes (c_props c)].
Definition of_coder (t : tree) : coder :=
  mkCoder (of_bytes (tnth t 0)) (of_TI (tnth t 1)) (of_TI (tnth t 2)) (of_opt of_bytes (tnth t 3)).
Definition t_pair (p : Z * Z) : tree := TL [TI (fst p); TI (snd p)].
Definition of_pair (t : tree) : Z * Z := (of_TI (tnth t 0), of_TI (tnth t 1)).
Definition t_folder (f : folder) : tree :=
  TL [t_list t_coder (f_coders f); t_list t_pair (f_bonds f); t_Zs (f_packed f); t_Zs (f_unpacksizes f);
      t_bool (f_digestdefined f); t_opt TI (f_crc f)].
Definition of_folder (t : tree) : folder :=
  mkFolder (of_list of_coder (tnth t 0)) (of_list of_pair (tnth t 1)) (of_Zs (tnth t 2)) (of_Zs (tnth t 3))
           (of_bool (tnth t 4)) (of_opt of_TI (tnth t 5)).
Definition t_pack (p : packinfo) : tree :=
  TL [TI (p_pos p); TI (p_numstreams p); t_Zs (p_sizes p); t_bools (p_digestdefined p); t_Zs (p_crcs p)].
Definition of_pack (t : tree) : packinfo :=
  mkPack (of_TI (tnth t 0)) (of_TI (tnth t 1)) (of_Zs (tnth t 2)) (of_bools (tnth t 3)) (of_Zs (tnth t 4)).
Definition t_sub (s : substreams) : tree :=
  TL [t_Zs (s_nums s); t_opt t_Zs (s_sizes s); t_bools (s_digestsdefined s); t_Zs (s_digests s)].
Definition of_sub (t : tree) : substreams :=
  mkSub (of_Zs (tnth t 0)) (of_opt of_Zs (tnth t 1)) (of_bools (tnth t 2)) (of_Zs (tnth t 3)).
Definition t_file (e : fileent) : tree :=
  TL [t_bool (e_emptystream e); t_opt t_Zs (e_name e); t_optopt (e_ctime e); t_optopt (e_atime e);
      t_optopt (e_mtime e); t_optopt (e_attr e)].
Definition of_file (t : tree) : fileent :=
  mkFile (of_bool (tnth t 0)) (of_opt of_Zs (tnth t 1)) (of_optopt (tnth t 2)) (of_optopt (tnth t 3))
         (of_optopt (tnth t 4)) (of_optopt (tnth t 5)).
Definition t_streams (s : streamsinfo) : tree :=
  TL [t_opt t_pack (si_pack s); t_opt (t_list t_folder) (si_folders s); t_opt t_sub (si_sub s)].
Definition of_streams (t : tree) : streamsinfo :=
  mkStreams (of_opt of_pack (tnth t 0)) (of_opt (of_list of_folder) (tnth t 1)) (of_opt of_sub (tnth t 2)).
Definition t_header (h : header) : tree :=
  TL [t_opt t_streams (h_streams h); t_opt (t_list t_file) (h_files h); t_bools (h_emptyfiles h)].
Definition of_header (t : tree) : header :=
  mkHeader (of_opt of_streams (tnth t 0)) (of_opt (of_list of_file) (tnth t 1)) (of_bools (tnth t 2)).
