(* RSession.v -- the read-mode session of py7zr.SevenZipFile as a state machine (property C12).

   Mirrors, at the level of whole decoded streams:
     SevenZipFile.__init__ mode 'r' (py7zr.py l.341-398: modeDict and the open retry loop),
     getnames/list/getinfo/archiveinfo/needs_password (l.941-1010),
     _extract registration (l.529-621), reset (l.1166-1175), test/_read_digest (l.1177-1193, 792-800),
     testzip (l.1195-1207), close/_fpclose (l.1148-1164, 423-425),
     Worker.extract / extract_single / _extract_single / _check / decompress (l.1256-1510),
     Folder.get_decompressor (archiveinfo.py l.438-443: the decompressor is cached in the folder).

   Abstraction.  A folder's coder chain is not run: the folder comes with its decoded stream
   [fo_stream] (what a freshly created SevenZipDecompressor delivers, in order, whatever chunk
   sizes are asked for) and its packed size.  A cached SevenZipDecompressor is then exactly
   (packed bytes consumed, decoded bytes delivered); asking an exhausted one for more yields b""
   for ever, which is the loop of Worker.decompress that never ends (fuel exhaustion, Err EFuel,
   for EVERY amount of fuel: lemma wloop_short in RSessionProofs.v).
   Assumptions of the abstraction (checked by the harness on every archive it uses): one packed
   stream per folder, packed size <= block size (one fp.read per decoder), no folder-level CRC,
   packpos = 0, regular files / directories only, distinct member names.

   Part 1 of 1: definitions only (all computable; extracted).  Proofs: RSessionProofs.v. *)
From P7 Require Import Prelude Crc32.
Open Scope Z_scope.

Definition blen (b : bytes) : Z := Z.of_nat (length b).

(* s[p : p+n] for 0 <= p, 0 <= n *)
Definition take (s : bytes) (p n : Z) : bytes := firstn (Z.to_nat n) (skipn (Z.to_nat p) s).

(* ------------------------------------------------------------------ *)
(** * The constructor's file mode (l.359-378)                          *)
(* ------------------------------------------------------------------ *)
(* SevenZipFile modes r w x a and the modes given to open() *)
Inductive fm := Fr | Fw | Fx | Fa | Frb | Fwpb | Fxpb | Frpb | Fwb | Fxb.

(* modeDict *)
Definition mode_dict (k : fm) : option fm :=
  match k with
  | Fr => Some Frb | Fw => Some Fwpb | Fx => Some Fxpb | Fa => Some Frpb
  | Frpb => Some Fwpb | Fwpb => Some Fwb | Fxpb => Some Fxb
  | _ => None
  end.

(* while True: try open(file, filemode) except OSError: if filemode in modeDict: filemode = modeDict[filemode]; continue; raise
   [can m] = open(file, m) succeeds.  The chain of modeDict is at most 3 long. *)
Fixpoint open_loop (fuel : nat) (can : fm -> bool) (filemode : fm) : option fm :=
  if can filemode then Some filemode
  else match fuel with
       | O => None
       | S f => match mode_dict filemode with Some m => open_loop f can m | None => None end
       end.

Definition ctor_open (can : fm -> bool) (mode : fm) : option fm :=
  match mode_dict mode with Some m => open_loop 4 can m | None => None end.

(* a mode of open() that permits no change of the file *)
Definition fm_readonly (m : fm) : bool := match m with Frb => true | _ => false end.

(* ------------------------------------------------------------------ *)
(** * Abstract archive                                                  *)
(* ------------------------------------------------------------------ *)
Inductive openkind := ByPath | ByStream | ByFileObj.   (* str / BytesIO (no name) / open file object (has .name) *)

(* a member as Folder.files yields it (id = offset + index), declared size, stored digest *)
Record mem := mkMem { m_id : Z; m_size : Z; m_crc : option Z }.

(* fo_pk: packed-stream digest: None = not defined; Some b = defined, b = (CRC of the packed bytes = stored CRC) *)
Record folder := mkFo { fo_mems : list mem; fo_stream : bytes; fo_pack : Z; fo_pk : option bool }.

(* an entry of SevenZipFile.files in header order *)
Record hent := mkH { h_id : Z; h_empty : bool; h_dir : bool; h_size : Z; h_crc : option Z }.

Record arch := mkA {
  a_files : list hent;
  a_folders : list folder;
  a_ah : Z;               (* self.afterheader *)
  a_kind : openkind;
  a_pwgiven : bool;       (* password is not None *)
  a_enc : bool;           (* some coder needs a password *)
  a_mb : Z;               (* get_memory_limit() *)
  (* the two repairs proposed for the defects this model exposes; false = the code as it is.
     a_fixz: testzip() begins with reset() (drops the cached decoders);
     a_fixp: testzip()'s parallel flag also requires an archive opened by path, as _extract's does *)
  a_fixz : bool;
  a_fixp : bool
}.

Definition file_passed (A : arch) : bool := match a_kind A with ByPath => false | _ => true end.
Definition has_name (A : arch) : bool := match a_kind A with ByStream => false | _ => true end.
(* self.password_protected after the constructor (l.343, 523-527) *)
Definition pp (A : arch) : bool := a_pwgiven A || a_enc A.
Definition pw_missing (A : arch) : bool := a_enc A && negb (a_pwgiven A).
(* parallel= of testzip() (l.1202): not self.password_protected [repaired: and not self._filePassed] *)
Definition testzip_parallel (A : arch) : bool :=
  negb (pp A) && (if a_fixp A then negb (file_passed A) else true).

Definition ent_of_mem (m : mem) : hent := mkH (m_id m) false false (m_size m) (m_crc m).

(* ------------------------------------------------------------------ *)
(** * File operations issued on the archive                             *)
(* ------------------------------------------------------------------ *)
(* h = handle: 0 the session's fp, 100 the extra handle of the parallel path for empty files,
   101+i the handle opened by the thread of folder i.  EvHdr = the reads of the header parser
   (seek/read/tell only).  EvRead = one or several consecutive read calls. *)
Inductive ev :=
| EvOpen (h : Z) (m : fm) | EvSeek (h p : Z) | EvRead (h n : Z) | EvClose (h : Z)
| EvWrite (h n : Z) | EvHdr (h : Z).

Definition ev_ok (e : ev) : bool :=
  match e with EvOpen _ m => fm_readonly m | EvWrite _ _ => false | _ => true end.

(* position of the session's fp after a list of events *)
Fixpoint fp_after (fp : Z) (es : list ev) : Z :=
  match es with
  | [] => fp
  | EvSeek 0 p :: r => fp_after p r
  | EvRead 0 n :: r => fp_after (fp + n) r
  | _ :: r => fp_after fp r
  end.

(* ------------------------------------------------------------------ *)
(** * Decoder cache and Worker.decompress                               *)
(* ------------------------------------------------------------------ *)
(* the SevenZipDecompressor cached in a folder: packed bytes read, decoded bytes handed out *)
Record dec := mkDec { d_cons : Z; d_pos : Z }.

Inductive tkind := KNone | KOut.   (* value in Worker.target_filepath: None / MemIO or Path *)

Fixpoint lookup (t : list (Z * tkind)) (id : Z) : tkind :=
  match t with [] => KNone | (k, v) :: r => if k =? id then v else lookup r id end.

(* the loop of Worker.decompress (l.1492-1506) on a decoder that hands out [s] from position [p]:
   tmp = decompressor.decompress(fp, min(out_remaining, max_block_size)); an empty tmp changes nothing. *)
Fixpoint wloop (fuel : nat) (s : bytes) (p size mb : Z) : res (Z * bytes) :=
  if size >? 0 then
    match fuel with
    | O => Err EFuel
    | S f =>
      let tmp := take s p (Z.min size mb) in
      let rem := if blen tmp >? 0 then size - blen tmp else size in
      if rem <=? 0 then Ok (p + blen tmp, tmp)
      else match wloop f s (p + blen tmp) rem mb with
           | Ok (p', out) => Ok (p', tmp ++ out)
           | Err e => Err e
           end
    end
  else Ok (p, []).

Inductive xerr := XE (e : err) (who : Z).   (* who = id of the member named by CrcError, else -1 *)

(* running state of one extract_single: the folder's decoder, events, products, first error *)
Record xacc := mkX { x_dec : option dec; x_ev : list ev; x_out : list (Z * bytes); x_err : option xerr }.

Definition set_err (x : xacc) (e : xerr) : xacc := mkX (x_dec x) (x_ev x) (x_out x) (Some e).
Definition add_out (x : xacc) (o : Z * bytes) : xacc := mkX (x_dec x) (x_ev x) (x_out x ++ [o]) (x_err x).

Section Model.
  (* zlib.crc32 of the delivered bytes; instantiated by Crc32.crc32 below.  The theorems hold for any digest. *)
  Variable crc : bytes -> Z.

  (* Worker.decompress: folder.get_decompressor (cached, else created: PasswordRequired without a
     password), then the loop; the first decompress call of a decoder reads the packed stream *)
  Definition wdecomp (A : arch) (fo : folder) (h : Z) (x : xacc) (size : Z) : xacc * bytes :=
    match x_err x with
    | Some _ => (x, [])
    | None =>
      match (match x_dec x with
             | Some d => Ok d
             | None => if pw_missing A then Err EPassword else Ok (mkDec 0 0)
             end) with
      | Err e => (set_err x (XE e (-1)), [])
      | Ok d =>
        if size >? 0 then
          let rd := if d_cons d <? fo_pack fo then [EvRead h (fo_pack fo - d_cons d)] else [] in
          let c' := Z.max (d_cons d) (fo_pack fo) in
          match wloop (S (Z.to_nat size)) (fo_stream fo) (d_pos d) size (a_mb A) with
          | Ok (p', out) => (mkX (Some (mkDec c' p')) (x_ev x ++ rd) (x_out x) None, out)
          | Err e => (mkX (Some (mkDec c' (d_pos d))) (x_ev x ++ rd) (x_out x) (Some (XE e (-1))), [])
          end
        else (mkX (Some d) (x_ev x) (x_out x) None, [])
      end
    end.

  Definition crc_bad (c : option Z) (data : bytes) : bool :=
    match c with Some v => negb (crc data =? v) | None => false end.

  (* one iteration of _check (l.1447-1455) *)
  Definition check1 (A : arch) (fo : folder) (h : Z) (x : xacc) (f : hent) : xacc :=
    let '(x', data) := wdecomp A fo h x (h_size f) in
    match x_err x' with
    | Some _ => x'
    | None => if crc_bad (h_crc f) data then set_err x' (XE ECrc (h_id f)) else x'
    end.

  Definition check_list (A : arch) (fo : folder) (h : Z) (x : xacc) (jc : list hent) : xacc :=
    fold_left (check1 A fo h) jc x.

  (* the loop of _extract_single (l.1378-1443); jc = just_check *)
  Fixpoint xs_loop (A : arch) (fo : folder) (h : Z) (tg : Z -> tkind) (fs jc : list hent) (x : xacc)
    : list hent * xacc :=
    match fs with
    | [] => (jc, x)
    | f :: r =>
      match x_err x with
      | Some _ => (jc, x)
      | None =>
        match tg (h_id f) with
        | KNone => xs_loop A fo h tg r (if h_empty f then jc else jc ++ [f]) x
        | KOut =>
          let x1 := check_list A fo h x jc in
          match x_err x1 with
          | Some _ => ([], x1)
          | None =>
            if h_empty f then xs_loop A fo h tg r [] (add_out x1 (h_id f, []))
            else
              let '(x2, data) := wdecomp A fo h x1 (h_size f) in
              match x_err x2 with
              | Some _ => ([], x2)
              | None =>
                (* the product exists and holds the data before the digest is compared *)
                let x3 := add_out x2 (h_id f, data) in
                if crc_bad (h_crc f) data then ([], set_err x3 (XE ECrc (h_id f)))
                else xs_loop A fo h tg r [] x3
              end
          end
        end
      end
    end.

  Definition extract_single (A : arch) (fo : folder) (h : Z) (tg : Z -> tkind) (skip : bool)
             (fs : list hent) (x : xacc) : xacc :=
    let '(jc, x1) := xs_loop A fo h tg fs [] x in
    if skip then x1 else check_list A fo h x1 jc.

  Definition has_target (tg : Z -> tkind) (ms : list mem) : bool :=
    existsb (fun m => match tg (m_id m) with KOut => true | KNone => false end) ms.

  Definition dummy_folder : folder := mkFo [] [] 0 None.
  Definition empties (A : arch) : list hent := filter h_empty (a_files A).

  (* result of the folder loops: decoders, events, products, first error *)
  Definition wres : Type := (list (option dec) * list ev * list (Z * bytes) * option xerr)%type.

  (* Worker.extract, not parallel, numfolders <> 1 (l.1292-1306) *)
  Fixpoint seq_folders (A : arch) (tg : Z -> tkind) (skip : bool) (fos : list folder)
           (decs : list (option dec)) (pos : Z) (evs : list ev) (out : list (Z * bytes)) : wres :=
    match fos, decs with
    | fo :: fr, d :: dr =>
      if skip && negb (has_target tg (fo_mems fo)) then
        let '(ds, e, o, er) := seq_folders A tg skip fr dr (pos + fo_pack fo) evs out in
        (d :: ds, e, o, er)
      else
        let x := extract_single A fo 0 tg skip (map ent_of_mem (fo_mems fo))
                                (mkX d (evs ++ [EvSeek 0 (a_ah A + pos)]) out None) in
        match x_err x with
        | Some e => (x_dec x :: dr, x_ev x, x_out x, Some e)
        | None =>
          let '(ds, e, o, er) := seq_folders A tg skip fr dr (pos + fo_pack fo) (x_ev x) (x_out x) in
          (x_dec x :: ds, e, o, er)
        end
    | _, _ => (decs, evs, out, None)
    end.

  Definition is_hang (e : option xerr) : bool :=
    match e with Some (XE EFuel _) => true | _ => false end.

  (* Worker.extract, parallel (l.1307-1340): one thread per folder, each opening the file by name;
     a thread that never ends blocks join for ever; otherwise the first queued exception is raised
     (with several failing folders the queue order is a race: the model takes folder order) *)
  Fixpoint par_folders (A : arch) (tg : Z -> tkind) (skip : bool) (fos : list folder)
           (decs : list (option dec)) (pos : Z) (i : Z) (evs : list ev) (out : list (Z * bytes))
           (er : option xerr) (hang : bool) : wres * bool :=
    match fos, decs with
    | fo :: fr, d :: dr =>
      if skip && negb (has_target tg (fo_mems fo)) then
        let '((ds, e, o, er'), hg) := par_folders A tg skip fr dr (pos + fo_pack fo) (i + 1) evs out er hang in
        ((d :: ds, e, o, er'), hg)
      else
        let h := 101 + i in
        let x := extract_single A fo h tg skip (map ent_of_mem (fo_mems fo))
                                (mkX d (evs ++ [EvOpen h Frb; EvSeek h (a_ah A + pos)]) out None) in
        let er1 := match er with Some _ => er | None => x_err x end in
        let '((ds, e, o, er'), hg) := par_folders A tg skip fr dr (pos + fo_pack fo) (i + 1) (x_ev x) (x_out x)
                                                  er1 (hang || is_hang (x_err x)) in
        ((x_dec x :: ds, e, o, er'), hg)
    | _, _ => ((decs, evs, out, er), hang)
    end.

  (* Worker.extract (l.1272-1342) *)
  Definition wextract (A : arch) (tg : Z -> tkind) (decs : list (option dec)) (parallel skip : bool) : wres :=
    match a_folders A with
    | [fo] =>
      let x := extract_single A fo 0 tg skip (a_files A) (mkX (hd None decs) [EvSeek 0 (a_ah A)] [] None) in
      (x_dec x :: tl decs, x_ev x, x_out x, x_err x)
    | fos =>
      if parallel then
        if has_name A then
          let x0 := extract_single A dummy_folder 100 tg true (empties A)
                                   (mkX None [EvOpen 100 Frb; EvSeek 100 0] [] None) in
          let '((ds, e, o, er), hg) := par_folders A tg skip fos decs 0 0 (x_ev x0) (x_out x0) None false in
          (ds, e, o, if hg then Some (XE EFuel (-1)) else er)
        else (decs, [], [], Some (XE EOther (-1)))          (* InternalError *)
      else
        let x0 := extract_single A dummy_folder 0 tg true (empties A) (mkX None [EvSeek 0 0] [] None) in
        seq_folders A tg skip fos decs 0 (x_ev x0) (x_out x0)
    end.

  (* ------------------------------------------------------------------ *)
  (** * The eleven calls                                                 *)
  (* ------------------------------------------------------------------ *)
  Inductive op :=
  | OGetnames | OList | OGetinfo | OArchiveinfo | OTest | OTestzip
  | OXallF | OXallP | OExt (T : list Z) | OReset | ONeedsPw.

  Inductive value :=
  | VNames (ids : list Z) | VPure | VBool (b : bool) | VVerdict (v : option bool) | VZip (bad : option Z)
  | VDeliv (files : list (Z * bytes)) (dirs : list Z) | VUnit.
  Definition result : Type := res value.

  (* registration loop of _extract (l.572-607) in call order; sel = the targets filter *)
  Definition regs (A : arch) (sel : hent -> bool) : list (Z * tkind) :=
    flat_map (fun f => if sel f then (if h_dir f then [] else [(h_id f, KOut)]) else [(h_id f, KNone)])
             (a_files A).

  Definition sel_all (f : hent) : bool := true.
  Definition sel_in (T : list Z) (f : hent) : bool := existsb (Z.eqb (h_id f)) T.

  (* test() after its seek (l.1180-1193) *)
  Fixpoint test_loop (ah : Z) (fos : list folder) (pos : Z) : list ev * bool :=
    match fos with
    | [] => ([], true)
    | fo :: r =>
      match fo_pk fo with
      | None => test_loop ah r (pos + fo_pack fo)
      | Some ok =>
        let e := EvSeek 0 (ah + pos) :: (if fo_pack fo >? 0 then [EvRead 0 (fo_pack fo)] else []) in
        if ok then let '(e2, b) := test_loop ah r (pos + fo_pack fo) in (e ++ e2, b)
        else (e, false)
      end
    end.

  Definition pk_defined (fo : folder) : bool := match fo_pk fo with Some _ => true | None => false end.

  Definition extract_op (A : arch) (tgt : list (Z * tkind)) (decs : list (option dec))
             (sel : hent -> bool) (with_dirs : bool)
    : list (Z * tkind) * list (option dec) * list ev * result :=
    let tgt' := rev (regs A sel) ++ tgt in
    let '(ds, e, o, er) := wextract A (lookup tgt') decs (negb (pp A) && negb (file_passed A)) true in
    (tgt', ds, e,
     match er with
     | Some (XE err _) => Err err
     | None => Ok (VDeliv o (if with_dirs then map h_id (filter (fun f => sel f && h_dir f) (a_files A)) else []))
     end).

  (* one call: new target map, new decoder cache, events on the archive, result *)
  Definition core (A : arch) (tgt : list (Z * tkind)) (decs : list (option dec)) (o : op)
    : list (Z * tkind) * list (option dec) * list ev * result :=
    match o with
    | OGetnames => (tgt, decs, [], Ok (VNames (map h_id (a_files A))))
    | OList => (tgt, decs, [], Ok VPure)
    | OGetinfo => (tgt, decs, [], Ok VPure)
    | OArchiveinfo => (tgt, decs, [], if has_name A then Ok VPure else Err EOther)   (* assert fname is not None *)
    | ONeedsPw => (tgt, decs, [], Ok (VBool (pp A)))
    | OReset => ([], map (fun _ => None) (a_folders A), [EvSeek 0 (a_ah A)], Ok VUnit)
    | OTest =>
      if existsb pk_defined (a_folders A) then
        let '(e, b) := test_loop (a_ah A) (a_folders A) 0 in
        ([], decs, EvSeek 0 (a_ah A) :: e, Ok (VVerdict (Some b)))
      else ([], decs, [EvSeek 0 (a_ah A)], Ok (VVerdict None))
    | OTestzip =>
      let tgt' := rev (map (fun f => (h_id f, KNone)) (a_files A)) in
      let decs0 := if a_fixz A then map (fun _ => None) (a_folders A) else decs in
      let '(ds, e, o, er) := wextract A (lookup tgt') decs0 (testzip_parallel A) false in
      (tgt', ds, EvSeek 0 (a_ah A) :: e,
       match er with
       | None => Ok (VZip None)
       | Some (XE ECrc who) => Ok (VZip (Some who))
       | Some (XE err _) => Err err
       end)
    | OXallF => extract_op A tgt decs sel_all false
    | OXallP => extract_op A tgt decs sel_all true
    | OExt T => extract_op A tgt decs (sel_in T) false
    end.

  (* ------------------------------------------------------------------ *)
  (** * Session state                                                    *)
  (* ------------------------------------------------------------------ *)
  Record st := mkSt {
    s_fp : Z;                          (* position of self.fp *)
    s_tgt : list (Z * tkind);          (* self.worker.target_filepath, newest first *)
    s_dec : list (option dec);         (* folder.decompressor of every folder *)
    s_log : list ev                    (* every file operation so far (ghost) *)
  }.

  Definition ctor_events (A : arch) : list ev :=
    (match a_kind A with ByPath => [EvOpen 0 Frb] | _ => [] end) ++ [EvHdr 0; EvSeek 0 (a_ah A)].

  Definition close_events (A : arch) : list ev :=
    if file_passed A then [] else [EvClose 0].

  Definition fresh (A : arch) : st :=
    mkSt (a_ah A) [] (map (fun _ => None) (a_folders A)) (ctor_events A).

  Definition step (A : arch) (s : st) (o : op) : st * result :=
    let '(t, d, e, r) := core A (s_tgt s) (s_dec s) o in
    (mkSt (fp_after (s_fp s) e) t d (s_log s ++ e), r).

  Definition step_reset (A : arch) (s : st) : st := fst (step A s OReset).

  (* what later calls can depend on *)
  Definition abs (s : st) : Z * list (Z * tkind) * list (option dec) := (s_fp s, s_tgt s, s_dec s).

  (* a call that never returns ends the session *)
  Definition hung (x : result) : bool := match x with Err EFuel => true | _ => false end.

  Fixpoint run (A : arch) (s : st) (ops : list op) : list result * st :=
    match ops with
    | [] => ([], s)
    | o :: r =>
      let '(s', x) := step A s o in
      if hung x then ([x], s')
      else let '(xs, s'') := run A s' r in (x :: xs, s'')
    end.

  (* same, with the events and fp position of every call (for the correspondence) *)
  Fixpoint run_trace (A : arch) (s : st) (ops : list op) : list (result * list ev * Z) :=
    match ops with
    | [] => []
    | o :: r =>
      let '(s', x) := step A s o in
      let e := snd (fst (core A (s_tgt s) (s_dec s) o)) in
      if hung x then [(x, e, s_fp s')] else (x, e, s_fp s') :: run_trace A s' r
    end.

  (* ------------------------------------------------------------------ *)
  (** * The quantifier's discipline                                      *)
  (* ------------------------------------------------------------------ *)
  Definition is_extract (o : op) : bool :=
    match o with OXallF | OXallP | OExt _ => true | _ => false end.
  Definition decoding (o : op) : bool :=
    match o with OTestzip | OXallF | OXallP | OExt _ => true | _ => false end.

  (* dirty = a decoding call was made and no reset() since *)
  Definition next_dirty (dirty : bool) (o : op) : bool :=
    match o with OReset => false | _ => if decoding o then true else dirty end.

  Fixpoint dirty_after (dirty : bool) (ops : list op) : bool :=
    match ops with [] => dirty | o :: r => dirty_after (next_dirty dirty o) r end.

  (* every extract/extractall that follows an earlier decoding call has a reset() between; test/testzip anywhere *)
  Fixpoint disciplined (dirty : bool) (ops : list op) : bool :=
    match ops with
    | [] => true
    | o :: r => if is_extract o && dirty then false else disciplined (next_dirty dirty o) r
    end.

  (* the stricter discipline under which the whole property holds: testzip too needs the reset *)
  Fixpoint strict (dirty : bool) (ops : list op) : bool :=
    match ops with
    | [] => true
    | o :: r => if decoding o && dirty then false else strict (next_dirty dirty o) r
    end.

  (* ------------------------------------------------------------------ *)
  (** * Right verdicts (specification; no session state)                  *)
  (* ------------------------------------------------------------------ *)
  (* test(): None when no packed-stream digest is stored (nothing to report), else whether all stored
     digests match *)
  Definition test_spec (A : arch) : option bool :=
    if existsb pk_defined (a_folders A)
    then Some (forallb (fun fo => match fo_pk fo with Some false => false | _ => true end) (a_folders A))
    else None.

  (* testzip(): the first member, in archive order, whose bytes do not have the stored digest *)
  Fixpoint first_bad (ms : list hent) (s : bytes) (off : Z) : option Z :=
    match ms with
    | [] => None
    | m :: r => if crc_bad (h_crc m) (take s off (h_size m)) then Some (h_id m)
                else first_bad r s (off + h_size m)
    end.

  Fixpoint zip_spec_folders (fos : list folder) : option Z :=
    match fos with
    | [] => None
    | fo :: r => match first_bad (map ent_of_mem (fo_mems fo)) (fo_stream fo) 0 with
                 | Some i => Some i
                 | None => zip_spec_folders r
                 end
    end.

  (* the members that have a stream, in header order *)
  Definition data_ents (A : arch) : list hent := filter (fun f => negb (h_empty f)) (a_files A).

  (* with one folder the ids are those of the header entries (Folder.files numbers its members offset+index,
     which differs when entries without a stream lie between them) *)
  Definition zip_spec (A : arch) : option Z :=
    match a_folders A with
    | [fo] => first_bad (data_ents A) (fo_stream fo) 0
    | fos => zip_spec_folders fos
    end.

  (* well-formed archive: the decoded streams hold what the header declares *)
  Fixpoint sum_sizes (ms : list mem) : Z := match ms with [] => 0 | m :: r => m_size m + sum_sizes r end.

  Definition wf_folder (fo : folder) : bool :=
    forallb (fun m => 0 <=? m_size m) (fo_mems fo) && (sum_sizes (fo_mems fo) <=? blen (fo_stream fo)).

  Definition optZ_eqb (a b : option Z) : bool :=
    match a, b with Some x, Some y => x =? y | None, None => true | _, _ => false end.

  (* same member up to the id *)
  Definition hent_sim (a b : hent) : bool :=
    Bool.eqb (h_empty a) (h_empty b) && (h_size a =? h_size b) && optZ_eqb (h_crc a) (h_crc b).

  Definition hent_eqb (a b : hent) : bool := (h_id a =? h_id b) && hent_sim a b.

  Fixpoint list_eqb {X} (eqb : X -> X -> bool) (a b : list X) : bool :=
    match a, b with
    | [], [] => true
    | x :: a', y :: b' => eqb x y && list_eqb eqb a' b'
    | _, _ => false
    end.

  Definition wf_arch (A : arch) : bool :=
    (0 <? a_mb A) && negb (pw_missing A) && forallb wf_folder (a_folders A)
    && match a_folders A with
       | [fo] => list_eqb hent_sim (data_ents A) (map ent_of_mem (fo_mems fo))
       | fos => list_eqb hent_eqb (data_ents A) (flat_map (fun fo => map ent_of_mem (fo_mems fo)) fos)
       end.

End Model.

(* ------------------------------------------------------------------ *)
(** * Protocol                                                          *)
(* ------------------------------------------------------------------ *)
Definition of_optZ (t : tree) : option Z := of_opt of_TI t.
Definition of_optB (t : tree) : option bool := of_opt of_bool t.
Definition of_mem (t : tree) : mem := mkMem (of_TI (tnth t 0)) (of_TI (tnth t 1)) (of_optZ (tnth t 2)).
Definition of_folder (t : tree) : folder :=
  mkFo (map of_mem (of_TL (tnth t 0))) (of_bytes (tnth t 1)) (of_TI (tnth t 2)) (of_optB (tnth t 3)).
Definition of_hent (t : tree) : hent :=
  mkH (of_TI (tnth t 0)) (of_bool (tnth t 1)) (of_bool (tnth t 2)) (of_TI (tnth t 3)) (of_optZ (tnth t 4)).
Definition of_kind (t : tree) : openkind :=
  match of_TI t with 0 => ByPath | 1 => ByStream | _ => ByFileObj end.
(* (files folders afterheader kind pwgiven enc mb fixz fixp) *)
Definition of_arch (t : tree) : arch :=
  mkA (map of_hent (of_TL (tnth t 0))) (map of_folder (of_TL (tnth t 1))) (of_TI (tnth t 2))
      (of_kind (tnth t 3)) (of_bool (tnth t 4)) (of_bool (tnth t 5)) (of_TI (tnth t 6))
      (of_bool (tnth t 7)) (of_bool (tnth t 8)).
(* (code [T]) : 0 getnames 1 list 2 getinfo 3 archiveinfo 4 test 5 testzip 6 extractall(factory)
   7 extractall(path) 8 extract(T, factory) 9 reset 10 needs_password *)
Definition of_op (t : tree) : op :=
  match of_TI (tnth t 0) with
  | 0 => OGetnames | 1 => OList | 2 => OGetinfo | 3 => OArchiveinfo | 4 => OTest | 5 => OTestzip
  | 6 => OXallF | 7 => OXallP | 8 => OExt (map of_TI (of_TL (tnth t 1))) | 9 => OReset | _ => ONeedsPw
  end.

Definition t_fm (m : fm) : tree :=
  TI (match m with Fr => 0 | Fw => 1 | Fx => 2 | Fa => 3 | Frb => 4 | Fwpb => 5 | Fxpb => 6 | Frpb => 7
               | Fwb => 8 | Fxb => 9 end).
Definition of_fm (t : tree) : fm :=
  match of_TI t with 0 => Fr | 1 => Fw | 2 => Fx | 3 => Fa | 4 => Frb | 5 => Fwpb | 6 => Fxpb | 7 => Frpb
                | 8 => Fwb | _ => Fxb end.
Definition t_ev (e : ev) : tree :=
  match e with
  | EvOpen h m => TL [TI 0; TI h; t_fm m]
  | EvSeek h p => TL [TI 1; TI h; TI p]
  | EvRead h n => TL [TI 2; TI h; TI n]
  | EvClose h => TL [TI 3; TI h; TI 0]
  | EvWrite h n => TL [TI 4; TI h; TI n]
  | EvHdr h => TL [TI 5; TI h; TI 0]
  end.
Definition t_optZ (o : option Z) : tree := t_opt TI o.
Definition t_value (v : value) : tree :=
  match v with
  | VNames ids => TL [TI 0; TL (map TI ids)]
  | VPure => TL [TI 1]
  | VBool b => TL [TI 2; t_bool b]
  | VVerdict v => TL [TI 3; t_opt t_bool v]
  | VZip b => TL [TI 4; t_optZ b]
  | VDeliv fs ds => TL [TI 5; TL (map (fun '(i, d) => TL [TI i; t_bytes d]) fs); TL (map TI ds)]
  | VUnit => TL [TI 6]
  end.
Definition t_result (r : result) : tree := t_res t_value r.

Definition rsession_dispatch (fn : Z) (a : tree) : tree :=
  match fn with
  (* FN 200 rs_run : (arch ops) -> list of (result events fp), one per call made; stops after a hang *)
  | 200 => let A := of_arch (tnth a 0) in
           TL (map (fun '(r, e, p) => TL [t_result r; TL (map t_ev e); TI p])
                   (run_trace crc32 A (fresh A) (map of_op (of_TL (tnth a 1)))))
  (* FN 201 rs_fresh : (arch op) -> result of the call on a freshly opened archive *)
  | 201 => let A := of_arch (tnth a 0) in t_result (snd (step crc32 A (fresh A) (of_op (tnth a 1))))
  (* FN 202 rs_verdicts : arch -> (test_spec zip_spec wf) *)
  | 202 => let A := of_arch a in TL [t_opt t_bool (test_spec A); t_optZ (zip_spec crc32 A); t_bool (wf_arch A)]
  (* FN 203 rs_ctor_open : (mode can-list) -> () | (filemode) ; can-list = the modes open() accepts *)
  | 203 => let can := map of_fm (of_TL (tnth a 1)) in
           t_opt t_fm (ctor_open (fun m => existsb (fun c => of_TI (t_fm c) =? of_TI (t_fm m)) can) (of_fm (tnth a 0)))
  (* FN 204 rs_open_close : arch -> (constructor events, close events) *)
  | 204 => let A := of_arch a in TL [TL (map t_ev (ctor_events A)); TL (map t_ev (close_events A))]
  (* FN 205 rs_disciplined : ops -> (disciplined strict) *)
  | 205 => let ops := map of_op (of_TL a) in TL [t_bool (disciplined false ops); t_bool (strict false ops)]
  | _ => TL [TI (-2)]
  end.
