(* Cost.v -- resource model for property C05 ("any input terminates in bounded time and
   memory"): what the header parser (Header.v) and the two decompress loops
   (Worker.decompress py7zr.py l.1545-1572, Header._read archiveinfo.py l.981-995) can be made to
   do by the counts an archive DECLARES, as opposed to the bytes it CONTAINS.

   Part 1 "Model": iteration counts of the loops of the Python that walk a declared number
     (PackInfo.packpositions, Folder._read packed_indices, read_utf16, SevenZipFile._read_digest),
     the two decompress loops WITH their stall guard (at most 16 rounds in a row that deliver
     nothing and take no input; Decomp.worker_decompress is the loop without the guard, as it was),
     size of the object graph the parser allocates, dispatcher.
   Part 2 "Proofs" (independent of the internals of the header parser): the step counts are linear;
     the guarded loops end after a number of rounds linear in the declared size and the file size,
     whatever the decoder stages do.
   The proofs about the header parser itself (readers consume, resource answers, size of the
   object graph) are in CostProofs.v.
   stdlib only; no axioms. *)
From P7 Require Import Prelude PyPrims Number Header.
Require P7.Decomp.
From Coq Require Import ZifyBool.
Open Scope Z_scope.

(* ===================================================================== *)
(*                              PART 1 : MODEL                           *)
(* ===================================================================== *)

(* ---- PackInfo._read --------------------------------------------------------
   self.packpositions = [0]
   for size in self.packsizes: self.packpositions.append(self.packpositions[-1] + size)
   (numstreams plays no part any more) *)
Fixpoint running_totals (acc : Z) (sizes : list Z) : list Z :=
  match sizes with
  | [] => [acc]
  | s :: r => acc :: running_totals (acc + s) r
  end.
Definition packpositions (sizes : list Z) : list Z := running_totals 0 sizes.
(* list cells touched *)
Definition packpositions_steps (nsizes : Z) : Z := Z.max nsizes 0 + 1.

(* ---- Folder._read ------------------------------------------------------------
   bound_inputs = {bond.incoder for bond in self.bindpairs}
   for i in range(totalin): if i not in bound_inputs: packed_indices.append(i)
   one read of every bond, then one set lookup per input stream *)
Definition packed_indices_steps (bonds : list (Z * Z)) (totalin : Z) : Z := zlen bonds + Z.max totalin 0.
Definition packed_indices (bonds : list (Z * Z)) (totalin : Z) : list Z :=
  filter (fun i => negb (find_in_bond bonds i)) (py_range 0 totalin).

(* ---- read_utf16 ---------------------------------------------------------------
   for _ in range(MAX_LENGTH): ch = file.read(2); if ch == b"\0\0": break; val += ch; if len(ch) < 2: break
   result: number of reads and what is left of the buffer *)
Fixpoint utf16_scan (fuel : nat) (k : Z) (bs : bytes) : Z * bytes :=
  match fuel with
  | O => (k, bs)
  | S f => if 65536 <=? k then (k, bs) else
           match bs with
           | [] => (k + 1, [])
           | [_] => (k + 1, [])
           | a :: b :: r => if (a =? 0) && (b =? 0) then (k + 1, r) else utf16_scan f (k + 1) r
           end
  end.
Definition utf16_iters (bs : bytes) : Z := fst (utf16_scan (S (length bs)) 0 bs).
(* FilesInfo._read_name: one read_utf16 per entry of self.files, all on the same buffer *)
Fixpoint names_steps (n : nat) (bs : bytes) : Z :=
  match n with
  | O => 0
  | S n' => let '(k, r) := utf16_scan (S (length bs)) 0 bs in k + names_steps n' r
  end.

(* ---- SevenZipFile._read_digest --------------------------------------------------
   while remaining_size > 0: block = min(block_size, remaining_size); data = read(block)
                             if len(data) == 0: break; remaining_size -= block
   number of read() calls on a file of which `avail` bytes are left (block_size > 0) *)
Fixpoint read_digest_reads (fuel : nat) (size bsz avail : Z) : Z :=
  match fuel with
  | O => 0
  | S f => if size <=? 0 then 0 else
           let block := Z.min bsz size in
           let got := Z.min block (Z.max avail 0) in
           if got <=? 0 then 1 else 1 + read_digest_reads f (size - block) bsz (avail - got)
  end.
Definition read_digest_iters (size bsz avail : Z) : Z :=
  read_digest_reads (S (S (Z.to_nat avail))) size bsz avail.

(* ---- the two decompress loops, with the stall guard -------------------------------
   Worker.decompress:
     stalled = 0
     while out_remaining > 0:
         consumed_before = decompressor.consumed
         tmp = decompressor.decompress(fp, min(out_remaining, max_block_size))
         if len(tmp) > 0: stalled = 0; out_remaining -= len(tmp); write
         elif decompressor.consumed == consumed_before:
             stalled += 1
             if stalled > MAX_STALLED_ROUNDS: raise Bad7zFile
         if out_remaining <= 0: break
   Header._read:
     while remaining > 0:
         consumed_before = ...; chunk = decompress(fp, max_length=remaining); folder_data += chunk
         remaining = uncompressed_size - len(folder_data)
         if len(chunk) == 0 and consumed == consumed_before: stalled += 1; if stalled > 16: raise Bad7zFile
         else: stalled = 0
   fuel bounds the number of rounds; theorem worker_guarded_terminates shows which fuel is always enough. *)
Definition MAX_STALLED_ROUNDS : Z := 16.

Section GuardedLoops.
  Variable stage_st : Type.
  Variable dstep : stage_st -> bytes -> Z -> stage_st * bytes.

  Fixpoint worker_guarded (fuel : nat) (st : Decomp.dstate stage_st) (size max_block stalled : Z)
           (sched : list nat) : res (Decomp.dstate stage_st * bytes) :=
    if size >? 0 then
      match fuel with
      | O => Err EFuel
      | S fuel' =>
          do r <- Decomp.decompress dstep st (Z.min size max_block) (Decomp.sched_hd st sched);
          let '(st', tmp) := r in
          if Decomp.zlen tmp >? 0 then
            if size - Decomp.zlen tmp <=? 0 then Ok (st', tmp)
            else
              do r' <- worker_guarded fuel' st' (size - Decomp.zlen tmp) max_block 0 (tl sched);
              let '(st'', out) := r' in Ok (st'', tmp ++ out)
          else if Decomp.idle st st' then
            if MAX_STALLED_ROUNDS <? stalled + 1 then Err EBad7z
            else worker_guarded fuel' st' size max_block (stalled + 1) (tl sched)
          else worker_guarded fuel' st' size max_block stalled (tl sched)
      end
    else Ok (st, []).

  Fixpoint header_guarded (fuel : nat) (st : Decomp.dstate stage_st) (usize : Z) (acc : bytes) (stalled : Z)
           (sched : list nat) : res (Decomp.dstate stage_st * bytes) :=
    if usize - Decomp.zlen acc >? 0 then
      match fuel with
      | O => Err EFuel
      | S fuel' =>
          do r <- Decomp.decompress dstep st (usize - Decomp.zlen acc) (Decomp.sched_hd st sched);
          let '(st', chunk) := r in
          if (Decomp.zlen chunk =? 0) && Decomp.idle st st' then
            if MAX_STALLED_ROUNDS <? stalled + 1 then Err EBad7z
            else header_guarded fuel' st' usize (acc ++ chunk) (stalled + 1) (tl sched)
          else header_guarded fuel' st' usize (acc ++ chunk) 0 (tl sched)
      end
    else Ok (st, acc).
End GuardedLoops.
Arguments worker_guarded {stage_st}.
Arguments header_guarded {stage_st}.

Definition toy_worker_guarded (fuel : nat) (sts : list Decomp.toy_state) (us : list Z) (isz bsz : Z)
           (packed : bytes) (size mb : Z) (sched : list nat) : res bytes :=
  do r <- worker_guarded Decomp.toy_dstep fuel (Decomp.toy_init sts us isz bsz packed) size mb 0 sched;
  Ok (snd r).
Definition toy_header_guarded (fuel : nat) (sts : list Decomp.toy_state) (us : list Z) (isz bsz : Z)
           (packed : bytes) (usize : Z) (sched : list nat) : res bytes :=
  do r <- header_guarded Decomp.toy_dstep fuel (Decomp.toy_init sts us isz bsz packed) usize [] 0 sched;
  Ok (snd r).

(* ---- size of the object graph the parser builds (number of list cells) ---- *)
Definition coder_size (c : coder) : Z :=
  1 + zlen (c_method c) + match c_props c with Some p => zlen p | None => 0 end.
Definition folder_size (f : folder) : Z :=
  1 + sumZ (map coder_size (f_coders f)) + zlen (f_bonds f) + zlen (f_packed f) + zlen (f_unpacksizes f).
Definition pack_size (p : packinfo) : Z :=
  (* packsizes, digestdefined, crcs, and packpositions (one cell per pack size, plus one) *)
  zlen (p_sizes p) + zlen (p_digestdefined p) + zlen (p_crcs p) + (zlen (p_sizes p) + 1).
Definition sub_size (s : substreams) : Z :=
  zlen (s_nums s) + match s_sizes s with Some l => zlen l | None => 0 end
  + zlen (s_digestsdefined s) + zlen (s_digests s).
Definition file_size (e : fileent) : Z :=
  1 + match e_name e with Some n => zlen n | None => 0 end.
Definition streams_size (s : streamsinfo) : Z :=
  match si_pack s with Some p => pack_size p | None => 0 end
  + match si_folders s with Some fs => sumZ (map folder_size fs) | None => 0 end
  + match si_sub s with Some x => sub_size x | None => 0 end.
Definition header_size (h : header) : Z :=
  match h_streams h with Some s => streams_size s | None => 0 end
  + match h_files h with Some fs => sumZ (map file_size fs) | None => 0 end
  + zlen (h_emptyfiles h).

(* ---- dispatcher (numbers 420-439) ---------------------------------------- *)
Definition of_pairs (t : tree) : list (Z * Z) := map (fun x => (of_TI (tnth x 0), of_TI (tnth x 1))) (of_TL t).
Definition of_nats (t : tree) : list nat := map (fun x => Z.to_nat (of_TI x)) (of_TL t).

Definition cost_dispatch (fn : Z) (a : tree) : tree :=
  match fn with
  (* FN 420 packpositions : sizes -> list int *)
  | 420 => TL (map TI (packpositions (map of_TI (of_TL a))))
  (* FN 421 packpositions_steps : nsizes -> int *)
  | 421 => TI (packpositions_steps (of_TI a))
  (* FN 422 utf16_iters : bytes -> int *)
  | 422 => TI (utf16_iters (of_bytes a))
  (* FN 423 names_steps : (n bytes) -> int *)
  | 423 => TI (names_steps (Z.to_nat (of_TI (tnth a 0))) (of_bytes (tnth a 1)))
  (* FN 424 toy_worker_guarded : (fuel states unpacksizes input_size block_size packed size mb sched) -> res bytes *)
  | 424 => t_res t_bytes
             (toy_worker_guarded (Z.to_nat (of_TI (tnth a 0)))
                (map Decomp.t_toy_state (of_TL (tnth a 1))) (map of_TI (of_TL (tnth a 2)))
                (of_TI (tnth a 3)) (of_TI (tnth a 4)) (of_bytes (tnth a 5)) (of_TI (tnth a 6)) (of_TI (tnth a 7))
                (of_nats (tnth a 8)))
  (* FN 425 toy_header_guarded : (fuel states unpacksizes input_size block_size packed usize sched) -> res bytes *)
  | 425 => t_res t_bytes
             (toy_header_guarded (Z.to_nat (of_TI (tnth a 0)))
                (map Decomp.t_toy_state (of_TL (tnth a 1))) (map of_TI (of_TL (tnth a 2)))
                (of_TI (tnth a 3)) (of_TI (tnth a 4)) (of_bytes (tnth a 5)) (of_TI (tnth a 6))
                (of_nats (tnth a 7)))
  (* FN 426 packed_indices : (bonds totalin) -> (steps (indices)) *)
  | 426 => TL [TI (packed_indices_steps (of_pairs (tnth a 0)) (of_TI (tnth a 1)));
               TL (map TI (packed_indices (of_pairs (tnth a 0)) (of_TI (tnth a 1))))]
  (* FN 427 read_digest_iters : (size blocksize avail) -> int *)
  | 427 => TI (read_digest_iters (of_TI (tnth a 0)) (of_TI (tnth a 1)) (of_TI (tnth a 2)))
  (* FN 428 toy_worker_unguarded : as 424; the loop as it was before the guard (Decomp.worker_decompress) *)
  | 428 => Decomp.toy_worker_t a
  (* FN 429 header_size_of : (lim bytes) -> res int *)
  | 429 => t_res TI (do h <- parse_header (of_TI (tnth a 0)) (of_bytes (tnth a 1)); Ok (header_size h))
  | _ => TL [TI (-2)]
  end.

(* ===================================================================== *)
(*                              PART 2 : PROOFS                          *)
(* ===================================================================== *)

Lemma zlen_nonneg {A} (l : list A) : 0 <= zlen l.
Proof. unfold zlen. lia. Qed.

Ltac bind_ok H :=
  match type of H with
  | bind ?e _ = Ok _ =>
      let x := fresh "x" in let E := fresh "E" in
      destruct e as [x|?] eqn:E; [cbn [bind] in H | discriminate H]
  end.

Lemma bind_fuel {A B} (e : res A) (k : A -> res B) :
  bind e k = Err EFuel -> e = Err EFuel \/ exists x, e = Ok x /\ k x = Err EFuel.
Proof. destruct e as [x|e']; cbn [bind]; intros H; [right; eauto | left; inversion H; reflexivity]. Qed.

Lemma sumZ_cons a l : sumZ (a :: l) = a + sumZ l.
Proof.
  unfold sumZ. cbn [fold_left]. rewrite Z.add_0_l.
  assert (G : forall l x y, fold_left Z.add l (x + y) = x + fold_left Z.add l y).
  { clear. induction l as [|c l IH]; intros x y; cbn [fold_left]; [reflexivity|].
    rewrite <- Z.add_assoc. apply IH. }
  rewrite <- (Z.add_0_r a) at 1. apply G.
Qed.

Lemma sumZ_nil : sumZ [] = 0.
Proof. reflexivity. Qed.

Lemma sumZ_app a b : sumZ (a ++ b) = sumZ a + sumZ b.
Proof.
  induction a as [|x a IH]; [rewrite sumZ_nil; reflexivity|].
  cbn [app]. rewrite !sumZ_cons, IH. lia.
Qed.


(* ---- C1. the loops that walk a declared number are linear in what is there ---- *)
Lemma running_totals_length sizes : forall acc, zlen (running_totals acc sizes) = zlen sizes + 1.
Proof.
  induction sizes as [|s r IH]; intros acc; cbn [running_totals]; [reflexivity|].
  unfold zlen in *. cbn [length]. rewrite Nat2Z.inj_succ, IH. lia.
Qed.

(* PackInfo: one cell per pack size plus one, whatever numstreams says *)
Theorem packpositions_linear sizes :
  zlen (packpositions sizes) = zlen sizes + 1 /\ packpositions_steps (zlen sizes) = zlen sizes + 1.
Proof.
  split; [apply running_totals_length|]. unfold packpositions_steps. pose proof (zlen_nonneg sizes). lia.
Qed.

(* the entries are the prefix sums the former code computed *)
Lemma running_totals_nth sizes : forall acc i, (i <= length sizes)%nat ->
  nth i (running_totals acc sizes) 0 = acc + sumZ (firstn i sizes).
Proof.
  induction sizes as [|s r IH]; intros acc i Hi.
  - cbn [length] in Hi. assert (i = 0%nat) by lia. subst i. cbn [running_totals nth firstn]. rewrite sumZ_nil. lia.
  - destruct i as [|i]; [cbn [running_totals nth firstn]; rewrite sumZ_nil; lia|].
    cbn [running_totals nth firstn]. rewrite IH by (cbn [length] in Hi; lia). rewrite sumZ_cons. lia.
Qed.

(* read_utf16: every read but the last of a name takes two bytes of the buffer *)
Lemma utf16_scan_bound : forall fuel k bs k' r,
  utf16_scan fuel k bs = (k', r) ->
  k <= k' /\ zlen r <= zlen bs /\ 2 * (k' - k) <= (zlen bs - zlen r) + 2.
Proof.
  induction fuel as [|f IH]; intros k bs k' r H; cbn [utf16_scan] in H.
  - injection H as <- <-. lia.
  - destruct (65536 <=? k); [injection H as <- <-; lia|].
    destruct bs as [|a [|b bs]].
    + injection H as <- <-. unfold zlen. cbn [length]. lia.
    + injection H as <- <-. unfold zlen. cbn [length]. lia.
    + destruct ((a =? 0) && (b =? 0)).
      * injection H as <- <-. unfold zlen. cbn [length]. lia.
      * apply IH in H. unfold zlen in *. cbn [length]. lia.
Qed.

Theorem utf16_iters_linear bs : 1 <= utf16_iters bs /\ 2 * utf16_iters bs <= zlen bs + 2.
Proof.
  unfold utf16_iters. destruct (utf16_scan (S (length bs)) 0 bs) as [k r] eqn:E. cbn [fst].
  pose proof (utf16_scan_bound _ _ _ _ _ E) as (H1 & H2 & H3). pose proof (zlen_nonneg r).
  split; [|lia].
  cbn [utf16_scan] in E. change (65536 <=? 0) with false in E. cbv iota in E.
  destruct bs as [|a [|b bs]]; try (injection E as <- _; lia).
  destruct ((a =? 0) && (b =? 0)); [injection E as <- _; lia|].
  apply utf16_scan_bound in E. lia.
Qed.

(* FilesInfo._read_name: linear in the declared number of files plus the bytes of the record *)
Theorem names_steps_linear : forall n bs, 2 * names_steps n bs <= 2 * Z.of_nat n + zlen bs.
Proof.
  induction n as [|n IH]; intros bs; [cbn [names_steps]; pose proof (zlen_nonneg bs); lia|].
  cbn [names_steps]. destruct (utf16_scan (S (length bs)) 0 bs) as [k r] eqn:E.
  pose proof (utf16_scan_bound _ _ _ _ _ E) as (H1 & H2 & H3). specialize (IH r).
  rewrite Nat2Z.inj_succ. lia.
Qed.

Theorem names_steps_eof n : names_steps n [] = Z.of_nat n.
Proof.
  induction n as [|n IH]; [reflexivity|].
  change (names_steps (S n) []) with (1 + names_steps n []). rewrite IH. lia.
Qed.

(* _read_digest: every read but the last takes at least one byte of the file *)
Lemma read_digest_reads_bound : forall fuel size bsz avail,
  0 < bsz -> 0 <= read_digest_reads fuel size bsz avail <= Z.max avail 0 + 1.
Proof.
  induction fuel as [|f IH]; intros size bsz avail Hb; cbn [read_digest_reads]; [lia|].
  destruct (size <=? 0) eqn:Es; [lia|].
  destruct (Z.min (Z.min bsz size) (Z.max avail 0) <=? 0) eqn:Eg; [lia|].
  specialize (IH (size - Z.min bsz size) bsz (avail - Z.min (Z.min bsz size) (Z.max avail 0)) Hb). lia.
Qed.

Theorem read_digest_iters_linear size bsz avail :
  0 < bsz -> 0 <= read_digest_iters size bsz avail <= Z.max avail 0 + 1.
Proof. intros Hb. apply read_digest_reads_bound. exact Hb. Qed.

(* ---- C2. the decompress loops ---------------------------------------------- *)
Section Loops.
  Variable stage_st : Type.
  Variable dstep : stage_st -> bytes -> Z -> stage_st * bytes.
  Local Notation dst := (Decomp.dstate stage_st).
  Local Notation dzlen := Decomp.zlen.

  (* the model's own errors are never the resource answer *)
  Lemma chain_run_not_fuel (ss : list stage_st) :
    forall up us data ml, Decomp.chain_run dstep ss up us data ml <> Err EFuel.
  Proof.
    induction ss as [|s ss IH]; intros up us data ml H; cbn [Decomp.chain_run] in H; [discriminate|].
    destruct up as [|u up]; [discriminate|]. destruct us as [|z us]; [discriminate|].
    destruct (u <? z).
    - destruct (dstep s data ml) as [s' out]. cbv zeta in H.
      destruct (Decomp.stop_here ss data (Decomp.trim_out ss out (z - u))); [discriminate|].
      apply bind_fuel in H. destruct H as [H|[[[ss'' up''] d] [_ H]]]; [exact (IH _ _ _ _ H)|discriminate].
    - destruct (dzlen data =? 0); [|discriminate].
      apply bind_fuel in H. destruct H as [H|[[[ss'' up''] d] [_ H]]]; [exact (IH _ _ _ _ H)|discriminate].
  Qed.

  Lemma run_chain_not_fuel (st : dst) data ml : Decomp.run_chain dstep st data ml <> Err EFuel.
  Proof.
    unfold Decomp.run_chain. intros H.
    apply bind_fuel in H. destruct H as [H|[[[ss up] out] [_ H]]]; [exact (chain_run_not_fuel _ _ _ _ _ H)|discriminate].
  Qed.

  Lemma decompress_not_fuel (st : dst) ml rd : Decomp.decompress dstep st ml rd <> Err EFuel.
  Proof.
    unfold Decomp.decompress. intros H.
    destruct (ml <? 0).
    - destruct (Decomp.read_data st rd) as [st1 data].
      apply bind_fuel in H. destruct H as [H|[[st2 out] [_ H]]]; [exact (run_chain_not_fuel _ _ _ H)|discriminate].
    - destruct (_ >=? ml); [discriminate|].
      destruct (Decomp.read_data st rd) as [st1 data].
      apply bind_fuel in H. destruct H as [H|[[st2 tmp] [_ H]]].
      + destruct (dzlen (Decomp.unused st1) >? 0); [|exact (run_chain_not_fuel _ _ _ H)].
        apply bind_fuel in H. destruct H as [H|[[st2 tmp] [_ H]]]; [exact (run_chain_not_fuel _ _ _ H)|discriminate].
      + destruct (_ <=? ml); discriminate.
  Qed.


  (* what a call does to the file: it takes d >= 0 bytes off its front, and `consumed` grows by d.
     No invariant of the state is needed. *)
  Lemma read_data_consumption (st st1 : dst) (rd : nat) (data : bytes) :
    Decomp.read_data st rd = (st1, data) ->
    Decomp.consumed st1 = Decomp.consumed st + dzlen data /\
    dzlen (Decomp.fp_rest st1) = dzlen (Decomp.fp_rest st) - dzlen data.
  Proof.
    intros H. pose proof (Decomp.read_data_spec _ st st1 rd data H) as (_ & _ & _ & _ & _ & _ & _ & _ & R9 & R10 & _).
    split; [exact R10|]. rewrite R9, Decomp.zlen_app. lia.
  Qed.

  Lemma decompress_consumption (st st' : dst) (ml : Z) (rd : nat) (out : bytes) :
    Decomp.decompress dstep st ml rd = Ok (st', out) ->
    exists d, 0 <= d /\ Decomp.consumed st' = Decomp.consumed st + d /\
              dzlen (Decomp.fp_rest st') = dzlen (Decomp.fp_rest st) - d.
  Proof.
    unfold Decomp.decompress. intros H.
    assert (Hrc : forall (s1 s2 : dst) data o m, Decomp.run_chain dstep s1 data m = Ok (s2, o) ->
                    Decomp.consumed s2 = Decomp.consumed s1 /\ Decomp.fp_rest s2 = Decomp.fp_rest s1).
    { intros s1 s2 data o m Hr. apply Decomp.run_chain_spec in Hr.
      destruct Hr as (_ & _ & C3 & _ & _ & _ & _ & _ & C9). split; assumption. }
    destruct (ml <? 0).
    - destruct (Decomp.read_data st rd) as [st1 data] eqn:Hrd. apply read_data_consumption in Hrd.
      destruct (Decomp.run_chain dstep st1 (Decomp.unused st1 ++ data) ml) as [[st2 o]|e] eqn:Hr; cbn [bind] in H; [|discriminate].
      apply Hrc in Hr. injection H as <- _. cbn [Decomp.set_buf Decomp.consumed Decomp.fp_rest].
      exists (dzlen data). pose proof (Decomp.zlen_nonneg data). destruct Hr as [-> ->]. lia.
    - destruct (_ >=? ml).
      + injection H as <- _. exists 0. cbn [Decomp.set_buf Decomp.consumed Decomp.fp_rest]. lia.
      + destruct (Decomp.read_data st rd) as [st1 data] eqn:Hrd. apply read_data_consumption in Hrd.
        pose proof (Decomp.zlen_nonneg data).
        destruct (dzlen (Decomp.unused st1) >? 0).
        * destruct (Decomp.run_chain dstep st1 (Decomp.unused st1 ++ data) ml) as [[st2 o]|e] eqn:Hr; cbn [bind] in H; [|discriminate].
          apply Hrc in Hr. destruct Hr as [Hc Hf].
          destruct (_ <=? ml); injection H as <- _; cbn [Decomp.set_buf Decomp.consumed Decomp.fp_rest];
            exists (dzlen data); rewrite Hc, Hf; lia.
        * destruct (Decomp.run_chain dstep st1 data ml) as [[st2 o]|e] eqn:Hr; cbn [bind] in H; [|discriminate].
          apply Hrc in Hr. destruct Hr as [Hc Hf].
          destruct (_ <=? ml); injection H as <- _; cbn [Decomp.set_buf Decomp.consumed Decomp.fp_rest];
            exists (dzlen data); rewrite Hc, Hf; lia.
  Qed.

  Lemma worker_guarded_unfold (fuel : nat) (st : dst) (size mb stalled : Z) (sched : list nat) :
    worker_guarded dstep fuel st size mb stalled sched =
    if size >? 0 then
      match fuel with
      | O => Err EFuel
      | S fuel' =>
          do r <- Decomp.decompress dstep st (Z.min size mb) (Decomp.sched_hd st sched);
          let '(st', tmp) := r in
          if dzlen tmp >? 0 then
            if size - dzlen tmp <=? 0 then Ok (st', tmp)
            else
              do r' <- worker_guarded dstep fuel' st' (size - dzlen tmp) mb 0 (tl sched);
              let '(st'', out) := r' in Ok (st'', tmp ++ out)
          else if Decomp.idle st st' then
            if MAX_STALLED_ROUNDS <? stalled + 1 then Err EBad7z
            else worker_guarded dstep fuel' st' size mb (stalled + 1) (tl sched)
          else worker_guarded dstep fuel' st' size mb stalled (tl sched)
      end
    else Ok (st, []).
  Proof. destruct fuel; reflexivity. Qed.

  Lemma header_guarded_unfold (fuel : nat) (st : dst) (usize : Z) (acc : bytes) (stalled : Z) (sched : list nat) :
    header_guarded dstep fuel st usize acc stalled sched =
    if usize - dzlen acc >? 0 then
      match fuel with
      | O => Err EFuel
      | S fuel' =>
          do r <- Decomp.decompress dstep st (usize - dzlen acc) (Decomp.sched_hd st sched);
          let '(st', chunk) := r in
          if (dzlen chunk =? 0) && Decomp.idle st st' then
            if MAX_STALLED_ROUNDS <? stalled + 1 then Err EBad7z
            else header_guarded dstep fuel' st' usize (acc ++ chunk) (stalled + 1) (tl sched)
          else header_guarded dstep fuel' st' usize (acc ++ chunk) 0 (tl sched)
      end
    else Ok (st, acc).
  Proof. destruct fuel; reflexivity. Qed.

  (* rounds still possible: 18 for every byte still wanted, still in the file, or still to be put out by a coder
     of the chain before its gate closes (Decomp.budget: sum of max(0, _unpacksizes[i] - _unpacked[i])), and the
     stall budget *)
  Definition guarded_measure (st : dst) (size stalled : Z) : Z :=
    18 * (Z.max size 0 + dzlen (Decomp.fp_rest st) + Decomp.budget st) + (17 - stalled).

  (* THE HEADLINE: the guarded loop ends -- with a result or an ordinary exception -- within a number of
     rounds linear in the declared size and the file size, for EVERY behaviour of the decoder stages,
     every state of the decompressor and every schedule of short reads *)
  Theorem worker_guarded_terminates :
    forall fuel (st : dst) size mb stalled sched,
      0 <= stalled <= 16 ->
      guarded_measure st size stalled < Z.of_nat fuel ->
      worker_guarded dstep fuel st size mb stalled sched <> Err EFuel.
  Proof.
    induction fuel as [|fuel IH]; intros st size mb stalled sched Hst Hm; rewrite worker_guarded_unfold.
    - destruct (size >? 0) eqn:Es; [|discriminate]. exfalso.
      unfold guarded_measure in Hm. pose proof (Decomp.zlen_nonneg (Decomp.fp_rest st)).
      pose proof (Decomp.budget_nonneg _ st). lia.
    - destruct (size >? 0) eqn:Es; [|discriminate].
      destruct (Decomp.decompress dstep st (Z.min size mb) (Decomp.sched_hd st sched)) as [[st' tmp]|e] eqn:Hd; cbn [bind].
      2:{ intros H. inversion H; subst. exact (decompress_not_fuel _ _ _ Hd). }
      destruct (decompress_consumption _ _ _ _ _ Hd) as (d & Hd0 & Hdc & Hdf).
      destruct (Decomp.decompress_progress _ dstep _ _ _ _ _ Hd) as (Hb1 & Hb2).
      pose proof (Decomp.budget_nonneg _ st') as Hbn.
      pose proof (Decomp.zlen_nonneg (Decomp.fp_rest st')) as Hf'.
      unfold guarded_measure in *. unfold MAX_STALLED_ROUNDS.
      destruct (dzlen tmp >? 0) eqn:Et.
      + destruct (size - dzlen tmp <=? 0) eqn:Er; [discriminate|].
        destruct (worker_guarded dstep fuel st' (size - dzlen tmp) mb 0 (tl sched)) as [[st'' out]|e] eqn:Hw;
          cbn [bind]; [discriminate|].
        intros H. inversion H; subst. revert Hw. apply IH; [lia|]. lia.
      + destruct (Decomp.idle st st') eqn:Ec.
        * destruct (16 <? stalled + 1) eqn:E16; [discriminate|]. apply IH; [lia|]. lia.
        * unfold Decomp.idle in Ec. apply andb_false_iff in Ec.
          destruct Ec as [Ec|Ec]; apply Z.eqb_neq in Ec; [|specialize (Hb2 Ec)]; (apply IH; [lia|]; lia).
  Qed.

  (* in numbers: from a fresh count of stalled rounds *)
  Corollary worker_guarded_rounds (st : dst) (size mb : Z) (sched : list nat) (fuel : nat) :
    18 * (Z.max size 0 + dzlen (Decomp.fp_rest st) + Decomp.budget st) + 17 < Z.of_nat fuel ->
    worker_guarded dstep fuel st size mb 0 sched <> Err EFuel.
  Proof. intros H. apply worker_guarded_terminates; [lia|]. unfold guarded_measure. lia. Qed.

  Theorem header_guarded_terminates :
    forall fuel (st : dst) usize acc stalled sched,
      0 <= stalled <= 16 ->
      guarded_measure st (usize - dzlen acc) stalled < Z.of_nat fuel ->
      header_guarded dstep fuel st usize acc stalled sched <> Err EFuel.
  Proof.
    induction fuel as [|fuel IH]; intros st usize acc stalled sched Hst Hm; rewrite header_guarded_unfold.
    - destruct (usize - dzlen acc >? 0) eqn:Es; [|discriminate]. exfalso.
      unfold guarded_measure in Hm. pose proof (Decomp.zlen_nonneg (Decomp.fp_rest st)).
      pose proof (Decomp.budget_nonneg _ st). lia.
    - destruct (usize - dzlen acc >? 0) eqn:Es; [|discriminate].
      destruct (Decomp.decompress dstep st (usize - dzlen acc) (Decomp.sched_hd st sched)) as [[st' chunk]|e] eqn:Hd; cbn [bind].
      2:{ intros H. inversion H; subst. exact (decompress_not_fuel _ _ _ Hd). }
      destruct (decompress_consumption _ _ _ _ _ Hd) as (d & Hd0 & Hdc & Hdf).
      destruct (Decomp.decompress_progress _ dstep _ _ _ _ _ Hd) as (Hb1 & Hb2).
      pose proof (Decomp.budget_nonneg _ st') as Hbn.
      pose proof (Decomp.zlen_nonneg (Decomp.fp_rest st')) as Hf'. pose proof (Decomp.zlen_nonneg chunk) as Hc0.
      unfold guarded_measure in *. unfold MAX_STALLED_ROUNDS.
      destruct ((dzlen chunk =? 0) && Decomp.idle st st') eqn:Eb.
      + destruct (16 <? stalled + 1) eqn:E16; [discriminate|].
        apply IH; [lia|]. rewrite Decomp.zlen_app. lia.
      + apply andb_false_iff in Eb. destruct Eb as [Eb|Eb].
        * apply IH; [lia|]. rewrite Decomp.zlen_app. lia.
        * unfold Decomp.idle in Eb. apply andb_false_iff in Eb.
          destruct Eb as [Eb|Eb]; apply Z.eqb_neq in Eb; [|specialize (Hb2 Eb)];
            (apply IH; [lia|]; rewrite Decomp.zlen_app; lia).
  Qed.

  Corollary header_guarded_rounds (st : dst) (usize : Z) (sched : list nat) (fuel : nat) :
    18 * (Z.max usize 0 + dzlen (Decomp.fp_rest st) + Decomp.budget st) + 17 < Z.of_nat fuel ->
    header_guarded dstep fuel st usize [] 0 sched <> Err EFuel.
  Proof.
    intros H. apply header_guarded_terminates; [lia|]. unfold guarded_measure.
    change (dzlen []) with 0. rewrite Z.sub_0_r. lia.
  Qed.

  (* the scenario that made the former loop spin (Decomp.worker_spins: a quiet, exhausted decompressor and
     bytes still wanted) now ends with Bad7zFile after 17 rounds *)
  Section StuckNowRaises.
    Variable quiet : stage_st -> Prop.
    Hypothesis quiet_step : forall s ml,
        quiet s -> snd (dstep s [] ml) = [] /\ quiet (fst (dstep s [] ml)).

    Lemma stuck_round (st : dst) (ml : Z) (rd : nat) :
      Decomp.stuck quiet st -> 0 < ml ->
      exists st', Decomp.decompress dstep st ml rd = Ok (st', []) /\ Decomp.stuck quiet st' /\
                  Decomp.consumed st' = Decomp.consumed st.
    Proof.
      intros Hs Hml.
      destruct (Decomp.stuck_step _ dstep quiet quiet_step st ml rd Hs Hml) as (st' & Hd & Hs').
      exists st'. split; [exact Hd|]. split; [exact Hs'|].
      destruct (decompress_consumption _ _ _ _ _ Hd) as (d & Hd0 & Hdc & Hdf).
      destruct Hs as (_ & _ & _ & Hun & _ & Hno).
      (* nothing can be read in a stuck state *)
      unfold Decomp.decompress in Hd.
      destruct (ml <? 0) eqn:E1; [lia|].
      destruct (_ >=? ml) eqn:E2; [injection Hd as <- _; reflexivity|].
      destruct (Decomp.read_data st rd) as [st1 data] eqn:Hrd.
      pose proof (Decomp.read_data_spec _ st st1 rd data Hrd) as (_ & _ & _ & _ & _ & R6 & _ & _ & R9 & R10 & R11).
      assert (data = []) as ->.
      { rewrite Hun in R11. change (dzlen []) with 0 in R11.
        destruct Hno as [Hf|[Hi|Hb]].
        - rewrite Hf in R9. symmetry in R9. apply app_eq_nil in R9. apply R9.
        - apply Decomp.zlen_le0_nil. lia.
        - apply Decomp.zlen_le0_nil. lia. }
      rewrite R6, Hun in Hd. change (dzlen [] >? 0) with false in Hd. cbv iota in Hd.
      destruct (Decomp.run_chain dstep st1 [] ml) as [[st2 tmp]|e] eqn:Hr; cbn [bind] in Hd; [|discriminate].
      apply Decomp.run_chain_spec in Hr. destruct Hr as (_ & _ & C3 & _).
      change (dzlen []) with 0 in R10.
      destruct (_ <=? ml); injection Hd as <- _; cbn [Decomp.set_buf Decomp.consumed]; lia.
    Qed.

    Theorem worker_guarded_stuck_raises :
      forall (n : nat) (st : dst) (size mb stalled : Z) (sched : list nat) (fuel : nat),
        Decomp.stuck quiet st -> 0 < size -> 0 < mb ->
        stalled = 16 - Z.of_nat n -> (n < fuel)%nat ->
        worker_guarded dstep fuel st size mb stalled sched = Err EBad7z.
    Proof.
      induction n as [|n IH]; intros st size mb stalled sched fuel Hs Hsz Hmb Hst Hf;
        (destruct fuel as [|fuel]; [lia|]); rewrite worker_guarded_unfold;
        (destruct (size >? 0) eqn:Es; [|lia]);
        destruct (stuck_round st (Z.min size mb) (Decomp.sched_hd st sched) Hs ltac:(lia)) as (st' & Hd & Hs' & Hc);
        rewrite Hd; cbn [bind]; change (dzlen [] >? 0) with false; cbv iota;
        assert (Hml : 0 < Z.min size mb) by lia;
        rewrite (Decomp.stuck_step_idle _ dstep quiet quiet_step st st' _ _ _ Hs Hml Hd); unfold MAX_STALLED_ROUNDS.
      - destruct (16 <? stalled + 1) eqn:E; [reflexivity|lia].
      - destruct (16 <? stalled + 1) eqn:E; [lia|].
        apply (IH st' size mb (stalled + 1) (tl sched) fuel Hs' Hsz Hmb); lia.
    Qed.
  End StuckNowRaises.
End Loops.

(* the witness of Decomp.toy_worker_spins (Copy, declared 10 bytes, the stream holds 3): the former loop is still
   looping after any number of rounds, the guarded loop raises Bad7zFile; same for the encoded-header loop *)
Example toy_guarded_witness :
  toy_worker_guarded 40 [Decomp.toy_st 0 0 []] [10] 3 100 [1; 2; 3] 10 100 [] = Err EBad7z /\
  toy_header_guarded 40 [Decomp.toy_st 0 0 []] [10] 3 100 [1; 2; 3] 10 [] = Err EBad7z /\
  toy_worker_guarded 40 [Decomp.toy_st 0 0 []] [10] 10 4 [1; 2; 3; 4; 5; 6; 7; 8; 9; 10] 10 3 [1%nat; 2%nat]
    = Ok [1; 2; 3; 4; 5; 6; 7; 8; 9; 10].
Proof. vm_compute. repeat split; reflexivity. Qed.

Print Assumptions packpositions_linear.
Print Assumptions names_steps_linear.
Print Assumptions read_digest_iters_linear.
Print Assumptions worker_guarded_terminates.
Print Assumptions header_guarded_terminates.
Print Assumptions worker_guarded_stuck_raises.
