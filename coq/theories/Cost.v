(* Cost.v -- resource model for property C05 ("any input terminates in bounded time and
   memory"): what the header parser (Header.v) and the two decompress loops (Decomp.v,
   Worker.decompress py7zr.py l.1492-1506 and Header._read archiveinfo.py l.950-954) can be
   made to do by the counts an archive DECLARES, as opposed to the bytes it CONTAINS.

   Part 1 "Model": iteration counts of the loops of the Python whose trip count is a declared
     number (PackInfo.packpositions l.270, Folder._read packed_indices l.388-391,
     read_utf16 l.205-213, SevenZipFile._read_digest py7zr.py l.792-800), the encoded-header
     loop, size of the object graph the parser allocates, dispatcher.
   Part 2 "Proofs" (independent of the internals of the header parser): super-linear step counts;
     termination of the decompress loops under a progress contract, non-termination without it.
   The proofs about the header parser itself (readers consume, resource answers, size of the
   object graph) are in CostProofs.v.
   stdlib only; no axioms. *)
From P7 Require Import Prelude PyPrims Number Header.
Require P7.Decomp.
From Coq Require Import ZifyBool.
Open Scope Z_scope.

(* ===================================================================== *)
(*                              PART 1 : MODEL                           *)
(* ===================================================================== *)

(* ---- PackInfo._read l.270 ---------------------------------------------
   self.packpositions = [sum(self.packsizes[:i]) for i in range(self.numstreams + 1)]
   One list element per i; the slice copies min(i, len(packsizes)) elements and sum()
   walks them. *)
Definition packpositions (sizes : list Z) (n : Z) : list Z :=
  map (fun i => sumZ (takeZ i sizes)) (py_range 0 (n + 1)).

Fixpoint tri_steps (k : nat) (nsizes : Z) : Z :=
  match k with
  | O => 0
  | S k' => tri_steps k' nsizes + 1 + Z.min (Z.of_nat k') (Z.max nsizes 0)
  end.
(* number of list cells touched by the comprehension *)
Definition packpositions_steps (nsizes n : Z) : Z := tri_steps (Z.to_nat (n + 1)) nsizes.

(* ---- Folder._read l.388-391 -------------------------------------------
   for i in range(totalin): if self._find_in_bin_pair(i) < 0: packed_indices.append(i)
   _find_in_bin_pair walks the bond list up to the first bond whose incoder is i. *)
Fixpoint find_in_steps (bonds : list (Z * Z)) (i : Z) : Z :=
  match bonds with
  | [] => 0
  | b :: r => if fst b =? i then 1 else 1 + find_in_steps r i
  end.
Definition packed_indices_steps (bonds : list (Z * Z)) (totalin : Z) : Z :=
  sumZ (map (find_in_steps bonds) (py_range 0 totalin)).

(* ---- read_utf16 l.205-213 ----------------------------------------------
   for _ in range(MAX_LENGTH): ch = file.read(2); if ch == b"\0\0": break; val += ch
   At end of input read(2) returns b"" (which is not b"\0\0"): the loop goes on to
   MAX_LENGTH = 65536 iterations. *)
Fixpoint utf16_term_index (fuel : nat) (bs : bytes) : option Z :=
  match fuel with
  | O => None
  | S f => match bs with
           | 0 :: 0 :: _ => Some 0
           | _ :: _ :: r => match utf16_term_index f r with Some j => Some (j + 1) | None => None end
           | _ => None
           end
  end.
Definition utf16_iters (bs : bytes) : Z :=
  match utf16_term_index (S (length bs)) bs with
  | Some j => if j <? 65536 then j + 1 else 65536
  | None => 65536
  end.
(* FilesInfo._read_name: one read_utf16 per entry of self.files, all on the same buffer *)
Fixpoint names_steps (n : nat) (bs : bytes) : Z :=
  match n with
  | O => 0
  | S n' => utf16_iters bs +
            match rd_utf16_raw (S (length bs)) 0 [] bs with
            | Ok (_, r) => names_steps n' r
            | Err _ => 0
            end
  end.

(* ---- SevenZipFile._read_digest py7zr.py l.792-800 ------------------------
   while remaining_size > 0: block = min(block_size, remaining_size); read(block); remaining_size -= block
   The trip count depends on the declared pack size only, not on what read() returns. *)
Definition read_digest_iters (size blocksize : Z) : Z :=
  if size <=? 0 then 0 else if blocksize <=? 0 then -1 (* never ends *) else (size + blocksize - 1) / blocksize.

(* ---- Header._read l.950-954 ----------------------------------------------
   remaining = uncompressed_size; folder_data = bytearray()
   while remaining > 0:
       folder_data += decompressor.decompress(fp, max_length=remaining)
       remaining = uncompressed_size - len(folder_data)
   fuel bounds the number of iterations; the Python loop has no such bound. *)
Section HeaderLoop.
  Variable stage_st : Type.
  Variable dstep : stage_st -> bytes -> Z -> stage_st * bytes.

  Fixpoint header_loop (fuel : nat) (st : Decomp.dstate stage_st) (usize : Z) (acc : bytes)
           (sched : list nat) : res (Decomp.dstate stage_st * bytes) :=
    if usize - Decomp.zlen acc >? 0 then
      match fuel with
      | O => Err EFuel
      | S fuel' =>
          do r <- Decomp.decompress dstep st (usize - Decomp.zlen acc) (Decomp.sched_hd st sched);
          let '(st', tmp) := r in
          header_loop fuel' st' usize (acc ++ tmp) (tl sched)
      end
    else Ok (st, acc).
End HeaderLoop.
Arguments header_loop {stage_st}.

Definition toy_header_loop (fuel : nat) (sts : list Decomp.toy_state) (us : list Z) (isz bsz : Z)
           (packed : bytes) (usize : Z) (sched : list nat) : res bytes :=
  do r <- header_loop Decomp.toy_dstep fuel (Decomp.toy_init sts us isz bsz packed) usize [] sched;
  Ok (snd r).

(* ---- size of the object graph the parser builds (number of list cells) ---- *)
Definition coder_size (c : coder) : Z :=
  1 + zlen (c_method c) + match c_props c with Some p => zlen p | None => 0 end.
Definition folder_size (f : folder) : Z :=
  1 + sumZ (map coder_size (f_coders f)) + zlen (f_bonds f) + zlen (f_packed f) + zlen (f_unpacksizes f).
Definition pack_size (p : packinfo) : Z :=
  (* packsizes, digestdefined, crcs, and packpositions (numstreams + 1 cells) *)
  zlen (p_sizes p) + zlen (p_digestdefined p) + zlen (p_crcs p) + Z.max 0 (p_numstreams p + 1).
Definition sub_size (s : substreams) : Z :=
  zlen (s_nums s) + match s_sizes s with Some l => zlen l | None => 0 end
  + zlen (s_digestsdefined s) + zlen (s_digests s).
Definition file_size (e : fileent) : Z :=
  1 + match e_name e with Some n => zlen n | None => 0 end.
Definition streams_size (s : streamsinfo) : Z :=
  match si_pack s with Some p => pack_size p | None => 0 end
  + match si_folders s with Some fs => sumZ (map folder_size fs) | None => 0 end
  + match si_sub s with Some x => sub_size x | None => 0 end.
Definition header_size (h : header) : Z :=
  match h_streams h with Some s => streams_size s | None => 0 end
  + match h_files h with Some fs => sumZ (map file_size fs) | None => 0 end
  + zlen (h_emptyfiles h).

(* ---- dispatcher (numbers 420-439) ---------------------------------------- *)
Definition of_pairs (t : tree) : list (Z * Z) := map (fun x => (of_TI (tnth x 0), of_TI (tnth x 1))) (of_TL t).

Definition cost_dispatch (fn : Z) (a : tree) : tree :=
  match fn with
  (* FN 420 packpositions : (sizes n) -> list int *)
  | 420 => TL (map TI (packpositions (map of_TI (of_TL (tnth a 0))) (of_TI (tnth a 1))))
  (* FN 421 packpositions_steps : (nsizes n) -> int *)
  | 421 => TI (packpositions_steps (of_TI (tnth a 0)) (of_TI (tnth a 1)))
  (* FN 422 utf16_iters : bytes -> int *)
  | 422 => TI (utf16_iters (of_bytes a))
  (* FN 423 names_steps : (n bytes) -> int *)
  | 423 => TI (names_steps (Z.to_nat (of_TI (tnth a 0))) (of_bytes (tnth a 1)))
  (* FN 424 toy_worker : (fuel states unpacksizes input_size block_size packed size mb sched) -> res bytes *)
  | 424 => Decomp.toy_worker_t a
  (* FN 425 toy_header_loop : (fuel states unpacksizes input_size block_size packed usize sched) -> res bytes *)
  | 425 => t_res t_bytes
             (toy_header_loop (Z.to_nat (of_TI (tnth a 0)))
                (map Decomp.t_toy_state (of_TL (tnth a 1))) (map of_TI (of_TL (tnth a 2)))
                (of_TI (tnth a 3)) (of_TI (tnth a 4)) (of_bytes (tnth a 5)) (of_TI (tnth a 6))
                (map (fun x => Z.to_nat (of_TI x)) (of_TL (tnth a 7))))
  (* FN 426 packed_indices_steps : (bonds totalin) -> int *)
  | 426 => TI (packed_indices_steps (of_pairs (tnth a 0)) (of_TI (tnth a 1)))
  (* FN 427 read_digest_iters : (size blocksize) -> int *)
  | 427 => TI (read_digest_iters (of_TI (tnth a 0)) (of_TI (tnth a 1)))
  (* FN 429 header_size_of : (lim bytes) -> res int *)
  | 429 => t_res TI (do h <- parse_header (of_TI (tnth a 0)) (of_bytes (tnth a 1)); Ok (header_size h))
  | _ => TL [TI (-2)]
  end.

(* ===================================================================== *)
(*                              PART 2 : PROOFS                          *)
(* ===================================================================== *)

Lemma zlen_nonneg {A} (l : list A) : 0 <= zlen l.
Proof. unfold zlen. lia. Qed.

Ltac bind_ok H :=
  match type of H with
  | bind ?e _ = Ok _ =>
      let x := fresh "x" in let E := fresh "E" in
      destruct e as [x|?] eqn:E; [cbn [bind] in H | discriminate H]
  end.

Lemma bind_fuel {A B} (e : res A) (k : A -> res B) :
  bind e k = Err EFuel -> e = Err EFuel \/ exists x, e = Ok x /\ k x = Err EFuel.
Proof. destruct e as [x|e']; cbn [bind]; intros H; [right; eauto | left; inversion H; reflexivity]. Qed.

Lemma sumZ_cons a l : sumZ (a :: l) = a + sumZ l.
Proof.
  unfold sumZ. cbn [fold_left]. rewrite Z.add_0_l.
  assert (G : forall l x y, fold_left Z.add l (x + y) = x + fold_left Z.add l y).
  { clear. induction l as [|c l IH]; intros x y; cbn [fold_left]; [reflexivity|].
    rewrite <- Z.add_assoc. apply IH. }
  rewrite <- (Z.add_0_r a) at 1. apply G.
Qed.

Lemma sumZ_nil : sumZ [] = 0.
Proof. reflexivity. Qed.

Lemma sumZ_app a b : sumZ (a ++ b) = sumZ a + sumZ b.
Proof.
  induction a as [|x a IH]; [rewrite sumZ_nil; reflexivity|].
  cbn [app]. rewrite !sumZ_cons, IH. lia.
Qed.

(* ---- C1. loops whose trip count is a declared number ----------------------- *)

Lemma tri_steps_closed k m :
  0 <= m -> Z.of_nat k <= m + 1 -> 2 * tri_steps k m = Z.of_nat k * (Z.of_nat k + 1).
Proof.
  intros Hm. induction k as [|k IH]; intros Hk; [reflexivity|].
  cbn [tri_steps]. rewrite Nat2Z.inj_succ in *.
  rewrite Z.max_l by lia. rewrite Z.min_l by lia.
  specialize (IH ltac:(lia)). lia.
Qed.

(* PackInfo with n sizes: (n+1)(n+2)/2 list cells are walked to build n+1 positions *)
Theorem packpositions_steps_quadratic n :
  0 <= n -> 2 * packpositions_steps n n = (n + 1) * (n + 2).
Proof.
  intros Hn. unfold packpositions_steps. rewrite tri_steps_closed by lia.
  rewrite Z2Nat.id by lia. lia.
Qed.

Theorem packpositions_superlinear a b :
  0 <= a -> 0 <= b -> exists n, 0 <= n /\ a * n + b < packpositions_steps n n.
Proof.
  intros Ha Hb. exists (2 * a + 2 * b + 1). split; [lia|].
  pose proof (packpositions_steps_quadratic (2 * a + 2 * b + 1) ltac:(lia)) as H. nia.
Qed.

Lemma packpositions_length sizes n : -1 <= n -> zlen (packpositions sizes n) = n + 1.
Proof.
  intros Hn. unfold packpositions, zlen, py_range. rewrite map_length, range_from_length. lia.
Qed.

(* without a SIZE section the sums are over the empty list: n + 1 steps for a declared n *)
Lemma tri_steps_nosizes k : tri_steps k 0 = Z.of_nat k.
Proof.
  induction k as [|k IH]; [reflexivity|]. cbn [tri_steps]. rewrite IH, Nat2Z.inj_succ.
  rewrite Z.max_r by lia. rewrite Z.min_r by lia. lia.
Qed.
Theorem packpositions_steps_nosizes n : 0 <= n -> packpositions_steps 0 n = n + 1.
Proof. intros Hn. unfold packpositions_steps. rewrite tri_steps_nosizes. lia. Qed.

(* read_utf16 at end of input: 65536 iterations for every declared file *)
Theorem names_steps_eof n : names_steps n [] = 65536 * Z.of_nat n.
Proof.
  induction n as [|n IH]; [reflexivity|].
  change (names_steps (S n) []) with (65536 + names_steps n []). rewrite IH. lia.
Qed.

(* Folder._read: with no bond naming an input stream below totalin, every one of the totalin
   searches walks the whole bond list *)
Lemma find_in_steps_nomatch bonds i :
  (forall b, In b bonds -> fst b <> i) -> find_in_steps bonds i = zlen bonds.
Proof.
  induction bonds as [|b bonds IH]; intros H; [reflexivity|].
  cbn [find_in_steps]. destruct (fst b =? i) eqn:E.
  - exfalso. apply (H b (or_introl eq_refl)). lia.
  - rewrite IH by (intros b' Hb'; apply H; right; exact Hb').
    unfold zlen. cbn [length]. lia.
Qed.

Lemma sumZ_map_const {A} (f : A -> Z) (c : Z) (l : list A) :
  (forall x, In x l -> f x = c) -> sumZ (map f l) = c * zlen l.
Proof.
  induction l as [|x l IH]; intros H; [cbn [map]; rewrite sumZ_nil; unfold zlen; cbn [length]; lia|].
  cbn [map]. rewrite sumZ_cons, IH by (intros y Hy; apply H; right; exact Hy).
  rewrite (H x (or_introl eq_refl)). unfold zlen. cbn [length]. lia.
Qed.

Lemma range_from_In a n x : In x (range_from a n) -> a <= x < a + Z.of_nat n.
Proof.
  revert a. induction n as [|n IH]; intros a H; [destruct H|].
  cbn [range_from] in H. destruct H as [H|H]; [lia|]. apply IH in H. lia.
Qed.

Theorem packed_indices_steps_worst bonds totalin :
  0 <= totalin ->
  (forall b, In b bonds -> fst b < 0 \/ totalin <= fst b) ->
  packed_indices_steps bonds totalin = zlen bonds * totalin.
Proof.
  intros Ht H. unfold packed_indices_steps.
  rewrite (sumZ_map_const _ (zlen bonds)).
  - f_equal. unfold zlen, py_range. rewrite range_from_length. lia.
  - intros i Hi. apply range_from_In in Hi. apply find_in_steps_nomatch.
    intros b Hb. specialize (H b Hb). lia.
Qed.

(* _read_digest: the trip count is the declared pack size over the block size *)
Theorem read_digest_iters_bound size bsz :
  0 < size -> 0 < bsz -> size <= read_digest_iters size bsz * bsz.
Proof.
  intros Hs Hb. unfold read_digest_iters.
  destruct (size <=? 0) eqn:E1; [lia|]. destruct (bsz <=? 0) eqn:E2; [lia|].
  pose proof (Z.div_mod (size + bsz - 1) bsz ltac:(lia)).
  pose proof (Z.mod_pos_bound (size + bsz - 1) bsz ltac:(lia)). nia.
Qed.

(* ---- C2. the decompress loops ---------------------------------------------- *)
Section Loops.
  Variable stage_st : Type.
  Variable dstep : stage_st -> bytes -> Z -> stage_st * bytes.
  Local Notation dst := (Decomp.dstate stage_st).
  Local Notation dzlen := Decomp.zlen.

  (* the model's own errors are never the resource answer *)
  Lemma chain_run_not_fuel (ss : list stage_st) :
    forall up us data ml, Decomp.chain_run dstep ss up us data ml <> Err EFuel.
  Proof.
    induction ss as [|s ss IH]; intros up us data ml H; cbn [Decomp.chain_run] in H; [discriminate|].
    destruct up as [|u up]; [discriminate|]. destruct us as [|z us]; [discriminate|].
    destruct (u <? z).
    - destruct (dstep s data ml) as [s' out].
      apply bind_fuel in H. destruct H as [H|[[[ss'' up''] d] [_ H]]]; [exact (IH _ _ _ _ H)|discriminate].
    - destruct (dzlen data =? 0); [|discriminate].
      apply bind_fuel in H. destruct H as [H|[[[ss'' up''] d] [_ H]]]; [exact (IH _ _ _ _ H)|discriminate].
  Qed.

  Lemma run_chain_not_fuel (st : dst) data ml : Decomp.run_chain dstep st data ml <> Err EFuel.
  Proof.
    unfold Decomp.run_chain. intros H.
    apply bind_fuel in H. destruct H as [H|[[[ss up] out] [_ H]]]; [exact (chain_run_not_fuel _ _ _ _ _ H)|discriminate].
  Qed.

  Lemma decompress_not_fuel (st : dst) ml rd : Decomp.decompress dstep st ml rd <> Err EFuel.
  Proof.
    unfold Decomp.decompress. intros H.
    destruct (ml <? 0).
    - destruct (Decomp.read_data st rd) as [st1 data].
      apply bind_fuel in H. destruct H as [H|[[st2 out] [_ H]]]; [exact (run_chain_not_fuel _ _ _ H)|discriminate].
    - destruct (_ >=? ml); [discriminate|].
      destruct (Decomp.read_data st rd) as [st1 data].
      apply bind_fuel in H. destruct H as [H|[[st2 tmp] [_ H]]].
      + destruct (dzlen (Decomp.unused st1) >? 0); [|exact (run_chain_not_fuel _ _ _ H)].
        apply bind_fuel in H. destruct H as [H|[[st2 tmp] [_ H]]]; [exact (run_chain_not_fuel _ _ _ H)|discriminate].
      + destruct (_ <=? ml); discriminate.
  Qed.

  (* a read that is not an end-of-file indication on a non-empty file *)
  Definition okrd (st : dst) (rd : nat) : Prop := (0 < rd)%nat \/ Decomp.fp_rest st = [].

  Lemma sched_hd_okrd (st : dst) (sched : list nat) :
    Forall (fun k => (0 < k)%nat) sched -> okrd st (Decomp.sched_hd st sched).
  Proof.
    intros Hs. unfold okrd, Decomp.sched_hd. destruct sched as [|k sched].
    - destruct (Decomp.fp_rest st) as [|b r]; [right; reflexivity|left; cbn; lia].
    - left. inversion Hs; assumption.
  Qed.

  (* ---- termination under a progress contract ------------------------------
     I       : invariant relating the decompressor state to the bytes still wanted
     lat, k  : a call may return nothing without having read input at most k times in a row
               (lat decreases on each such call)
     This is what a guard "raise when the decoder yields nothing and the input is exhausted"
     establishes with k = 0. *)
  Section Progress.
    Variable I : dst -> Z -> Prop.
    Variable lat : dst -> nat.
    Variable k : nat.
    Variable mb : Z.
    Variable L0 : Z.
    Hypothesis mb_pos : 0 < mb.
    Hypothesis I_book : forall st size, I st size -> Decomp.book_inv L0 st.
    Hypothesis I_step : forall st size rd st' out,
        I st size -> 0 < size -> okrd st rd ->
        Decomp.decompress dstep st (Z.min size mb) rd = Ok (st', out) ->
        0 < size - dzlen out -> I st' (size - dzlen out).
    Hypothesis lat_le : forall st, (lat st <= k)%nat.
    Hypothesis progress : forall st size rd st',
        I st size -> 0 < size -> okrd st rd ->
        Decomp.decompress dstep st (Z.min size mb) rd = Ok (st', []) ->
        Decomp.consumed st' = Decomp.consumed st -> (lat st' < lat st)%nat.

    Definition loop_measure (st : dst) (size : Z) : Z :=
      (Z.max size 0 + dzlen (Decomp.fp_rest st)) * (Z.of_nat k + 1) + Z.of_nat (lat st).

    Lemma loop_measure_nonneg st size : 0 <= loop_measure st size.
    Proof. unfold loop_measure. pose proof (Decomp.zlen_nonneg (Decomp.fp_rest st)). nia. Qed.

    Lemma worker_terminates_measure :
      forall fuel st size sched,
        I st size -> Forall (fun k => (0 < k)%nat) sched ->
        loop_measure st size < Z.of_nat fuel ->
        Decomp.worker_decompress dstep fuel st size mb sched <> Err EFuel.
    Proof.
      induction fuel as [|fuel IH]; intros st size sched HI Hs Hm.
      - pose proof (loop_measure_nonneg st size). lia.
      - rewrite Decomp.worker_unfold.
        destruct (size >? 0) eqn:Esz; [|discriminate].
        assert (Hsz : 0 < size) by lia.
        pose proof (sched_hd_okrd st sched Hs) as Hrd.
        destruct (Decomp.decompress dstep st (Z.min size mb) (Decomp.sched_hd st sched))
          as [[st' tmp]|e] eqn:Hd; cbn [bind].
        2:{ intros H. inversion H; subst. exact (decompress_not_fuel _ _ _ Hd). }
        assert (Hrem : (if dzlen tmp >? 0 then size - dzlen tmp else size) = size - dzlen tmp).
        { pose proof (Decomp.zlen_nonneg tmp). destruct (dzlen tmp >? 0) eqn:Et; lia. }
        rewrite Hrem.
        destruct (size - dzlen tmp <=? 0) eqn:Er; [discriminate|].
        assert (Hpos : 0 < size - dzlen tmp) by lia.
        pose proof (I_step _ _ _ _ _ HI Hsz Hrd Hd Hpos) as HI'.
        assert (Hm' : loop_measure st' (size - dzlen tmp) < Z.of_nat fuel).
        { pose proof (I_book _ _ HI) as Hb.
          destruct (Decomp.decompress_book_inv _ dstep L0 st st' _ _ tmp Hb Hd) as (Hb' & Hc & _).
          destruct Hb as (_ & _ & Hl). destruct Hb' as (_ & _ & Hl').
          pose proof (lat_le st'). pose proof (Decomp.zlen_nonneg tmp).
          unfold loop_measure in *.
          destruct (Z.eq_dec (dzlen tmp) 0) as [Ht|Ht].
          - assert (tmp = []) by (apply Decomp.zlen_le0_nil; lia). subst tmp.
            destruct (Z.eq_dec (Decomp.consumed st') (Decomp.consumed st)) as [Hce|Hce].
            + pose proof (progress _ _ _ _ HI Hsz Hrd Hd Hce).
              replace (dzlen (Decomp.fp_rest st')) with (dzlen (Decomp.fp_rest st)) by lia. nia.
            + nia.
          - nia. }
        destruct (Decomp.worker_decompress dstep fuel st' (size - dzlen tmp) mb (tl sched))
          as [[st'' out]|e] eqn:Hw; cbn [bind]; [discriminate|].
        intros H. inversion H; subst.
        apply (IH st' (size - dzlen tmp) (tl sched) HI'); [|exact Hm'|exact Hw].
        destruct sched as [|x sched]; [constructor|]. inversion Hs; assumption.
    Qed.

    (* the bound: (declared output + file content still unread + 1) times the latency *)
    Theorem worker_terminates (st : dst) (size : Z) (sched : list nat) (fuel : nat) :
      I st size -> Forall (fun k => (0 < k)%nat) sched ->
      (Z.max size 0 + dzlen (Decomp.fp_rest st) + 1) * (Z.of_nat k + 1) <= Z.of_nat fuel ->
      Decomp.worker_decompress dstep fuel st size mb sched <> Err EFuel.
    Proof.
      intros HI Hs Hf. apply worker_terminates_measure; [exact HI|exact Hs|].
      pose proof (lat_le st). pose proof (Decomp.zlen_nonneg (Decomp.fp_rest st)).
      unfold loop_measure. nia.
    Qed.
  End Progress.
End Loops.

(* ---- C3. the encoded-header loop is the worker loop with max_block_size = remaining ---- *)
Section HeaderLoopProofs.
  Variable stage_st : Type.
  Variable dstep : stage_st -> bytes -> Z -> stage_st * bytes.
  Local Notation dst := (Decomp.dstate stage_st).
  Local Notation dzlen := Decomp.zlen.

  Lemma header_loop_unfold (fuel : nat) (st : dst) (usize : Z) (acc : bytes) (sched : list nat) :
    header_loop dstep fuel st usize acc sched =
    if usize - dzlen acc >? 0 then
      match fuel with
      | O => Err EFuel
      | S fuel' =>
          do r <- Decomp.decompress dstep st (usize - dzlen acc) (Decomp.sched_hd st sched);
          let '(st', tmp) := r in
          header_loop dstep fuel' st' usize (acc ++ tmp) (tl sched)
      end
    else Ok (st, acc).
  Proof. destruct fuel; reflexivity. Qed.

  Definition with_acc (acc : bytes) (r : res (dst * bytes)) : res (dst * bytes) :=
    match r with Ok (st', out) => Ok (st', acc ++ out) | Err e => Err e end.

  Theorem header_loop_is_worker :
    forall fuel st usize acc sched mb,
      usize - dzlen acc <= mb ->
      header_loop dstep fuel st usize acc sched =
      with_acc acc (Decomp.worker_decompress dstep fuel st (usize - dzlen acc) mb sched).
  Proof.
    induction fuel as [|fuel IH]; intros st usize acc sched mb Hmb;
      rewrite header_loop_unfold, Decomp.worker_unfold;
      (destruct (usize - dzlen acc >? 0) eqn:Esz;
       [|cbn [with_acc]; rewrite app_nil_r; reflexivity]).
    - reflexivity.
    - rewrite Z.min_l by lia.
      destruct (Decomp.decompress dstep st (usize - dzlen acc) (Decomp.sched_hd st sched))
        as [[st' tmp]|e] eqn:Hd; cbn [bind with_acc]; [|reflexivity].
      assert (Hrem : (if dzlen tmp >? 0 then usize - dzlen acc - dzlen tmp else usize - dzlen acc)
                     = usize - dzlen (acc ++ tmp)).
      { rewrite Decomp.zlen_app. pose proof (Decomp.zlen_nonneg tmp).
        destruct (dzlen tmp >? 0) eqn:Et; lia. }
      rewrite Hrem.
      destruct (usize - dzlen (acc ++ tmp) <=? 0) eqn:Er.
      + rewrite header_loop_unfold.
        destruct (usize - dzlen (acc ++ tmp) >? 0) eqn:Er2; [lia|]. reflexivity.
      + pose proof (Decomp.zlen_nonneg tmp). rewrite Decomp.zlen_app in *.
        rewrite (IH st' usize (acc ++ tmp) (tl sched) mb) by (rewrite Decomp.zlen_app; lia).
        rewrite Decomp.zlen_app.
        destruct (Decomp.worker_decompress dstep fuel st' (usize - (dzlen acc + dzlen tmp)) mb (tl sched))
          as [[st'' out]|e]; cbn [bind with_acc]; [rewrite app_assoc; reflexivity|reflexivity].
  Qed.

  (* non-termination: a quiet, exhausted decompressor and a declared size not yet reached *)
  Theorem header_loop_spins (quiet : stage_st -> Prop) :
    (forall s ml, quiet s -> snd (dstep s [] ml) = [] /\ quiet (fst (dstep s [] ml))) ->
    forall fuel st usize acc sched,
      Decomp.stuck quiet st -> dzlen acc < usize ->
      header_loop dstep fuel st usize acc sched = Err EFuel.
  Proof.
    intros Hq fuel st usize acc sched Hst Hsz.
    rewrite (header_loop_is_worker fuel st usize acc sched (usize - dzlen acc)) by lia.
    rewrite (Decomp.worker_spins stage_st dstep quiet Hq fuel st _ _ sched Hst) by lia.
    reflexivity.
  Qed.

  (* termination under the same progress contract as the worker loop *)
  Theorem header_loop_terminates
          (I : dst -> Z -> Prop) (lat : dst -> nat) (k : nat) (L0 : Z)
          (st : dst) (usize : Z) (acc : bytes) (sched : list nat) (fuel : nat) :
    let mb := usize - dzlen acc in
    0 < mb ->
    (forall st size, I st size -> Decomp.book_inv L0 st) ->
    (forall st size rd st' out,
        I st size -> 0 < size -> okrd stage_st st rd ->
        Decomp.decompress dstep st (Z.min size mb) rd = Ok (st', out) ->
        0 < size - dzlen out -> I st' (size - dzlen out)) ->
    (forall st, (lat st <= k)%nat) ->
    (forall st size rd st',
        I st size -> 0 < size -> okrd stage_st st rd ->
        Decomp.decompress dstep st (Z.min size mb) rd = Ok (st', []) ->
        Decomp.consumed st' = Decomp.consumed st -> (lat st' < lat st)%nat) ->
    I st mb -> Forall (fun k => (0 < k)%nat) sched ->
    (mb + dzlen (Decomp.fp_rest st) + 1) * (Z.of_nat k + 1) <= Z.of_nat fuel ->
    header_loop dstep fuel st usize acc sched <> Err EFuel.
  Proof.
    intros mb Hmb Hbook Hstep Hlat Hprog HI Hs Hf.
    rewrite (header_loop_is_worker fuel st usize acc sched mb) by (subst mb; lia).
    fold mb.
    pose proof (worker_terminates stage_st dstep I lat k mb L0 Hmb Hbook Hstep Hlat Hprog
                                  st mb sched fuel HI Hs) as Hw.
    rewrite Z.max_l in Hw by lia. specialize (Hw Hf).
    destruct (Decomp.worker_decompress dstep fuel st mb mb sched) as [[st' out]|e];
      cbn [with_acc]; [discriminate|].
    intros H. apply Hw. inversion H; reflexivity.
  Qed.
End HeaderLoopProofs.

(* the witness of Decomp.toy_worker_spins for the encoded-header loop: a Copy-coded header
   declared to be 10 bytes whose packed stream holds 3 *)
Theorem toy_header_loop_spins (fuel : nat) :
  toy_header_loop fuel [Decomp.toy_st 0 0 []] [10] 3 100 [1; 2; 3] 10 [] = Err EFuel.
Proof.
  unfold toy_header_loop, Decomp.toy_init.
  destruct fuel as [|fuel]; [reflexivity|].
  rewrite header_loop_unfold.
  change (10 - Decomp.zlen [] >? 0) with true. cbv iota.
  set (st0 := Decomp.init_state [Decomp.toy_st 0 0 []] [10] 3 100 [1; 2; 3]).
  set (st1 := Decomp.mkD [Decomp.toy_st 0 0 []] [3] [10] 3 3 100 [] [] 0 []).
  assert (Hd : Decomp.decompress Decomp.toy_dstep st0 (10 - Decomp.zlen []) (Decomp.sched_hd st0 [])
               = Ok (st1, [1; 2; 3])) by (vm_compute; reflexivity).
  rewrite Hd. cbn [bind]. cbv iota beta.
  rewrite (header_loop_spins Decomp.toy_state Decomp.toy_dstep (fun s => fst (fst s) = 0)).
  - reflexivity.
  - intros [[t k] p] ml Ht. simpl in Ht. subst t. simpl. split; reflexivity.
  - unfold Decomp.stuck, st1; simpl. repeat split; auto.
  - vm_compute. reflexivity.
Qed.

(* ---- C4. the progress contract is satisfiable: the Copy stage on a stream that really
        holds the declared number of bytes ---------------------------------------- *)
Section EmptyResult.
  Variable stage_st : Type.
  Variable dstep : stage_st -> bytes -> Z -> stage_st * bytes.
  Local Notation dst := (Decomp.dstate stage_st).
  Local Notation dzlen := Decomp.zlen.

  (* when decompress returns nothing for a positive max_length, the carry-over buffer was
     empty and the chain produced nothing from what was read *)
  Lemma decompress_empty (st st' : dst) (ml : Z) (rd : nat) :
    0 <= Decomp.pos st <= dzlen (Decomp.buf st) -> Decomp.unused st = [] -> 0 < ml ->
    Decomp.decompress dstep st ml rd = Ok (st', []) ->
    Decomp.pos st = dzlen (Decomp.buf st) /\
    exists st1 data st2,
      Decomp.read_data st rd = (st1, data) /\ Decomp.run_chain dstep st1 data ml = Ok (st2, []).
  Proof.
    intros Hpos Hun Hml H. unfold Decomp.decompress in H.
    destruct (ml <? 0) eqn:E1; [lia|].
    destruct (dzlen (Decomp.buf st) - Decomp.pos st >=? ml) eqn:E2.
    - exfalso. injection H as _ Hout.
      assert (Hl : dzlen (Decomp.py_slice (Decomp.buf st) (Decomp.pos st) (Decomp.pos st + ml)) = ml).
      { rewrite Decomp.zlen_py_slice by lia. lia. }
      rewrite Hout in Hl. cbn in Hl. lia.
    - destruct (Decomp.read_data st rd) as [st1 data] eqn:Hrd.
      pose proof (Decomp.read_data_spec _ st st1 rd data Hrd)
        as (R1 & R2 & R3 & R4 & R5 & R6 & R7 & R8 & _).
      rewrite R6, Hun in H. change (dzlen [] >? 0) with false in H. cbv iota in H.
      destruct (Decomp.run_chain dstep st1 data ml) as [[st2 tmp]|e] eqn:Hrc; cbn [bind] in H; [|discriminate].
      pose proof (Decomp.run_chain_spec _ dstep st1 st2 data tmp ml Hrc)
        as (_ & _ & _ & _ & _ & _ & C7 & C8 & _).
      assert (Hpf : dzlen (Decomp.py_from (Decomp.buf st2) (Decomp.pos st2))
                    = dzlen (Decomp.buf st) - Decomp.pos st).
      { rewrite C7, C8, R7, R8. apply Decomp.zlen_py_from. lia. }
      pose proof (Decomp.zlen_nonneg tmp) as Htn.
      destruct (dzlen (Decomp.buf st) - Decomp.pos st + dzlen tmp <=? ml) eqn:E3.
      + injection H as _ Hout.
        assert (Hl : dzlen (Decomp.py_from (Decomp.buf st2) (Decomp.pos st2) ++ tmp) = 0)
          by (rewrite Hout; reflexivity).
        rewrite Decomp.zlen_app, Hpf in Hl.
        assert (tmp = []) by (apply Decomp.zlen_le0_nil; lia). subst tmp.
        split; [lia|]. exists st1, data, st2. split; [reflexivity|exact Hrc].
      + exfalso. injection H as _ Hout.
        assert (Hl : dzlen (Decomp.py_from (Decomp.buf st2) (Decomp.pos st2)
                            ++ Decomp.py_to tmp (ml - (dzlen (Decomp.buf st) - Decomp.pos st))) = 0)
          by (rewrite Hout; reflexivity).
        rewrite Decomp.zlen_app, Hpf, Decomp.zlen_py_to in Hl by lia. lia.
  Qed.
End EmptyResult.

Definition copy_st : Decomp.toy_state := Decomp.toy_st 0 0 [].

(* bytes of the packed stream still to be read *)
Definition avail (st : Decomp.dstate Decomp.toy_state) : Z :=
  Z.max 0 (Z.min (Decomp.zlen (Decomp.fp_rest st)) (Decomp.input_size st - Decomp.consumed st)).

(* "the stream holds what is declared": the bytes wanted are in the carry-over buffer or
   still in the packed stream, and the Copy stage's declared size covers them *)
Definition copy_inv (L0 : Z) (st : Decomp.dstate Decomp.toy_state) (size : Z) : Prop :=
  Decomp.book_inv L0 st /\ Decomp.stages st = [copy_st] /\
  (exists u n, Decomp.unpacked st = [u] /\ Decomp.unpacksizes st = [n] /\ u + avail st <= n) /\
  0 < Decomp.block_size st /\
  size <= (Decomp.zlen (Decomp.buf st) - Decomp.pos st) + avail st.

Lemma copy_chain_run u n data ml ss up out :
  Decomp.chain_run Decomp.toy_dstep [copy_st] [u] [n] data ml = Ok (ss, up, out) ->
  ss = [copy_st] /\ up = [u + Decomp.zlen data] /\ out = data.
Proof.
  cbn [Decomp.chain_run]. destruct (u <? n).
  - cbn. intros H. inversion H; subst. repeat split; reflexivity.
  - destruct (Decomp.zlen data =? 0) eqn:Ez; [|discriminate].
    assert (data = []) by (apply Decomp.zlen_le0_nil; lia). subst data.
    cbn. intros H. inversion H; subst. rewrite Z.add_0_r. repeat split; reflexivity.
Qed.

Lemma copy_inv_step L0 mb st size rd st' out :
  copy_inv L0 st size -> 0 < size ->
  Decomp.decompress Decomp.toy_dstep st (Z.min size mb) rd = Ok (st', out) ->
  copy_inv L0 st' (size - Decomp.zlen out).
Proof.
  intros (Hb & Hst & (u & n & Hu & Hn & Hun) & Hbs & Hsz) Hpos Hd.
  destruct (Decomp.decompress_book_inv _ Decomp.toy_dstep L0 st st' _ _ out Hb Hd) as (Hb' & _).
  destruct Hb as (Hp & Hu0 & Hl).
  destruct (Decomp.decompress_spec _ Decomp.toy_dstep st st' _ rd out Hp Hu0 Hd)
    as (data & tmp & Hch & Hfp & Hcons & Hdl & Hus & His & Hbsz & Hun' & Hpos' & Hflow & _).
  assert (Hchain : Decomp.stages st' = [copy_st] /\ Decomp.unpacked st' = [u + Decomp.zlen data]
                   /\ tmp = data).
  { destruct Hch as [(Hs & Hup & -> & ->)|[ml' Hcr]].
    - rewrite Hs, Hup, Hst, Hu. cbn. rewrite Z.add_0_r. repeat split; reflexivity.
    - rewrite Hst, Hu, Hn in Hcr. apply copy_chain_run in Hcr. exact Hcr. }
  destruct Hchain as (Hst' & Hu' & ->).
  pose proof (Decomp.zlen_nonneg data) as Hd0.
  pose proof (Decomp.zlen_nonneg (Decomp.fp_rest st')) as Hf0.
  assert (Hav : avail st' = avail st - Decomp.zlen data).
  { unfold avail. rewrite Hfp, Decomp.zlen_app, Hcons, His. lia. }
  assert (Hlen : (Decomp.zlen (Decomp.buf st) - Decomp.pos st) + Decomp.zlen data
                 = Decomp.zlen out + (Decomp.zlen (Decomp.buf st') - Decomp.pos st')).
  { assert (Hf := f_equal Decomp.zlen Hflow). rewrite !Decomp.zlen_app in Hf.
    rewrite !Decomp.zlen_py_from in Hf by lia. lia. }
  split; [exact Hb'|]. split; [exact Hst'|].
  split; [exists (u + Decomp.zlen data), n; rewrite Hus; repeat split; [exact Hu'|exact Hn|lia]|].
  split; [lia|]. lia.
Qed.

Lemma copy_inv_progress L0 mb st size rd st' :
  0 < mb -> copy_inv L0 st size -> 0 < size -> okrd Decomp.toy_state st rd ->
  Decomp.decompress Decomp.toy_dstep st (Z.min size mb) rd = Ok (st', []) -> False.
Proof.
  intros Hmb (Hb & Hst & (u & n & Hu & Hn & Hun) & Hbs & Hsz) Hpos Hrd Hd.
  destruct Hb as (Hp & Hu0 & Hl).
  assert (Hml : 0 < Z.min size mb) by lia.
  destruct (decompress_empty _ Decomp.toy_dstep st st' (Z.min size mb) rd Hp Hu0 Hml Hd)
    as (Hcur & st1 & data & st2 & Hread & Hrun).
  pose proof (Decomp.read_data_spec _ st st1 rd data Hread) as (R1 & R2 & R3 & _).
  apply Decomp.run_chain_spec in Hrun. destruct Hrun as (Hcr & _).
  rewrite R1, R2, R3, Hst, Hu, Hn in Hcr. apply copy_chain_run in Hcr.
  destruct Hcr as (_ & _ & Hdata). subst data.
  (* nothing was read: the stream is exhausted *)
  assert (Hav : avail st = 0).
  { unfold avail. unfold Decomp.read_data in Hread. rewrite Hu0 in Hread.
    change (Decomp.zlen []) with 0 in Hread. rewrite !Z.sub_0_r in Hread.
    destruct (Z.min (Decomp.input_size st - Decomp.consumed st) (Decomp.block_size st) >? 0) eqn:Er.
    - unfold Decomp.fp_read in Hread. injection Hread as _ Hfirst.
      destruct (Decomp.fp_rest st) as [|b r] eqn:Hfr; [cbn; lia|].
      destruct Hrd as [Hrd|Hrd]; [|rewrite Hfr in Hrd; discriminate].
      exfalso.
      destruct (Nat.min (Z.to_nat (Z.min (Decomp.input_size st - Decomp.consumed st) (Decomp.block_size st))) rd)
        as [|m] eqn:Em; [lia|]. discriminate Hfirst.
    - pose proof (Decomp.zlen_nonneg (Decomp.fp_rest st)). lia. }
  lia.
Qed.

(* the contract instantiated: Copy terminates within (size + unread bytes + 1) iterations *)
Theorem copy_worker_terminates L0 mb st size sched fuel :
  0 < mb -> copy_inv L0 st size -> Forall (fun k => (0 < k)%nat) sched ->
  Z.max size 0 + Decomp.zlen (Decomp.fp_rest st) + 1 <= Z.of_nat fuel ->
  Decomp.worker_decompress Decomp.toy_dstep fuel st size mb sched <> Err EFuel.
Proof.
  intros Hmb HI Hs Hf.
  apply (worker_terminates Decomp.toy_state Decomp.toy_dstep (copy_inv L0) (fun _ => 0%nat) 0 mb L0 Hmb).
  - intros s z (Hb & _). exact Hb.
  - intros s z rd s' out Hi Hz _ Hd _. exact (copy_inv_step L0 mb s z rd s' out Hi Hz Hd).
  - intros s. lia.
  - intros s z rd s' Hi Hz Hrd Hd _. exfalso. exact (copy_inv_progress L0 mb s z rd s' Hmb Hi Hz Hrd Hd).
  - exact HI.
  - exact Hs.
  - change (Z.of_nat 0) with 0. lia.
Qed.

(* a concrete non-trivial state satisfying the invariant: 7 packed bytes, declared size 7,
   5 of them wanted, block size 4, short reads allowed *)
Example copy_inv_example :
  copy_inv 7 (Decomp.toy_init [copy_st] [7] 7 4 [1; 2; 3; 4; 5; 6; 7]) 5.
Proof.
  unfold copy_inv, Decomp.toy_init. split; [apply Decomp.init_book_inv|].
  split; [reflexivity|]. split; [exists 0, 7; cbn; repeat split; lia|].
  cbn. lia.
Qed.

Example copy_worker_example :
  Decomp.toy_worker 13 [copy_st] [7] 7 4 [1; 2; 3; 4; 5; 6; 7] 5 3 [1%nat; 2%nat] = Ok [1; 2; 3; 4; 5].
Proof. vm_compute. reflexivity. Qed.

Print Assumptions packpositions_superlinear.
Print Assumptions names_steps_eof.
Print Assumptions packed_indices_steps_worst.
Print Assumptions worker_terminates.
Print Assumptions header_loop_is_worker.
Print Assumptions header_loop_spins.
Print Assumptions header_loop_terminates.
Print Assumptions toy_header_loop_spins.
Print Assumptions copy_worker_terminates.
