(* Cost.v -- resource model for property C05 ("any input terminates in bounded time and
   memory"): what the header parser (Header.v) and the two decompress loops (Decomp.v,
   Worker.decompress py7zr.py l.1492-1506 and Header._read archiveinfo.py l.950-954) can be
   made to do by the counts an archive DECLARES, as opposed to the bytes it CONTAINS.

   Part 1 "Model": iteration counts of the loops of the Python whose trip count is a declared
     number (PackInfo.packpositions l.270, Folder._read packed_indices l.388-391,
     read_utf16 l.205-213, SevenZipFile._read_digest py7zr.py l.792-800), the encoded-header
     loop, size of the object graph the parser allocates, dispatcher.
   Part 2 "Proofs":
     A  every primitive reader consumes input, hence a repeated reader cannot return more
        elements than there are bytes (a count larger than the remaining input always fails);
     B  which sections are therefore immune and which are not: the resource answers
        (Err EFuel) of Header.parse_header that tiny inputs reach;
     C  the loops: super-linear step counts; termination of the decompress loops under a
        progress contract, and non-termination without it.
   stdlib only; no axioms. *)
From P7 Require Import Prelude PyPrims Number Header.
Require P7.Decomp.
From Coq Require Import ZifyBool.
Open Scope Z_scope.

(* ===================================================================== *)
(*                              PART 1 : MODEL                           *)
(* ===================================================================== *)

(* ---- PackInfo._read l.270 ---------------------------------------------
   self.packpositions = [sum(self.packsizes[:i]) for i in range(self.numstreams + 1)]
   One list element per i; the slice copies min(i, len(packsizes)) elements and sum()
   walks them. *)
Definition packpositions (sizes : list Z) (n : Z) : list Z :=
  map (fun i => sumZ (takeZ i sizes)) (py_range 0 (n + 1)).

Fixpoint tri_steps (k : nat) (nsizes : Z) : Z :=
  match k with
  | O => 0
  | S k' => tri_steps k' nsizes + 1 + Z.min (Z.of_nat k') (Z.max nsizes 0)
  end.
(* number of list cells touched by the comprehension *)
Definition packpositions_steps (nsizes n : Z) : Z := tri_steps (Z.to_nat (n + 1)) nsizes.

(* ---- Folder._read l.388-391 -------------------------------------------
   for i in range(totalin): if self._find_in_bin_pair(i) < 0: packed_indices.append(i)
   _find_in_bin_pair walks the bond list up to the first bond whose incoder is i. *)
Fixpoint find_in_steps (bonds : list (Z * Z)) (i : Z) : Z :=
  match bonds with
  | [] => 0
  | b :: r => if fst b =? i then 1 else 1 + find_in_steps r i
  end.
Definition packed_indices_steps (bonds : list (Z * Z)) (totalin : Z) : Z :=
  sumZ (map (find_in_steps bonds) (py_range 0 totalin)).

(* ---- read_utf16 l.205-213 ----------------------------------------------
   for _ in range(MAX_LENGTH): ch = file.read(2); if ch == b"\0\0": break; val += ch
   At end of input read(2) returns b"" (which is not b"\0\0"): the loop goes on to
   MAX_LENGTH = 65536 iterations. *)
Fixpoint utf16_term_index (fuel : nat) (bs : bytes) : option Z :=
  match fuel with
  | O => None
  | S f => match bs with
           | 0 :: 0 :: _ => Some 0
           | _ :: _ :: r => match utf16_term_index f r with Some j => Some (j + 1) | None => None end
           | _ => None
           end
  end.
Definition utf16_iters (bs : bytes) : Z :=
  match utf16_term_index (S (length bs)) bs with
  | Some j => if j <? 65536 then j + 1 else 65536
  | None => 65536
  end.
(* FilesInfo._read_name: one read_utf16 per entry of self.files, all on the same buffer *)
Fixpoint names_steps (n : nat) (bs : bytes) : Z :=
  match n with
  | O => 0
  | S n' => utf16_iters bs +
            match rd_utf16_raw (S (length bs)) 0 [] bs with
            | Ok (_, r) => names_steps n' r
            | Err _ => 0
            end
  end.

(* ---- SevenZipFile._read_digest py7zr.py l.792-800 ------------------------
   while remaining_size > 0: block = min(block_size, remaining_size); read(block); remaining_size -= block
   The trip count depends on the declared pack size only, not on what read() returns. *)
Definition read_digest_iters (size blocksize : Z) : Z :=
  if size <=? 0 then 0 else if blocksize <=? 0 then -1 (* never ends *) else (size + blocksize - 1) / blocksize.

(* ---- Header._read l.950-954 ----------------------------------------------
   remaining = uncompressed_size; folder_data = bytearray()
   while remaining > 0:
       folder_data += decompressor.decompress(fp, max_length=remaining)
       remaining = uncompressed_size - len(folder_data)
   fuel bounds the number of iterations; the Python loop has no such bound. *)
Section HeaderLoop.
  Variable stage_st : Type.
  Variable dstep : stage_st -> bytes -> Z -> stage_st * bytes.

  Fixpoint header_loop (fuel : nat) (st : Decomp.dstate stage_st) (usize : Z) (acc : bytes)
           (sched : list nat) : res (Decomp.dstate stage_st * bytes) :=
    if usize - Decomp.zlen acc >? 0 then
      match fuel with
      | O => Err EFuel
      | S fuel' =>
          do r <- Decomp.decompress dstep st (usize - Decomp.zlen acc) (Decomp.sched_hd st sched);
          let '(st', tmp) := r in
          header_loop fuel' st' usize (acc ++ tmp) (tl sched)
      end
    else Ok (st, acc).
End HeaderLoop.
Arguments header_loop {stage_st}.

Definition toy_header_loop (fuel : nat) (sts : list Decomp.toy_state) (us : list Z) (isz bsz : Z)
           (packed : bytes) (usize : Z) (sched : list nat) : res bytes :=
  do r <- header_loop Decomp.toy_dstep fuel (Decomp.toy_init sts us isz bsz packed) usize [] sched;
  Ok (snd r).

(* ---- size of the object graph the parser builds (number of list cells) ---- *)
Definition coder_size (c : coder) : Z :=
  1 + zlen (c_method c) + match c_props c with Some p => zlen p | None => 0 end.
Definition folder_size (f : folder) : Z :=
  1 + sumZ (map coder_size (f_coders f)) + zlen (f_bonds f) + zlen (f_packed f) + zlen (f_unpacksizes f).
Definition pack_size (p : packinfo) : Z :=
  (* packsizes, digestdefined, crcs, and packpositions (numstreams + 1 cells) *)
  zlen (p_sizes p) + zlen (p_digestdefined p) + zlen (p_crcs p) + Z.max 0 (p_numstreams p + 1).
Definition sub_size (s : substreams) : Z :=
  zlen (s_nums s) + match s_sizes s with Some l => zlen l | None => 0 end
  + zlen (s_digestsdefined s) + zlen (s_digests s).
Definition file_size (e : fileent) : Z :=
  1 + match e_name e with Some n => zlen n | None => 0 end.
Definition streams_size (s : streamsinfo) : Z :=
  match si_pack s with Some p => pack_size p | None => 0 end
  + match si_folders s with Some fs => sumZ (map folder_size fs) | None => 0 end
  + match si_sub s with Some x => sub_size x | None => 0 end.
Definition header_size (h : header) : Z :=
  match h_streams h with Some s => streams_size s | None => 0 end
  + match h_files h with Some fs => sumZ (map file_size fs) | None => 0 end
  + zlen (h_emptyfiles h).

(* ---- dispatcher (numbers 420-439) ---------------------------------------- *)
Definition of_pairs (t : tree) : list (Z * Z) := map (fun x => (of_TI (tnth x 0), of_TI (tnth x 1))) (of_TL t).

Definition cost_dispatch (fn : Z) (a : tree) : tree :=
  match fn with
  (* FN 420 packpositions : (sizes n) -> list int *)
  | 420 => TL (map TI (packpositions (map of_TI (of_TL (tnth a 0))) (of_TI (tnth a 1))))
  (* FN 421 packpositions_steps : (nsizes n) -> int *)
  | 421 => TI (packpositions_steps (of_TI (tnth a 0)) (of_TI (tnth a 1)))
  (* FN 422 utf16_iters : bytes -> int *)
  | 422 => TI (utf16_iters (of_bytes a))
  (* FN 423 names_steps : (n bytes) -> int *)
  | 423 => TI (names_steps (Z.to_nat (of_TI (tnth a 0))) (of_bytes (tnth a 1)))
  (* FN 424 toy_worker : (fuel states unpacksizes input_size block_size packed size mb sched) -> res bytes *)
  | 424 => Decomp.toy_worker_t a
  (* FN 425 toy_header_loop : (fuel states unpacksizes input_size block_size packed usize sched) -> res bytes *)
  | 425 => t_res t_bytes
             (toy_header_loop (Z.to_nat (of_TI (tnth a 0)))
                (map Decomp.t_toy_state (of_TL (tnth a 1))) (map of_TI (of_TL (tnth a 2)))
                (of_TI (tnth a 3)) (of_TI (tnth a 4)) (of_bytes (tnth a 5)) (of_TI (tnth a 6))
                (map (fun x => Z.to_nat (of_TI x)) (of_TL (tnth a 7))))
  (* FN 426 packed_indices_steps : (bonds totalin) -> int *)
  | 426 => TI (packed_indices_steps (of_pairs (tnth a 0)) (of_TI (tnth a 1)))
  (* FN 427 read_digest_iters : (size blocksize) -> int *)
  | 427 => TI (read_digest_iters (of_TI (tnth a 0)) (of_TI (tnth a 1)))
  (* FN 429 header_size_of : (lim bytes) -> res int *)
  | 429 => t_res TI (do h <- parse_header (of_TI (tnth a 0)) (of_bytes (tnth a 1)); Ok (header_size h))
  | _ => TL [TI (-2)]
  end.
