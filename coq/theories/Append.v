(* Append.v -- an append session of py7zr as a transformation of the parsed header graph
   (property C08, "append preserves history").  Definitions only; proofs in AppendProofs.v.

   Code modelled (py7zr/py7zr.py, py7zr/archiveinfo.py), line by line:
     SevenZipFile.__init__ mode "a":  _real_get_contents (the SubstreamsInfo object installed when the header has
                                      none: Assign.install_sub; the generated name for entries without
                                      one: `open_names`), _prepare_append (`append_position`)
     write/_writef/_register_and_archive:  Header.initialize (`initialize`), files_info.files.append,
                                      Worker.archive -> Worker._after_write (`add_member`, `after_write`)
     close/_write_flush:              Worker.flush_archive (`flush`), then Header.write (Header.v write_header
                                      with `enable_digests`)
   What the codec layer contributes is a parameter of the session: the new Folder object (coders,
   bonds, and the unpack sizes `compressor.unpacksizes` stored at flush), per data member its size and
   CRC32, the packed size and the CRC of the packed stream.

   Tie to the code: tools/harness/c08model.py runs `append_session` / `append_position` (through the
   dispatcher below) and the real session on the same header graphs and compares the graphs. *)
From P7 Require Import Prelude PyPrims Number Header HeaderCodec.
From P7 Require Spec.
From P7 Require Assign.
Open Scope Z_scope.

(* a member added by the session: its file entry and, for a member with a data stream, (size, crc32) *)
Record new_member := mkMember { m_file : fileent; m_stream : option (Z * Z) }.

(* ------------------------------------------------------------------ *)
(* opening for append                                                  *)
(* ------------------------------------------------------------------ *)
(* _real_get_contents: `if "filename" not in file_info: file_info["filename"] = <generated>`; the dicts
   are the ones the header graph holds, so the generated name is written back by the session.
   dflt = "contents" for a stream without a name, else the archive's base name without extension *)
Definition fill_name (dflt : list Z) (e : fileent) : fileent :=
  match e_name e with Some _ => e | None => set_name e dflt end.
Definition open_names (dflt : list Z) (h : header) : header :=
  mkHeader (h_streams h) (option_map (map (fill_name dflt)) (h_files h)) (h_emptyfiles h).

(* SevenZipFile.__init__, mode "a", on a file that starts with the 7z signature: the header is read;
   when that fails the exception is passed on (Bad7zFile is re-raised: an archive that cannot be
   read is never replaced by a new one) and nothing has been written *)
(* _real_get_contents also installs SubstreamsInfo.default(folders) in a graph that was read without a
   SubStreamsInfo (Assign.install_sub): the session and the header written at close work on that object *)
Definition open_graph (dflt : list Z) (h : header) : header := open_names dflt (Assign.install_sub h).
Definition open_for_append (lim : Z) (dflt : list Z) (hdr : bytes) : res header :=
  do h <- parse_header lim hdr; Ok (open_graph dflt h).

(* PackInfo._read: packpositions = [sum(packsizes[:i]) for i in range(numstreams + 1)]; [-1] *)
Definition pack_end (p : packinfo) : Z := sumZ (takeZ (p_numstreams p) (p_sizes p)).

(* _prepare_append: where the new packed stream is written (fp.seek(pos); Worker(..., pos, ...)) *)
Definition append_position (h : header) (afterheader : Z) : res Z :=
  match h_streams h with
  | None => Ok afterheader
  | Some st =>
      match si_pack st with
      | Some p => Ok (afterheader + p_pos p + pack_end p)
      | None => Err EOther                      (* AttributeError: None.packpos *)
      end
  end.

(* packinfo.enable_digests as the session sees it: PackInfo._read leaves `any(digestdefined)`
   (the CRC list is kept aligned with the streams, 0 where undefined); a header created by
   initialize() has `password is not None` *)
Definition enable_digests (pw : bool) (h : header) : bool :=
  match h_streams h with
  | None => pw
  | Some st => match si_pack st with
               | Some p => any_true (p_digestdefined p)
               | None => false
               end
  end.

(* ------------------------------------------------------------------ *)
(* Header.initialize (first write call of the session)                 *)
(* ------------------------------------------------------------------ *)
(* [f.get_unpack_size() for f, n in zip(folders[:-1], num_unpackstreams_folders) for _ in range(n)] *)
Fixpoint recover_sizes (fs : list folder) (ns : list Z) : res (list Z) :=
  match fs, ns with
  | f :: r, n :: nr =>
      if n <=? 0 then recover_sizes r nr else
      do v <- folder_unpack_size f;
      do t <- recover_sizes r nr;
      Ok (repeat v (Z.to_nat n) ++ t)
  | _, _ => Ok []
  end.

Definition fresh_streams (nf : folder) : streamsinfo :=
  mkStreams (Some (mkPack 0 0 [] [] [])) (Some [nf]) (Some (mkSub [0] (Some []) [] [])).

Definition initialize (h : header) (nf : folder) : res header :=
  match h_streams h with
  | None =>
      (* "create new header"; the entries of an archive without data streams are kept *)
      Ok (mkHeader (Some (fresh_streams nf))
                   (Some (match h_files h with Some f => f | None => [] end))
                   (h_emptyfiles h))
  | Some st =>
      (* append mode *)
      do sub' <- (match si_sub st with
                  | None => Ok None                        (* "unexpected": nothing is done *)
                  | Some s =>
                      do sz <- (match s_sizes s, si_folders st with
                                | None, Some fs => do r <- recover_sizes fs (s_nums s); Ok (Some r)
                                | o, _ => Ok o
                                end);
                      Ok (Some (mkSub (s_nums s ++ [0]) sz (s_digestsdefined s) (s_digests s)))
                  end);
      Ok (mkHeader (Some (mkStreams (si_pack st) (option_map (fun fs => fs ++ [nf]) (si_folders st)) sub'))
                   (h_files h) (h_emptyfiles h))
  end.

(* ------------------------------------------------------------------ *)
(* one write call: register the entry, archive its data                *)
(* ------------------------------------------------------------------ *)
(* num_unpackstreams_folders[-1] += 1 *)
Fixpoint incr_last (l : list Z) : res (list Z) :=
  match l with
  | [] => Err EOther
  | [n] => Ok [n + 1]
  | x :: r => do r' <- incr_last r; Ok (x :: r')
  end.

(* Worker._after_write *)
Definition after_write (s : substreams) (sz crc : Z) : res substreams :=
  do nums' <- incr_last (s_nums s);
  Ok (mkSub nums' (Some (match s_sizes s with None => [sz] | Some l => l ++ [sz] end))
            (s_digestsdefined s ++ [true]) (s_digests s ++ [crc])).

Definition add_member (h : header) (m : new_member) : res header :=
  match h_files h with
  | None => Err EOther                         (* AttributeError: None.files *)
  | Some fl =>
      let files' := fl ++ [m_file m] in
      (* a new entry has no "emptyfile" key: its EmptyFile bit is written as False *)
      let ef' := h_emptyfiles h ++ (if e_emptystream (m_file m) then [false] else []) in
      match m_stream m with
      | None => Ok (mkHeader (h_streams h) (Some files') ef')
      | Some (sz, crc) =>
          match h_streams h with
          | Some st =>
              match si_sub st with
              | Some s => do s' <- after_write s sz crc;
                          Ok (mkHeader (Some (mkStreams (si_pack st) (si_folders st) (Some s'))) (Some files') ef')
              | None => Err EOther              (* AttributeError: None.digestsdefined *)
              end
          | None => Err EOther
          end
      end
  end.

Fixpoint add_members (h : header) (ms : list new_member) : res header :=
  match ms with
  | [] => Ok h
  | m :: r => do h' <- add_member h m; add_members h' r
  end.

(* ------------------------------------------------------------------ *)
(* close: Worker.flush_archive                                         *)
(* ------------------------------------------------------------------ *)
Definition flush (en : bool) (h : header) (packsize packcrc : Z) : res header :=
  match h_streams h with
  | None => Err EOther
  | Some st =>
      match si_folders st, si_pack st with
      | Some _, Some p =>
          let p' := mkPack (p_pos p) (p_numstreams p + 1) (p_sizes p ++ [packsize])
                           (if en then p_digestdefined p ++ [true] else p_digestdefined p)
                           (if en then p_crcs p ++ [packcrc] else p_crcs p) in
          Ok (mkHeader (Some (mkStreams (Some p') (si_folders st) (si_sub st))) (h_files h) (h_emptyfiles h))
      | _, _ => Err EOther                      (* AttributeError on None *)
      end
  end.

(* ------------------------------------------------------------------ *)
(* the session                                                         *)
(* ------------------------------------------------------------------ *)
(* h: the graph after opening (open_names applied); nf: the Folder object of the session with the
   unpack sizes it has at flush; a session without a write call leaves the graph as it is
   (header._initialized is False: no flush, the header is written back) *)
Definition append_session (pw : bool) (h : header) (nf : folder) (members : list new_member)
           (packsize packcrc : Z) : res header :=
  match members with
  | [] => Ok h
  | _ :: _ =>
      do h1 <- initialize h nf;
      do h2 <- add_members h1 members;
      flush (enable_digests pw h) h2 packsize packcrc
  end.

(* k sessions; `reopen` is what closing and opening again does to the graph *)
Record session := mkSession { ss_folder : folder; ss_members : list new_member; ss_packsize : Z; ss_packcrc : Z }.

Fixpoint append_sessions (reopen : header -> res header) (pw : bool) (h : header) (ss : list session) : res header :=
  match ss with
  | [] => Ok h
  | s :: r =>
      do h1 <- append_session pw h (ss_folder s) (ss_members s) (ss_packsize s) (ss_packcrc s);
      do h2 <- reopen h1;
      append_sessions reopen pw h2 r
  end.

(* closing and opening again: Header.write(encoded=False) then Header._read, then the generated names *)
Definition reopen_via_bytes (lim : Z) (en : bool) (pos : Z) (dflt : list Z) (h : header) : res header :=
  do bs <- write_header en pos h;
  do h' <- parse_header lim bs;
  Ok (open_graph dflt h').

(* ------------------------------------------------------------------ *)
(* the hypotheses of the theorems (AppendProofs.v), computable          *)
(* ------------------------------------------------------------------ *)
Definition is_data (e : fileent) : bool := negb (e_emptystream e).
Definition count_data (files : list fileent) : Z := zlen (filter is_data files).

(* the reader takes a folder's size from the LAST unpack size, initialize() recovers it with
   get_unpack_size(): they must name the same value *)
Definition last_is_main (f : folder) : bool :=
  match folder_unpack_size f, py_index (f_unpacksizes f) (-1) with
  | Ok a, Ok b => a =? b
  | _, _ => false
  end.
Fixpoint recover_agrees (fs : list folder) (ns : list Z) : bool :=
  match fs, ns with
  | f :: r, n :: nr => ((n <=? 0) || last_is_main f) && recover_agrees r nr
  | _, _ => true
  end.

(* the graph holds one EmptyFile bit per entry without data (the "emptyfile" key FilesInfo._read stores with each
   such entry; tools/harness/hdr.py reads the vector off those keys) *)
Definition ef_aligned (h : header) : bool :=
  zlen (h_emptyfiles h) =? Z.of_nat (Assign.nempty (match h_files h with Some fl => fl | None => [] end)).

(* a base graph whose sections describe one another: one count per folder, one size / digest slot per
   sub-stream, one sub-stream per entry with data, one EmptyFile bit per entry without; without streams no
   entry has data *)
Definition base_ok (h : header) : bool :=
  ef_aligned h &&
  match h_streams h with
  | None => match h_files h with Some fl => forallb e_emptystream fl | None => true end
  | Some st =>
      match si_pack st, si_folders st, si_sub st, h_files h with
      | Some _, Some fs, Some s, Some fl =>
          (zlen (s_nums s) =? zlen fs) && forallb (fun n => 0 <=? n) (s_nums s)
          && (match s_sizes s with
              | Some sz => zlen sz =? sumZ (s_nums s)
              | None => recover_agrees fs (s_nums s)
              end)
          && (zlen (s_digestsdefined s) =? sumZ (s_nums s)) && (zlen (s_digests s) =? sumZ (s_nums s))
          && (count_data fl =? sumZ (s_nums s))
      | _, _, _, _ => false
      end
  end.

(* a member has a data stream iff its entry is not an empty-stream entry (Worker.archive) *)
Definition member_ok (m : new_member) : bool :=
  Bool.eqb (e_emptystream (m_file m)) (match m_stream m with None => true | Some _ => false end).
Definition new_sizes (ms : list new_member) : list Z :=
  flat_map (fun m => match m_stream m with Some (sz, _) => [sz] | None => [] end) ms.
Definition new_crcs (ms : list new_member) : list Z :=
  flat_map (fun m => match m_stream m with Some (_, c) => [c] | None => [] end) ms.

(* ------------------------------------------------------------------ *)
(* tree glue                                                           *)
(* ------------------------------------------------------------------ *)
Definition of_member (t : tree) : new_member :=
  mkMember (of_file (tnth t 0)) (of_opt (fun p => (of_TI (tnth p 0), of_TI (tnth p 1))) (tnth t 1)).

Definition append_dispatch (fn : Z) (a : tree) : tree :=
  match fn with
  (* FN 460 append_session : (pw header folder members packsize packcrc) -> res header *)
  | 460 => t_res t_header (append_session (of_bool (tnth a 0)) (of_header (tnth a 1)) (of_folder (tnth a 2))
                                          (of_list of_member (tnth a 3)) (of_TI (tnth a 4)) (of_TI (tnth a 5)))
  (* FN 461 append_position : (header afterheader) -> res int *)
  | 461 => t_res TI (append_position (of_header (tnth a 0)) (of_TI (tnth a 1)))
  (* FN 462 open_names : (dflt header) -> header *)
  | 462 => t_header (open_names (of_Zs (tnth a 0)) (of_header (tnth a 1)))
  (* FN 463 append_enable_digests : (pw header) -> bool *)
  | 463 => t_bool (enable_digests (of_bool (tnth a 0)) (of_header (tnth a 1)))
  (* FN 465 append_reopen : (lim en pos dflt header) -> res header *)
  | 465 => t_res t_header (reopen_via_bytes (of_TI (tnth a 0)) (of_bool (tnth a 1)) (of_TI (tnth a 2))
                                            (of_Zs (tnth a 3)) (of_header (tnth a 4)))
  (* FN 464 open_for_append : (lim dflt header-bytes) -> res header *)
  | 464 => t_res t_header (open_for_append (of_TI (tnth a 0)) (of_Zs (tnth a 1)) (of_bytes (tnth a 2)))
  (* FN 466 append_base_ok : header -> bool *)
  | 466 => t_bool (base_ok (of_header a))
  (* FN 467 spec_times : (lim bytes) -> res (list (ctime atime))  -- creation / access time of every entry as the
     strict specification reader (Spec.v s_header) reads them; used by the reference reader tools/ref *)
  | 467 => t_res (t_list (fun e => TL [t_opt TI (Spec.flat_opt (e_ctime e)); t_opt TI (Spec.flat_opt (e_atime e))]))
                 (do sh <- Spec.s_header (of_TI (tnth a 0)) (of_bytes (tnth a 1)); Ok (Spec.sh_files sh))
  | _ => TL [TI (-2)]
  end.
