(* Append.v -- stub; the model that belongs here is being written. *)
From P7 Require Import Prelude.
Open Scope Z_scope.
Definition append_dispatch (fn : Z) (a : tree) : tree := TL [TI (-2)].
