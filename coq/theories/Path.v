(* Path.v -- model of the path handling behind py7zr's member-name checks (property C16).

   Runtime modelled: Linux, CPython 3.12 pathlib (PurePosixPath) and posixpath.
   Strings are lists of code points.  A pathlib path object is modelled the way 3.12 stores it:
   the list of raw segments it was built from (`_raw_paths`); everything else (`parts`, `str`,
   `is_absolute`, `joinpath`, `relative_to`) is computed from the raw segments exactly as
   pathlib does (posixpath.join, posixpath.splitroot, split on '/', drop '' and '.').

   Code modelled (py7zr/helpers.py): canonical_path, is_relative_to, is_path_valid,
   check_archive_path (as repaired: lexical depth walk);  (py7zr/py7zr.py): SevenZipFile._sanitize_archive_arcname, the file name
   stored by _make_file_info/_make_file_info_from_name (pathlib.Path(arcname).as_posix()).

   Only definitions and the dispatcher here; proofs are in PathProofs.v. *)
From P7 Require Import Prelude.
Open Scope Z_scope.

Definition str := list Z.

Definition isnil {A} (l : list A) : bool := match l with [] => true | _ => false end.

Fixpoint str_eqb (a b : str) : bool :=
  match a, b with
  | [], [] => true
  | x :: a', y :: b' => (x =? y) && str_eqb a' b'
  | _, _ => false
  end.

Definition s_dot : str := [46].
Definition s_dotdot : str := [46; 46].
Definition s_slash : str := [47].

(* ---------------------------------------------------------------- str primitives *)
(* s.startswith('/') *)
Definition startswith_slash (s : str) : bool :=
  match s with c :: _ => c =? 47 | [] => false end.

(* s.endswith('/') *)
Fixpoint endswith_slash (s : str) : bool :=
  match s with
  | [] => false
  | c :: r => match r with [] => c =? 47 | _ => endswith_slash r end
  end.

(* s.lstrip('/')   (py7zr passes "/" + os.sep = "//": the same character set) *)
Fixpoint lstrip_slash (s : str) : str :=
  match s with
  | c :: r => if c =? 47 then lstrip_slash r else s
  | [] => []
  end.

(* s.split('/') : never the empty list *)
Fixpoint split (s : str) : list str :=
  match s with
  | [] => [[]]
  | c :: r =>
      if c =? 47 then [] :: split r
      else match split r with
           | h :: t => (c :: h) :: t
           | [] => [[c]]
           end
  end.

(* '/'.join(l) *)
Fixpoint join_slash (l : list str) : str :=
  match l with
  | [] => []
  | c :: r => match r with [] => c | _ => c ++ 47 :: join_slash r end
  end.

(* ---------------------------------------------------------------- posixpath *)
(* one step of posixpath.join's loop: path, b -> new path *)
Definition posix_join1 (path b : str) : str :=
  if startswith_slash b then b
  else if isnil path || endswith_slash path then path ++ b
  else path ++ 47 :: b.

(* posixpath.join(a, ps...) *)
Definition posix_join (a : str) (ps : list str) : str := fold_left posix_join1 ps a.

(* posixpath.splitroot(p) without the (always empty) drive: (root, tail-string) *)
Definition splitroot (p : str) : str * str :=
  match p with
  | [] => ([], p)
  | c0 :: r0 =>
      if c0 =? 47 then
        match r0 with
        | [] => ([47], r0)
        | c1 :: r1 =>
            if c1 =? 47 then
              match r1 with
              | [] => ([47; 47], r1)
              | c2 :: _ => if c2 =? 47 then ([47], r0) else ([47; 47], r1)
              end
            else ([47], r0)
        end
      else ([], p)
  end.

(* ---------------------------------------------------------------- pathlib.PurePosixPath 3.12 *)
Definition ppath := list str.          (* _raw_paths *)

(* x kept by `[x for x in rel.split(sep) if x and x != '.']` *)
Definition keep_comp (c : str) : bool := negb (isnil c) && negb (str_eqb c s_dot).

(* PurePath._parse_path *)
Definition parse_str (path : str) : str * list str :=
  if isnil path then ([], [])
  else let '(root, rel) := splitroot path in (root, filter keep_comp (split rel)).

(* the string PurePath._load_parts parses *)
Definition raw_path (p : ppath) : str :=
  match p with
  | [] => []
  | a :: ps => match ps with [] => a | _ => posix_join a ps end
  end.

Definition pp_parse (p : ppath) : str * list str := parse_str (raw_path p).

(* PurePath.parts *)
Definition pp_parts (p : ppath) : list str :=
  let '(root, tail) := pp_parse p in if isnil root then tail else root :: tail.

Definition posix_parts (s : str) : list str := pp_parts [s].

(* PurePath.is_absolute, posix branch: any raw segment starts with '/' *)
Definition pp_is_absolute (p : ppath) : bool := existsb startswith_slash p.
Definition is_absolute (s : str) : bool := pp_is_absolute [s].

(* PurePath.joinpath(seg) with a str argument / with a path argument *)
Definition pp_joinpath (p : ppath) (seg : str) : ppath := p ++ [seg].
Definition pp_joinpath_p (p q : ppath) : ppath := p ++ q.

(* PurePath._format_parsed_parts (posix: drive '' and splitdrive(...)[0] = '' always) *)
Definition format_parsed (root : str) (tail : list str) : str :=
  if negb (isnil root) then root ++ join_slash tail else join_slash tail.

(* str(path) = as_posix() on posix *)
Definition pp_str (p : ppath) : str :=
  let '(root, tail) := pp_parse p in
  let s := format_parsed root tail in if isnil s then s_dot else s.

Fixpoint prefixb (a l : list str) : bool :=
  match a, l with
  | [], _ => true
  | x :: a', y :: l' => str_eqb x y && prefixb a' l'
  | _ :: _, [] => false
  end.

(* PurePath.is_relative_to(other) (one argument): `other == self or other in self.parents`;
   equality of paths is equality of str(), which for parsed posix paths is equality of
   (root, tail); the parents are the proper prefixes of the tail under the same root *)
Definition pp_is_relative_to (self other : ppath) : bool :=
  let '(r1, t1) := pp_parse self in
  let '(r2, t2) := pp_parse other in
  str_eqb r1 r2 && prefixb t2 t1.

(* ---------------------------------------------------------------- py7zr/helpers.py *)
(* body of the loop of canonical_path; the stack is kept top-first *)
Definition canon_step (st : list str) (p : str) : list str :=
  if negb (str_eqb p s_dotdot) || isnil st then p :: st
  else match st with
       | top :: rest =>
           if str_eqb top s_dotdot then p :: st          (* '../' + '../' -> '../../' *)
           else if str_eqb top s_slash then st            (* '/' + '../' -> '/' *)
           else rest                                      (* 'foo/boo/' + '..' -> 'foo/' *)
       | [] => p :: st
       end.

(* canonical_path(target) = pathlib.Path( *stack ) *)
Definition canonical_path (target : ppath) : ppath :=
  rev (fold_left canon_step (pp_parts target) []).

(* is_relative_to(my, other): my.relative_to(canonical_path(other)) raises ValueError or not;
   relative_to without walk_up raises exactly when not my.is_relative_to(...) *)
Definition h_is_relative_to (my other : ppath) : bool :=
  pp_is_relative_to my (canonical_path other).

(* is_path_valid(target, parent); cwd = os.getcwd() *)
Definition is_path_valid (cwd : str) (target parent : ppath) : bool :=
  if pp_is_absolute parent then h_is_relative_to (canonical_path target) parent
  else h_is_relative_to (canonical_path target) (pp_joinpath_p [cwd] parent).

(* PurePath.anchor = drive + root; posix: the root *)
Definition pp_anchor (p : ppath) : str := fst (pp_parse p).

(* the loop of check_archive_path over target.parts: '..' one level up (False as soon as the depth
   would be negative), any other part one level down *)
Fixpoint lex_walk (ps : list str) (depth : Z) : bool :=
  match ps with
  | [] => true
  | p :: r =>
      if str_eqb p s_dotdot then (if depth - 1 <? 0 then false else lex_walk r (depth - 1))
      else lex_walk r (depth + 1)
  end.

(* check_archive_path(arcname) (after the fix "check_archive_path accepted names that climb above the
   archive root"): target = pathlib.Path(arcname) *)
Definition check_archive_path (arcname : str) : bool :=
  if pp_is_absolute [arcname] || negb (isnil (pp_anchor [arcname])) then false
  else lex_walk (pp_parts [arcname]) 0.

(* ---------------------------------------------------------------- py7zr/py7zr.py *)
Definition is_ascii_alpha (c : Z) : bool :=
  ((65 <=? c) && (c <=? 90)) || ((97 <=? c) && (c <=? 122)).

(* re.match("^[a-zA-Z]:", s) is not None *)
Definition drive_prefix (s : str) : bool :=
  match s with
  | c0 :: c1 :: _ => is_ascii_alpha c0 && (c1 =? 58)
  | _ => false
  end.

Definition strip_leading (s : str) : str := if startswith_slash s then lstrip_slash s else s.

(* SevenZipFile._sanitize_archive_arcname on the str it works on (os.sep = '/');
   Err = AbsolutePathError *)
Definition sanitize_archive_arcname (path : str) : res str :=
  let p1 := strip_leading path in
  let p2 := if drive_prefix p1 then strip_leading (skipn 2 p1) else p1 in
  if startswith_slash p2 || drive_prefix p2 then Err EOther else Ok p2.

(* file name stored for arcname: pathlib.Path(arcname).as_posix() *)
Definition make_name (arcname : str) : str := pp_str [arcname].

(* py7zr/archiveinfo.py FilesInfo._read_name: read_utf16(buffer).replace("\\", "/") -- the name py7zr lists
   for a stored name *)
Definition read_name (stored : str) : str := map (fun c => if c =? 92 then 47 else c) stored.
Definition listed_name (arcname : str) : str := read_name (make_name arcname).

(* name stored by write(file, arcname=None): file is a str, or a Path whose str() is taken first *)
Definition write_name_str (file : str) : res str :=
  do r <- sanitize_archive_arcname file; Ok (make_name r).
Definition write_name_path (file : ppath) : res str := write_name_str (pp_str file).

(* ---------------------------------------------------------------- the independent definition *)
(* walk the components: '' and '.' skipped, '..' one level up, anything else one level down;
   false as soon as the depth would be negative *)
Fixpoint spec_walk (cs : list str) (depth : Z) : bool :=
  match cs with
  | [] => true
  | c :: r =>
      if isnil c || str_eqb c s_dot then spec_walk r depth
      else if str_eqb c s_dotdot then
        (if depth - 1 <? 0 then false else spec_walk r (depth - 1))
      else spec_walk r (depth + 1)
  end.

Definition spec_ok (name : str) : bool :=
  negb (startswith_slash name) && spec_walk (split name) 0.

(* ---------------------------------------------------------------- dispatcher *)
Definition t_str (s : str) : tree := t_bytes s.
Definition t_strs (l : list str) : tree := TL (map t_str l).
Definition of_str (t : tree) : str := of_bytes t.
Definition of_strs (t : tree) : list str := map of_str (of_TL t).

Definition name_row (s : str) : tree :=
  TL [t_strs (posix_parts s); t_bool (is_absolute s); t_bool (check_archive_path s); t_bool (spec_ok s);
      t_res t_str (sanitize_archive_arcname s); t_str (make_name s); t_str (listed_name s)].

Definition path_dispatch (fn : Z) (a : tree) : tree :=
  match fn with
  (* FN 100 posix_parts : str -> list str *)
  | 100 => t_strs (posix_parts (of_str a))
  (* FN 101 is_absolute : list str (raw segments) -> bool *)
  | 101 => t_bool (pp_is_absolute (of_strs a))
  (* FN 102 pp_parts : list str (raw segments) -> list str *)
  | 102 => t_strs (pp_parts (of_strs a))
  (* FN 103 canonical_path : list str (raw segments) -> list str (raw segments of the result) *)
  | 103 => t_strs (canonical_path (of_strs a))
  (* FN 104 h_is_relative_to : (my other) raw segments -> bool *)
  | 104 => t_bool (h_is_relative_to (of_strs (tnth a 0)) (of_strs (tnth a 1)))
  (* FN 105 is_path_valid : (cwd target parent) -> bool *)
  | 105 => t_bool (is_path_valid (of_str (tnth a 0)) (of_strs (tnth a 1)) (of_strs (tnth a 2)))
  (* FN 106 check_archive_path : str -> bool *)
  | 106 => t_bool (check_archive_path (of_str a))
  (* FN 107 sanitize_archive_arcname : str -> res str *)
  | 107 => t_res t_str (sanitize_archive_arcname (of_str a))
  (* FN 108 make_name : str -> str *)
  | 108 => t_str (make_name (of_str a))
  (* FN 109 spec_ok : str -> bool *)
  | 109 => t_bool (spec_ok (of_str a))
  (* FN 110 pp_str : list str (raw segments) -> str *)
  | 110 => t_str (pp_str (of_strs a))
  (* FN 111 name_rows : list str -> list (parts is_absolute check_archive_path spec_ok sanitize make_name listed_name) *)
  | 111 => TL (map name_row (of_strs a))
  (* FN 112 pp_is_relative_to : (self other) raw segments -> bool *)
  | 112 => t_bool (pp_is_relative_to (of_strs (tnth a 0)) (of_strs (tnth a 1)))
  (* FN 113 write_name_path : list str (raw segments of file) -> res str *)
  | 113 => t_res t_str (write_name_path (of_strs a))
  (* FN 114 posix_join : (a ps) -> str *)
  | 114 => t_str (posix_join (of_str (tnth a 0)) (of_strs (tnth a 1)))
  (* FN 115 read_name : str -> str *)
  | 115 => t_str (read_name (of_str a))
  | _ => TL [TI (-2)]
  end.
