(* CliGen.v -- the volume-size functions generated from py7zr/cli.py (gen/CliVol.v, produced by
   tools/translate.py from the current source: Cli._check_volumesize_valid, Cli._volumesize_unitconv, with
   the pattern of self.unit_pattern and the table Cli.dunits read from the class) are the hand model of
   Cli.v (C19), for ALL strings. *)
From P7 Require Import Prelude PyPrims PyStr PyRe Cli CliProofs.
From P7gen Require CliVol.
From Coq Require Import ZifyBool.
Open Scope Z_scope.

Lemma re_span_digits s : re_span re_is_digit s = span_digits s.
Proof.
  induction s as [|c r IH]; [reflexivity|]. cbn [re_span span_digits].
  change (re_is_digit c) with (is_digit c). destruct (is_digit c); [now rewrite IH | reflexivity].
Qed.

Lemma re_ci_unit c : re_ci_in [98; 107; 109; 103] c = is_unit_ci c.
Proof.
  unfold re_ci_in, re_ci_letter, is_unit_ci, is_unit_ascii, is_unit_lower. cbn [existsb].
  lia.
Qed.

Theorem gen_unit_pattern_match s : re_digits_optletter_ci [98; 107; 109; 103] s = unit_pattern_match s.
Proof.
  unfold re_digits_optletter_ci, unit_pattern_match. rewrite re_span_digits.
  destruct (span_digits s) as [num rest]. destruct num as [|d num]; [reflexivity|]. cbn [py_nonempty].
  destruct rest as [|c [|e [|x rest]]]; try reflexivity.
  - rewrite re_ci_unit. destruct (c =? 10) eqn:E10.
    + assert (Hn : is_unit_ci c = false).
      { unfold is_unit_ci, is_unit_ascii, is_unit_lower. lia. }
      now rewrite Hn.
    + destruct (is_unit_ci c); reflexivity.
  - now rewrite re_ci_unit.
Qed.

Theorem gen_check_volumesize_valid s : CliVol.check_volumesize_valid s = Ok (check_volumesize_valid s).
Proof.
  unfold CliVol.check_volumesize_valid, check_volumesize_valid. rewrite gen_unit_pattern_match.
  destruct (unit_pattern_match s); reflexivity.
Qed.

(* ---- int(num) ---- *)
Lemma int_of_digits_fold s : forall acc, fold_left (fun a c => 10 * a + (c - 48)) s acc = int_of_digits_acc acc s.
Proof. induction s as [|c r IH]; intros acc; [reflexivity|]. cbn [fold_left int_of_digits_acc]. apply IH. Qed.

Lemma span_digits_all s : forallb re_is_digit (fst (span_digits s)) = true.
Proof.
  induction s as [|c r IH]; [reflexivity|]. cbn [span_digits].
  destruct (is_digit c) eqn:E; [|reflexivity].
  destruct (span_digits r) as [a b]. cbn [fst forallb] in *. change (re_is_digit c) with (is_digit c).
  now rewrite E, IH.
Qed.

Lemma gen_int num : num <> [] -> forallb re_is_digit num = true ->
  py_int_ascii_digits num = match py_int num with Some n => Ok n | None => Err EOther end.
Proof.
  intros Hne Hd. unfold py_int_ascii_digits, py_int, max_str_digits, py_len.
  destruct num as [|c r]; [congruence|]. cbn [py_nonempty negb orb]. rewrite Hd. cbn [negb].
  destruct (4300 <? Z.of_nat (length (c :: r))); [reflexivity|].
  now rewrite int_of_digits_fold.
Qed.

(* what the pattern hands to the rest of _volumesize_unitconv *)
Lemma unit_pattern_match_shape s num unit : unit_pattern_match s = Some (num, unit) ->
  num <> [] /\ forallb re_is_digit num = true /\ (unit = [] \/ exists c, unit = [c]).
Proof.
  unfold unit_pattern_match. pose proof (span_digits_all s) as Hall.
  destruct (span_digits s) as [n rest]. cbn [fst] in Hall.
  destruct n as [|d n]; [discriminate|].
  destruct rest as [|c [|e [|x rest]]]; intros H.
  - injection H as <- <-. repeat split; [discriminate | exact Hall | now left].
  - destruct (c =? 10); [|destruct (is_unit_ci c); [|discriminate]]; injection H as <- <-;
      (repeat split; [discriminate | exact Hall | (now left) || (right; eexists; reflexivity)]).
  - destruct (is_unit_ci c && (e =? 10)); [|discriminate]. injection H as <- <-.
    repeat split; [discriminate | exact Hall | right; eexists; reflexivity].
  - discriminate.
Qed.

(* ---- self.dunits[unit] for a one-character unit ---- *)
Lemma gen_dunits c :
  py_dict_str_get [([98], 1); ([66], 1); ([107], 1024); ([75], 1024); ([109], 1024 * 1024); ([77], 1024 * 1024);
                   ([103], 1024 * 1024 * 1024); ([71], 1024 * 1024 * 1024)] [c]
  = match dunits [c] with Some m => Ok m | None => Err EOther end.
Proof.
  unfold dunits. cbn [py_dict_str_get py_str_eqb]. rewrite !andb_true_r.
  rewrite (Z.eqb_sym 98 c), (Z.eqb_sym 66 c), (Z.eqb_sym 107 c), (Z.eqb_sym 75 c), (Z.eqb_sym 109 c),
    (Z.eqb_sym 77 c), (Z.eqb_sym 103 c), (Z.eqb_sym 71 c).
  destruct (c =? 98); [reflexivity|]. destruct (c =? 66); [reflexivity|]. cbn [orb].
  destruct (c =? 107); [reflexivity|]. destruct (c =? 75); [reflexivity|]. cbn [orb].
  destruct (c =? 109); [reflexivity|]. destruct (c =? 77); [reflexivity|]. cbn [orb].
  destruct (c =? 103); [reflexivity|]. destruct (c =? 71); reflexivity.
Qed.

Theorem gen_volumesize_unitconv s : CliVol.volumesize_unitconv s = volumesize_unitconv s.
Proof.
  unfold CliVol.volumesize_unitconv, volumesize_unitconv, volumesize_unitconv_x. cbv zeta.
  rewrite gen_unit_pattern_match.
  destruct (unit_pattern_match s) as [[num unit]|] eqn:Em; [|reflexivity].
  destruct (unit_pattern_match_shape s num unit Em) as (Hne & Hd & Hu). cbn [fst snd].
  rewrite (gen_int num Hne Hd).
  destruct Hu as [-> | [c ->]]; cbn [py_nonempty negb].
  - destruct (py_int num); reflexivity.
  - destruct (py_int num) as [n|]; [|reflexivity]. cbn [bind].
    rewrite gen_dunits. destruct (dunits [c]); reflexivity.
Qed.

(* the str -> int primitive is never used outside the domain it models *)
Corollary gen_volumesize_unitconv_in_domain s : CliVol.volumesize_unitconv s <> Err EUnsupported.
Proof.
  rewrite gen_volumesize_unitconv. unfold volumesize_unitconv. destruct (volumesize_unitconv_x s); discriminate.
Qed.

(* non-vacuity: "2k" -> 2048; "3" -> 3; "1K" (KELVIN SIGN) passes the check and raises KeyError; "x" -> -1 *)
Example ex_gen_volsize :
  CliVol.volumesize_unitconv [50; 107] = Ok 2048 /\ CliVol.volumesize_unitconv [51] = Ok 3 /\
  CliVol.check_volumesize_valid [49; 8490] = Ok true /\ CliVol.volumesize_unitconv [49; 8490] = Err EOther /\
  CliVol.volumesize_unitconv [120] = Ok (-1).
Proof. repeat match goal with |- _ /\ _ => split end; reflexivity. Qed.
