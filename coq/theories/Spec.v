(* Spec.v -- a STRICT reader of the 7z header database transcribed from
   docs/archive_format.rst (and, where that text is silent, from 7-Zip's 7zFormat.txt
   which it paraphrases: CRC values are stored only for defined entries; one
   sub-stream per folder when SubStreamsInfo / NumUnpackStream is absent; an
   empty-stream entry is a directory unless its EmptyFile bit is set).
   It shares with py7zr's model (Header.v) only the record types and the bit/UTF-16
   helpers; every reader here is exact: truncated numbers, short fields, property
   records whose declared size differs from their content, non-zero `external`
   flags and trailing garbage are all rejected.  Definitions only. *)
From P7 Require Import Prelude PyPrims Number Header.
Open Scope Z_scope.

(* ---------- exact primitive readers ---------- *)
Definition s_number : reader Z := fun bs =>
  match spec_number bs with Some (v, r) => Ok (v, r) | None => Err EBad7z end.
Definition s_byte : reader Z := fun bs =>
  match bs with b :: r => Ok (b, r) | [] => Err EBad7z end.
Definition s_bytes (n : Z) : reader bytes := fun bs =>
  if (n <? 0) || (zlen bs <? n) then Err EBad7z else Ok (takeZ n bs, dropZ n bs).
Definition s_fixed (n : nat) : reader Z := fun bs =>
  if (length bs <? n)%nat then Err EBad7z else Ok (le_value (firstn n bs), skipn n bs).
Definition s_expect (b : Z) : reader unit := fun bs =>
  match bs with x :: r => if x =? b then Ok (tt, r) else Err EBad7z | [] => Err EBad7z end.

Definition s_many {A} (lim n : Z) (rd : reader A) : reader (list A) := fun bs =>
  if lim <? n then Err EFuel else
  match rd_many n rd bs with Ok x => Ok x | Err EEof => Err EBad7z | Err e => Err e end.

(* BitField of exactly `count` bits in ceil(count/8) bytes *)
Definition s_bits (count : Z) : reader (list bool) := fun bs =>
  if zlen bs <? (count + 7) / 8 then Err EBad7z
  else match rd_bits count bs with Ok x => Ok x | Err _ => Err EBad7z end.

(* "Digests": AllAreDefined byte, optional BitField, then UINT32 CRCs for the DEFINED entries only.
   Returned as one `option Z` per entry. *)
Fixpoint s_defined_crcs (defined : list bool) : reader (list (option Z)) := fun bs =>
  match defined with
  | [] => Ok ([], bs)
  | true :: ds => do (c, bs) <- s_fixed 4 bs; do (r, bs) <- s_defined_crcs ds bs; Ok (Some c :: r, bs)
  | false :: ds => do (r, bs) <- s_defined_crcs ds bs; Ok (None :: r, bs)
  end.
Definition s_digests (lim count : Z) : reader (list (option Z)) := fun bs =>
  if lim <? count then Err EFuel else
  do (alldef, bs) <- s_byte bs;
  do (defined, bs) <- (if alldef =? 0 then s_bits count bs else Ok (repeat true (Z.to_nat count), bs));
  s_defined_crcs defined bs.

(* ---------- semantic header: what the format says the archive contains ---------- *)
Record sfolder := mkSFolder {
  sf_coders : list coder; sf_bonds : list (Z * Z); sf_packed : list Z;
  sf_unpacksizes : list Z; sf_crc : option Z }.
Record sheader := mkSHeader {
  sh_packpos : Z; sh_packsizes : list Z; sh_packcrcs : list (option Z);
  sh_folders : list sfolder;
  sh_nums : list Z;                 (* sub-streams per folder *)
  sh_sizes : list Z;                (* one size per sub-stream, folder by folder *)
  sh_crcs : list (option Z);        (* one per sub-stream *)
  sh_files : list fileent;          (* as in Header.v *)
  sh_emptyfile : list bool          (* one per empty-stream entry, false when the vector is absent *) }.

(* PackInfo *)
Definition s_packinfo (lim : Z) : reader (Z * list Z * list (option Z)) := fun bs =>
  do (pos, bs) <- s_number bs;
  do (n, bs) <- s_number bs;
  do (pid, bs) <- s_byte bs;
  do (sizes, pid, bs) <-
     (if pid =? 9 then do (sz, bs) <- s_many lim n s_number bs; do (pid, bs) <- s_byte bs; Ok (sz, pid, bs)
      else Ok ([], pid, bs));
  do (crcs, pid, bs) <-
     (if pid =? 10 then do (c, bs) <- s_digests lim n bs; do (pid, bs) <- s_byte bs; Ok (c, pid, bs)
      else Ok (repeat None (Z.to_nat (Z.min n lim)), pid, bs));
  if negb (pid =? 0) then Err EBad7z
  else if negb (zlen sizes =? n) then Err EBad7z          (* sizes are mandatory when streams exist *)
  else Ok ((pos, sizes, crcs), bs).

(* Folder *)
Definition s_coder : reader coder := fun bs =>
  do (b, bs) <- s_byte bs;
  let msize := Z.land b 15 in
  let iscomplex := negb (Z.land b 16 =? 0) in
  let hasattr := negb (Z.land b 32 =? 0) in
  if negb (Z.land b 192 =? 0) then Err EBad7z else       (* reserved bits / alternative methods *)
  do (method, bs) <- s_bytes msize bs;
  do (nin, nout, bs) <- (if iscomplex then
                           do (a, bs) <- s_number bs; do (c, bs) <- s_number bs; Ok (a, c, bs)
                         else Ok (1, 1, bs));
  do (props, bs) <- (if hasattr then
                       do (plen, bs) <- s_number bs; do (p, bs) <- s_bytes plen bs; Ok (Some p, bs)
                     else Ok (None, bs));
  Ok (mkCoder method nin nout props, bs).

Definition s_bond : reader (Z * Z) := fun bs =>
  do (a, bs) <- s_number bs; do (b, bs) <- s_number bs; Ok ((a, b), bs).

Definition s_folder (lim : Z) : reader sfolder := fun bs =>
  do (nc, bs) <- s_number bs;
  if (nc <=? 0) || (32 <? nc) then Err EBad7z else
  do (coders, bs) <- s_many lim nc s_coder bs;
  let totalin := sumZ (map c_nin coders) in
  let totalout := sumZ (map c_nout coders) in
  if (lim <? totalin) || (lim <? totalout) || (totalout <? 1) then Err EBad7z else
  let nbonds := totalout - 1 in
  do (bonds, bs) <- s_many lim nbonds s_bond bs;
  let npacked := totalin - nbonds in
  if npacked <? 1 then Err EBad7z else
  if npacked =? 1 then
    Ok (mkSFolder coders bonds (filter (fun i => negb (find_in_bond bonds i)) (py_range 0 totalin)) [] None, bs)
  else
    do (packed, bs) <- s_many lim npacked s_number bs;
    Ok (mkSFolder coders bonds packed [] None, bs).

Fixpoint s_unpacksizes (lim : Z) (fs : list sfolder) : reader (list sfolder) := fun bs =>
  match fs with
  | [] => Ok ([], bs)
  | f :: r =>
      do (sz, bs) <- s_many lim (sumZ (map c_nout (sf_coders f))) s_number bs;
      do (r', bs) <- s_unpacksizes lim r bs;
      Ok (mkSFolder (sf_coders f) (sf_bonds f) (sf_packed f) sz None :: r', bs)
  end.

Fixpoint set_sfolder_crcs (fs : list sfolder) (crcs : list (option Z)) : list sfolder :=
  match fs, crcs with
  | f :: r, c :: cs => mkSFolder (sf_coders f) (sf_bonds f) (sf_packed f) (sf_unpacksizes f) c :: set_sfolder_crcs r cs
  | _, _ => fs
  end.

Definition s_unpackinfo (lim : Z) : reader (list sfolder) := fun bs =>
  do (_, bs) <- s_expect 11 bs;
  do (nf, bs) <- s_number bs;
  do (ext, bs) <- s_byte bs;
  if negb (ext =? 0) then Err EUnsupported else
  do (fs, bs) <- s_many lim nf (s_folder lim) bs;
  do (_, bs) <- s_expect 12 bs;
  do (fs, bs) <- s_unpacksizes lim fs bs;
  do (pid, bs) <- s_byte bs;
  do (fs, pid, bs) <-
     (if pid =? 10 then do (c, bs) <- s_digests lim nf bs; do (pid, bs) <- s_byte bs;
                        Ok (set_sfolder_crcs fs c, pid, bs)
      else Ok (fs, pid, bs));
  if pid =? 0 then Ok (fs, bs) else Err EBad7z.

(* the unpack size of a folder: the out-stream that is not bound *)
Definition sfolder_unpack_size (f : sfolder) : res Z :=
  let us := sf_unpacksizes f in
  match find (fun i => negb (find_out_bond (sf_bonds f) i)) (py_range 0 (zlen us)) with
  | Some i => match nth_error us (Z.to_nat i) with Some v => Ok v | None => Err EBad7z end
  | None => Err EBad7z
  end.

(* SubStreamsInfo *)
Fixpoint s_sub_sizes (lim : Z) (nums : list Z) (fs : list sfolder) : reader (list Z) := fun bs =>
  match nums, fs with
  | [], _ => Ok ([], bs)
  | n :: nr, f :: fr =>
      if n =? 0 then s_sub_sizes lim nr fr bs else
      do (explicit, bs) <- s_many lim (n - 1) s_number bs;
      do total <- sfolder_unpack_size f;
      if total <? sumZ explicit then Err EBad7z else
      do (rest, bs) <- s_sub_sizes lim nr fr bs;
      Ok (explicit ++ [total - sumZ explicit] ++ rest, bs)
  | _ :: _, [] => Err EBad7z
  end.

(* default sizes when the SIZE record is absent: legal only if no folder has more than one stream *)
Fixpoint s_default_sizes (nums : list Z) (fs : list sfolder) : res (list Z) :=
  match nums, fs with
  | [], _ => Ok []
  | n :: nr, f :: fr =>
      do rest <- s_default_sizes nr fr;
      if n =? 0 then Ok rest
      else if n =? 1 then do t <- sfolder_unpack_size f; Ok (t :: rest)
      else Err EBad7z
  | _ :: _, [] => Err EBad7z
  end.

(* which sub-streams take their CRC from the folder (n = 1 and folder CRC defined) *)
Fixpoint s_merge_crcs (nums : list Z) (fs : list sfolder) (crcs : list (option Z)) : res (list (option Z)) :=
  match nums, fs with
  | [], _ => match crcs with [] => Ok [] | _ => Err EBad7z end
  | n :: nr, f :: fr =>
      match (if n =? 1 then sf_crc f else None) with
      | Some c => do rest <- s_merge_crcs nr fr crcs; Ok (Some c :: rest)
      | None =>
          let k := Z.to_nat (Z.max n 0) in
          if (length crcs <? k)%nat then Err EBad7z else
          do rest <- s_merge_crcs nr fr (skipn k crcs); Ok (firstn k crcs ++ rest)
      end
  | _ :: _, [] => Err EBad7z
  end.
Fixpoint s_unknown_crc_count (nums : list Z) (fs : list sfolder) : Z :=
  match nums, fs with
  | n :: nr, f :: fr =>
      (match (if n =? 1 then sf_crc f else None) with Some _ => 0 | None => Z.max n 0 end) + s_unknown_crc_count nr fr
  | _, _ => 0
  end.

Definition s_substreams (lim : Z) (fs : list sfolder) : reader (list Z * list Z * list (option Z)) := fun bs =>
  let nf := zlen fs in
  do (pid, bs) <- s_byte bs;
  do (nums, pid, bs) <-
     (if pid =? 13 then do (n, bs) <- s_many lim nf s_number bs; do (pid, bs) <- s_byte bs; Ok (n, pid, bs)
      else Ok (repeat 1 (length fs), pid, bs));
  if existsb (fun n => lim <? n) nums then Err EFuel else
  do (sizes, pid, bs) <-
     (if pid =? 9 then do (sz, bs) <- s_sub_sizes lim nums fs bs; do (pid, bs) <- s_byte bs; Ok (sz, pid, bs)
      else do sz <- s_default_sizes nums fs; Ok (sz, pid, bs));
  let unknown := s_unknown_crc_count nums fs in
  do (crcs, pid, bs) <-
     (if pid =? 10 then do (c, bs) <- s_digests lim unknown bs; do (pid, bs) <- s_byte bs; Ok (c, pid, bs)
      else Ok (repeat None (Z.to_nat (Z.min unknown lim)), pid, bs));
  do merged <- s_merge_crcs nums fs crcs;
  if pid =? 0 then Ok ((nums, sizes, merged), bs) else Err EBad7z.

(* ---------- FilesInfo ---------- *)
(* a property record must use exactly its declared size *)
Definition s_exact {A} (rd : reader A) (buf : bytes) : res A :=
  do (x, r) <- rd buf; match r with [] => Ok x | _ => Err EBad7z end.

Fixpoint s_names (fs : list fileent) : reader (list fileent) := fun bs =>
  match fs with
  | [] => Ok ([], bs)
  | f :: r =>
      (* UTF-16LE code units up to the 0000 terminator, which must be present *)
      do (raw, bs') <- rd_utf16_raw (S (length bs)) 0 [] bs;
      if (Z.of_nat (length raw) + 2 + zlen bs' =? zlen bs) then
        do us <- utf16_units raw; do cs <- utf16_decode us;
        do (r', bs'') <- s_names r bs';
        Ok (set_name f cs :: r', bs'')
      else Err EBad7z
  end.

Fixpoint s_per_file (n : nat) (fs : list fileent) (defined : list bool) (set : fileent -> option Z -> fileent)
  : reader (list fileent) := fun bs =>
  match fs, defined with
  | [], _ => Ok ([], bs)
  | f :: r, true :: ds => do (v, bs) <- s_fixed n bs; do (r', bs) <- s_per_file n r ds set bs; Ok (set f (Some v) :: r', bs)
  | f :: r, false :: ds => do (r', bs) <- s_per_file n r ds set bs; Ok (set f None :: r', bs)
  | _ :: _, [] => Err EBad7z
  end.

Definition s_defined_vector (lim n : Z) : reader (list bool) := fun bs =>
  if lim <? n then Err EFuel else
  do (alldef, bs) <- s_byte bs;
  if alldef =? 0 then s_bits n bs else Ok (repeat true (Z.to_nat n), bs).

Definition s_file_prop (lim prop : Z) (buf : bytes) (files : list fileent) (emptyfile : option (list bool))
  : res (list fileent * option (list bool)) :=
  let nfiles := zlen files in
  let nempty := count_true (map e_emptystream files) in
  if prop =? 14 then
    do isempty <- s_exact (s_bits nfiles) buf;
    Ok (zip_update set_empty files isempty, emptyfile)
  else if prop =? 15 then
    do ef <- s_exact (s_bits nempty) buf; Ok (files, Some ef)
  else if prop =? 17 then
    do fs <- s_exact (fun b => do (_, b) <- s_expect 0 b; s_names files b) buf; Ok (fs, emptyfile)
  else if (prop =? 18) || (prop =? 19) || (prop =? 20) then
    do fs <- s_exact (fun b => do (d, b) <- s_defined_vector lim nfiles b; do (_, b) <- s_expect 0 b;
                               s_per_file 8 files d (set_time prop) b) buf;
    Ok (fs, emptyfile)
  else if prop =? 21 then
    do fs <- s_exact (fun b => do (d, b) <- s_defined_vector lim nfiles b; do (_, b) <- s_expect 0 b;
                               s_per_file 4 files d set_attr b) buf;
    Ok (fs, emptyfile)
  else if prop =? 25 then Ok (files, emptyfile)             (* kDummy: any content *)
  else if prop =? 16 then Err EUnsupported                   (* anti items *)
  else if (prop =? 22) || (prop =? 24) then Ok (files, emptyfile)  (* comment, start position: ignored *)
  else Err EBad7z.

Fixpoint s_file_props (fuel : nat) (lim : Z) (files : list fileent) (emptyfile : option (list bool))
  : reader (list fileent * option (list bool)) := fun bs =>
  match fuel with
  | O => Err EBad7z
  | S f =>
      do (prop, bs) <- s_byte bs;
      if prop =? 0 then Ok ((files, emptyfile), bs) else
      do (size, bs) <- s_number bs;
      do (buf, bs) <- s_bytes size bs;
      do (fs, ef) <- s_file_prop lim prop buf files emptyfile;
      s_file_props f lim fs ef bs
  end.

Definition s_files (lim : Z) : reader (list fileent * list bool) := fun bs =>
  do (n, bs) <- s_number bs;
  if lim <? n then Err EFuel else
  do (r, bs) <- s_file_props (S (length bs)) lim (repeat empty_file (Z.to_nat n)) None bs;
  let '(files, ef) := r in
  let nempty := count_true (map e_emptystream files) in
  Ok ((files, match ef with Some v => v | None => repeat false (Z.to_nat nempty) end), bs).

(* ArchiveProperties: (type, size, data)* 0 -- skipped *)
Fixpoint s_skip_props (fuel : nat) : reader unit := fun bs =>
  match fuel with
  | O => Err EBad7z
  | S f => do (t, bs) <- s_byte bs;
           if t =? 0 then Ok (tt, bs) else
           do (size, bs) <- s_number bs; do (_, bs) <- s_bytes size bs; s_skip_props f bs
  end.

(* Header: 0x01 [ArchiveProperties] [MainStreamsInfo] [FilesInfo] 0x00, nothing after *)
Definition s_header (lim : Z) (bs : bytes) : res sheader :=
  do (_, bs) <- s_expect 1 bs;
  do (pid, bs) <- s_byte bs;
  do (pid, bs) <- (if pid =? 2 then do (_, bs) <- s_skip_props (S (length bs)) bs; s_byte bs else Ok (pid, bs));
  if pid =? 3 then Err EUnsupported else
  do (st, pid, bs) <-
     (if pid =? 4 then
        do (pid, bs) <- s_byte bs;
        do (pk, pid, bs) <- (if pid =? 6 then do (p, bs) <- s_packinfo lim bs; do (pid, bs) <- s_byte bs; Ok (p, pid, bs)
                             else Ok ((0, [], []), pid, bs));
        do (fs, pid, bs) <- (if pid =? 7 then do (f, bs) <- s_unpackinfo lim bs; do (pid, bs) <- s_byte bs; Ok (f, pid, bs)
                             else Ok ([], pid, bs));
        do (sub, pid, bs) <-
           (if pid =? 8 then do (s, bs) <- s_substreams lim fs bs; do (pid, bs) <- s_byte bs; Ok (s, pid, bs)
            else
              (* no SubStreamsInfo: one sub-stream per folder, its size and CRC are the folder's *)
              do sz <- s_default_sizes (repeat 1 (length fs)) fs;
              Ok ((repeat 1 (length fs), sz, map sf_crc fs), pid, bs));
        if negb (pid =? 0) then Err EBad7z else
        do (pid, bs) <- s_byte bs;
        Ok ((pk, fs, sub), pid, bs)
      else Ok (((0, [], []), [], ([], [], [])), pid, bs));
  do (fl, pid, bs) <-
     (if pid =? 5 then do (f, bs) <- s_files lim bs; do (pid, bs) <- s_byte bs; Ok (f, pid, bs)
      else Ok (([], []), pid, bs));
  if negb (pid =? 0) then Err EBad7z else
  match bs with
  | _ :: _ => Err EBad7z
  | [] =>
      let '(pk, fs, sub) := st in
      let '(pos, psizes, pcrcs) := pk in
      let '(nums, sizes, crcs) := sub in
      Ok (mkSHeader pos psizes pcrcs fs nums sizes crcs (fst fl) (snd fl))
  end.

(* ---------- structural validity beyond the grammar ---------- *)
Definition s_valid (h : sheader) : bool :=
  (* one pack CRC slot per pack stream; packed streams of all folders = pack streams *)
  (zlen (sh_packcrcs h) =? zlen (sh_packsizes h))
  && (sumZ (map (fun f => zlen (sf_packed f)) (sh_folders h)) =? zlen (sh_packsizes h))
  && (zlen (sh_nums h) =? zlen (sh_folders h))
  && (zlen (sh_sizes h) =? sumZ (sh_nums h))
  && (zlen (sh_crcs h) =? sumZ (sh_nums h))
  (* every data entry has a sub-stream and vice versa *)
  && (zlen (filter (fun e => negb (e_emptystream e)) (sh_files h)) =? sumZ (sh_nums h))
  && (zlen (sh_emptyfile h) =? count_true (map e_emptystream (sh_files h)))
  && forallb (fun f => zlen (sf_unpacksizes f) =? sumZ (map c_nout (sf_coders f))) (sh_folders h).

(* ---------- what the archive contains: one plan per entry ---------- *)
(* kind: 0 = data member, 1 = empty file, 2 = directory *)
Record plan := mkPlan {
  pl_name : option (list Z); pl_kind : Z; pl_folder : Z; pl_offset : Z; pl_size : Z; pl_crc : option Z;
  pl_mtime : option Z; pl_attr : option Z }.

Definition flat_opt {A} (o : option (option A)) : option A := match o with Some (Some v) => Some v | _ => None end.

(* the sub-streams in order: (folder index, offset in folder, size, crc) *)
Fixpoint s_streams_of (fi : Z) (nums sizes : list Z) (crcs : list (option Z)) : list (Z * Z * Z * option Z) :=
  match nums with
  | [] => []
  | n :: nr =>
      let k := Z.to_nat (Z.max n 0) in
      let szs := firstn k sizes in
      let cs := firstn k crcs in
      (fix go (off : Z) (szs : list Z) (cs : list (option Z)) :=
         match szs with
         | [] => []
         | s :: sr => (fi, off, s, hd None cs) :: go (off + s) sr (tl cs)
         end) 0 szs cs
      ++ s_streams_of (fi + 1) nr (skipn k sizes) (skipn k crcs)
  end.

Fixpoint s_plans (files : list fileent) (emptyfile : list bool) (streams : list (Z * Z * Z * option Z)) : list plan :=
  match files with
  | [] => []
  | e :: r =>
      if e_emptystream e then
        let isfile := hd false emptyfile in
        mkPlan (e_name e) (if isfile then 1 else 2) (-1) 0 0 None (flat_opt (e_mtime e)) (flat_opt (e_attr e))
        :: s_plans r (tl emptyfile) streams
      else
        match streams with
        | (fi, off, sz, c) :: sr =>
            mkPlan (e_name e) 0 fi off sz c (flat_opt (e_mtime e)) (flat_opt (e_attr e)) :: s_plans r emptyfile sr
        | [] => mkPlan (e_name e) 0 (-2) 0 0 None None None :: s_plans r emptyfile []
        end
  end.

Definition spec_plans (h : sheader) : list plan :=
  s_plans (sh_files h) (sh_emptyfile h) (s_streams_of 0 (sh_nums h) (sh_sizes h) (sh_crcs h)).
