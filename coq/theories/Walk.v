(* Walk.v -- C02, the tree: extracting what writeall archived rebuilds the tree (proofs about Mode.v). *)
From P7 Require Import Prelude.
From P7 Require Import Mode ModeProofs.
From Coq Require Import ZifyBool Sorting.Sorted.
Open Scope Z_scope.

(* ================================================================== orders *)
Section LexFacts.
  Context {A : Type} (cmp : A -> A -> comparison).
  Hypothesis cmp_eq : forall x y, cmp x y = Eq <-> x = y.
  Hypothesis cmp_anti : forall x y, cmp y x = CompOpp (cmp x y).
  Hypothesis cmp_trans : forall x y z, cmp x y = Lt -> cmp y z = Lt -> cmp x z = Lt.

  Lemma lex_eq : forall a b, lex_cmp cmp a b = Eq <-> a = b.
  Proof.
    induction a as [| x a IH]; destruct b as [| y b]; simpl; split; intros H; try discriminate; try reflexivity.
    - destruct (cmp x y) eqn:E; try discriminate. apply cmp_eq in E. apply IH in H. congruence.
    - inversion H; subst. rewrite (proj2 (cmp_eq y y) eq_refl). apply IH. reflexivity.
  Qed.

  Lemma lex_anti : forall a b, lex_cmp cmp b a = CompOpp (lex_cmp cmp a b).
  Proof.
    induction a as [| x a IH]; destruct b as [| y b]; simpl; try reflexivity.
    rewrite (cmp_anti x y). destruct (cmp x y); simpl; auto.
  Qed.

  Lemma lex_trans : forall a b c, lex_cmp cmp a b = Lt -> lex_cmp cmp b c = Lt -> lex_cmp cmp a c = Lt.
  Proof.
    induction a as [| x a IH]; destruct b as [| y b]; destruct c as [| z c]; simpl; intros H1 H2;
      try discriminate; try reflexivity.
    destruct (cmp x y) eqn:E1; try discriminate.
    - apply cmp_eq in E1; subst y. destruct (cmp x z) eqn:E2; try discriminate; eauto.
    - destruct (cmp y z) eqn:E2; try discriminate.
      + apply cmp_eq in E2; subst z. rewrite E1. reflexivity.
      + rewrite (cmp_trans x y z E1 E2). reflexivity.
  Qed.
End LexFacts.

Lemma Zcmp_anti : forall x y : Z, (y ?= x) = CompOpp (x ?= y).
Proof. intros. apply Z.compare_antisym. Qed.
Lemma Zcmp_trans : forall x y z : Z, (x ?= y) = Lt -> (y ?= z) = Lt -> (x ?= z) = Lt.
Proof. intros x y z. rewrite !Z.compare_lt_iff. lia. Qed.

Lemma name_cmp_eq : forall a b, name_cmp a b = Eq <-> a = b.
Proof. exact (lex_eq Z.compare Z.compare_eq_iff). Qed.
Lemma name_cmp_anti : forall a b, name_cmp b a = CompOpp (name_cmp a b).
Proof. exact (lex_anti Z.compare Zcmp_anti). Qed.
Lemma name_cmp_trans : forall a b c, name_cmp a b = Lt -> name_cmp b c = Lt -> name_cmp a c = Lt.
Proof. exact (lex_trans Z.compare Z.compare_eq_iff Zcmp_trans). Qed.

Lemma path_cmp_eq : forall a b, path_cmp a b = Eq <-> a = b.
Proof. exact (lex_eq name_cmp name_cmp_eq). Qed.
Lemma path_cmp_anti : forall a b, path_cmp b a = CompOpp (path_cmp a b).
Proof. exact (lex_anti name_cmp name_cmp_anti). Qed.
Lemma path_cmp_trans : forall a b c, path_cmp a b = Lt -> path_cmp b c = Lt -> path_cmp a c = Lt.
Proof. exact (lex_trans name_cmp name_cmp_eq name_cmp_trans). Qed.

Definition name_lt (a b : name) : Prop := name_cmp a b = Lt.
Definition path_lt (a b : path) : Prop := path_cmp a b = Lt.

Lemma name_eqb_eq : forall a b, name_eqb a b = true <-> a = b.
Proof.
  intros a b. unfold name_eqb. destruct (name_cmp a b) eqn:E; split; intros H; try discriminate; try reflexivity.
  - apply name_cmp_eq; assumption.
  - apply name_cmp_eq in H. congruence.
  - apply name_cmp_eq in H. congruence.
Qed.
Lemma name_eqb_refl : forall a, name_eqb a a = true.
Proof. intros. apply name_eqb_eq. reflexivity. Qed.
Lemma name_eqb_neq : forall a b, a <> b -> name_eqb a b = false.
Proof. intros a b H. destruct (name_eqb a b) eqn:E; [apply name_eqb_eq in E; contradiction | reflexivity]. Qed.
Lemma name_lt_neq : forall a b, name_lt a b -> a <> b.
Proof. intros a b H ->. unfold name_lt in H. rewrite (proj2 (name_cmp_eq b b) eq_refl) in H. discriminate. Qed.
Lemma name_lt_ltb : forall a b, name_lt a b -> name_ltb a b = true.
Proof. intros a b H. unfold name_ltb. rewrite H. reflexivity. Qed.
Lemma name_lt_not_ltb : forall a b, name_lt a b -> name_ltb b a = false.
Proof. intros a b H. unfold name_ltb. rewrite name_cmp_anti, H. reflexivity. Qed.

Lemma path_eqb_eq : forall a b, path_eqb a b = true <-> a = b.
Proof.
  intros a b. unfold path_eqb. destruct (path_cmp a b) eqn:E; split; intros H; try discriminate; try reflexivity.
  - apply path_cmp_eq; assumption.
  - apply path_cmp_eq in H. congruence.
  - apply path_cmp_eq in H. congruence.
Qed.
Lemma path_lt_irrefl : forall a, ~ path_lt a a.
Proof. intros a H. unfold path_lt in H. rewrite (proj2 (path_cmp_eq a a) eq_refl) in H. discriminate. Qed.

(* ---- sorted lists of paths: sort_paths is the identity on them *)
Lemma insert_path_head : forall a l, Forall (path_lt a) l -> insert_path a l = a :: l.
Proof.
  intros a [| b l] H; [reflexivity |]. simpl. inversion H as [| ? ? Hb _]; subst.
  unfold path_leb. rewrite Hb. reflexivity.
Qed.
Lemma sort_paths_sorted : forall l, StronglySorted path_lt l -> sort_paths l = l.
Proof.
  induction l as [| a l IH]; intros H; [reflexivity |].
  inversion H; subst. simpl. rewrite IH by assumption. apply insert_path_head. assumption.
Qed.

Lemma SSorted_app : forall (l1 l2 : list path),
  StronglySorted path_lt l1 -> StronglySorted path_lt l2 ->
  (forall a b, In a l1 -> In b l2 -> path_lt a b) -> StronglySorted path_lt (l1 ++ l2).
Proof.
  induction l1 as [| x l1 IH]; intros l2 H1 H2 H; [exact H2 |].
  inversion H1; subst. simpl. constructor.
  - apply IH; auto. intros a b Ha Hb. apply H; [right |]; assumption.
  - apply Forall_app. split; [assumption |]. apply Forall_forall. intros b Hb. apply H; [left; reflexivity | assumption].
Qed.

Lemma path_lt_cons : forall n a b, path_lt a b -> path_lt (n :: a) (n :: b).
Proof. intros n a b H. unfold path_lt, path_cmp in *. simpl. fold name_cmp. rewrite (proj2 (name_cmp_eq n n) eq_refl). exact H. Qed.
Lemma path_lt_head : forall n1 n2 a b, name_lt n1 n2 -> path_lt (n1 :: a) (n2 :: b).
Proof. intros n1 n2 a b H. unfold path_lt, path_cmp. simpl. fold name_cmp. rewrite H. reflexivity. Qed.
Lemma path_lt_nil : forall n a, path_lt [] (n :: a).
Proof. reflexivity. Qed.
Lemma path_lt_app : forall p a b, path_lt a b -> path_lt (p ++ a) (p ++ b).
Proof. induction p; intros; simpl; [assumption | apply path_lt_cons; auto]. Qed.

Lemma SSorted_map_cons : forall n l, StronglySorted path_lt l -> StronglySorted path_lt (map (cons n) l).
Proof.
  induction l as [| a l IH]; intros H; simpl; [constructor |].
  inversion H; subst. constructor; [auto |].
  apply Forall_forall. intros b Hb. apply in_map_iff in Hb. destruct Hb as (b' & <- & Hb').
  apply path_lt_cons. rewrite Forall_forall in H3. auto.
Qed.
Lemma SSorted_map_app : forall p l, StronglySorted path_lt l -> StronglySorted path_lt (map (app p) l).
Proof.
  induction l as [| a l IH]; intros H; simpl; [constructor |].
  inversion H; subst. constructor; [auto |].
  apply Forall_forall. intros b Hb. apply in_map_iff in Hb. destruct Hb as (b' & <- & Hb').
  apply path_lt_app. rewrite Forall_forall in H3. auto.
Qed.
Lemma SSorted_NoDup : forall l, StronglySorted path_lt l -> NoDup l.
Proof.
  induction l as [| a l IH]; intros H; [constructor |]. inversion H; subst. constructor; [| auto].
  intros Hin. rewrite Forall_forall in H3. apply (path_lt_irrefl a). auto.
Qed.

(* ================================================================== directories as sorted association lists *)
Definition key_lt (n : name) (kv : name * node) : Prop := name_lt (fst kv) n.
Definition key_gt (n : name) (kv : name * node) : Prop := name_lt n (fst kv).
Definition key_ne (n : name) (kv : name * node) : Prop := fst kv <> n.

Lemma key_lt_ne : forall n l, Forall (key_lt n) l -> Forall (key_ne n) l.
Proof. intros n l H. eapply Forall_impl; [| exact H]. intros kv Hk. apply name_lt_neq. exact Hk. Qed.
Lemma key_gt_ne : forall n l, Forall (key_gt n) l -> Forall (key_ne n) l.
Proof.
  intros n l H. eapply Forall_impl; [| exact H]. intros kv Hk Heq. unfold key_gt in Hk.
  apply name_lt_neq in Hk. congruence.
Qed.

Lemma lookup_ne : forall n l, Forall (key_ne n) l -> lookup n l = None.
Proof.
  induction l as [| [k v] l IH]; intros H; [reflexivity |]. inversion H; subst. simpl.
  rewrite name_eqb_neq by assumption. auto.
Qed.
Lemma lookup_app_ne : forall n A B, Forall (key_ne n) A -> lookup n (A ++ B) = lookup n B.
Proof.
  induction A as [| [k v] A IH]; intros B H; [reflexivity |]. inversion H; subst. simpl.
  rewrite name_eqb_neq by assumption. auto.
Qed.
Lemma lookup_mid : forall n w A B, Forall (key_ne n) A -> lookup n (A ++ (n, w) :: B) = Some w.
Proof. intros. rewrite lookup_app_ne by assumption. simpl. rewrite name_eqb_refl. reflexivity. Qed.

Lemma replace_mid : forall n v w A B, Forall (key_ne n) A -> replace n v (A ++ (n, w) :: B) = A ++ (n, v) :: B.
Proof.
  induction A as [| [k u] A IH]; intros B H; simpl.
  - rewrite name_eqb_refl. reflexivity.
  - inversion H; subst. rewrite name_eqb_neq by assumption. f_equal. auto.
Qed.
Lemma insert_sorted_mid : forall n v A B, Forall (key_lt n) A -> Forall (key_gt n) B ->
  insert_sorted n v (A ++ B) = A ++ (n, v) :: B.
Proof.
  induction A as [| [k u] A IH]; intros B HA HB; simpl.
  - destruct B as [| [k u] B]; [reflexivity |]. inversion HB; subst. simpl.
    rewrite name_lt_ltb by assumption. reflexivity.
  - inversion HA; subst. rewrite name_lt_not_ltb by assumption. f_equal. auto.
Qed.

Lemma ins_mid_new : forall n v A B, Forall (key_lt n) A -> Forall (key_gt n) B ->
  ins n v (A ++ B) = A ++ (n, v) :: B.
Proof.
  intros n v A B HA HB. unfold ins. rewrite lookup_ne.
  - apply insert_sorted_mid; assumption.
  - apply Forall_app. split; [apply key_lt_ne | apply key_gt_ne]; assumption.
Qed.
Lemma ins_mid_replace : forall n v w A B, Forall (key_ne n) A -> ins n v (A ++ (n, w) :: B) = A ++ (n, v) :: B.
Proof. intros. unfold ins. rewrite lookup_mid by assumption. apply replace_mid. assumption. Qed.

Lemma replace_same : forall n v l, lookup n l = Some v -> replace n v l = l.
Proof.
  induction l as [| [k u] l IH]; intros H; [reflexivity |]. simpl in *.
  destruct (name_eqb k n) eqn:E; [inversion H; reflexivity | f_equal; auto].
Qed.
Lemma ins_same : forall n v l, lookup n l = Some v -> ins n v l = l.
Proof. intros n v l H. unfold ins. rewrite H. apply replace_same. assumption. Qed.

Lemma lookup_replace : forall n v l w, lookup n l = Some w -> lookup n (replace n v l) = Some v.
Proof.
  induction l as [| [k u] l IH]; intros w H; [discriminate |]. simpl in *.
  destruct (name_eqb k n) eqn:E; simpl; rewrite E; eauto.
Qed.
Lemma lookup_insert_sorted : forall n v l, lookup n l = None -> lookup n (insert_sorted n v l) = Some v.
Proof.
  induction l as [| [k u] l IH]; intros H; simpl.
  - rewrite name_eqb_refl. reflexivity.
  - simpl in H. destruct (name_eqb k n) eqn:E; [discriminate |].
    destruct (name_ltb n k); simpl; [rewrite name_eqb_refl; reflexivity | rewrite E; auto].
Qed.
Lemma lookup_ins : forall n v l, lookup n (ins n v l) = Some v.
Proof.
  intros n v l. unfold ins. destruct (lookup n l) eqn:E.
  - eapply lookup_replace; eassumption.
  - apply lookup_insert_sorted; assumption.
Qed.
Lemma replace_replace : forall n v1 v2 l, replace n v2 (replace n v1 l) = replace n v2 l.
Proof.
  induction l as [| [k u] l IH]; [reflexivity |]. simpl.
  destruct (name_eqb k n) eqn:E; simpl; rewrite E; [reflexivity | f_equal; auto].
Qed.
Lemma replace_insert_sorted : forall n v1 v2 l, lookup n l = None ->
  replace n v2 (insert_sorted n v1 l) = insert_sorted n v2 l.
Proof.
  induction l as [| [k u] l IH]; intros H; simpl.
  - rewrite name_eqb_refl. reflexivity.
  - simpl in H. destruct (name_eqb k n) eqn:E; [discriminate |].
    destruct (name_ltb n k); simpl; [rewrite name_eqb_refl; reflexivity | rewrite E; f_equal; auto].
Qed.
Lemma ins_ins : forall n v1 v2 l, ins n v2 (ins n v1 l) = ins n v2 l.
Proof.
  intros n v1 v2 l. unfold ins at 1. rewrite lookup_ins. unfold ins.
  destruct (lookup n l) eqn:E; [apply replace_replace | apply replace_insert_sorted; assumption].
Qed.

(* ================================================================== running operations *)
Definition push_op (n : name) (o : op) : op := mkOp (n :: o_path o) (o_mk o) (o_f o).
Definition prefix_op (p : path) (o : op) : op := mkOp (p ++ o_path o) (o_mk o) (o_f o).

Lemma run_app : forall a b t, run (a ++ b) t = do t' <- run a t; run b t'.
Proof.
  unfold run. induction a as [| o a IH]; intros b t; simpl; [reflexivity |].
  destruct (alter (o_path o) (o_mk o) (o_f o) t); simpl; [apply IH | reflexivity].
Qed.
Lemma run_cons : forall o ops t, run (o :: ops) t = do t' <- alter (o_path o) (o_mk o) (o_f o) t; run ops t'.
Proof. reflexivity. Qed.

(* operations below child n of a directory act on that child *)
Lemma run_descend : forall ops n m ft ch c, lookup n ch = Some c ->
  run (map (push_op n) ops) (Dir m ft ch) = do c' <- run ops c; Ok (Dir m ft (ins n c' ch)).
Proof.
  induction ops as [| o ops IH]; intros n m ft ch c Hl.
  - simpl. unfold run. simpl. rewrite ins_same by assumption. reflexivity.
  - simpl map. rewrite !run_cons. cbn [o_path o_mk o_f push_op alter]. rewrite Hl.
    destruct (alter (o_path o) (o_mk o) (o_f o) c) as [c1 | e]; simpl; [| reflexivity].
    rewrite (IH n m ft (ins n c1 ch) c1) by apply lookup_ins.
    destruct (run ops c1) as [c2 | e]; simpl; [| reflexivity]. rewrite ins_ins. reflexivity.
Qed.

(* ================================================================== induction over trees *)
Section NodeInd.
  Variable P : node -> Prop.
  Variable Q : list (name * node) -> Prop.
  Hypothesis HF : forall m ft d, P (File m ft d).
  Hypothesis HL : forall tg, P (Link tg).
  Hypothesis HD : forall m ft ch, Q ch -> P (Dir m ft ch).
  Hypothesis HN : Q [].
  Hypothesis HC : forall n c ch, P c -> Q ch -> Q ((n, c) :: ch).
  Fixpoint node_ind2 (t : node) : P t :=
    match t with
    | File m ft d => HF m ft d
    | Link tg => HL tg
    | Dir m ft ch =>
      HD m ft ch ((fix go (l : list (name * node)) : Q l :=
                     match l with
                     | [] => HN
                     | (n, c) :: l' => HC n c l' (node_ind2 c) (go l')
                     end) ch)
    end.
End NodeInd.

(* ================================================================== the three passes over a tree *)
Definition sub_ops (f : node -> list op) (ch : list (name * node)) : list op :=
  flat_map (fun nc => match nc with (n, c) => map (push_op n) (f c) end) ch.

(* directory creation *)
Fixpoint t_ops1 (t : node) : list op :=
  match t with
  | Dir _ _ ch => mkOp [] true f_mkdir ::
                  flat_map (fun nc => match nc with (n, c) => map (push_op n) (t_ops1 c) end) ch
  | _ => []
  end.
(* files and links *)
Fixpoint t_ops2 (t : node) : list op :=
  match t with
  | File _ _ d => [mkOp [] true (f_write d)]
  | Link tg => [mkOp [] true (f_symlink tg)]
  | Dir _ _ ch => flat_map (fun nc => match nc with (n, c) => map (push_op n) (t_ops2 c) end) ch
  end.
(* times and modes *)
Fixpoint t_ops3 (t : node) : list op :=
  match t with
  | File m ft _ => [mkOp [] false (f_meta (Some m) ft)]
  | Link _ => []
  | Dir m ft ch => mkOp [] false (f_meta (Some m) ft) ::
                   flat_map (fun nc => match nc with (n, c) => map (push_op n) (t_ops3 c) end) ch
  end.

(* the tree after the first pass (directories only, fresh), after the second (everything, fresh metadata) *)
Fixpoint skel (t : node) : node :=
  match t with
  | Dir _ _ ch => Dir def_dmode def_ft
      (flat_map (fun nc => match nc with (n, c) => match c with Dir _ _ _ => [(n, skel c)] | _ => [] end end) ch)
  | _ => t
  end.
Definition skel_ch (ch : list (name * node)) : list (name * node) :=
  flat_map (fun nc => match nc with (n, c) => match c with Dir _ _ _ => [(n, skel c)] | _ => [] end end) ch.
Fixpoint fill (t : node) : node :=
  match t with
  | File _ _ d => File def_fmode def_ft d
  | Link tg => Link tg
  | Dir _ _ ch => Dir def_dmode def_ft (map (fun nc => match nc with (n, c) => (n, fill c) end) ch)
  end.
Definition fill_ch (ch : list (name * node)) : list (name * node) :=
  map (fun nc => match nc with (n, c) => (n, fill c) end) ch.

Definition kv_lt (a b : name * node) : Prop := name_lt (fst a) (fst b).
Definition sorted_ch (ch : list (name * node)) : Prop := StronglySorted kv_lt ch.
(* every directory of the tree lists its children in increasing order of names *)
Fixpoint sorted_tree (t : node) : Prop :=
  match t with
  | Dir _ _ ch => sorted_ch ch /\
      (fix go (l : list (name * node)) : Prop :=
         match l with [] => True | (_, c) :: l' => sorted_tree c /\ go l' end) ch
  | _ => True
  end.
Definition sorted_sub (ch : list (name * node)) : Prop := Forall (fun nc => sorted_tree (snd nc)) ch.
Lemma sorted_tree_dir : forall m ft ch, sorted_tree (Dir m ft ch) <-> sorted_ch ch /\ sorted_sub ch.
Proof.
  intros m ft ch. simpl. apply and_iff_compat_l. unfold sorted_sub.
  induction ch as [| [n c] ch IH]; simpl; split; intros H; auto.
  - destruct H as [H1 H2]. constructor; [exact H1 | apply IH; exact H2].
  - inversion H; subst. split; [assumption | apply IH; assumption].
Qed.

Lemma skel_ch_keys : forall n ch, Forall (key_gt n) ch -> Forall (key_gt n) (skel_ch ch).
Proof.
  induction ch as [| [k c] ch IH]; intros H; [constructor |]. inversion H; subst.
  unfold skel_ch in *. simpl. destruct c; simpl; auto.
Qed.
Lemma fill_ch_keys : forall (P : name -> Prop) ch,
  Forall (fun kv => P (fst kv)) ch -> Forall (fun kv => P (fst kv)) (fill_ch ch).
Proof.
  induction ch as [| [k c] ch IH]; intros H; [constructor |]. inversion H; subst. simpl. constructor; auto.
Qed.

Definition all_below (done : list (name * node)) (n : name) : Prop := Forall (key_lt n) done.

Lemma sorted_head : forall n c ch, sorted_ch ((n, c) :: ch) -> Forall (key_gt n) ch /\ sorted_ch ch.
Proof. intros n c ch H. inversion H; subst. split; assumption. Qed.

Lemma below_step : forall done n v k, all_below done n -> name_lt n k -> all_below (done ++ [(n, v)]) k.
Proof.
  intros done n v k H Hn. apply Forall_app. split.
  - eapply Forall_impl; [| exact H]. intros kv Hk. unfold key_lt in *. eapply name_cmp_trans; eassumption.
  - constructor; [exact Hn | constructor].
Qed.

(* what "all keys of done are below the first key of ch" means for the induction *)
Definition below_all (done ch : list (name * node)) : Prop :=
  Forall (fun kv => all_below done (fst kv)) ch.

Lemma below_all_step : forall done n c v ch, sorted_ch ((n, c) :: ch) -> below_all done ((n, c) :: ch) ->
  below_all (done ++ [(n, v)]) ch.
Proof.
  intros done n c v ch Hs Hb. apply sorted_head in Hs. destruct Hs as [Hgt _].
  inversion Hb; subst. unfold below_all. rewrite Forall_forall in *. intros kv Hin.
  apply below_step; [exact H1 | apply Hgt; exact Hin].
Qed.
Lemma below_all_nil : forall ch, below_all [] ch.
Proof. intros. unfold below_all. apply Forall_forall. intros. constructor. Qed.

(* ---- pass 1 *)
Definition pass1_stmt (ch : list (name * node)) : Prop :=
  sorted_ch ch -> sorted_sub ch -> forall m ft done, below_all done ch ->
  run (sub_ops t_ops1 ch) (Dir m ft done) = Ok (Dir m ft (done ++ skel_ch ch)).
Definition on_dir (Q : list (name * node) -> Prop) (t : node) : Prop :=
  match t with Dir _ _ ch => Q ch | _ => True end.

Lemma pass1_ch : forall ch, pass1_stmt ch.
Proof.
  intros ch0. change (on_dir pass1_stmt (Dir 0 0 ch0)).
  apply (node_ind2 (on_dir pass1_stmt) pass1_stmt (fun _ _ _ => I) (fun _ => I) (fun _ _ ch H => H));
    clear ch0; unfold pass1_stmt.
  - intros _ _ m ft done _. unfold run. simpl. rewrite app_nil_r. reflexivity.
  - intros n c ch IHc IHch Hs Hsub m ft done Hb.
    pose proof (sorted_head _ _ _ Hs) as [Hgt Hs'].
    inversion Hsub as [| ? ? Hc Hsub']; subst. simpl in Hc.
    inversion Hb as [| ? ? Hbn Hb']; subst. simpl in Hbn.
    unfold sub_ops. cbn [flat_map]. fold (sub_ops t_ops1 ch). rewrite run_app.
    destruct c as [fm fft fd | cm cft cch | tg].
    + (* file: nothing to do *)
      simpl. unfold run at 1. simpl. unfold skel_ch. cbn [flat_map app]. fold (skel_ch ch).
      apply IHch; assumption.
    + (* directory: created, then its own sub-directories *)
      cbn [t_ops1 map]. fold (sub_ops t_ops1 cch). rewrite run_cons.
      cbn [push_op o_path o_mk o_f alter].
      rewrite (lookup_ne n done) by (apply key_lt_ne; exact Hbn).
      cbn [f_mkdir bind].
      replace (ins n new_dir done) with (done ++ [(n, new_dir)]).
      2:{ rewrite <- (app_nil_r done) at 2. rewrite ins_mid_new; [reflexivity | exact Hbn | constructor]. }
      rewrite (run_descend _ n m ft (done ++ [(n, new_dir)]) new_dir)
        by (apply lookup_mid; apply key_lt_ne; exact Hbn).
      apply sorted_tree_dir in Hc. destruct Hc as [Hcs Hcsub].
      unfold new_dir at 1. simpl in IHc. unfold pass1_stmt in IHc. rewrite (IHc Hcs Hcsub def_dmode def_ft [] (below_all_nil _)).
      cbn [bind app]. rewrite ins_mid_replace by (apply key_lt_ne; exact Hbn).
      unfold skel_ch. cbn [flat_map]. fold (skel_ch ch). fold (skel_ch cch).
      change (skel (Dir cm cft cch)) with (Dir def_dmode def_ft (skel_ch cch)).
      rewrite (IHch Hs' Hsub' m ft (done ++ [(n, Dir def_dmode def_ft (skel_ch cch))])).
      * rewrite <- app_assoc. reflexivity.
      * eapply below_all_step; eassumption.
    + (* link: nothing to do *)
      simpl. unfold run at 1. simpl. unfold skel_ch. cbn [flat_map app]. fold (skel_ch ch).
      apply IHch; assumption.
Qed.

Lemma below_key_ne : forall done n, all_below done n -> Forall (key_ne n) done.
Proof. intros. apply key_lt_ne. assumption. Qed.

(* ---- pass 2 *)
Definition pass2_stmt (ch : list (name * node)) : Prop :=
  sorted_ch ch -> sorted_sub ch -> forall m ft done, below_all done ch ->
  run (sub_ops t_ops2 ch) (Dir m ft (done ++ skel_ch ch)) = Ok (Dir m ft (done ++ fill_ch ch)).

Lemma pass2_ch : forall ch, pass2_stmt ch.
Proof.
  intros ch0. change (on_dir pass2_stmt (Dir 0 0 ch0)).
  apply (node_ind2 (on_dir pass2_stmt) pass2_stmt (fun _ _ _ => I) (fun _ => I) (fun _ _ ch H => H));
    clear ch0; unfold pass2_stmt.
  - intros _ _ m ft done _. reflexivity.
  - intros n c ch IHc IHch Hs Hsub m ft done Hb.
    pose proof (sorted_head _ _ _ Hs) as [Hgt Hs'].
    inversion Hsub as [| ? ? Hc Hsub']; subst. simpl in Hc.
    inversion Hb as [| ? ? Hbn Hb']; subst. simpl in Hbn.
    assert (Hb2 : forall v, below_all (done ++ [(n, v)]) ch) by (intros v; eapply below_all_step; eassumption).
    unfold sub_ops. cbn [flat_map]. fold (sub_ops t_ops2 ch). rewrite run_app.
    destruct c as [fm fft fd | cm cft cch | tg].
    + (* file: written into the (already existing) parent *)
      unfold skel_ch. cbn [flat_map app]. fold (skel_ch ch).
      cbn [t_ops2 map]. rewrite run_cons. cbn [push_op o_path o_mk o_f alter].
      rewrite lookup_ne.
      2:{ apply Forall_app. split; [apply below_key_ne; exact Hbn | apply key_gt_ne, skel_ch_keys; exact Hgt]. }
      cbn [f_write bind]. rewrite ins_mid_new by (try exact Hbn; apply skel_ch_keys; exact Hgt).
      unfold run at 1. cbn [fold_res bind].
      change (done ++ (n, File def_fmode def_ft fd) :: skel_ch ch)
        with (done ++ [(n, File def_fmode def_ft fd)] ++ skel_ch ch).
      rewrite app_assoc. rewrite (IHch Hs' Hsub' m ft _ (Hb2 _)). rewrite <- app_assoc. reflexivity.
    + (* directory: descend *)
      unfold skel_ch. cbn [flat_map app]. fold (skel_ch ch). fold (skel_ch cch).
      change (skel (Dir cm cft cch)) with (Dir def_dmode def_ft (skel_ch cch)).
      cbn [t_ops2]. fold (sub_ops t_ops2 cch).
      rewrite (run_descend _ n m ft _ (Dir def_dmode def_ft (skel_ch cch)))
        by (apply lookup_mid, below_key_ne; exact Hbn).
      apply sorted_tree_dir in Hc. destruct Hc as [Hcs Hcsub].
      simpl in IHc. unfold pass2_stmt in IHc.
      pose proof (IHc Hcs Hcsub def_dmode def_ft [] (below_all_nil _)) as E. cbn [app] in E. rewrite E.
      cbn [bind]. rewrite ins_mid_replace by (apply below_key_ne; exact Hbn).
      change (done ++ (n, Dir def_dmode def_ft (fill_ch cch)) :: skel_ch ch)
        with (done ++ [(n, Dir def_dmode def_ft (fill_ch cch))] ++ skel_ch ch).
      rewrite app_assoc. rewrite (IHch Hs' Hsub' m ft _ (Hb2 _)). rewrite <- app_assoc. reflexivity.
    + (* link *)
      unfold skel_ch. cbn [flat_map app]. fold (skel_ch ch).
      cbn [t_ops2 map]. rewrite run_cons. cbn [push_op o_path o_mk o_f alter].
      rewrite lookup_ne.
      2:{ apply Forall_app. split; [apply below_key_ne; exact Hbn | apply key_gt_ne, skel_ch_keys; exact Hgt]. }
      cbn [f_symlink bind]. rewrite ins_mid_new by (try exact Hbn; apply skel_ch_keys; exact Hgt).
      unfold run at 1. cbn [fold_res bind].
      change (done ++ (n, Link tg) :: skel_ch ch) with (done ++ [(n, Link tg)] ++ skel_ch ch).
      rewrite app_assoc. rewrite (IHch Hs' Hsub' m ft _ (Hb2 _)). rewrite <- app_assoc. reflexivity.
Qed.

(* ---- pass 3 *)
Definition pass3_stmt (ch : list (name * node)) : Prop :=
  sorted_ch ch -> sorted_sub ch -> forall m ft done, below_all done ch ->
  run (sub_ops t_ops3 ch) (Dir m ft (done ++ fill_ch ch)) = Ok (Dir m ft (done ++ ch)).

Lemma pass3_ch : forall ch, pass3_stmt ch.
Proof.
  intros ch0. change (on_dir pass3_stmt (Dir 0 0 ch0)).
  apply (node_ind2 (on_dir pass3_stmt) pass3_stmt (fun _ _ _ => I) (fun _ => I) (fun _ _ ch H => H));
    clear ch0; unfold pass3_stmt.
  - intros _ _ m ft done _. reflexivity.
  - intros n c ch IHc IHch Hs Hsub m ft done Hb.
    pose proof (sorted_head _ _ _ Hs) as [Hgt Hs'].
    inversion Hsub as [| ? ? Hc Hsub']; subst. simpl in Hc.
    inversion Hb as [| ? ? Hbn Hb']; subst. simpl in Hbn.
    assert (Hb2 : forall v, below_all (done ++ [(n, v)]) ch) by (intros v; eapply below_all_step; eassumption).
    unfold sub_ops. cbn [flat_map]. fold (sub_ops t_ops3 ch). rewrite run_app.
    unfold fill_ch. cbn [map]. fold (fill_ch ch).
    destruct c as [fm fft fd | cm cft cch | tg].
    + cbn [t_ops3 map fill]. rewrite run_cons. cbn [push_op o_path o_mk o_f alter].
      rewrite lookup_mid by (apply below_key_ne; exact Hbn).
      cbn [f_meta bind]. rewrite ins_mid_replace by (apply below_key_ne; exact Hbn).
      unfold run at 1. cbn [fold_res bind].
      change (done ++ (n, File fm fft fd) :: fill_ch ch) with (done ++ [(n, File fm fft fd)] ++ fill_ch ch).
      rewrite app_assoc. rewrite (IHch Hs' Hsub' m ft _ (Hb2 _)). rewrite <- app_assoc. reflexivity.
    + cbn [t_ops3 map fill]. fold (fill_ch cch). fold (sub_ops t_ops3 cch).
      rewrite run_cons. cbn [push_op o_path o_mk o_f alter].
      rewrite lookup_mid by (apply below_key_ne; exact Hbn).
      cbn [f_meta bind]. rewrite ins_mid_replace by (apply below_key_ne; exact Hbn).
      rewrite (run_descend _ n m ft _ (Dir cm cft (fill_ch cch)))
        by (apply lookup_mid, below_key_ne; exact Hbn).
      apply sorted_tree_dir in Hc. destruct Hc as [Hcs Hcsub].
      simpl in IHc. unfold pass3_stmt in IHc.
      pose proof (IHc Hcs Hcsub cm cft [] (below_all_nil _)) as E. cbn [app] in E. rewrite E.
      cbn [bind]. rewrite ins_mid_replace by (apply below_key_ne; exact Hbn).
      change (done ++ (n, Dir cm cft cch) :: fill_ch ch) with (done ++ [(n, Dir cm cft cch)] ++ fill_ch ch).
      rewrite app_assoc. rewrite (IHch Hs' Hsub' m ft _ (Hb2 _)). rewrite <- app_assoc. reflexivity.
    + cbn [t_ops3 map fill]. unfold run at 1. cbn [fold_res bind].
      change (done ++ (n, Link tg) :: fill_ch ch) with (done ++ [(n, Link tg)] ++ fill_ch ch).
      rewrite app_assoc. rewrite (IHch Hs' Hsub' m ft _ (Hb2 _)). rewrite <- app_assoc. reflexivity.
Qed.

(* ================================================================== well-formed trees *)
Definition no_slash (n : name) : bool := negb (existsb (Z.eqb slash) n).
Definition wf_nameb (n : name) : bool := negb (is_blank n) && negb (name_eqb n dotdot) && no_slash n.
Definition wf_name (n : name) : Prop := wf_nameb n = true.
(* a component of a link text: anything but '', '.', and no '/' ('..' is allowed) *)
Definition link_compb (n : name) : bool := negb (is_blank n) && no_slash n.
(* the text of a link found at depth d (= number of path components of the link below the destination) *)
Definition wf_link (d : Z) (tg : path) : Prop :=
  tg <> [] /\ forallb link_compb tg = true /\ link_inside (d - 1) tg = true.

Fixpoint wf_tree (d : Z) (t : node) : Prop :=
  match t with
  | File m _ _ => 0 <= m < 4096
  | Link tg => wf_link d tg
  | Dir m _ ch => 0 <= m < 4096 /\ sorted_ch ch /\
      (fix go (l : list (name * node)) : Prop :=
         match l with [] => True | (n, c) :: l' => (wf_name n /\ wf_tree (d + 1) c) /\ go l' end) ch
  end.
Definition wf_sub (d : Z) (ch : list (name * node)) : Prop :=
  Forall (fun nc => wf_name (fst nc) /\ wf_tree (d + 1) (snd nc)) ch.
Lemma wf_tree_dir : forall d m ft ch,
  wf_tree d (Dir m ft ch) <-> 0 <= m < 4096 /\ sorted_ch ch /\ wf_sub d ch.
Proof.
  intros d m ft ch. simpl. apply and_iff_compat_l. apply and_iff_compat_l. unfold wf_sub.
  induction ch as [| [n c] ch IH]; simpl; split; intros H; auto.
  - destruct H as [H1 H2]. constructor; [exact H1 | apply IH; exact H2].
  - inversion H; subst. split; [assumption | apply IH; assumption].
Qed.

Lemma wf_sorted : forall t d, wf_tree d t -> sorted_tree t.
Proof.
  apply (node_ind2 (fun t => forall d, wf_tree d t -> sorted_tree t)
                   (fun ch => forall d, wf_sub d ch -> sorted_sub ch)).
  - intros; exact I.
  - intros; exact I.
  - intros m ft ch IH d H. apply wf_tree_dir in H. destruct H as (_ & Hs & Hsub).
    apply sorted_tree_dir. split; [exact Hs | eapply IH; exact Hsub].
  - intros; constructor.
  - intros n c ch IHc IHch d H. inversion H; subst. destruct H2 as [_ H2]. simpl in H2.
    constructor; [simpl; eapply IHc; exact H2 | eapply IHch; exact H3].
Qed.

(* ---- sorted trees are their own canonical form *)
Lemma insert_sorted_head : forall n v l, Forall (key_gt n) l -> insert_sorted n v l = (n, v) :: l.
Proof.
  intros n v [| [k u] l] H; [reflexivity |]. inversion H; subst. simpl.
  rewrite name_lt_ltb by assumption. reflexivity.
Qed.
Lemma sort_ch_sorted : forall l, sorted_ch l -> sort_ch l = l.
Proof.
  induction l as [| [n v] l IH]; intros H; [reflexivity |].
  apply sorted_head in H. destruct H as [Hgt Hs]. simpl. rewrite IH by assumption.
  apply insert_sorted_head. assumption.
Qed.
Lemma canon_sorted : forall t, sorted_tree t -> canon t = t.
Proof.
  apply (node_ind2 (fun t => sorted_tree t -> canon t = t)
                   (fun ch => sorted_sub ch -> map (fun nc => match nc with (n, c) => (n, canon c) end) ch = ch)).
  - reflexivity.
  - reflexivity.
  - intros m ft ch IH H. apply sorted_tree_dir in H. destruct H as [Hs Hsub].
    cbn [canon]. rewrite IH by assumption. rewrite sort_ch_sorted by assumption. reflexivity.
  - reflexivity.
  - intros n c ch IHc IHch H. inversion H; subst. simpl in H2. simpl. rewrite IHc, IHch by assumption. reflexivity.
Qed.

(* ================================================================== items of a well-formed tree *)
Definition sub_items (ch : list (name * node)) : list item :=
  flat_map (fun nc => match nc with (n, c) => map (push n) (items c) end) ch.

Lemma items_dir : forall m ft ch,
  items (Dir m ft ch) = mkI [] KDir (Z.lor S_IFDIR m) ft [] [] :: sub_items ch.
Proof. reflexivity. Qed.

(* paths of the items are in strictly increasing order *)
Lemma items_sorted : forall t, sorted_tree t -> StronglySorted path_lt (map i_rel (items t)).
Proof.
  apply (node_ind2 (fun t => sorted_tree t -> StronglySorted path_lt (map i_rel (items t)))
                   (fun ch => sorted_ch ch -> sorted_sub ch ->
                              StronglySorted path_lt (map i_rel (sub_items ch)) /\
                              forall p, In p (map i_rel (sub_items ch)) ->
                                exists n r, p = n :: r /\ In n (map fst ch))).
  - intros. simpl. repeat constructor.
  - intros. simpl. repeat constructor.
  - intros m ft ch IH H. apply sorted_tree_dir in H. destruct H as [Hs Hsub].
    destruct (IH Hs Hsub) as [H1 H2]. rewrite items_dir. cbn [map i_rel]. constructor; [exact H1 |].
    apply Forall_forall. intros p Hp. destruct (H2 p Hp) as (n & r & -> & _). apply path_lt_nil.
  - intros _ _. split; [constructor | intros p []].
  - intros n c ch IHc IHch Hs Hsub.
    apply sorted_head in Hs. destruct Hs as [Hgt Hs]. inversion Hsub; subst. simpl in H1.
    destruct (IHch Hs H2) as [S2 In2]. specialize (IHc H1).
    unfold sub_items. cbn [flat_map]. fold (sub_items ch). rewrite map_app.
    assert (E : map i_rel (map (push n) (items c)) = map (cons n) (map i_rel (items c))).
    { rewrite !map_map. reflexivity. }
    rewrite E. split.
    + apply SSorted_app; [apply SSorted_map_cons; exact IHc | exact S2 |].
      intros a b Ha Hb. apply in_map_iff in Ha. destruct Ha as (a' & <- & _).
      destruct (In2 b Hb) as (k & r & -> & Hk). apply path_lt_head.
      apply in_map_iff in Hk. destruct Hk as (kv & <- & Hkv). rewrite Forall_forall in Hgt. apply Hgt. exact Hkv.
    + intros p Hp. apply in_app_or in Hp. destruct Hp as [Hp | Hp].
      * apply in_map_iff in Hp. destruct Hp as (a' & <- & _). exists n, a'. split; [reflexivity | left; reflexivity].
      * destruct (In2 p Hp) as (k & r & -> & Hk). exists k, r. split; [reflexivity | right; exact Hk].
Qed.

(* ================================================================== operations, item by item *)
Definition it_ops1 (it : item) : list op :=
  match i_kind it with KDir => [mkOp (i_rel it) true f_mkdir] | _ => [] end.
Definition it_ops2 (it : item) : list op :=
  match i_kind it with
  | KDir => []
  | KFile => [mkOp (i_rel it) true (f_write (i_data it))]
  | KLink => [mkOp (i_rel it) true (f_symlink (i_link it))]
  end.
Definition it_ops3 (it : item) : list op :=
  match i_kind it with
  | KLink => []
  | _ => [mkOp (i_rel it) false (f_meta (Some (S_IMODE (i_mode it))) (i_ft it))]
  end.

Lemma flat_map_push : forall (g : item -> list op) n l,
  (forall it, g (push n it) = map (push_op n) (g it)) ->
  flat_map g (map (push n) l) = map (push_op n) (flat_map g l).
Proof.
  intros g n l Hg. induction l as [| it l IH]; [reflexivity |]. simpl. rewrite Hg, IH, map_app. reflexivity.
Qed.
Lemma flat_map_sub_items : forall (g : item -> list op) ch,
  (forall n it, g (push n it) = map (push_op n) (g it)) ->
  flat_map g (sub_items ch) = sub_ops (fun c => flat_map g (items c)) ch.
Proof.
  intros g ch Hg. induction ch as [| [n c] ch IH]; [reflexivity |].
  unfold sub_items, sub_ops in *. cbn [flat_map]. rewrite flat_map_app, IH, flat_map_push by (intros; apply Hg).
  reflexivity.
Qed.
Lemma sub_ops_ext : forall f g ch, Forall (fun nc => f (snd nc) = g (snd nc)) ch -> sub_ops f ch = sub_ops g ch.
Proof.
  intros f g ch H. induction H as [| [n c] ch Hc _ IH]; [reflexivity |].
  unfold sub_ops in *. cbn [flat_map]. simpl in Hc. rewrite Hc, IH. reflexivity.
Qed.

Lemma it_ops1_push : forall n it, it_ops1 (push n it) = map (push_op n) (it_ops1 it).
Proof. intros n [r k m f d l]. unfold it_ops1, push. simpl. destruct k; reflexivity. Qed.
Lemma it_ops2_push : forall n it, it_ops2 (push n it) = map (push_op n) (it_ops2 it).
Proof. intros n [r k m f d l]. unfold it_ops2, push. simpl. destruct k; reflexivity. Qed.
Lemma it_ops3_push : forall n it, it_ops3 (push n it) = map (push_op n) (it_ops3 it).
Proof. intros n [r k m f d l]. unfold it_ops3, push. simpl. destruct k; reflexivity. Qed.

Lemma items_ops1 : forall t, flat_map it_ops1 (items t) = t_ops1 t.
Proof.
  apply (node_ind2 (fun t => flat_map it_ops1 (items t) = t_ops1 t)
                   (fun ch => Forall (fun nc => flat_map it_ops1 (items (snd nc)) = t_ops1 (snd nc)) ch)).
  - reflexivity.
  - reflexivity.
  - intros m ft ch IH. rewrite items_dir. cbn [flat_map]. rewrite flat_map_sub_items by apply it_ops1_push.
    rewrite (sub_ops_ext _ t_ops1 ch IH). reflexivity.
  - constructor.
  - intros n c ch Hc Hch. constructor; assumption.
Qed.
Lemma items_ops2 : forall t, flat_map it_ops2 (items t) = t_ops2 t.
Proof.
  apply (node_ind2 (fun t => flat_map it_ops2 (items t) = t_ops2 t)
                   (fun ch => Forall (fun nc => flat_map it_ops2 (items (snd nc)) = t_ops2 (snd nc)) ch)).
  - reflexivity.
  - reflexivity.
  - intros m ft ch IH. rewrite items_dir. cbn [flat_map]. rewrite flat_map_sub_items by apply it_ops2_push.
    rewrite (sub_ops_ext _ t_ops2 ch IH). reflexivity.
  - constructor.
  - intros n c ch Hc Hch. constructor; assumption.
Qed.
Lemma items_ops3 : forall t d, wf_tree d t -> flat_map it_ops3 (items t) = t_ops3 t.
Proof.
  apply (node_ind2 (fun t => forall d, wf_tree d t -> flat_map it_ops3 (items t) = t_ops3 t)
                   (fun ch => forall d, wf_sub d ch ->
                      Forall (fun nc => flat_map it_ops3 (items (snd nc)) = t_ops3 (snd nc)) ch)).
  - intros m ft data d H. simpl in H. cbn [items flat_map app]. unfold it_ops3. cbn [i_kind i_rel i_mode i_ft t_ops3].
    rewrite (proj1 (imode_of_walk m H)). reflexivity.
  - reflexivity.
  - intros m ft ch IH d H. apply wf_tree_dir in H. destruct H as (Hm & _ & Hsub).
    rewrite items_dir. cbn [flat_map]. rewrite flat_map_sub_items by apply it_ops3_push.
    rewrite (sub_ops_ext _ t_ops3 ch (IH d Hsub)). unfold it_ops3 at 1. cbn [i_kind i_rel i_mode i_ft t_ops3 app].
    rewrite (proj1 (proj2 (imode_of_walk m Hm))). reflexivity.
  - constructor.
  - intros n c ch Hc Hch d H. inversion H; subst. destruct H2 as [_ H2]. simpl in H2.
    constructor; [simpl; eapply Hc; exact H2 | eapply Hch; exact H3].
Qed.

(* ================================================================== prefixes *)
Fixpoint wrapdirs (p : path) (t : node) : node :=
  match p with [] => t | n :: p' => Dir def_dmode def_ft [(n, wrapdirs p' t)] end.

Lemma wrapdirs_app : forall p n t, wrapdirs (p ++ [n]) t = wrapdirs p (Dir def_dmode def_ft [(n, t)]).
Proof. induction p as [| x p IH]; intros n t; simpl; [reflexivity | rewrite IH; reflexivity]. Qed.

Lemma prefix_op_nil : forall ops, map (prefix_op []) ops = ops.
Proof. induction ops as [| [p m f] ops IH]; [reflexivity |]. simpl. rewrite IH. reflexivity. Qed.
Lemma prefix_op_cons : forall x r ops, map (prefix_op (x :: r)) ops = map (push_op x) (map (prefix_op r) ops).
Proof. intros. rewrite map_map. reflexivity. Qed.
Lemma prefix_op_snoc : forall q n ops, map (prefix_op (q ++ [n])) ops = map (prefix_op q) (map (push_op n) ops).
Proof.
  intros. rewrite map_map. apply map_ext. intros [p m f]. unfold prefix_op, push_op. simpl.
  rewrite <- app_assoc. reflexivity.
Qed.

Lemma ins_single : forall x v w, ins x v [(x, w)] = [(x, v)].
Proof. intros. apply (ins_mid_replace x v w [] []). constructor. Qed.

(* operations below a chain of directories act at its end *)
Lemma run_chain : forall r x ops a b c,
  run (map (prefix_op (x :: r)) ops) (Dir a b [(x, wrapdirs r c)]) =
  do c' <- run ops c; Ok (Dir a b [(x, wrapdirs r c')]).
Proof.
  induction r as [| y r IH]; intros x ops a b c.
  - rewrite prefix_op_cons, prefix_op_nil. simpl wrapdirs.
    rewrite (run_descend ops x a b [(x, c)] c) by (simpl; rewrite name_eqb_refl; reflexivity).
    destruct (run ops c); simpl; [rewrite ins_single |]; reflexivity.
  - rewrite prefix_op_cons. cbn [wrapdirs].
    rewrite (run_descend _ x a b [(x, Dir def_dmode def_ft [(y, wrapdirs r c)])] (Dir def_dmode def_ft [(y, wrapdirs r c)]))
      by (simpl; rewrite name_eqb_refl; reflexivity).
    rewrite IH. destruct (run ops c); simpl; [rewrite ins_single |]; reflexivity.
Qed.

(* the first operation creates the chain (mkdir -p); it makes no difference whether the chain is there already *)
Lemma alter_chain_first : forall r x p f a b, p <> [] ->
  alter ((x :: r) ++ p) true f (Dir a b []) = alter ((x :: r) ++ p) true f (Dir a b [(x, wrapdirs r new_dir)]).
Proof.
  induction r as [| y r IH]; intros x p f a b Hp.
  - destruct p as [| z p]; [contradiction |]. cbn [app wrapdirs].
    change (alter (x :: z :: p) true f (Dir a b [])) with
      (do c' <- alter (z :: p) true f new_dir; Ok (Dir a b (ins x c' []))).
    assert (E : alter (x :: z :: p) true f (Dir a b [(x, new_dir)]) =
                do c' <- alter (z :: p) true f new_dir; Ok (Dir a b (ins x c' [(x, new_dir)]))).
    { cbn [alter lookup]. rewrite name_eqb_refl. reflexivity. }
    rewrite E. destruct (alter (z :: p) true f new_dir); simpl; [| reflexivity].
    rewrite ins_single. reflexivity.
  - cbn [app wrapdirs].
    change (alter (x :: y :: r ++ p) true f (Dir a b [])) with
      (do c' <- alter ((y :: r) ++ p) true f (Dir def_dmode def_ft []); Ok (Dir a b (ins x c' []))).
    assert (E : alter (x :: y :: r ++ p) true f (Dir a b [(x, Dir def_dmode def_ft [(y, wrapdirs r new_dir)])]) =
                do c' <- alter ((y :: r) ++ p) true f (Dir def_dmode def_ft [(y, wrapdirs r new_dir)]);
                Ok (Dir a b (ins x c' [(x, Dir def_dmode def_ft [(y, wrapdirs r new_dir)])]))).
    { cbn [alter lookup app]. rewrite name_eqb_refl. reflexivity. }
    rewrite E. rewrite (IH y p f def_dmode def_ft Hp).
    destruct (alter ((y :: r) ++ p) true f (Dir def_dmode def_ft [(y, wrapdirs r new_dir)])); simpl; [| reflexivity].
    rewrite ins_single. reflexivity.
Qed.

(* ================================================================== what writeall produces *)
Definition arcpre (c : wctx) : path := match c_arc c with Some a => a | None => c_base c end.

(* the member for an item when _sanitize_archive_arcname leaves the name alone *)
Definition ent (c : wctx) (it : item) : entry :=
  mkE (arcpre c ++ i_rel it) (origin_of c it) (attributes_of (i_kind it) (i_mode it)) (i_ft it)
      (emptystream_of (i_kind it))
      (match i_kind it with KLink => join_slash (i_link it) | _ => i_data it end).

Definition nodrive (p : path) : Prop := match p with n :: _ => drive_like n = false | [] => True end.

Lemma wf_name_not_blank : forall n, wf_name n -> is_blank n = false.
Proof. intros n H. unfold wf_name, wf_nameb in H. destruct (is_blank n); [discriminate | reflexivity]. Qed.
Lemma wf_name_not_dotdot : forall n, wf_name n -> name_eqb n dotdot = false.
Proof.
  intros n H. unfold wf_name, wf_nameb in H. destruct (name_eqb n dotdot); [| reflexivity].
  rewrite andb_false_r in H. discriminate.
Qed.

Lemma filter_id : forall {A} (p : A -> bool) l, Forall (fun x => p x = true) l -> filter p l = l.
Proof. intros A p l H. induction H as [| x l Hx _ IH]; [reflexivity |]. simpl. rewrite Hx, IH. reflexivity. Qed.

Lemma as_posix_plain : forall p, Forall wf_name p -> as_posix p = p.
Proof.
  intros p H. unfold as_posix. apply filter_id. eapply Forall_impl; [| exact H].
  intros n Hn. simpl. rewrite wf_name_not_blank by exact Hn. reflexivity.
Qed.
Lemma sanitize_plain : forall p, nodrive p -> sanitize p = Ok p.
Proof. intros [| n p] H; [reflexivity |]. simpl in H. unfold sanitize. rewrite H. rewrite H. reflexivity. Qed.

Lemma finish_ok : forall c it, Forall wf_name (arcpre c ++ i_rel it) -> nodrive (arcpre c ++ i_rel it) ->
  finish c it = Ok (ent c it).
Proof.
  intros c it Hp Hd. unfold finish, ent.
  assert (E : match c_arc c with Some a => a ++ i_rel it | None => snd (origin_of c it) end = arcpre c ++ i_rel it).
  { unfold arcpre, origin_of. destruct (c_arc c); reflexivity. }
  rewrite E. rewrite sanitize_plain by exact Hd. cbn [bind]. rewrite as_posix_plain by exact Hp. reflexivity.
Qed.

Lemma map_res_ok : forall {A B} (f : A -> res B) (g : A -> B) l,
  Forall (fun x => f x = Ok (g x)) l -> map_res f l = Ok (map g l).
Proof. intros A B f g l H. induction H as [| x l Hx _ IH]; [reflexivity |]. simpl. rewrite Hx, IH. reflexivity. Qed.

(* ---- what must hold of each item *)
Definition item_ok (d : Z) (it : item) : Prop :=
  Forall wf_name (i_rel it) /\
  (i_kind it = KLink -> wf_link (d + Z.of_nat (length (i_rel it))) (i_link it)).

Lemma item_ok_push : forall d n it, wf_name n -> item_ok (d + 1) it -> item_ok d (push n it).
Proof.
  intros d n [r k m f dt l] Hn [H1 H2]. unfold item_ok, push in *. cbn [i_rel i_kind i_link] in *. split.
  - constructor; assumption.
  - intros Hk. specialize (H2 Hk). cbn [length].
    replace (d + Z.of_nat (S (length r))) with (d + 1 + Z.of_nat (length r)) by lia. exact H2.
Qed.

Lemma items_ok : forall t d, wf_tree d t -> Forall (item_ok d) (items t).
Proof.
  apply (node_ind2 (fun t => forall d, wf_tree d t -> Forall (item_ok d) (items t))
                   (fun ch => forall d, wf_sub d ch -> Forall (item_ok d) (sub_items ch))).
  - intros m ft data d H. cbn [items]. constructor; [| constructor]. split; [constructor | discriminate].
  - intros tg d H. simpl in H. cbn [items]. constructor; [| constructor]. split; [constructor |].
    intros _. cbn [i_rel i_link length]. replace (d + Z.of_nat 0) with d by lia. exact H.
  - intros m ft ch IH d H. apply wf_tree_dir in H. destruct H as (_ & _ & Hsub). rewrite items_dir.
    constructor; [| apply IH; exact Hsub]. split; [constructor | discriminate].
  - intros; constructor.
  - intros n c ch IHc IHch d H. inversion H; subst. destruct H2 as [Hn Hc]. simpl in Hn, Hc.
    unfold sub_items. cbn [flat_map]. fold (sub_items ch). apply Forall_app. split; [| apply IHch; exact H3].
    apply Forall_forall. intros it Hin. apply in_map_iff in Hin. destruct Hin as (it' & <- & Hin').
    apply item_ok_push; [exact Hn |]. specialize (IHc _ Hc). rewrite Forall_forall in IHc. auto.
Qed.

(* paths of the items below the root start with the name of a child of the root *)
Lemma sub_items_head : forall ch it, In it (sub_items ch) -> exists n r, i_rel it = n :: r /\ In n (map fst ch).
Proof.
  induction ch as [| [n c] ch IH]; intros it H; [destruct H |].
  unfold sub_items in H. cbn [flat_map] in H. fold (sub_items ch) in H. apply in_app_or in H. destruct H as [H | H].
  - apply in_map_iff in H. destruct H as (it' & <- & _). exists n, (i_rel it'). split; [reflexivity | left; reflexivity].
  - destruct (IH it H) as (k & r & E & Hk). exists k, r. split; [exact E | right; exact Hk].
Qed.

(* ---- links are stored as they are when nothing captures them *)
Lemma norm_link_id : forall tg, tg <> [] -> forallb link_compb tg = true -> norm_link tg = tg.
Proof.
  intros tg Hne H. unfold norm_link. rewrite filter_id.
  - destruct tg; [contradiction | reflexivity].
  - rewrite forallb_forall in H. apply Forall_forall. intros n Hn. specialize (H n Hn).
    unfold link_compb in H. destruct (is_blank n); [discriminate | reflexivity].
Qed.

Lemma store_links_id : forall its,
  Forall (fun it => i_kind it = KLink -> norm_link (i_link it) = i_link it) its -> store_links its = its.
Proof.
  intros its H. unfold store_links. induction H as [| it its Hit _ IH]; [reflexivity |].
  cbn [map]. rewrite IH. f_equal. destruct it as [r k m f dt l]. cbn [i_kind i_rel i_mode i_ft i_data i_link] in *.
  destruct k; try reflexivity. unfold find_link_target. rewrite (Hit eq_refl). reflexivity.
Qed.

(* ================================================================== what extractall plans *)
Lemma canon_out_go_plain : forall p s, Forall wf_name p -> canon_out_go p s = Ok (rev s ++ p).
Proof.
  induction p as [| n p IH]; intros s H; simpl.
  - rewrite app_nil_r. reflexivity.
  - inversion H; subst. rewrite wf_name_not_dotdot by assumption. rewrite IH by assumption.
    simpl. rewrite <- app_assoc. reflexivity.
Qed.
Lemma canon_out_plain : forall p, Forall wf_name p -> canon_out p = Ok p.
Proof. intros p H. unfold canon_out. rewrite canon_out_go_plain by exact H. reflexivity. Qed.

Lemma outnames_nodup : forall es seen, NoDup (map e_path es) ->
  Forall (fun e => assoc_path (e_path e) seen = None) es ->
  outnames seen es = map (fun e => (e_path e, e)) es.
Proof.
  induction es as [| e es IH]; intros seen Hn Hs; [reflexivity |].
  inversion Hn; subst. inversion Hs; subst. cbn [outnames map]. rewrite H3. f_equal. apply IH; [assumption |].
  apply Forall_forall. intros e' He'. cbn [assoc_path].
  destruct (path_eqb (e_path e) (e_path e')) eqn:E.
  - apply path_eqb_eq in E. exfalso. apply H1. rewrite E. apply in_map. exact He'.
  - rewrite Forall_forall in H4. auto.
Qed.

Lemma plan_of_ents : forall c its,
  Forall (fun it => Forall wf_name (arcpre c ++ i_rel it)) its ->
  NoDup (map (fun it => arcpre c ++ i_rel it) its) ->
  plan_of (map (ent c) its) = Ok (map (fun it => (arcpre c ++ i_rel it, ent c it)) its).
Proof.
  intros c its Hp Hn. unfold plan_of. rewrite outnames_nodup.
  - rewrite map_map. cbn [e_path ent].
    rewrite (map_res_ok _ (fun pe => pe)).
    + rewrite map_id. reflexivity.
    + apply Forall_forall. intros pe Hin. apply in_map_iff in Hin. destruct Hin as (it & <- & Hit).
      cbn [fst snd]. rewrite Forall_forall in Hp. rewrite canon_out_plain by (apply Hp; exact Hit). reflexivity.
  - rewrite map_map. cbn [e_path ent]. exact Hn.
  - apply Forall_forall. intros; reflexivity.
Qed.

(* ---- the operations of the plan, item by item *)
Lemma ent_kind : forall c it, entry_kind_e (ent c it) = Some (i_kind it).
Proof.
  intros. unfold entry_kind_e, e_emptyfile. cbn [ent e_attr e_empty].
  destruct (i_kind it) eqn:K; cbn [emptystream_of];
    [rewrite entry_kind_f_data by reflexivity | apply entry_kind_f_nodata; reflexivity | rewrite entry_kind_f_data by reflexivity];
    rewrite <- K; apply (mode_roundtrip (i_kind it) (i_mode it)).
Qed.
(* what is_directory answers for an entry of the walk: the kind (from the flags for a directory, from the attribute otherwise) *)
Lemma ent_is_dir : forall c it, is_dir_e (ent c it) = kind_eqb (i_kind it) KDir.
Proof.
  intros. unfold is_dir_e, e_emptyfile, is_directory. cbn [ent e_attr e_empty].
  destruct (i_kind it) eqn:K; cbn [emptystream_of flag_set negb kind_eqb]; try reflexivity.
  - pose proof (mode_roundtrip KFile (i_mode it)) as R. cbv zeta in R. destruct R as (_ & _ & Rd & _). exact Rd.
  - pose proof (mode_roundtrip KLink (i_mode it)) as R. cbv zeta in R. destruct R as (_ & _ & Rd & _). exact Rd.
Qed.

Lemma no_slash_cons : forall c n, no_slash (c :: n) = true -> (c =? slash) = false /\ no_slash n = true.
Proof.
  intros c n H. unfold no_slash in *. cbn [existsb] in H. rewrite negb_orb in H. apply andb_prop in H.
  destruct H as [H1 H2]. split; [| exact H2]. rewrite Z.eqb_sym. destruct (slash =? c); [discriminate | reflexivity].
Qed.
Lemma split_single : forall n, no_slash n = true -> split_slash n = [n].
Proof.
  induction n as [| c n IH]; intros H; [reflexivity |]. apply no_slash_cons in H. destruct H as [Hc Hn].
  cbn [split_slash]. rewrite Hc, IH by exact Hn. reflexivity.
Qed.
Lemma split_app : forall n s, no_slash n = true -> split_slash (n ++ slash :: s) = n :: split_slash s.
Proof.
  induction n as [| c n IH]; intros s H.
  - cbn [app split_slash]. rewrite Z.eqb_refl. reflexivity.
  - apply no_slash_cons in H. destruct H as [Hc Hn]. cbn [app split_slash]. rewrite Hc, IH by exact Hn. reflexivity.
Qed.
Lemma link_comp_no_slash : forall n, link_compb n = true -> no_slash n = true.
Proof. intros n H. unfold link_compb in H. apply andb_prop in H. tauto. Qed.
Lemma split_join : forall tg, tg <> [] -> forallb link_compb tg = true -> split_slash (join_slash tg) = tg.
Proof.
  induction tg as [| n tg IH]; intros Hne H; [contradiction |].
  cbn [forallb] in H. apply andb_prop in H. destruct H as [Hn Ht]. apply link_comp_no_slash in Hn.
  destruct tg as [| m tg].
  - cbn [join_slash]. apply split_single. exact Hn.
  - change (join_slash (n :: m :: tg)) with (n ++ slash :: join_slash (m :: tg)).
    rewrite split_app by exact Hn. rewrite IH; [reflexivity | discriminate | exact Ht].
Qed.
Lemma join_not_abs : forall tg, tg <> [] -> forallb link_compb tg = true ->
  match join_slash tg with c :: _ => c =? slash | [] => false end = false.
Proof.
  intros [| n tg] Hne H; [contradiction |]. cbn [forallb] in H. apply andb_prop in H. destruct H as [Hn _].
  assert (Hs := link_comp_no_slash n Hn). unfold link_compb in Hn. apply andb_prop in Hn. destruct Hn as [Hb _].
  destruct n as [| c n]; [discriminate Hb |]. apply no_slash_cons in Hs. destruct Hs as [Hc _].
  destruct tg; cbn [join_slash app]; exact Hc.
Qed.

Lemma extract_ops_ent : forall c it, item_ok (Z.of_nat (length (arcpre c))) it ->
  extract_ops (arcpre c ++ i_rel it, ent c it) = map (prefix_op (arcpre c)) (it_ops2 it).
Proof.
  intros c it [_ Hl]. unfold extract_ops. rewrite ent_kind.
  pose proof (mode_roundtrip (i_kind it) (i_mode it)) as R. cbv zeta in R. destruct R as (_ & _ & _ & Rs & _).
  unfold it_ops2. destruct (i_kind it) eqn:K.
  - cbn [ent e_empty e_attr e_data emptystream_of]. rewrite K. cbn [emptystream_of]. rewrite Rs. reflexivity.
  - reflexivity.
  - cbn [ent e_empty e_attr e_data emptystream_of]. rewrite K. cbn [emptystream_of]. rewrite Rs. cbn [kind_eqb].
    destruct (Hl eq_refl) as (Hne & Hc & Hin).
    rewrite join_not_abs by assumption. rewrite split_join by assumption. rewrite norm_link_id by assumption.
    rewrite app_length, Nat2Z.inj_add, Hin. reflexivity.
Qed.

Lemma exists_b_empty : forall a b x p, exists_b (Dir a b []) (x :: p) = false.
Proof. reflexivity. Qed.

Lemma post_ops_ent : forall c it a b, arcpre c ++ i_rel it <> [] ->
  post_ops (Dir a b []) (arcpre c ++ i_rel it, ent c it) = map (prefix_op (arcpre c)) (it_ops3 it).
Proof.
  intros c it a b Hne. unfold post_ops. rewrite ent_kind.
  pose proof (mode_roundtrip (i_kind it) (i_mode it)) as R. cbv zeta in R. destruct R as (Rp & _).
  cbn [ent e_attr e_ft]. rewrite Rp.
  destruct (arcpre c ++ i_rel it) as [| x p] eqn:E; [contradiction |]. rewrite exists_b_empty. cbn [negb].
  unfold it_ops3. destruct (i_kind it); cbn [map]; unfold prefix_op; cbn [o_path o_mk o_f]; rewrite ?E; reflexivity.
Qed.

Lemma SSorted_filter_map : forall {A} (f : A -> path) (p : A -> bool) l,
  StronglySorted path_lt (map f l) -> StronglySorted path_lt (map f (filter p l)).
Proof.
  intros A f p l. induction l as [| x l IH]; intros H; [constructor |]. cbn [map] in H. inversion H; subst.
  cbn [filter]. destruct (p x); [| auto]. cbn [map]. constructor; [auto |].
  apply Forall_forall. intros q Hq. apply in_map_iff in Hq. destruct Hq as (y & <- & Hy).
  apply filter_In in Hy. destruct Hy as [Hy _]. rewrite Forall_forall in H3. apply H3. apply in_map. exact Hy.
Qed.

Lemma ops_of_plan : forall c its a b,
  Forall (item_ok (Z.of_nat (length (arcpre c)))) its ->
  Forall (fun it => arcpre c ++ i_rel it <> []) its ->
  StronglySorted path_lt (map i_rel its) ->
  rebuild_ops (Dir a b []) (map (fun it => (arcpre c ++ i_rel it, ent c it)) its) =
  map (prefix_op (arcpre c)) (flat_map it_ops1 its ++ flat_map it_ops2 its ++ flat_map it_ops3 its).
Proof.
  intros c its a b Hok Hne Hs. unfold rebuild_ops. rewrite !map_app. f_equal; [| f_equal].
  - (* directories *)
    assert (E : mkdir_paths (Dir a b []) (map (fun it => (arcpre c ++ i_rel it, ent c it)) its) =
                map (fun it => arcpre c ++ i_rel it) (filter (fun it => kind_eqb (i_kind it) KDir) its)).
    { unfold mkdir_paths. clear Hok Hs. induction Hne as [| it its Hit _ IH]; [reflexivity |].
      cbn [map filter fst snd]. rewrite ent_is_dir.
      destruct (arcpre c ++ i_rel it) as [| x p] eqn:E; [contradiction |]. rewrite exists_b_empty. cbn [negb].
      rewrite andb_true_r. destruct (kind_eqb (i_kind it) KDir); cbn [map fst]; rewrite ?E, IH; reflexivity. }
    rewrite E. rewrite sort_paths_sorted.
    + clear. induction its as [| it its IH]; [reflexivity |]. cbn [filter flat_map]. unfold it_ops1 at 1.
      destruct (i_kind it); cbn [kind_eqb map app]; rewrite IH; reflexivity.
    + rewrite <- (map_map i_rel (app (arcpre c))). rewrite <- map_map.
      apply SSorted_map_app. rewrite map_map. apply SSorted_filter_map. exact Hs.
  - (* files and links *)
    clear Hne Hs. induction Hok as [| it its Hit _ IH]; [reflexivity |].
    cbn [map flat_map]. rewrite map_app, IH, extract_ops_ent by exact Hit. reflexivity.
  - (* post-pass *)
    clear Hok Hs. induction Hne as [| it its Hit _ IH]; [reflexivity |].
    cbn [map flat_map]. rewrite map_app, IH, post_ops_ent by exact Hit. reflexivity.
Qed.

(* ================================================================== the round trip *)
Lemma walk_ok : forall c t d its,
  c_deref c = false -> wf_tree d t ->
  filter (fun it => negb (skipped c it)) (items t) = its ->
  Forall (fun it => Forall wf_name (arcpre c ++ i_rel it) /\ nodrive (arcpre c ++ i_rel it)) its ->
  walk c t = Ok (map (ent c) its).
Proof.
  intros c t d its Hd Hwf Hfil Hfin. unfold walk, source_tree, walk_items. rewrite Hd.
  rewrite canon_sorted by (eapply wf_sorted; exact Hwf). rewrite Hfil.
  assert (Hsub : incl its (items t)).
  { intros it Hin. rewrite <- Hfil in Hin. apply filter_In in Hin. tauto. }
  rewrite store_links_id.
  - apply map_res_ok. eapply Forall_impl; [| exact Hfin]. intros it [H1 H2]. apply finish_ok; assumption.
  - apply Forall_forall. intros it Hit Hk.
    pose proof (items_ok t d Hwf) as Hok. rewrite Forall_forall in Hok. destruct (Hok it (Hsub it Hit)) as [_ Hl].
    destruct (Hl Hk) as (Hne & Hc & _). apply norm_link_id; assumption.
Qed.

Lemma passes : forall ch, sorted_ch ch -> sorted_sub ch -> forall m ft,
  run (sub_ops t_ops1 ch ++ sub_ops t_ops2 ch ++ sub_ops t_ops3 ch) (Dir m ft []) = Ok (Dir m ft ch).
Proof.
  intros ch Hs Hsub m ft. rewrite run_app.
  rewrite (pass1_ch ch Hs Hsub m ft [] (below_all_nil _)). cbn [bind]. rewrite run_app.
  rewrite (pass2_ch ch Hs Hsub m ft [] (below_all_nil _)). cbn [bind].
  rewrite (pass3_ch ch Hs Hsub m ft [] (below_all_nil _)). reflexivity.
Qed.

Definition expected (pre : path) (t : node) (a b : Z) : node :=
  match pre with
  | [] => match t with Dir _ _ ch => Dir a b ch | _ => Dir a b [] end
  | x :: r => Dir a b [(x, wrapdirs r t)]
  end.

Lemma sub_ops_of_items : forall d ch, wf_sub d ch ->
  flat_map it_ops1 (sub_items ch) = sub_ops t_ops1 ch /\
  flat_map it_ops2 (sub_items ch) = sub_ops t_ops2 ch /\
  flat_map it_ops3 (sub_items ch) = sub_ops t_ops3 ch.
Proof.
  intros d ch H. rewrite !flat_map_sub_items by (first [apply it_ops1_push | apply it_ops2_push | apply it_ops3_push]).
  repeat split; apply sub_ops_ext; apply Forall_forall; intros [n c] Hin; cbn [snd].
  - apply items_ops1.
  - apply items_ops2.
  - unfold wf_sub in H. rewrite Forall_forall in H. destruct (H _ Hin) as [_ Hc]. eapply items_ops3. exact Hc.
Qed.

Lemma bare_dot_arcpre : forall c, is_bare_dot c = true -> arcpre c = [].
Proof.
  intros c H. unfold is_bare_dot in H. unfold arcpre.
  destruct (c_arc c); [rewrite andb_false_r in H; discriminate |].
  destruct (c_base c); [reflexivity |]. rewrite andb_false_r in H. discriminate.
Qed.
Lemma named_not_bare : forall c, arcpre c <> [] -> is_bare_dot c = false.
Proof.
  intros c H. destruct (is_bare_dot c) eqn:E; [| reflexivity]. apply bare_dot_arcpre in E. contradiction.
Qed.

(* ---- writeall('.') without arcname: the root has no entry, its children are the top of the archive *)
Theorem roundtrip_dot : forall c m ft ch a b,
  c_deref c = false -> is_bare_dot c = true ->
  wf_tree 0 (Dir m ft ch) ->
  Forall (fun nc => drive_like (fst nc) = false) ch ->
  roundtrip c (Dir m ft ch) (Dir a b []) = Ok (Dir a b ch).
Proof.
  intros c m ft ch a b Hd Hbare Hwf Hdrv. pose proof (bare_dot_arcpre c Hbare) as Hpre.
  pose proof (items_ok _ _ Hwf) as Hok. rewrite items_dir in Hok. inversion Hok as [| ? ? _ Hok']; subst.
  pose proof (wf_sorted _ _ Hwf) as Hst. pose proof (items_sorted _ Hst) as Hss.
  rewrite items_dir in Hss. cbn [map] in Hss. inversion Hss as [| ? ? Hss' _]; subst.
  apply wf_tree_dir in Hwf. destruct Hwf as (Hm & Hs & Hsub).
  assert (Hwf : wf_tree 0 (Dir m ft ch)) by (apply wf_tree_dir; auto).
  unfold roundtrip.
  rewrite (walk_ok c (Dir m ft ch) 0 (sub_items ch) Hd Hwf).
  - cbn [bind]. unfold rebuild. rewrite plan_of_ents.
    + cbn [bind].
      assert (Hok2 : Forall (item_ok (Z.of_nat (length (arcpre c)))) (sub_items ch)) by (rewrite Hpre; exact Hok').
      rewrite ops_of_plan; rewrite ?Hpre; try assumption.
      * rewrite prefix_op_nil. destruct (sub_ops_of_items 0 ch Hsub) as (E1 & E2 & E3). rewrite E1, E2, E3.
        apply sorted_tree_dir in Hst. destruct Hst as [_ Hsub']. apply passes; assumption.
      * apply Forall_forall. intros it Hin. destruct (sub_items_head ch it Hin) as (n & r & E & _).
        cbn [app]. rewrite E. discriminate.
    + rewrite Hpre. cbn [app]. eapply Forall_impl; [| exact Hok']. intros it [H _]. exact H.
    + rewrite Hpre. cbn [app]. apply SSorted_NoDup. exact Hss'.
  - rewrite items_dir. cbn [filter]. unfold skipped at 1. cbn [i_kind i_rel]. rewrite Hbare. cbn [negb].
    apply filter_id. apply Forall_forall. intros it Hin. destruct (sub_items_head ch it Hin) as (n & r & E & _).
    unfold skipped. rewrite E. destruct (i_kind it); reflexivity.
  - rewrite Hpre. cbn [app]. apply Forall_forall. intros it Hin.
    rewrite Forall_forall in Hok'. destruct (Hok' it Hin) as [Hn _]. split; [exact Hn |].
    destruct (sub_items_head ch it Hin) as (n & r & E & Hk). rewrite E. cbn [nodrive].
    apply in_map_iff in Hk. destruct Hk as (kv & <- & Hkv). rewrite Forall_forall in Hdrv. apply Hdrv. exact Hkv.
Qed.

Lemma first_op : forall n t, exists f rest,
  sub_ops t_ops1 [(n, t)] ++ sub_ops t_ops2 [(n, t)] ++ sub_ops t_ops3 [(n, t)] = mkOp [n] true f :: rest.
Proof.
  intros n [m ft d | m ft ch | tg]; unfold sub_ops; cbn [flat_map t_ops1 t_ops2 t_ops3 map app push_op o_path o_mk o_f];
    eexists; eexists; reflexivity.
Qed.

Lemma sub_ops_single : forall f n t, sub_ops f [(n, t)] = map (push_op n) (f t).
Proof. intros. unfold sub_ops. cbn [flat_map]. apply app_nil_r. Qed.

(* ---- writeall(path[, arcname]) with a name for the root (also '.' with an arcname): the root's entry comes first *)
Theorem roundtrip_named : forall c t a b,
  c_deref c = false -> arcpre c <> [] ->
  Forall wf_name (arcpre c) -> nodrive (arcpre c) ->
  wf_tree (Z.of_nat (length (arcpre c))) t ->
  roundtrip c t (Dir a b []) = Ok (expected (arcpre c) t a b).
Proof.
  intros c t a b Hd Hne Hpn Hpd Hwf.
  pose proof (items_ok _ _ Hwf) as Hok.
  pose proof (wf_sorted _ _ Hwf) as Hst. pose proof (items_sorted _ Hst) as Hss.
  assert (Hnames : Forall (fun it => Forall wf_name (arcpre c ++ i_rel it)) (items t)).
  { eapply Forall_impl; [| exact Hok]. intros it [H _]. apply Forall_app. split; assumption. }
  unfold roundtrip.
  rewrite (walk_ok c t _ (items t) Hd Hwf).
  - cbn [bind]. unfold rebuild. rewrite plan_of_ents; [| exact Hnames |].
    + cbn [bind]. rewrite ops_of_plan; try assumption.
      * rewrite items_ops1, items_ops2, (items_ops3 t _ Hwf).
        destruct (exists_last Hne) as (q & n & Epre). rewrite Epre.
        rewrite prefix_op_snoc. rewrite (map_app (push_op n)), (map_app (push_op n)), <- !sub_ops_single.
        assert (Hs1 : sorted_ch [(n, t)]) by (repeat constructor).
        assert (Hs2 : sorted_sub [(n, t)]) by (repeat constructor; exact Hst).
        destruct q as [| x r].
        -- rewrite prefix_op_nil. rewrite passes by assumption. reflexivity.
        -- destruct (first_op n t) as (f & rest & E).
           assert (R : run (sub_ops t_ops1 [(n, t)] ++ sub_ops t_ops2 [(n, t)] ++ sub_ops t_ops3 [(n, t)]) new_dir =
                       Ok (Dir def_dmode def_ft [(n, t)])) by (apply passes; assumption).
           rewrite E in *. cbn [map]. rewrite run_cons. cbn [prefix_op o_path o_mk o_f].
           rewrite alter_chain_first by discriminate.
           change (do t' <- alter ((x :: r) ++ [n]) true f (Dir a b [(x, wrapdirs r new_dir)]);
                   run (map (prefix_op (x :: r)) rest) t')
             with (run (map (prefix_op (x :: r)) (mkOp [n] true f :: rest)) (Dir a b [(x, wrapdirs r new_dir)])).
           rewrite run_chain, R. cbn [bind app expected]. rewrite wrapdirs_app. reflexivity.
      * apply Forall_forall. intros it _. destruct (arcpre c); [contradiction | discriminate].
    + rewrite <- (map_map i_rel (app (arcpre c))). apply SSorted_NoDup. apply SSorted_map_app. exact Hss.
  - apply filter_id. apply Forall_forall. intros it _. unfold skipped. rewrite (named_not_bare c Hne).
    destruct (i_kind it); [reflexivity | destruct (i_rel it); reflexivity | reflexivity].
  - eapply Forall_impl; [| exact Hnames]. intros it H. split; [exact H |].
    destruct (arcpre c) as [| x r]; [contradiction | exact Hpd].
Qed.

(* ---- both together *)
Definition ctx_ok (c : wctx) (t : node) : Prop :=
  c_deref c = false /\ Forall wf_name (arcpre c) /\
  match arcpre c with
  | [] => is_bare_dot c = true /\
          match t with Dir _ _ ch => Forall (fun nc => drive_like (fst nc) = false) ch | _ => False end
  | n :: _ => drive_like n = false
  end.

Theorem tree_roundtrip : forall c t a b,
  ctx_ok c t -> wf_tree (Z.of_nat (length (arcpre c))) t ->
  roundtrip c t (Dir a b []) = Ok (expected (arcpre c) t a b).
Proof.
  intros c t a b (Hd & Hn & Hm) Hwf. destruct (arcpre c) as [| x r] eqn:E.
  - destruct Hm as [Hbare Ht]. destruct t as [| m ft ch |]; try contradiction.
    cbn [expected]. apply roundtrip_dot; assumption.
  - rewrite <- E. apply roundtrip_named; rewrite ?E; try assumption; discriminate.
Qed.

(* ================================================================== dereference *)
Fixpoint nolinks (t : node) : Prop :=
  match t with
  | File _ _ _ => True
  | Link _ => False
  | Dir _ _ ch => (fix go (l : list (name * node)) : Prop :=
                     match l with [] => True | (_, c) :: l' => nolinks c /\ go l' end) ch
  end.
Lemma nolinks_dir : forall m ft ch, nolinks (Dir m ft ch) <-> Forall (fun nc => nolinks (snd nc)) ch.
Proof.
  intros m ft ch. simpl. induction ch as [| [n c] ch IH]; simpl; split; intros H; auto.
  - destruct H as [H1 H2]. constructor; [exact H1 | apply IH; exact H2].
  - inversion H; subst. split; [assumption | apply IH; assumption].
Qed.

Lemma expand_nolinks : forall fuel root cd self t t', expand fuel root cd self t = Some t' -> nolinks t'.
Proof.
  induction fuel as [| f IH]; intros root cd self t t' H; [discriminate |].
  cbn [expand] in H. destruct t as [m ft d | m ft ch | tg].
  - inversion H; subst. exact I.
  - inversion H; subst. clear H. apply nolinks_dir. induction ch as [| [n c] ch IHch]; [constructor |].
    cbn [flat_map]. destruct (expand f root self (self ++ [n]) c) as [c' |] eqn:E.
    + cbn [app]. constructor; [cbn [snd]; eapply IH; exact E | exact IHch].
    + exact IHch.
  - destruct (resolve f root cd tg) as [p |]; [| discriminate].
    destruct (get root p) as [t0 |]; [| discriminate]. eapply IH. exact H.
Qed.

Lemma nolinks_items : forall t, nolinks t -> Forall (fun it => i_kind it <> KLink) (items t).
Proof.
  apply (node_ind2 (fun t => nolinks t -> Forall (fun it => i_kind it <> KLink) (items t))
                   (fun ch => Forall (fun nc => nolinks (snd nc)) ch ->
                              Forall (fun it => i_kind it <> KLink) (sub_items ch))).
  - intros. repeat constructor. discriminate.
  - intros tg [].
  - intros m ft ch IH H. apply nolinks_dir in H. rewrite items_dir. constructor; [discriminate | auto].
  - constructor.
  - intros n c ch IHc IHch H. inversion H; subst. cbn [snd] in H2.
    unfold sub_items. cbn [flat_map]. fold (sub_items ch). apply Forall_app. split; [| auto].
    apply Forall_forall. intros it Hin. apply in_map_iff in Hin. destruct Hin as ([r k m f d l] & <- & Hin').
    specialize (IHc H2). rewrite Forall_forall in IHc. exact (IHc _ Hin').
Qed.

Lemma store_links_nolinks : forall its, Forall (fun it => i_kind it <> KLink) its -> store_links its = its.
Proof.
  intros its H. apply store_links_id. eapply Forall_impl; [| exact H]. intros it Hk Hk'. contradiction.
Qed.

Definition set_deref (c : wctx) (b : bool) : wctx := mkC (c_abs c) (c_base c) (c_arc c) b.

(* with dereference on, writeall archives the tree in which every link is replaced by what it points to *)
Theorem walk_deref : forall c t t',
  c_deref c = true -> expand deref_fuel t [] [] t = Some t' -> sorted_tree t' ->
  walk c t = walk (set_deref c false) t'.
Proof.
  intros c t t' Hd He Hs. unfold walk, source_tree. rewrite Hd, He. cbn [set_deref c_deref].
  unfold walk_items. rewrite Hd. cbn [set_deref c_deref]. rewrite canon_sorted by exact Hs.
  rewrite store_links_nolinks; [reflexivity |].
  pose proof (nolinks_items t' (expand_nolinks _ _ _ _ _ _ He)) as H. rewrite Forall_forall in *.
  intros it Hin. apply filter_In in Hin. apply H. tauto.
Qed.

Theorem deref_roundtrip : forall c t t' a b,
  c_deref c = true -> expand deref_fuel t [] [] t = Some t' ->
  ctx_ok (set_deref c false) t' -> wf_tree (Z.of_nat (length (arcpre c))) t' ->
  roundtrip c t (Dir a b []) = Ok (expected (arcpre c) t' a b).
Proof.
  intros c t t' a b Hd He Hc Hwf. unfold roundtrip.
  rewrite (walk_deref c t t' Hd He (wf_sorted _ _ Hwf)).
  exact (tree_roundtrip (set_deref c false) t' a b Hc Hwf).
Qed.

(* ================================================================== where the full statement fails *)
(* contexts: writeall('.'); writeall('.', arcname='x'); writeall("src") *)
Definition ctx_dot : wctx := mkC false [] None false.
Definition ctx_dotarc : wctx := mkC false [] (Some [[120]]) false.
Definition ctx_rel : wctx := mkC false [[115; 114; 99]] None false.
Definition n_a : name := [97].
Definition n_d : name := [100].
Definition n_l : name := [108].

(* repaired (were witnesses against the round trip): d/l -> "a" next to a top-level a keeps its text; an empty
   directory archived as writeall('.', 'x') is there, with its mode and time *)
Definition t_capture : node :=
  Dir 493 1 [(n_a, File 420 2 [1]); (n_d, Dir 493 3 [(n_a, File 420 4 [2]); (n_l, Link [n_a])])].
Lemma fixed_capture :
  wf_tree 0 t_capture /\ ctx_ok ctx_dot t_capture /\
  roundtrip ctx_dot t_capture (Dir 0 0 []) = Ok (expected [] t_capture 0 0).
Proof.
  split; [| split; [| vm_compute; reflexivity]].
  - simpl. unfold wf_link, sorted_ch, wf_name. repeat split; try lia; try discriminate; repeat constructor.
  - unfold ctx_ok. split; [reflexivity |]. split; [constructor |]. cbn. split; [reflexivity | repeat constructor].
Qed.
Lemma fixed_cwd :
  wf_tree 1 (Dir 448 7 []) /\ ctx_ok ctx_dotarc (Dir 448 7 []) /\
  roundtrip ctx_dotarc (Dir 448 7 []) (Dir 0 0 []) = Ok (Dir 0 0 [([120], Dir 448 7 [])]).
Proof.
  split; [| split; [| vm_compute; reflexivity]].
  - simpl. repeat split; try lia. constructor.
  - unfold ctx_ok. split; [reflexivity |]. split; [repeat constructor |]. reflexivity.
Qed.

(* "c:foo" at the top comes back as "foo" *)
Definition n_cfoo : name := [99; 58; 102; 111; 111].
Lemma refuted_drive :
  wf_tree 0 (Dir 493 1 [(n_cfoo, File 420 2 [1])]) /\
  roundtrip ctx_dot (Dir 493 1 [(n_cfoo, File 420 2 [1])]) (Dir 0 0 []) =
    Ok (Dir 0 0 [([102; 111; 111], File 420 2 [1])]).
Proof.
  split; [| vm_compute; reflexivity].
  simpl. unfold sorted_ch, wf_name. repeat split; try lia; repeat constructor.
Qed.

(* a link text "./a" comes back as "a" *)
Lemma refuted_linktext :
  roundtrip ctx_rel (Dir 493 1 [(n_a, File 420 2 [1]); (n_l, Link [dot; n_a])]) (Dir 0 0 []) =
    Ok (Dir 0 0 [([115; 114; 99], Dir 493 1 [(n_a, File 420 2 [1]); (n_l, Link [n_a])])]).
Proof. vm_compute. reflexivity. Qed.

(* the statement without the side condition on letter+colon names: false *)
Theorem tree_roundtrip_refuted :
  exists c t, c_deref c = false /\ wf_tree (Z.of_nat (length (arcpre c))) t /\
              roundtrip c t (Dir 0 0 []) <> Ok (expected (arcpre c) t 0 0).
Proof.
  exists ctx_dot, (Dir 493 1 [(n_cfoo, File 420 2 [1])]). split; [reflexivity |]. destruct refuted_drive as [H1 H2].
  split; [exact H1 |]. rewrite H2. vm_compute. discriminate.
Qed.

(* ---- a concrete tree that meets every hypothesis of tree_roundtrip, in both forms *)
Definition t_example : node :=
  Dir 493 13244736005000000 [
    (n_a, File 416 128790414901234567 [104; 105]);
    (n_d, Dir 320 13000000000000000 [
            (n_a, File 493 1 []);
            ([101], Dir 448 2 []);
            (n_l, Link [dotdot; n_a]);
            ([109], Link [[101]])]);
    ([122], File 384 3 [])].
Lemma example_wf : wf_tree 0 t_example /\ wf_tree 1 t_example.
Proof.
  split; simpl; unfold wf_link, sorted_ch, wf_name; repeat split; try lia; try discriminate; repeat constructor.
Qed.
Lemma example_ctx_dot : ctx_ok ctx_dot t_example.
Proof.
  unfold ctx_ok. split; [reflexivity |]. split; [constructor |].
  cbn [arcpre ctx_dot c_arc c_base t_example]. split; [reflexivity | repeat constructor].
Qed.
Lemma example_ctx_rel : ctx_ok ctx_rel t_example.
Proof. unfold ctx_ok. split; [reflexivity |]. split; [repeat constructor | reflexivity]. Qed.
Lemma example_roundtrip :
  roundtrip ctx_dot t_example (Dir 0 0 []) = Ok (expected [] t_example 0 0) /\
  roundtrip ctx_rel t_example (Dir 0 0 []) = Ok (expected [[115; 114; 99]] t_example 0 0).
Proof. split; vm_compute; reflexivity. Qed.
