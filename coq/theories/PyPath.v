(* PyPath.v -- pathlib (PurePosixPath, CPython 3.12) operations the generated helpers use beyond Path.v's vocabulary.
   Compared with pathlib by tools/harness/prims.py. *)
From P7 Require Import Prelude PyPrims Path.
Open Scope Z_scope.

(* self.relative_to(other) without walk_up: ValueError unless other is self or one of its parents; the result is built from
   the parts of self behind other's: self.with_segments( *self._tail[len(other._tail):]) *)
Definition pp_relative_to (self other : ppath) : res ppath :=
  if pp_is_relative_to self other
  then Ok (skipn (length (snd (pp_parse other))) (snd (pp_parse self)) : ppath)
  else Err EOther.
