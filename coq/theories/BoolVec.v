(* BoolVec.v -- hand model of the 7z bit vectors ("BIT Defined[NumStreams]", "BooleanList"):
   flags are packed MSB first into ceil(n/8) bytes, zero padded; the variant with an
   "AllAreDefined" byte uses a single non-zero byte when every flag is set.
   Spec side: no dependency on generated code. *)
From P7 Require Import Prelude PyPrims.
From Coq Require Import ZifyBool ZifyNat.
Ltac Zify.zify_post_hook ::= Z.to_euclidean_division_equations.
Open Scope Z_scope.

(* Model *)

(* bytes needed for n flags *)
Definition nbytes (n : nat) : nat := ((n + 7) / 8)%nat.

(* weight of flag number j (0..7) inside its byte: most significant bit first *)
Definition flag_weight (j : nat) (c : bool) : Z := if c then 2 ^ (7 - Z.of_nat j) else 0.

(* byte number k of the packed vector; flags beyond the end of l count as unset *)
Definition byte_at (l : list bool) (k : nat) : Z :=
  fold_right Z.lor 0 (map (fun j => flag_weight j (nth (8 * k + j) l false)) (seq 0 8)).

Definition bits_enc_n (m : nat) (l : list bool) : bytes := map (byte_at l) (seq 0 m).
Definition bits_enc (l : list bool) : bytes := bits_enc_n (nbytes (length l)) l.

(* flag number i of a packed vector *)
Definition bit_at (bs : bytes) (i : nat) : bool :=
  Z.testbit (nth (i / 8) bs 0) (7 - Z.of_nat (i mod 8)).

Definition bits_dec (n : nat) (bs : bytes) : option (list bool * bytes) :=
  if (length bs <? nbytes n)%nat then None
  else Some (map (bit_at bs) (seq 0 n), skipn (nbytes n) bs).

(* vector preceded by the AllAreDefined byte when all_defined/checkall is set *)
Definition boolvec_enc (l : list bool) (all_defined : bool) : bytes :=
  if all_defined && forallb id l then [1]
  else (if all_defined then [0] else []) ++ bits_enc l.

Definition boolvec_dec (n : nat) (checkall : bool) (bs : bytes) : option (list bool * bytes) :=
  if checkall then
    match bs with
    | [] => None
    | b :: r => if b =? 0 then bits_dec n r else Some (repeat true n, r)
    end
  else bits_dec n bs.

(* ------------------------------------------------------------------ *)
(* Lemmas                                                              *)
(* ------------------------------------------------------------------ *)

Lemma bits_enc_n_length m l : length (bits_enc_n m l) = m.
Proof. unfold bits_enc_n. rewrite map_length, seq_length. reflexivity. Qed.

Theorem bits_enc_length l : length (bits_enc l) = ((length l + 7) / 8)%nat.
Proof. apply bits_enc_n_length. Qed.

Lemma bits_enc_n_nth m l k : (k < m)%nat -> nth k (bits_enc_n m l) 0 = byte_at l k.
Proof.
  intros Hk. unfold bits_enc_n.
  rewrite (nth_indep _ 0 (byte_at l 0)) by (rewrite map_length, seq_length; exact Hk).
  rewrite map_nth, seq_nth by exact Hk. reflexivity.
Qed.

Lemma flag_weight_testbit j c p :
  (j < 8)%nat -> Z.testbit (flag_weight j c) p = c && (7 - Z.of_nat j =? p).
Proof.
  intros Hj. unfold flag_weight. destruct c.
  - rewrite Z.pow2_bits_eqb by lia. reflexivity.
  - apply Z.bits_0.
Qed.

Lemma flag_weight_range j c : (j < 8)%nat -> 0 <= flag_weight j c < 256.
Proof.
  intros Hj. unfold flag_weight. destruct c; [|lia].
  do 8 (destruct j as [|j]; [vm_compute; split; [discriminate|reflexivity]|]). lia.
Qed.

Lemma lor_byte a b : 0 <= a < 256 -> 0 <= b < 256 -> 0 <= Z.lor a b < 256.
Proof.
  intros Ha Hb. assert (H0 : 0 <= Z.lor a b) by (apply Z.lor_nonneg; lia).
  split; [exact H0|].
  destruct (Z.eq_dec (Z.lor a b) 0) as [E|E]; [lia|].
  change 256 with (2 ^ 8). apply Z.log2_lt_pow2; [lia|].
  rewrite Z.log2_lor by lia.
  assert (Z.log2 a < 8).
  { destruct (Z.eq_dec a 0) as [->|Na]; [reflexivity|]. apply Z.log2_lt_pow2; lia. }
  assert (Z.log2 b < 8).
  { destruct (Z.eq_dec b 0) as [->|Nb]; [reflexivity|]. apply Z.log2_lt_pow2; lia. }
  lia.
Qed.

Lemma byte_at_range l k : 0 <= byte_at l k < 256.
Proof.
  unfold byte_at. cbn [seq map fold_right].
  repeat (apply lor_byte; [apply flag_weight_range; lia|]). lia.
Qed.

Theorem bits_enc_n_wf m l : wf_bytes (bits_enc_n m l) = true.
Proof.
  unfold wf_bytes, bits_enc_n. apply forallb_forall. intros x Hx.
  apply in_map_iff in Hx as [k [<- _]]. pose proof (byte_at_range l k). unfold is_byte. lia.
Qed.

Theorem bits_enc_wf l : wf_bytes (bits_enc l) = true.
Proof. apply bits_enc_n_wf. Qed.

(* reading flag 8k+j back out of byte k *)
Lemma byte_at_testbit l k j :
  (j < 8)%nat -> Z.testbit (byte_at l k) (7 - Z.of_nat j) = nth (8 * k + j) l false.
Proof.
  intros Hj. unfold byte_at. cbn [seq map fold_right].
  rewrite !Z.lor_spec, Z.bits_0, !flag_weight_testbit by lia.
  do 8 (destruct j as [|j];
    [repeat match goal with |- context[Z.eqb ?a ?b] => destruct (Z.eqb_spec a b); try lia end;
     rewrite ?andb_false_r, ?andb_true_r, ?orb_false_r, ?orb_false_l; reflexivity|]).
  lia.
Qed.

Lemma bit_at_enc m l r i :
  (i / 8 < m)%nat -> bit_at (bits_enc_n m l ++ r) i = nth i l false.
Proof.
  intros Hi. unfold bit_at.
  rewrite app_nth1 by (rewrite bits_enc_n_length; exact Hi).
  rewrite bits_enc_n_nth by exact Hi.
  rewrite byte_at_testbit by (apply Nat.mod_upper_bound; lia).
  f_equal. pose proof (Nat.div_mod i 8). lia.
Qed.

Lemma map_nth_seq {A} (l : list A) d : map (fun i => nth i l d) (seq 0 (length l)) = l.
Proof.
  apply (nth_ext _ _ d d); [rewrite map_length, seq_length; reflexivity|].
  intros n Hn. rewrite map_length, seq_length in Hn.
  rewrite (nth_indep _ d (nth 0 l d)) by (rewrite map_length, seq_length; exact Hn).
  rewrite (map_nth (fun i => nth i l d)), seq_nth by exact Hn. reflexivity.
Qed.

Theorem bits_dec_enc l r : bits_dec (length l) (bits_enc l ++ r) = Some (l, r).
Proof.
  unfold bits_dec, bits_enc.
  destruct (length (bits_enc_n (nbytes (length l)) l ++ r) <? nbytes (length l))%nat eqn:E.
  { apply Nat.ltb_lt in E. rewrite app_length, bits_enc_n_length in E. lia. }
  f_equal. f_equal.
  - transitivity (map (fun i => nth i l false) (seq 0 (length l))); [|apply map_nth_seq].
    apply map_ext_in. intros i Hi.
    apply in_seq in Hi. apply bit_at_enc. unfold nbytes. lia.
  - rewrite <- (bits_enc_n_length (nbytes (length l)) l) at 1. apply skipn_app_exact.
Qed.

Lemma forallb_id_repeat l : forallb id l = true -> l = repeat true (length l).
Proof.
  induction l as [|b l IH]; intros H; [reflexivity|].
  cbn [forallb] in H. apply andb_true_iff in H as [Hb Hl]. unfold id in Hb. subst b.
  cbn [length repeat]. f_equal. apply IH. exact Hl.
Qed.

Theorem boolvec_dec_enc l c r : boolvec_dec (length l) c (boolvec_enc l c ++ r) = Some (l, r).
Proof.
  unfold boolvec_enc, boolvec_dec. destruct c; cbn [andb].
  - destruct (forallb id l) eqn:Ea.
    + cbn [app]. change (1 =? 0) with false. cbv iota.
      rewrite <- (forallb_id_repeat l Ea). reflexivity.
    + cbn [app]. change (0 =? 0) with true. cbv iota. apply bits_dec_enc.
  - cbn [app]. apply bits_dec_enc.
Qed.

Theorem boolvec_enc_wf l c : wf_bytes (boolvec_enc l c) = true.
Proof.
  unfold boolvec_enc. destruct (c && forallb id l); [reflexivity|].
  destruct c; cbn [app wf_bytes forallb]; apply bits_enc_wf.
Qed.

(* decoding succeeds exactly when enough bytes are present; the rest is untouched *)
Lemma bits_dec_length n bs l r : bits_dec n bs = Some (l, r) -> length l = n /\ r = skipn (nbytes n) bs.
Proof.
  unfold bits_dec. destruct (length bs <? nbytes n)%nat; [discriminate|].
  intros H. inversion H. rewrite map_length, seq_length. split; reflexivity.
Qed.

(* ---- how the packed bytes change when one more flag is appended (used for the
        tie with the generated write loop) ---- *)

Lemma nth_snoc {A} (l : list A) (x d : A) p :
  nth p (l ++ [x]) d = if (p =? length l)%nat then x else nth p l d.
Proof.
  destruct (Nat.eqb_spec p (length l)) as [->|Hne].
  - rewrite app_nth2 by lia. rewrite Nat.sub_diag. reflexivity.
  - destruct (Nat.lt_ge_cases p (length l)) as [Hlt|Hge].
    + apply app_nth1. exact Hlt.
    + rewrite !nth_overflow; [reflexivity|lia|rewrite app_length; cbn [length]; lia].
Qed.

Lemma fold_lor_upd (f g : nat -> Z) js j0 x :
  (forall j, j <> j0 -> g j = f j) -> f j0 = 0 -> g j0 = x -> In j0 js ->
  fold_right Z.lor 0 (map g js) = Z.lor (fold_right Z.lor 0 (map f js)) x.
Proof.
  intros Hne Hf0 Hg0. induction js as [|j js IH]; intros Hin; [destruct Hin|].
  cbn [map fold_right]. destruct (Nat.eq_dec j j0) as [->|Hj].
  - rewrite Hg0, Hf0, Z.lor_0_l. destruct (in_dec Nat.eq_dec j0 js) as [Hin'|Hnin].
    + rewrite IH by exact Hin'.
      rewrite (Z.lor_comm (fold_right Z.lor 0 (map f js)) x), Z.lor_assoc, Z.lor_diag.
      reflexivity.
    + rewrite (map_ext_in g f); [apply Z.lor_comm|].
      intros a Ha. apply Hne. intros ->. contradiction.
  - destruct Hin as [Hin|Hin]; [contradiction|].
    rewrite IH by exact Hin. rewrite Hne by exact Hj. apply Z.lor_assoc.
Qed.

Lemma byte_at_ext l l' k :
  (forall i, nth i l false = nth i l' false) -> byte_at l k = byte_at l' k.
Proof. intros H. unfold byte_at. f_equal. apply map_ext. intros j. rewrite H. reflexivity. Qed.

Lemma byte_at_nil k : byte_at [] k = 0.
Proof.
  unfold byte_at. cbn [seq map fold_right].
  repeat match goal with |- context[nth ?i [] false] =>
    replace (nth i [] false) with false by (destruct i; reflexivity) end.
  reflexivity.
Qed.

Lemma byte_at_snoc_false l k : byte_at (l ++ [false]) k = byte_at l k.
Proof.
  apply byte_at_ext. intros i. rewrite nth_snoc.
  destruct (Nat.eqb_spec i (length l)) as [->|Hne]; [|reflexivity].
  symmetry. apply nth_overflow. lia.
Qed.

Lemma byte_at_snoc_true l k :
  byte_at (l ++ [true]) k =
    if (k =? length l / 8)%nat
    then Z.lor (byte_at l k) (2 ^ (7 - Z.of_nat (length l mod 8)))
    else byte_at l k.
Proof.
  unfold byte_at. destruct (Nat.eqb_spec k (length l / 8)) as [Hk|Hk].
  - apply fold_lor_upd with (j0 := (length l mod 8)%nat).
    + intros j Hj. rewrite nth_snoc.
      destruct (Nat.eqb_spec (8 * k + j) (length l)) as [E|E]; [lia|reflexivity].
    + rewrite nth_overflow by lia. reflexivity.
    + rewrite nth_snoc.
      destruct (Nat.eqb_spec (8 * k + length l mod 8) (length l)) as [E|E]; [reflexivity|lia].
    + apply in_seq. lia.
  - f_equal. apply map_ext_in. intros j Hj. apply in_seq in Hj. rewrite nth_snoc.
    destruct (Nat.eqb_spec (8 * k + j) (length l)) as [E|E]; [lia|reflexivity].
Qed.

Lemma bits_enc_n_nil m : bits_enc_n m [] = repeatZ 0 m.
Proof.
  unfold bits_enc_n. generalize 0%nat. induction m as [|m IH]; intros a; [reflexivity|].
  cbn [seq map repeatZ]. rewrite byte_at_nil, IH. reflexivity.
Qed.

Lemma bits_enc_n_snoc_false m l : bits_enc_n m (l ++ [false]) = bits_enc_n m l.
Proof. unfold bits_enc_n. apply map_ext. intros k. apply byte_at_snoc_false. Qed.

Lemma list_set_nth {A} (l : list A) n x d k :
  (n < length l)%nat -> nth k (list_set l n x) d = if (k =? n)%nat then x else nth k l d.
Proof.
  revert n k. induction l as [|y l IH]; intros n k Hn; [cbn [length] in Hn; lia|].
  destruct n as [|n]; destruct k as [|k]; cbn [list_set nth Nat.eqb]; try reflexivity.
  apply IH. cbn [length] in Hn. lia.
Qed.

Lemma list_set_length {A} (l : list A) n x : length (list_set l n x) = length l.
Proof.
  revert n. induction l as [|y l IH]; intros n; [reflexivity|].
  destruct n; cbn [list_set length]; [reflexivity|]. rewrite IH. reflexivity.
Qed.

(* setting the bit of flag number |l| in the packed prefix = packing l ++ [true] *)
Lemma bits_enc_n_snoc_true m l :
  (length l / 8 < m)%nat ->
  bits_enc_n m (l ++ [true]) =
    list_set (bits_enc_n m l) (length l / 8)
      (Z.lor (nth (length l / 8) (bits_enc_n m l) 0) (2 ^ (7 - Z.of_nat (length l mod 8)))).
Proof.
  intros Hm. apply (nth_ext _ _ 0 0).
  { rewrite list_set_length, !bits_enc_n_length. reflexivity. }
  intros k Hk. rewrite bits_enc_n_length in Hk.
  rewrite list_set_nth by (rewrite bits_enc_n_length; exact Hm).
  rewrite !bits_enc_n_nth by assumption. rewrite byte_at_snoc_true.
  destruct (Nat.eqb_spec k (length l / 8)) as [->|Hne]; reflexivity.
Qed.

Print Assumptions bits_dec_enc.
Print Assumptions bits_enc_length.
Print Assumptions bits_enc_wf.
Print Assumptions boolvec_dec_enc.
Print Assumptions boolvec_enc_wf.
