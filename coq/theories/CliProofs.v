(* CliProofs.v -- theorems about the model of py7zr/cli.py in Cli.v (property C19). *)
From P7 Require Import Prelude Cli.
From Coq Require Import ZifyBool.
Open Scope Z_scope.

(* ------------------------------------------------------------------ span_digits *)

Definition head_not_digit (t : str) : Prop :=
  match t with [] => True | c :: _ => is_digit c = false end.

Lemma span_digits_spec : forall s d t, span_digits s = (d, t) ->
  s = d ++ t /\ forallb is_digit d = true /\ head_not_digit t.
Proof.
  induction s as [|c r IH]; intros d t Hs; cbn in Hs.
  - inversion Hs; subst. cbn. auto.
  - destruct (is_digit c) eqn:Hc.
    + destruct (span_digits r) as [d' t'] eqn:Hr. inversion Hs; subst.
      destruct (IH d' t eq_refl) as (H1 & H2 & H3). subst r. cbn. rewrite Hc, H2. auto.
    + inversion Hs; subst. cbn. auto.
Qed.

Lemma span_digits_app : forall d t, forallb is_digit d = true -> head_not_digit t ->
  span_digits (d ++ t) = (d, t).
Proof.
  induction d as [|c d IH]; intros t Hd Ht; cbn in *.
  - destruct t as [|c t]; [reflexivity|]. cbn in *. rewrite Ht. reflexivity.
  - apply andb_true_iff in Hd. destruct Hd as [Hc Hd]. rewrite Hc, (IH t Hd Ht). reflexivity.
Qed.

Lemma int_of_digits_acc_snoc : forall d a c,
  int_of_digits_acc a (d ++ [c]) = 10 * int_of_digits_acc a d + (c - 48).
Proof. induction d as [|x d IH]; intros a c; cbn; [reflexivity | apply IH]. Qed.

(* int_of_digits is the decimal value *)
Lemma int_of_digits_snoc : forall d c, int_of_digits (d ++ [c]) = 10 * int_of_digits d + (c - 48).
Proof. intros. apply int_of_digits_acc_snoc. Qed.

Lemma int_of_digits_acc_nonneg : forall d a, 0 <= a -> forallb is_digit d = true -> 0 <= int_of_digits_acc a d.
Proof.
  induction d as [|c d IH]; intros a Ha Hd; cbn [forallb int_of_digits_acc] in *; [exact Ha|].
  apply andb_true_iff in Hd. destruct Hd as [Hc Hd]. apply IH; [|exact Hd]. unfold is_digit in Hc. lia.
Qed.

Lemma unit_lower_ci : forall c, is_unit_lower c = true -> is_unit_ci c = true /\ (c =? 10) = false /\ is_digit c = false.
Proof. intros c H. unfold is_unit_ci, is_unit_ascii, is_unit_lower, is_digit in *. repeat split; lia. Qed.

Lemma unit_ci_not_digit : forall c, is_unit_ci c = true -> is_digit c = false /\ (c =? 10) = false.
Proof. intros c H. unfold is_unit_ci, is_unit_ascii, is_unit_lower, is_digit in *. split; lia. Qed.

Lemma dunits_ascii : forall c, is_unit_ascii c = true -> dunits [c] = Some (unit_multiplier c).
Proof.
  intros c H. unfold is_unit_ascii, is_unit_lower in H.
  assert (Hc : c = 98 \/ c = 107 \/ c = 109 \/ c = 103 \/ c = 66 \/ c = 75 \/ c = 77 \/ c = 71) by lia.
  destruct Hc as [->|[->|[->|[->|[->|[->|[->| ->]]]]]]]; reflexivity.
Qed.

(* ------------------------------------------------------------------ volume sizes *)

(* every documented size (at most 4300 digits) is accepted and converted to the number of bytes it
   denotes; without a unit letter the size is a number of bytes *)
Lemma volsize_accepts_help_grammar : forall s,
  in_help_grammar s = true -> num_digits s <= 4300 ->
  check_volumesize_valid s = true /\ volumesize_unitconv s = Ok (help_size s).
Proof.
  intros s Hg Hl. unfold in_help_grammar, num_digits, check_volumesize_valid, volumesize_unitconv,
    volumesize_unitconv_x, unit_pattern_match, help_size in *.
  destruct (span_digits s) as [num rest] eqn:Hs. cbn [fst] in Hl.
  destruct num as [|n0 num]; [discriminate|].
  unfold py_int, max_str_digits.
  destruct rest as [|c rest].
  - destruct (4300 <? Z.of_nat (length (n0 :: num))) eqn:Hgt; [lia|]. split; [reflexivity|].
    rewrite Z.mul_1_r. reflexivity.
  - destruct rest as [|c2 rest]; [|discriminate].
    destruct (unit_lower_ci c Hg) as (Hci & H10 & _). rewrite H10, Hci.
    destruct (4300 <? Z.of_nat (length (n0 :: num))) eqn:Hgt; [lia|]. split; [reflexivity|].
    rewrite dunits_ascii; [reflexivity|]. unfold is_unit_ascii. rewrite Hg. reflexivity.
Qed.

(* the digit-count limit of int() is the only obstacle: beyond it the conversion raises ValueError *)
Lemma volsize_digit_limit : forall s,
  in_help_grammar s = true -> 4300 < num_digits s -> volumesize_unitconv_x s = UcValueError.
Proof.
  intros s Hg Hl. unfold in_help_grammar, num_digits, volumesize_unitconv_x, unit_pattern_match in *.
  destruct (span_digits s) as [num rest] eqn:Hs. cbn [fst] in Hl.
  destruct num as [|n0 num]; [discriminate|].
  unfold py_int, max_str_digits.
  destruct rest as [|c rest].
  - destruct (4300 <? Z.of_nat (length (n0 :: num))) eqn:Hgt; [reflexivity|lia].
  - destruct rest as [|c2 rest]; [|discriminate].
    destruct (unit_lower_ci c Hg) as (Hci & H10 & _). rewrite H10, Hci.
    destruct (4300 <? Z.of_nat (length (n0 :: num))) eqn:Hgt; [reflexivity|lia].
Qed.

(* so the statement without the bound is false *)
Lemma volsize_too_many_digits_refuted :
  exists s, in_help_grammar s = true /\ volumesize_unitconv_x s = UcValueError.
Proof. exists (repeatZ 49 (Z.to_nat 4301) ++ [107]). vm_compute. auto. Qed.


(* the unit multipliers, both cases *)
Lemma unit_multipliers : forall num c,
  num <> [] -> forallb is_digit num = true -> Z.of_nat (length num) <= 4300 -> is_unit_ascii c = true ->
  volumesize_unitconv (num ++ [c]) = Ok (int_of_digits num * unit_multiplier c).
Proof.
  intros num c Hne Hd Hl Hc.
  assert (Hci : is_unit_ci c = true) by (unfold is_unit_ci; rewrite Hc; reflexivity).
  destruct (unit_ci_not_digit c Hci) as [Hnd H10].
  unfold volumesize_unitconv, volumesize_unitconv_x, unit_pattern_match.
  rewrite (span_digits_app num [c] Hd Hnd).
  destruct num as [|n0 num]; [congruence|].
  rewrite H10, Hci. unfold py_int, max_str_digits.
  destruct (4300 <? Z.of_nat (length (n0 :: num))) eqn:Hgt; [lia|].
  rewrite (dunits_ascii c Hc). reflexivity.
Qed.

Lemma unit_multiplier_table :
  unit_multiplier 98 = 1 /\ unit_multiplier 66 = 1 /\ unit_multiplier 107 = 1024 /\ unit_multiplier 75 = 1024 /\
  unit_multiplier 109 = 1048576 /\ unit_multiplier 77 = 1048576 /\
  unit_multiplier 103 = 1073741824 /\ unit_multiplier 71 = 1073741824.
Proof. vm_compute. repeat split; reflexivity. Qed.

(* the language _check_volumesize_valid accepts *)
Lemma check_volumesize_valid_spec : forall s,
  check_volumesize_valid s = true <->
  exists num u nl, s = num ++ u ++ nl /\ num <> [] /\ forallb is_digit num = true /\
                   (u = [] \/ exists c, u = [c] /\ is_unit_ci c = true) /\ (nl = [] \/ nl = [10]).
Proof.
  intros s. unfold check_volumesize_valid, unit_pattern_match. split.
  - destruct (span_digits s) as [num rest] eqn:Hs.
    destruct (span_digits_spec _ _ _ Hs) as (Happ & Hd & Hh).
    destruct num as [|n0 num]; [discriminate|].
    destruct rest as [|c rest].
    + intros _. exists (n0 :: num), [], []. repeat split; auto; congruence.
    + destruct rest as [|d rest].
      * destruct (c =? 10) eqn:H10.
        -- intros _. exists (n0 :: num), [], [10]. assert (c = 10) by lia. subst c.
           repeat split; auto; congruence.
        -- destruct (is_unit_ci c) eqn:Hci; [|discriminate]. intros _.
           exists (n0 :: num), [c], []. repeat split; eauto; congruence.
      * destruct rest as [|e rest]; [|discriminate].
        destruct (is_unit_ci c && (d =? 10)) eqn:Hcd; [|discriminate]. intros _.
        apply andb_true_iff in Hcd. destruct Hcd as [Hci Hd10]. assert (d = 10) by lia. subst d.
        exists (n0 :: num), [c], [10]. repeat split; eauto; congruence.
  - intros (num & u & nl & Hs & Hne & Hd & Hu & Hnl).
    assert (Hh : head_not_digit (u ++ nl)).
    { destruct Hu as [->|(c & -> & Hci)]; cbn.
      - destruct Hnl as [->| ->]; cbn; auto.
      - apply unit_ci_not_digit in Hci. tauto. }
    subst s. rewrite (span_digits_app num (u ++ nl) Hd Hh).
    destruct num as [|n0 num]; [congruence|].
    destruct Hu as [->|(c & -> & Hci)]; destruct Hnl as [->| ->]; cbn [app]; try reflexivity.
    + destruct (unit_ci_not_digit c Hci) as [_ H10]. rewrite H10, Hci. reflexivity.
    + rewrite Hci. reflexivity.
Qed.

(* every documented size passes the validity check ... *)
Lemma check_valid_covers_help : forall s, in_help_grammar s = true -> check_volumesize_valid s = true.
Proof.
  intros s Hg. unfold in_help_grammar, check_volumesize_valid, unit_pattern_match in *.
  destruct (span_digits s) as [num rest].
  destruct num as [|n0 num]; [discriminate|].
  destruct rest as [|c rest]; [reflexivity|].
  destruct rest as [|c2 rest]; [|discriminate].
  destruct (unit_lower_ci c Hg) as (Hci & H10 & _). rewrite H10, Hci. reflexivity.
Qed.

(* ... but the check accepts more than is documented (upper case; a trailing newline; U+212A) *)
Lemma check_valid_eq_help_refuted :
  exists s1 s2 s3, (check_volumesize_valid s1 = true /\ in_help_grammar s1 = false /\ volumesize_unitconv s1 = Ok 1024) /\
                   (check_volumesize_valid s2 = true /\ in_help_grammar s2 = false /\ volumesize_unitconv s2 = Ok 1024) /\
                   (check_volumesize_valid s3 = true /\ in_help_grammar s3 = false /\ volumesize_unitconv s3 = Err EOther).
Proof. exists [49; 75], [49; 107; 10], [49; 8490]. vm_compute. auto 10. Qed.

(* the validity check does not protect the conversion: FALSE that valid sizes convert *)
Lemma valid_implies_convertible_refuted :
  exists s, check_volumesize_valid s = true /\ volumesize_unitconv s = Err EOther.
Proof. exists [49; 8490]. vm_compute. auto. Qed.

(* strings the check rejects are answered -1, never an exception *)
Lemma invalid_gives_minus_one : forall s, check_volumesize_valid s = false -> volumesize_unitconv s = Ok (-1).
Proof.
  intros s H. unfold check_volumesize_valid, volumesize_unitconv, volumesize_unitconv_x in *.
  destruct (unit_pattern_match s); [discriminate | reflexivity].
Qed.

(* ------------------------------------------------------------------ exit status *)

Ltac dex o := destruct o as [[| | | | |[|]| | |]|].

Lemma status_of_zero : forall r, status_of r = Some 0 <-> proc_status r = 0.
Proof.
  intros [[n|]|n|e]; cbn; split; intro H; try reflexivity; try discriminate; try congruence.
Qed.

(* no except clause turns a failure into status 0 (nor into a None return) *)
Lemma no_handler_returns_zero : forall e,
  proc_status (test_handler e) <> 0 /\ proc_status (extract_open_handler e) <> 0 /\
  proc_status (extract_work_handler e) <> 0.
Proof. intros [| | | | |[|]| | |]; cbn; repeat split; discriminate. Qed.

(* x : status 0 exactly when every step succeeded *)
Lemma extract_status_bool : forall p v L, (proc_status (run_extract p v L) =? 0) = extract_success p v L.
Proof.
  intros p v [i g o inf w]. unfold run_extract, extract_success. cbn.
  destruct i; cbn; [|reflexivity].
  destruct p, g; cbn; try reflexivity; dex o; cbn; try reflexivity;
    destruct v; cbn; try (dex inf; cbn; try reflexivity); dex w; reflexivity.
Qed.

Lemma exit_status_truthful_x : forall p v L,
  cli_status (CmdX p v) L = Some 0 <-> extract_success p v L = true.
Proof.
  intros p v L. unfold cli_status. cbn. rewrite status_of_zero, <- extract_status_bool. lia.
Qed.

Lemma extract_damaged_nonzero : forall p v L,
  l_is7z L = false \/ l_open L <> None \/ l_work L <> None -> proc_status (run_extract p v L) <> 0.
Proof.
  intros p v L H Hz. apply Z.eqb_eq in Hz. rewrite extract_status_bool in Hz.
  unfold extract_success in Hz. destruct L as [i g o inf w]. cbn in *.
  destruct i; [|discriminate]. destruct o; [rewrite !andb_false_r in Hz; discriminate|].
  destruct w; [rewrite !andb_false_r in Hz; discriminate|].
  destruct H as [H|[H|H]]; congruence.
Qed.

(* t : status 0 exactly when every step succeeded *)
Lemma test_status_bool : forall L, (proc_status (run_test L) =? 0) = test_success L.
Proof.
  intros [i g o inf w]. unfold run_test, test_success. cbn in *.
  destruct i; cbn; [|reflexivity].
  dex o; cbn; try reflexivity; dex inf; cbn; try reflexivity; dex w; reflexivity.
Qed.

Lemma exit_status_truthful_t : forall L, cli_status CmdT L = Some 0 <-> test_success L = true.
Proof.
  intros L. unfold cli_status. cbn. rewrite status_of_zero, <- (test_status_bool L). lia.
Qed.

Lemma test_damaged_nonzero : forall L,
  l_is7z L = false \/ l_open L <> None \/ l_work L <> None -> proc_status (run_test L) <> 0.
Proof.
  intros L H Hz. apply Z.eqb_eq in Hz. rewrite test_status_bool in Hz.
  unfold test_success in Hz. destruct L as [i g o inf w]. cbn in *.
  destruct i; [|discriminate]. destruct o; [discriminate|]. destruct inf; [discriminate|].
  destruct w; [discriminate|]. destruct H as [H|[H|H]]; congruence.
Qed.

(* a folder-level CRC mismatch (CrcError without a member name) is reported by t as by x *)
Lemma folder_crc_nonzero : forall L, l_work L = Some (XCrc false) ->
  proc_status (run_test L) <> 0 /\ proc_status (run_extract false false L) <> 0.
Proof.
  intros L H. split; [apply test_damaged_nonzero | apply extract_damaged_nonzero]; right; right; congruence.
Qed.

(* testzip itself: None exactly when the worker raised nothing *)
Lemma testzip_none_iff : forall w, testzip w = TzNone <-> w = None.
Proof. intros w. dex w; cbn; split; intro H; auto; discriminate. Qed.


(* l *)
Lemma list_status_bool : forall L, (proc_status (run_list L) =? 0) = list_success L.
Proof.
  intros [i g o inf w]. unfold run_list, list_success. cbn.
  destruct i; cbn; [|reflexivity].
  dex o; cbn; try reflexivity; dex inf; cbn; try reflexivity; dex w; reflexivity.
Qed.

Lemma exit_status_truthful_l : forall L, cli_status CmdL L = Some 0 <-> list_success L = true.
Proof. intros L. unfold cli_status. cbn. rewrite status_of_zero, <- list_status_bool. lia. Qed.

(* --version and i succeed *)
Lemma version_status : forall r, proc_status (cli_run true r) = 0.
Proof. reflexivity. Qed.

(* ------------------------------------------------------------------ c / a *)

Lemma ends_with_7z_app : forall s, ends_with_7z (s ++ dot7z) = true.
Proof. intros s. unfold ends_with_7z, dot7z. rewrite rev_app_distr. reflexivity. Qed.

Lemma create_target_7z : forall arc,
  ends_with_7z (create_target arc) = true /\ (ends_with_7z arc = true -> create_target arc = arc) /\
  (ends_with_7z arc = false -> create_target arc = arc ++ dot7z).
Proof.
  intros arc. unfold create_target. destruct (ends_with_7z arc) eqn:H.
  - repeat split; auto; discriminate.
  - split; [apply ends_with_7z_app|]. split; [discriminate | reflexivity].
Qed.

Lemma write_steps_status : forall L, (proc_status (write_steps L) =? 0) = write_ok L.
Proof. intros [i g o inf w]. unfold write_steps, write_ok. cbn. dex o; cbn; try reflexivity; dex w; reflexivity. Qed.

(* c -v SIZE with a documented SIZE: the volume size handed to multivolumefile is the size denoted, the
   archive name ends in .7z, and the status is that of the library steps *)
Lemma create_accepts_help_grammar : forall v arc p L,
  in_help_grammar v = true -> num_digits v <= 4300 -> p && l_getpass_warn L = false ->
  run_create (Some v) arc false p L = (write_steps L, create_target arc, Some (help_size v)).
Proof.
  intros v arc p L Hg Hl Hp. unfold run_create.
  destruct (volsize_accepts_help_grammar v Hg Hl) as [Hv Hc].
  rewrite Hv, Hp. cbn [negb].
  unfold volumesize_unitconv in Hc. destruct (volumesize_unitconv_x v); try discriminate.
  inversion Hc. reflexivity.
Qed.


Lemma create_no_volume : forall arc p L, p && l_getpass_warn L = false ->
  run_create None arc false p L = (write_steps L, create_target arc, None).
Proof. intros arc p L Hp. unfold run_create. rewrite Hp. reflexivity. Qed.

(* c never reports 0 unless the library steps were reached and completed *)
Lemma create_status_zero : forall vol arc ex p L,
  proc_status (fst (fst (run_create vol arc ex p L))) = 0 ->
  ex = false /\ write_ok L = true /\ (p && l_getpass_warn L = false) /\
  match vol with Some v => exists n, volumesize_unitconv_x v = UcOk n /\ check_volumesize_valid v = true | None => True end.
Proof.
  intros vol arc ex p L. unfold run_create.
  destruct vol as [v|].
  - destruct (check_volumesize_valid v) eqn:Hv; cbn [negb]; [|cbn; discriminate].
    destruct ex; [cbn; discriminate|].
    destruct (p && l_getpass_warn L); [cbn; discriminate|].
    destruct (volumesize_unitconv_x v) eqn:Hc; cbn [fst]; try (cbn; discriminate).
    intros H. apply Z.eqb_eq in H. rewrite write_steps_status in H. eauto 6.
  - destruct ex; [cbn; discriminate|].
    destruct (p && l_getpass_warn L); [cbn; discriminate|]. cbn [fst].
    intros H. apply Z.eqb_eq in H. rewrite write_steps_status in H. auto.
Qed.

Lemma append_status_bool : forall arc ex L,
  (proc_status (run_append arc ex L) =? 0) = ends_with_7z arc && ex && write_ok L.
Proof.
  intros arc ex L. unfold run_append. destruct (ends_with_7z arc); cbn; [|reflexivity].
  destruct ex; cbn; [|reflexivity]. apply write_steps_status.
Qed.

(* run_list's volume test *)
Lemma list_volume_args_examples :
  list_volume_args [46; 48; 48; 48; 49] = Some (4, 1) /\ list_volume_args [46; 48; 48; 48] = Some (3, 0) /\
  list_volume_args [46; 48; 48; 48; 50] = None /\ list_volume_args [46; 55; 122] = None /\
  list_volume_args [46; 49] = None.
Proof. vm_compute. auto 10. Qed.
