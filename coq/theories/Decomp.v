(* Decomp.v -- model of py7zr.compressor.SevenZipDecompressor
   (_decompress / _read_data / decompress, compressor.py l.671-728) and of the
   caller loop Worker.decompress (py7zr.py l.1461-1510).

   Part 1 "Model"  : all definitions (computable, extracted and run against Python).
   Part 2 "Proofs" : invariants, length bound, prefix safety, worker results,
                     non-termination finding, non-vacuity of the stage contract.
   stdlib only; no axioms. *)
From P7 Require Import Prelude.

(* ===================================================================== *)
(*                              PART 1 : MODEL                           *)
(* ===================================================================== *)

Definition zlen (b : bytes) : Z := Z.of_nat (length b).

(* ---- Python slice semantics (step 1) -------------------------------- *)
(* PySlice_AdjustIndices: negative indices are shifted by len, then clamped
   into [0, len]. *)
Definition py_norm (n i : Z) : Z :=
  let i' := if i <? 0 then i + n else i in Z.max 0 (Z.min n i').

(* l[a:b] *)
Definition py_slice (l : bytes) (a b : Z) : bytes :=
  let n := zlen l in
  let a' := py_norm n a in
  let b' := py_norm n b in
  firstn (Z.to_nat (b' - a')) (skipn (Z.to_nat a') l).
(* l[a:] *)
Definition py_from (l : bytes) (a : Z) : bytes := py_slice l a (zlen l).
(* l[:b] *)
Definition py_to (l : bytes) (b : Z) : bytes := py_slice l 0 b.

(* ---- fp.read(n) with a possible short read --------------------------- *)
(* returns min(n, k, len avail) bytes and the remaining file content.
   k >= n means "full read". *)
Definition fp_read (avail : bytes) (n : Z) (k : nat) : bytes * bytes :=
  let m := Nat.min (Z.to_nat n) k in (firstn m avail, skipn m avail).

(* specification-level vocabulary (Prop, not extracted) *)
Definition prefix (a b : bytes) : Prop := exists c, b = a ++ c.

Section Chain.

  (* one element of self.chain: (state, input chunk, max_length) -> (state', output) *)
  Variable stage_st : Type.
  Variable dstep : stage_st -> bytes -> Z -> stage_st * bytes.

  Record dstate : Type := mkD {
    stages      : list stage_st;  (* self.chain                      *)
    unpacked    : list Z;         (* self._unpacked                  *)
    unpacksizes : list Z;         (* self._unpacksizes               *)
    consumed    : Z;              (* self.consumed                   *)
    input_size  : Z;              (* self.input_size                 *)
    block_size  : Z;              (* self.block_size                 *)
    unused      : bytes;          (* self._unused                    *)
    buf         : bytes;          (* self._buf                       *)
    pos         : Z;              (* self._pos                       *)
    fp_rest     : bytes           (* bytes of fp not yet read        *)
  }.

  (* _decompress (l.671-680).  The three lists are walked in parallel;
     an index that does not exist in _unpacked/_unpacksizes is Python's
     IndexError -> Err EOther.  Entries of _unpacked beyond len(chain) are
     kept untouched. *)
  Fixpoint chain_run (ss : list stage_st) (up us : list Z) (data : bytes) (ml : Z)
    : res (list stage_st * list Z * bytes) :=
    match ss with
    | [] => Ok ([], up, data)
    | s :: ss' =>
      match up, us with
      | u :: up', z :: us' =>
        if u <? z then
          let '(s', out) := dstep s data ml in
          do r <- chain_run ss' up' us' out ml;
          let '(ss'', up'', d) := r in
          Ok (s' :: ss'', (u + zlen out) :: up'', d)
        else if zlen data =? 0 then
          do r <- chain_run ss' up' us' [] ml;
          let '(ss'', up'', d) := r in
          Ok (s :: ss'', u :: up'', d)
        else Err EEof
      | _, _ => Err EOther
      end
    end.

  (* _read_data (l.682-698) *)
  Definition read_data (st : dstate) (rd : nat) : dstate * bytes :=
    let rest_size := input_size st - consumed st in
    let unused_s := zlen (unused st) in
    let read_size := Z.min (rest_size - unused_s) (block_size st - unused_s) in
    if read_size >? 0 then
      let '(data, rest) := fp_read (fp_rest st) read_size rd in
      (mkD (stages st) (unpacked st) (unpacksizes st) (consumed st + zlen data)
           (input_size st) (block_size st) (unused st) (buf st) (pos st) rest,
       data)
    else (st, []).

  (* self._decompress(data, max_length) on a whole state *)
  Definition run_chain (st : dstate) (data : bytes) (ml : Z) : res (dstate * bytes) :=
    do r <- chain_run (stages st) (unpacked st) (unpacksizes st) data ml;
    let '(ss, up, out) := r in
    Ok (mkD ss up (unpacksizes st) (consumed st) (input_size st) (block_size st)
            (unused st) (buf st) (pos st) (fp_rest st), out).

  Definition set_buf (st : dstate) (un b : bytes) (p : Z) : dstate :=
    mkD (stages st) (unpacked st) (unpacksizes st) (consumed st) (input_size st)
        (block_size st) un b p (fp_rest st).

  (* decompress (l.700-728); self.digest is not modelled *)
  Definition decompress (st : dstate) (max_length : Z) (rd : nat) : res (dstate * bytes) :=
    if max_length <? 0 then
      let '(st1, data) := read_data st rd in
      let carried := py_from (buf st1) (pos st1) in
      do r <- run_chain st1 (unused st1 ++ data) max_length;
      let '(st2, out) := r in
      Ok (set_buf st2 [] [] 0, carried ++ out)
    else
      let current_buf_len := zlen (buf st) - pos st in
      if current_buf_len >=? max_length then
        Ok (set_buf st (unused st) (buf st) (pos st + max_length),
            py_slice (buf st) (pos st) (pos st + max_length))
      else
        let '(st1, data) := read_data st rd in
        do r <- (if zlen (unused st1) >? 0
                 then (do r' <- run_chain st1 (unused st1 ++ data) max_length;
                       let '(st2, tmp) := r' in
                       Ok (set_buf st2 [] (buf st2) (pos st2), tmp))
                 else run_chain st1 data max_length);
        let '(st2, tmp) := r in
        if current_buf_len + zlen tmp <=? max_length then
          Ok (set_buf st2 (unused st2) [] 0, py_from (buf st2) (pos st2) ++ tmp)
        else
          Ok (set_buf st2 (unused st2) (py_from tmp (max_length - current_buf_len)) 0,
              py_from (buf st2) (pos st2) ++ py_to tmp (max_length - current_buf_len)).

  (* next element of the read schedule; an exhausted schedule means full reads *)
  Definition sched_hd (st : dstate) (sched : list nat) : nat :=
    match sched with k :: _ => k | [] => length (fp_rest st) end.

  (* Worker.decompress loop (py7zr.py l.1492-1506).  Result: final state and
     everything written to fq.  fuel bounds the number of iterations; the
     Python loop has no such bound. *)
  Fixpoint worker_decompress (fuel : nat) (st : dstate) (size max_block : Z)
           (sched : list nat) : res (dstate * bytes) :=
    if size >? 0 then
      match fuel with
      | O => Err EFuel
      | S fuel' =>
        do r <- decompress st (Z.min size max_block) (sched_hd st sched);
        let '(st', tmp) := r in
        let rem := if zlen tmp >? 0 then size - zlen tmp else size in
        if rem <=? 0 then Ok (st', tmp)
        else
          do r' <- worker_decompress fuel' st' rem max_block (tl sched);
          let '(st'', out) := r' in
          Ok (st'', tmp ++ out)
      end
    else Ok (st, []).

  (* a sequence of decompress calls (max_length, read-schedule element);
     result: final state and concatenation of the returned chunks *)
  Fixpoint decompress_seq (st : dstate) (calls : list (Z * nat)) : res (dstate * bytes) :=
    match calls with
    | [] => Ok (st, [])
    | (ml, rd) :: calls' =>
      do r <- decompress st ml rd;
      let '(st', out) := r in
      do r' <- decompress_seq st' calls';
      let '(st'', outs) := r' in
      Ok (st'', out ++ outs)
    end.

  (* same, but returning each call's result; stops after the first Err *)
  Fixpoint decompress_trace (st : dstate) (calls : list (Z * nat)) : list (res bytes) :=
    match calls with
    | [] => []
    | (ml, rd) :: calls' =>
      match decompress st ml rd with
      | Ok (st', out) => Ok out :: decompress_trace st' calls'
      | Err e => [Err e]
      end
    end.

  (* state right after SevenZipDecompressor.__init__ plus the file content *)
  Definition init_state (ss : list stage_st) (us : list Z) (isz bsz : Z) (fp : bytes) : dstate :=
    mkD ss (map (fun _ => 0) us) us 0 isz bsz [] [] 0 fp.

  (* ---- specification-level definitions (Prop; not extracted) -------- *)

  (* bookkeeping invariant; L0 = length of the file content at creation *)
  Definition book_inv (L0 : Z) (st : dstate) : Prop :=
    0 <= pos st <= zlen (buf st) /\ unused st = [] /\
    consumed st + zlen (fp_rest st) = L0.

  (* "run" of one stage: from initial state s0, after being fed chunks whose
     concatenation is cin (with arbitrary max_lengths) the stage is in state s
     and the concatenation of its outputs is cout *)
  Inductive reach (s0 : stage_st) : stage_st -> bytes -> bytes -> Prop :=
  | reach_init : reach s0 s0 [] []
  | reach_step : forall s cin cout c ml,
      reach s0 s cin cout ->
      reach s0 (fst (dstep s c ml)) (cin ++ c) (cout ++ snd (dstep s c ml)).

  (* runs of a whole chain: stage i's accumulated output is stage i+1's
     accumulated input *)
  Inductive creach : list stage_st -> list stage_st -> bytes -> bytes -> Prop :=
  | creach_nil : forall x, creach [] [] x x
  | creach_cons : forall s0 s x y s0s ss z,
      reach s0 s x y -> creach s0s ss y z -> creach (s0 :: s0s) (s :: ss) x z.

  (* composition of the stages' stream decoders, in chain order *)
  Fixpoint Dchain (D : stage_st -> bytes -> bytes) (s0s : list stage_st) (x : bytes) : bytes :=
    match s0s with [] => x | s :: t => Dchain D t (D s x) end.

  (* invariant of prefix safety: s0s = initial stage states, P0 = initial file
     content, acc = everything returned by decompress so far *)
  Definition safe_state (s0s : list stage_st) (P0 : bytes) (st : dstate) (acc : bytes) : Prop :=
    0 <= pos st <= zlen (buf st) /\ unused st = [] /\
    exists x z, creach s0s (stages st) x z /\ P0 = x ++ fp_rest st /\
                consumed st = zlen x /\ zlen x <= Z.max 0 (input_size st) /\
                z = acc ++ py_from (buf st) (pos st).

  (* state of a freshly created decompressor *)
  Definition fresh (st : dstate) : Prop :=
    consumed st = 0 /\ unused st = [] /\ buf st = [] /\ pos st = 0.

  (* the packed stream: first input_size bytes of the file content *)
  Definition packed_of (st : dstate) : bytes :=
    firstn (Z.to_nat (input_size st)) (fp_rest st).

  (* hang condition of the caller loop (theorem worker_spins) *)
  Definition stuck (quiet : stage_st -> Prop) (st : dstate) : Prop :=
    Forall quiet (stages st) /\
    (length (stages st) <= length (unpacked st))%nat /\
    (length (stages st) <= length (unpacksizes st))%nat /\
    unused st = [] /\ pos st = zlen (buf st) /\
    (fp_rest st = [] \/ input_size st <= consumed st \/ block_size st <= 0).

End Chain.

Arguments mkD {stage_st}.
Arguments stages {stage_st}.
Arguments unpacked {stage_st}.
Arguments unpacksizes {stage_st}.
Arguments consumed {stage_st}.
Arguments input_size {stage_st}.
Arguments block_size {stage_st}.
Arguments unused {stage_st}.
Arguments buf {stage_st}.
Arguments pos {stage_st}.
Arguments fp_rest {stage_st}.
Arguments chain_run {stage_st}.
Arguments read_data {stage_st}.
Arguments run_chain {stage_st}.
Arguments set_buf {stage_st}.
Arguments decompress {stage_st}.
Arguments sched_hd {stage_st}.
Arguments worker_decompress {stage_st}.
Arguments decompress_seq {stage_st}.
Arguments decompress_trace {stage_st}.
Arguments init_state {stage_st}.
Arguments book_inv {stage_st}.
Arguments reach {stage_st}.
Arguments creach {stage_st}.
Arguments Dchain {stage_st}.
Arguments safe_state {stage_st}.
Arguments fresh {stage_st}.
Arguments packed_of {stage_st}.
Arguments stuck {stage_st}.

(* ---- toy stages for differential testing ---------------------------- *)
(* state = (tag, k, pending).
   tag 0 : copy            -- returns its input, ignores max_length
   tag 1 : lagging copy    -- avail = pending ++ input; if the input is empty
                              everything is releasable, otherwise all but the
                              last k bytes (k<0 counts as 0); out = releasable
                              (max_length < 0) or its first max_length bytes;
                              pending' = the rest of avail
   tag 2 : expander        -- every input byte twice, ignores max_length
   other : as tag 0 *)
Definition toy_state : Type := (Z * Z * bytes)%type.

Fixpoint dup (l : bytes) : bytes :=
  match l with [] => [] | x :: t => x :: x :: dup t end.

Definition toy_dstep (s : toy_state) (data : bytes) (ml : Z) : toy_state * bytes :=
  let '(tag, k, pend) := s in
  if tag =? 1 then
    let avail := pend ++ data in
    let nrel := if zlen data =? 0 then length avail
                else (length avail - Z.to_nat k)%nat in
    let nout := if ml <? 0 then nrel else Nat.min nrel (Z.to_nat ml) in
    ((tag, k, skipn nout avail), firstn nout avail)
  else if tag =? 2 then (s, dup data)
  else (s, data).

(* stream denotation of a toy stage started in state s *)
Definition toy_D (s : toy_state) (x : bytes) : bytes :=
  let '(tag, k, pend) := s in
  if tag =? 1 then pend ++ x else if tag =? 2 then dup x else x.

Definition toy_init (sts : list toy_state) (us : list Z) (isz bsz : Z) (packed : bytes)
  : dstate toy_state := init_state sts us isz bsz packed.

Definition toy_run (sts : list toy_state) (us : list Z) (isz bsz : Z) (packed : bytes)
           (calls : list (Z * nat)) : list (res bytes) :=
  decompress_trace toy_dstep (toy_init sts us isz bsz packed) calls.

Definition toy_worker (fuel : nat) (sts : list toy_state) (us : list Z) (isz bsz : Z)
           (packed : bytes) (size mb : Z) (sched : list nat) : res bytes :=
  do r <- worker_decompress toy_dstep fuel (toy_init sts us isz bsz packed) size mb sched;
  Ok (snd r).

(* driver entry points *)
Definition t_toy_state (t : tree) : toy_state :=
  (of_TI (tnth t 0), of_TI (tnth t 1), of_bytes (tnth t 2)).
Definition t_call (t : tree) : Z * nat := (of_TI (tnth t 0), Z.to_nat (of_TI (tnth t 1))).

(* args: [states; unpacksizes; input_size; block_size; packed; calls] *)
Definition toy_run_t (t : tree) : tree :=
  TL (map (t_res t_bytes)
          (toy_run (map t_toy_state (of_TL (tnth t 0))) (map of_TI (of_TL (tnth t 1)))
                   (of_TI (tnth t 2)) (of_TI (tnth t 3)) (of_bytes (tnth t 4))
                   (map t_call (of_TL (tnth t 5))))).

(* args: [fuel; states; unpacksizes; input_size; block_size; packed; size; mb; sched] *)
Definition toy_worker_t (t : tree) : tree :=
  t_res t_bytes
        (toy_worker (Z.to_nat (of_TI (tnth t 0)))
                    (map t_toy_state (of_TL (tnth t 1))) (map of_TI (of_TL (tnth t 2)))
                    (of_TI (tnth t 3)) (of_TI (tnth t 4)) (of_bytes (tnth t 5))
                    (of_TI (tnth t 6)) (of_TI (tnth t 7))
                    (map (fun x => Z.to_nat (of_TI x)) (of_TL (tnth t 8)))).
