(* Decomp.v -- model of py7zr.compressor.SevenZipDecompressor
   (_decompress / _read_data / decompress, compressor.py l.671-728) and of the
   caller loop Worker.decompress (py7zr.py l.1461-1510).

   Part 1 "Model"  : all definitions (computable, extracted and run against Python).
   Part 2 "Proofs" : invariants, length bound, prefix safety, worker results,
                     non-termination finding, non-vacuity of the stage contract.
   stdlib only; no axioms. *)
From P7 Require Import Prelude.

(* ===================================================================== *)
(*                              PART 1 : MODEL                           *)
(* ===================================================================== *)

Definition zlen (b : bytes) : Z := Z.of_nat (length b).

(* ---- Python slice semantics (step 1) -------------------------------- *)
(* PySlice_AdjustIndices: negative indices are shifted by len, then clamped
   into [0, len]. *)
Definition py_norm (n i : Z) : Z :=
  let i' := if i <? 0 then i + n else i in Z.max 0 (Z.min n i').

(* l[a:b] *)
Definition py_slice (l : bytes) (a b : Z) : bytes :=
  let n := zlen l in
  let a' := py_norm n a in
  let b' := py_norm n b in
  firstn (Z.to_nat (b' - a')) (skipn (Z.to_nat a') l).
(* l[a:] *)
Definition py_from (l : bytes) (a : Z) : bytes := py_slice l a (zlen l).
(* l[:b] *)
Definition py_to (l : bytes) (b : Z) : bytes := py_slice l 0 b.

(* ---- fp.read(n) with a possible short read --------------------------- *)
(* returns min(n, k, len avail) bytes and the remaining file content.
   k >= n means "full read". *)
Definition fp_read (avail : bytes) (n : Z) (k : nat) : bytes * bytes :=
  let m := Nat.min (Z.to_nat n) k in (firstn m avail, skipn m avail).

(* specification-level vocabulary (Prop, not extracted) *)
Definition prefix (a b : bytes) : Prop := exists c, b = a ++ c.

(* data[: n] for the stages that have a successor, data itself for the last one *)
Definition trim_out {A : Type} (rest : list A) (out0 : bytes) (n : Z) : bytes :=
  match rest with [] => out0 | _ :: _ => py_to out0 n end.

(* fed and len(data) == 0 and i < len(self.chain) - 1 *)
Definition stop_here {A : Type} (rest : list A) (data out : bytes) : bool :=
  (0 <? Z.of_nat (length data)) && (Z.of_nat (length out) =? 0) && match rest with [] => false | _ :: _ => true end.

Section Chain.

  (* one element of self.chain: (state, input chunk, max_length) -> (state', output) *)
  Variable stage_st : Type.
  Variable dstep : stage_st -> bytes -> Z -> stage_st * bytes.

  Record dstate : Type := mkD {
    stages      : list stage_st;  (* self.chain                      *)
    unpacked    : list Z;         (* self._unpacked                  *)
    unpacksizes : list Z;         (* self._unpacksizes               *)
    consumed    : Z;              (* self.consumed                   *)
    input_size  : Z;              (* self.input_size                 *)
    block_size  : Z;              (* self.block_size                 *)
    unused      : bytes;          (* self._unused                    *)
    buf         : bytes;          (* self._buf                       *)
    pos         : Z;              (* self._pos                       *)
    fp_rest     : bytes           (* bytes of fp not yet read        *)
  }.

  (* _decompress, with the trimming of inner stages' output to their declared size (the 7zAES zero
     padding does not reach the next decoder).  The three lists are walked in parallel;
     an index that does not exist in _unpacked/_unpacksizes is Python's
     IndexError -> Err EOther.  Entries of _unpacked beyond len(chain) are
     kept untouched. *)
  Fixpoint chain_run (ss : list stage_st) (up us : list Z) (data : bytes) (ml : Z)
    : res (list stage_st * list Z * bytes) :=
    match ss with
    | [] => Ok ([], up, data)
    | s :: ss' =>
      match up, us with
      | u :: up', z :: us' =>
        if u <? z then
          let '(s', out0) := dstep s data ml in
          (* a non-final stage's output is cut to what its declared size still allows:
             data = data[: self._unpacksizes[i] - self._unpacked[i]] when i < len(chain) - 1 *)
          let out := trim_out ss' out0 (z - u) in
          (* a non-final stage that was given input and delivers nothing needs more input: the
             round ends here (`return b""`); an empty chunk would tell the stages behind it that
             the input has ended *)
          if stop_here ss' data out then Ok (s' :: ss', (u + zlen out) :: up', [])
          else
          do r <- chain_run ss' up' us' out ml;
          let '(ss'', up'', d) := r in
          Ok (s' :: ss'', (u + zlen out) :: up'', d)
        else if zlen data =? 0 then
          do r <- chain_run ss' up' us' [] ml;
          let '(ss'', up'', d) := r in
          Ok (s :: ss'', u :: up'', d)
        else Err EEof
      | _, _ => Err EOther
      end
    end.

  (* _read_data (l.682-698) *)
  Definition read_data (st : dstate) (rd : nat) : dstate * bytes :=
    let rest_size := input_size st - consumed st in
    let unused_s := zlen (unused st) in
    let read_size := Z.min (rest_size - unused_s) (block_size st - unused_s) in
    if read_size >? 0 then
      let '(data, rest) := fp_read (fp_rest st) read_size rd in
      (mkD (stages st) (unpacked st) (unpacksizes st) (consumed st + zlen data)
           (input_size st) (block_size st) (unused st) (buf st) (pos st) rest,
       data)
    else (st, []).

  (* self._decompress(data, max_length) on a whole state *)
  Definition run_chain (st : dstate) (data : bytes) (ml : Z) : res (dstate * bytes) :=
    do r <- chain_run (stages st) (unpacked st) (unpacksizes st) data ml;
    let '(ss, up, out) := r in
    Ok (mkD ss up (unpacksizes st) (consumed st) (input_size st) (block_size st)
            (unused st) (buf st) (pos st) (fp_rest st), out).

  Definition set_buf (st : dstate) (un b : bytes) (p : Z) : dstate :=
    mkD (stages st) (unpacked st) (unpacksizes st) (consumed st) (input_size st)
        (block_size st) un b p (fp_rest st).

  (* decompress (l.700-728); self.digest is not modelled *)
  Definition decompress (st : dstate) (max_length : Z) (rd : nat) : res (dstate * bytes) :=
    if max_length <? 0 then
      let '(st1, data) := read_data st rd in
      let carried := py_from (buf st1) (pos st1) in
      do r <- run_chain st1 (unused st1 ++ data) max_length;
      let '(st2, out) := r in
      Ok (set_buf st2 [] [] 0, carried ++ out)
    else
      let current_buf_len := zlen (buf st) - pos st in
      if current_buf_len >=? max_length then
        Ok (set_buf st (unused st) (buf st) (pos st + max_length),
            py_slice (buf st) (pos st) (pos st + max_length))
      else
        let '(st1, data) := read_data st rd in
        do r <- (if zlen (unused st1) >? 0
                 then (do r' <- run_chain st1 (unused st1 ++ data) max_length;
                       let '(st2, tmp) := r' in
                       Ok (set_buf st2 [] (buf st2) (pos st2), tmp))
                 else run_chain st1 data max_length);
        let '(st2, tmp) := r in
        if current_buf_len + zlen tmp <=? max_length then
          Ok (set_buf st2 (unused st2) [] 0, py_from (buf st2) (pos st2) ++ tmp)
        else
          Ok (set_buf st2 (unused st2) (py_from tmp (max_length - current_buf_len)) 0,
              py_from (buf st2) (pos st2) ++ py_to tmp (max_length - current_buf_len)).

  (* next element of the read schedule; an exhausted schedule means full reads *)
  Definition sched_hd (st : dstate) (sched : list nat) : nat :=
    match sched with k :: _ => k | [] => length (fp_rest st) end.

  (* Worker.decompress loop (py7zr.py l.1492-1506).  Result: final state and
     everything written to fq.  fuel bounds the number of iterations; the
     Python loop has no such bound. *)
  Fixpoint worker_decompress (fuel : nat) (st : dstate) (size max_block : Z)
           (sched : list nat) : res (dstate * bytes) :=
    if size >? 0 then
      match fuel with
      | O => Err EFuel
      | S fuel' =>
        do r <- decompress st (Z.min size max_block) (sched_hd st sched);
        let '(st', tmp) := r in
        let rem := if zlen tmp >? 0 then size - zlen tmp else size in
        if rem <=? 0 then Ok (st', tmp)
        else
          do r' <- worker_decompress fuel' st' rem max_block (tl sched);
          let '(st'', out) := r' in
          Ok (st'', tmp ++ out)
      end
    else Ok (st, []).

  (* a sequence of decompress calls (max_length, read-schedule element);
     result: final state and concatenation of the returned chunks *)
  Fixpoint decompress_seq (st : dstate) (calls : list (Z * nat)) : res (dstate * bytes) :=
    match calls with
    | [] => Ok (st, [])
    | (ml, rd) :: calls' =>
      do r <- decompress st ml rd;
      let '(st', out) := r in
      do r' <- decompress_seq st' calls';
      let '(st'', outs) := r' in
      Ok (st'', out ++ outs)
    end.

  (* same, but returning each call's result; stops after the first Err *)
  Fixpoint decompress_trace (st : dstate) (calls : list (Z * nat)) : list (res bytes) :=
    match calls with
    | [] => []
    | (ml, rd) :: calls' =>
      match decompress st ml rd with
      | Ok (st', out) => Ok out :: decompress_trace st' calls'
      | Err e => [Err e]
      end
    end.

  (* state right after SevenZipDecompressor.__init__ plus the file content *)
  Definition init_state (ss : list stage_st) (us : list Z) (isz bsz : Z) (fp : bytes) : dstate :=
    mkD ss (map (fun _ => 0) us) us 0 isz bsz [] [] 0 fp.

  (* ---- specification-level definitions (Prop; not extracted) -------- *)

  (* bookkeeping invariant; L0 = length of the file content at creation *)
  Definition book_inv (L0 : Z) (st : dstate) : Prop :=
    0 <= pos st <= zlen (buf st) /\ unused st = [] /\
    consumed st + zlen (fp_rest st) = L0.

  (* "run" of one stage: from initial state s0, after being fed chunks whose
     concatenation is cin (with arbitrary max_lengths) the stage is in state s
     and the concatenation of its outputs is cout *)
  Inductive reach (s0 : stage_st) : stage_st -> bytes -> bytes -> Prop :=
  | reach_init : reach s0 s0 [] []
  | reach_step : forall s cin cout c ml,
      reach s0 s cin cout ->
      reach s0 (fst (dstep s c ml)) (cin ++ c) (cout ++ snd (dstep s c ml)).

  (* runs of a whole chain: stage i+1's accumulated input y' is stage i's accumulated
     output y, or -- once the gate of stage i has closed (declared size reached) -- a prefix
     of it (the rest was cut off as padding).  up / us = _unpacked / _unpacksizes. *)
  Inductive creach : list stage_st -> list stage_st -> list Z -> list Z -> bytes -> bytes -> Prop :=
  | creach_nil : forall up us x, creach [] [] up us x x
  | creach_cons : forall s0 s x y y' s0s ss up us w,
      reach s0 s x y -> prefix y' y -> (y' = y \/ hd 0 us <= hd 0 up) ->
      creach s0s ss (tl up) (tl us) y' w -> creach (s0 :: s0s) (s :: ss) up us x w.

  (* composition of the stages' stream decoders, in chain order *)
  Fixpoint Dchain (D : stage_st -> bytes -> bytes) (s0s : list stage_st) (x : bytes) : bytes :=
    match s0s with [] => x | s :: t => Dchain D t (D s x) end.

  (* invariant of prefix safety: s0s = initial stage states, P0 = initial file
     content, acc = everything returned by decompress so far *)
  Definition safe_state (s0s : list stage_st) (P0 : bytes) (st : dstate) (acc : bytes) : Prop :=
    0 <= pos st <= zlen (buf st) /\ unused st = [] /\
    exists x z, creach s0s (stages st) (unpacked st) (unpacksizes st) x z /\ P0 = x ++ fp_rest st /\
                consumed st = zlen x /\ zlen x <= Z.max 0 (input_size st) /\
                z = acc ++ py_from (buf st) (pos st).

  (* state of a freshly created decompressor *)
  Definition fresh (st : dstate) : Prop :=
    consumed st = 0 /\ unused st = [] /\ buf st = [] /\ pos st = 0.

  (* the packed stream: first input_size bytes of the file content *)
  Definition packed_of (st : dstate) : bytes :=
    firstn (Z.to_nat (input_size st)) (fp_rest st).

  (* what one call of decompress does to the chain: nothing, or one _decompress *)
  Definition chain_step (st st' : dstate) (data tmp : bytes) : Prop :=
    (stages st' = stages st /\ unpacked st' = unpacked st /\ data = [] /\ tmp = [])
    \/ exists ml, chain_run (stages st) (unpacked st) (unpacksizes st) data ml
                  = Ok (stages st', unpacked st', tmp).

  (* hang condition of the caller loop (theorem worker_spins) *)
  Definition stuck (quiet : stage_st -> Prop) (st : dstate) : Prop :=
    Forall quiet (stages st) /\
    (length (stages st) <= length (unpacked st))%nat /\
    (length (stages st) <= length (unpacksizes st))%nat /\
    unused st = [] /\ pos st = zlen (buf st) /\
    (fp_rest st = [] \/ input_size st <= consumed st \/ block_size st <= 0).

End Chain.

Arguments mkD {stage_st}.
Arguments stages {stage_st}.
Arguments unpacked {stage_st}.
Arguments unpacksizes {stage_st}.
Arguments consumed {stage_st}.
Arguments input_size {stage_st}.
Arguments block_size {stage_st}.
Arguments unused {stage_st}.
Arguments buf {stage_st}.
Arguments pos {stage_st}.
Arguments fp_rest {stage_st}.
Arguments chain_run {stage_st}.
Arguments read_data {stage_st}.
Arguments run_chain {stage_st}.
Arguments set_buf {stage_st}.
Arguments decompress {stage_st}.
Arguments sched_hd {stage_st}.
Arguments worker_decompress {stage_st}.
Arguments decompress_seq {stage_st}.
Arguments decompress_trace {stage_st}.
Arguments init_state {stage_st}.
Arguments book_inv {stage_st}.
Arguments reach {stage_st}.
Arguments creach {stage_st}.
Arguments Dchain {stage_st}.
Arguments safe_state {stage_st}.
Arguments fresh {stage_st}.
Arguments packed_of {stage_st}.
Arguments stuck {stage_st}.
Arguments chain_step {stage_st}.

(* ---- progress inside the chain (SevenZipDecompressor.produced) ---------- *)
Fixpoint zsum_l (l : list Z) : Z := match l with [] => 0 | x :: t => x + zsum_l t end.
(* produced = sum(self._unpacked): what the coders have put out so far, all together *)
Definition produced {stage_st : Type} (st : dstate stage_st) : Z := zsum_l (unpacked st).
(* a round "took no input and no coder put anything out":
   decompressor.consumed == consumed_before and decompressor.produced == produced_before *)
Definition idle {stage_st : Type} (st st' : dstate stage_st) : bool :=
  (consumed st' =? consumed st) && (produced st' =? produced st).
(* what the coders may still put out before every gate is closed (specification only):
   sum of max(0, _unpacksizes[i] - _unpacked[i]); it never grows and shrinks whenever
   [produced] grows (lemma decompress_progress): the termination measure of the guard *)
Fixpoint budget_l (up us : list Z) : Z :=
  match up, us with
  | u :: up', z :: us' => Z.max 0 (z - u) + budget_l up' us'
  | _, _ => 0
  end.
Definition budget {stage_st : Type} (st : dstate stage_st) : Z :=
  budget_l (unpacked st) (unpacksizes st).

(* ---- toy stages for differential testing ---------------------------- *)
(* state = (tag, k, pending).
   tag 0 : copy            -- returns its input, ignores max_length
   tag 1 : lagging copy    -- avail = pending ++ input; if the input is empty
                              everything is releasable, otherwise all but the
                              last k bytes (k<0 counts as 0); out = releasable
                              (max_length < 0) or its first max_length bytes;
                              pending' = the rest of avail
   tag 2 : expander        -- every input byte twice, ignores max_length
   other : as tag 0 *)
Definition toy_state : Type := (Z * Z * bytes)%type.
Definition toy_st (tag k : Z) (pend : bytes) : toy_state := (tag, k, pend).

Fixpoint dup (l : bytes) : bytes :=
  match l with [] => [] | x :: t => x :: x :: dup t end.

Definition toy_dstep (s : toy_state) (data : bytes) (ml : Z) : toy_state * bytes :=
  let '(tag, k, pend) := s in
  if tag =? 1 then
    let avail := pend ++ data in
    let nrel := if zlen data =? 0 then length avail
                else (length avail - Z.to_nat k)%nat in
    let nout := if ml <? 0 then nrel else Nat.min nrel (Z.to_nat ml) in
    ((tag, k, skipn nout avail), firstn nout avail)
  else if tag =? 2 then (s, dup data)
  else (s, data).

(* stream denotation of a toy stage started in state s *)
Definition toy_D (s : toy_state) (x : bytes) : bytes :=
  let '(tag, k, pend) := s in
  if tag =? 1 then pend ++ x else if tag =? 2 then dup x else x.

Definition toy_init (sts : list toy_state) (us : list Z) (isz bsz : Z) (packed : bytes)
  : dstate toy_state := init_state sts us isz bsz packed.

Definition toy_run (sts : list toy_state) (us : list Z) (isz bsz : Z) (packed : bytes)
           (calls : list (Z * nat)) : list (res bytes) :=
  decompress_trace toy_dstep (toy_init sts us isz bsz packed) calls.

Definition toy_worker (fuel : nat) (sts : list toy_state) (us : list Z) (isz bsz : Z)
           (packed : bytes) (size mb : Z) (sched : list nat) : res bytes :=
  do r <- worker_decompress toy_dstep fuel (toy_init sts us isz bsz packed) size mb sched;
  Ok (snd r).

(* driver entry points *)
Definition t_toy_state (t : tree) : toy_state :=
  (of_TI (tnth t 0), of_TI (tnth t 1), of_bytes (tnth t 2)).
Definition t_call (t : tree) : Z * nat := (of_TI (tnth t 0), Z.to_nat (of_TI (tnth t 1))).

(* args: [states; unpacksizes; input_size; block_size; packed; calls] *)
Definition toy_run_t (t : tree) : tree :=
  TL (map (t_res t_bytes)
          (toy_run (map t_toy_state (of_TL (tnth t 0))) (map of_TI (of_TL (tnth t 1)))
                   (of_TI (tnth t 2)) (of_TI (tnth t 3)) (of_bytes (tnth t 4))
                   (map t_call (of_TL (tnth t 5))))).

(* args: [fuel; states; unpacksizes; input_size; block_size; packed; size; mb; sched] *)
Definition toy_worker_t (t : tree) : tree :=
  t_res t_bytes
        (toy_worker (Z.to_nat (of_TI (tnth t 0)))
                    (map t_toy_state (of_TL (tnth t 1))) (map of_TI (of_TL (tnth t 2)))
                    (of_TI (tnth t 3)) (of_TI (tnth t 4)) (of_bytes (tnth t 5))
                    (of_TI (tnth t 6)) (of_TI (tnth t 7))
                    (map (fun x => Z.to_nat (of_TI x)) (of_TL (tnth t 8)))).

(* ---- the repaired caller loop (py7zr.py Worker.decompress, `stalled`) ---- *)
(* MAX_STALLED_ROUNDS (py7zr.py l.75) *)
Definition max_stalled_rounds : Z := 16.

(* Worker.decompress loop with the stall guard (py7zr.py l.1545-1568).
   stalled = number of rounds since the last delivering round in which
   decompress returned b"" AND neither decompressor.consumed nor
   decompressor.produced changed ([idle]).  A round that returns b"" but took
   input, or in which an inner coder put something out, leaves stalled unchanged
   (the Python has no else-branch there).  raise Bad7zFile -> Err EBad7z. *)
Fixpoint worker_loop_g {stage_st : Type} (dstep : stage_st -> bytes -> Z -> stage_st * bytes)
         (fuel : nat) (stalled : Z) (st : dstate stage_st) (size max_block : Z)
         (sched : list nat) : res (dstate stage_st * bytes) :=
  if size >? 0 then
    match fuel with
    | O => Err EFuel
    | S fuel' =>
      do r <- decompress dstep st (Z.min size max_block) (sched_hd st sched);
      let '(st', tmp) := r in
      let rem := if zlen tmp >? 0 then size - zlen tmp else size in
      do stalled' <- (if zlen tmp >? 0 then Ok 0
                      else if idle st st' then
                             (if stalled + 1 >? max_stalled_rounds then Err EBad7z
                              else Ok (stalled + 1))
                           else Ok stalled);
      if rem <=? 0 then Ok (st', tmp)
      else
        do r' <- worker_loop_g dstep fuel' stalled' st' rem max_block (tl sched);
        let '(st'', out) := r' in
        Ok (st'', tmp ++ out)
    end
  else Ok (st, []).

Definition worker_decompress_g {stage_st : Type}
           (dstep : stage_st -> bytes -> Z -> stage_st * bytes)
           (fuel : nat) (st : dstate stage_st) (size max_block : Z) (sched : list nat)
  : res (dstate stage_st * bytes) :=
  worker_loop_g dstep fuel 0 st size max_block sched.

(* instrumentation of the UNGUARDED loop (specification only): the largest
   value the stalled counter would take, starting from [stalled] *)
Fixpoint worker_stall_max {stage_st : Type} (dstep : stage_st -> bytes -> Z -> stage_st * bytes)
         (fuel : nat) (stalled : Z) (st : dstate stage_st) (size max_block : Z)
         (sched : list nat) : Z :=
  if size >? 0 then
    match fuel with
    | O => stalled
    | S fuel' =>
      match decompress dstep st (Z.min size max_block) (sched_hd st sched) with
      | Err _ => stalled
      | Ok (st', tmp) =>
        let rem := if zlen tmp >? 0 then size - zlen tmp else size in
        let stalled' := if zlen tmp >? 0 then 0
                        else if idle st st' then stalled + 1 else stalled in
        if rem <=? 0 then Z.max stalled stalled'
        else Z.max stalled
                   (worker_stall_max dstep fuel' stalled' st' rem max_block (tl sched))
      end
    end
  else stalled.

Definition toy_worker_g (fuel : nat) (sts : list toy_state) (us : list Z) (isz bsz : Z)
           (packed : bytes) (size mb : Z) (sched : list nat) : res bytes :=
  do r <- worker_decompress_g toy_dstep fuel (toy_init sts us isz bsz packed) size mb sched;
  Ok (snd r).

(* args: [fuel; states; unpacksizes; input_size; block_size; packed; size; mb; sched] *)
Definition toy_worker_g_t (t : tree) : tree :=
  t_res t_bytes
        (toy_worker_g (Z.to_nat (of_TI (tnth t 0)))
                      (map t_toy_state (of_TL (tnth t 1))) (map of_TI (of_TL (tnth t 2)))
                      (of_TI (tnth t 3)) (of_TI (tnth t 4)) (of_bytes (tnth t 5))
                      (of_TI (tnth t 6)) (of_TI (tnth t 7))
                      (map (fun x => Z.to_nat (of_TI x)) (of_TL (tnth t 8)))).


(* ===================================================================== *)
(*                              PART 2 : PROOFS                          *)
(* ===================================================================== *)

(* ---- lists, lengths, slices ----------------------------------------- *)
Lemma zlen_nil : zlen [] = 0.
Proof. reflexivity. Qed.

Lemma zlen_app (a b : bytes) : zlen (a ++ b) = zlen a + zlen b.
Proof. unfold zlen. rewrite app_length. lia. Qed.

Lemma zlen_nonneg (a : bytes) : 0 <= zlen a.
Proof. unfold zlen. lia. Qed.

Lemma zlen_le0_nil (a : bytes) : zlen a <= 0 -> a = [].
Proof. destruct a as [|x a]; [reflexivity|]. unfold zlen; simpl length. lia. Qed.

Lemma skipn_add (a b : nat) (l : bytes) : skipn b (skipn a l) = skipn (a + b) l.
Proof.
  revert l. induction a as [|a IHa]; intros l; [reflexivity|].
  destruct l as [|x l]; [now rewrite !skipn_nil|]. simpl. apply IHa.
Qed.

Lemma py_norm_id (n i : Z) : 0 <= i <= n -> py_norm n i = i.
Proof.
  unfold py_norm. intros Hi. destruct (i <? 0) eqn:E.
  - apply Z.ltb_lt in E. lia.
  - lia.
Qed.

Lemma py_slice_eq (l : bytes) (a b : Z) :
  0 <= a <= b -> b <= zlen l ->
  py_slice l a b = firstn (Z.to_nat (b - a)) (skipn (Z.to_nat a) l).
Proof. intros Ha Hb. unfold py_slice. rewrite !py_norm_id by lia. reflexivity. Qed.

Lemma py_from_eq (l : bytes) (a : Z) :
  0 <= a <= zlen l -> py_from l a = skipn (Z.to_nat a) l.
Proof.
  intros Ha. unfold py_from. rewrite py_slice_eq by lia.
  apply firstn_all2. rewrite skipn_length. unfold zlen in *. lia.
Qed.

Lemma py_to_eq (l : bytes) (b : Z) :
  0 <= b <= zlen l -> py_to l b = firstn (Z.to_nat b) l.
Proof.
  intros Hb. unfold py_to. rewrite py_slice_eq by lia.
  rewrite Z.sub_0_r. reflexivity.
Qed.

Lemma zlen_py_slice (l : bytes) (a b : Z) :
  0 <= a <= b -> b <= zlen l -> zlen (py_slice l a b) = b - a.
Proof.
  intros Ha Hb. rewrite py_slice_eq by lia. unfold zlen in *.
  rewrite firstn_length, skipn_length. lia.
Qed.

Lemma zlen_py_from (l : bytes) (a : Z) :
  0 <= a <= zlen l -> zlen (py_from l a) = zlen l - a.
Proof. intros Ha. unfold py_from. rewrite zlen_py_slice by lia. reflexivity. Qed.

Lemma zlen_py_to (l : bytes) (b : Z) :
  0 <= b <= zlen l -> zlen (py_to l b) = b.
Proof. intros Hb. unfold py_to. rewrite zlen_py_slice by lia. lia. Qed.

Lemma py_from_split (l : bytes) (a b : Z) :
  0 <= a <= b -> b <= zlen l -> py_from l a = py_slice l a b ++ py_from l b.
Proof.
  intros Ha Hb. rewrite !py_from_eq, py_slice_eq by lia.
  replace (Z.to_nat b) with (Z.to_nat a + Z.to_nat (b - a))%nat by lia.
  rewrite <- skipn_add. symmetry. apply firstn_skipn.
Qed.

Lemma py_to_from (l : bytes) (b : Z) :
  0 <= b <= zlen l -> py_to l b ++ py_from l b = l.
Proof. intros Hb. rewrite py_to_eq, py_from_eq by lia. apply firstn_skipn. Qed.

Lemma py_from_all (l : bytes) : py_from l (zlen l) = [].
Proof.
  rewrite py_from_eq by (pose proof (zlen_nonneg l); lia).
  unfold zlen. rewrite Nat2Z.id. apply skipn_all.
Qed.

Lemma py_from_0 (l : bytes) : py_from l 0 = l.
Proof. rewrite py_from_eq by (pose proof (zlen_nonneg l); lia). reflexivity. Qed.

(* ---- prefix ---------------------------------------------------------- *)
Lemma prefix_refl (a : bytes) : prefix a a.
Proof. exists []. now rewrite app_nil_r. Qed.

Lemma prefix_trans (a b c : bytes) : prefix a b -> prefix b c -> prefix a c.
Proof. intros [x ->] [y ->]. exists (x ++ y). now rewrite app_assoc. Qed.

Lemma prefix_app (a b : bytes) : prefix a (a ++ b).
Proof. now exists b. Qed.

Lemma prefix_len (a b : bytes) : prefix a b -> zlen a <= zlen b.
Proof. intros [c ->]. rewrite zlen_app. pose proof (zlen_nonneg c). lia. Qed.

Lemma prefix_firstn (a b : bytes) : prefix a b -> a = firstn (length a) b.
Proof.
  intros [c ->]. rewrite firstn_app, Nat.sub_diag, firstn_all. simpl.
  now rewrite app_nil_r.
Qed.

(* ---- trimming ---------------------------------------------------------- *)
Lemma py_to_firstn (l : bytes) (n : Z) : 0 <= n -> py_to l n = firstn (Z.to_nat n) l.
Proof.
  intros Hn. unfold py_to, py_slice, py_norm. pose proof (zlen_nonneg l) as Hl.
  change (0 <? 0) with false. cbv iota.
  destruct (n <? 0) eqn:E; [lia|].
  replace (Z.max 0 (Z.min (zlen l) 0)) with 0 by lia. rewrite Z.sub_0_r. simpl skipn.
  destruct (Z.le_gt_cases n (zlen l)) as [H|H].
  - replace (Z.max 0 (Z.min (zlen l) n)) with n by lia. reflexivity.
  - replace (Z.max 0 (Z.min (zlen l) n)) with (zlen l) by lia.
    unfold zlen in *. rewrite Nat2Z.id, firstn_all, firstn_all2 by lia. reflexivity.
Qed.

Lemma trim_out_prefix {A : Type} (rest : list A) (o : bytes) (n : Z) : 0 <= n -> prefix (trim_out rest o n) o.
Proof.
  intros Hn. destruct rest; simpl; [apply prefix_refl|]. rewrite py_to_firstn by exact Hn.
  exists (skipn (Z.to_nat n) o). symmetry. apply firstn_skipn.
Qed.

Lemma trim_out_cases {A : Type} (rest : list A) (o : bytes) (n : Z) :
  0 <= n -> trim_out rest o n = o \/ zlen (trim_out rest o n) = n.
Proof.
  intros Hn. destruct rest; simpl; [left; reflexivity|]. rewrite py_to_firstn by exact Hn.
  destruct (Z.le_gt_cases (zlen o) n) as [H|H].
  - left. apply firstn_all2. unfold zlen in H. lia.
  - right. unfold zlen in *. rewrite firstn_length. lia.
Qed.

Lemma trim_out_le {A : Type} (rest : list A) (o : bytes) (n : Z) :
  0 <= n -> zlen (trim_out rest o n) <= zlen o.
Proof. intros Hn. apply prefix_len, trim_out_prefix, Hn. Qed.

Lemma trim_out_le_n {A : Type} (rest : list A) (o : bytes) (n : Z) (a : A) :
  0 <= n -> zlen (trim_out (a :: rest) o n) <= n.
Proof.
  intros Hn. simpl. rewrite py_to_firstn by exact Hn. unfold zlen. rewrite firstn_length. lia.
Qed.

Lemma trim_out_nil {A : Type} (rest : list A) (n : Z) : trim_out rest [] n = [].
Proof.
  destruct rest; [reflexivity|]. unfold trim_out, py_to, py_slice. rewrite skipn_nil, firstn_nil. reflexivity.
Qed.

Lemma stop_here_nil_data {A : Type} (rest : list A) (out : bytes) : stop_here rest [] out = false.
Proof. reflexivity. Qed.

Lemma stop_here_last {A : Type} (data out : bytes) : stop_here (@nil A) data out = false.
Proof. unfold stop_here. now rewrite andb_false_r. Qed.

Lemma stop_here_true {A : Type} (rest : list A) (data out : bytes) :
  stop_here rest data out = true -> out = [] /\ data <> [] /\ rest <> [].
Proof.
  unfold stop_here. intros H. apply andb_true_iff in H as [H Hr]. apply andb_true_iff in H as [Hd Ho].
  split; [destruct out; [reflexivity|simpl in Ho; lia]|].
  split; [destruct data; [discriminate|discriminate]|destruct rest; discriminate].
Qed.

Lemma trim_out_last {A : Type} (o : bytes) (n : Z) : trim_out (@nil A) o n = o.
Proof. reflexivity. Qed.

Section ChainProofs.

  Variable stage_st : Type.
  Variable dstep : stage_st -> bytes -> Z -> stage_st * bytes.

  Local Notation dst := (dstate stage_st).

  (* ---- _read_data --------------------------------------------------- *)
  Lemma read_data_spec (st st1 : dst) (rd : nat) (data : bytes) :
    read_data st rd = (st1, data) ->
    stages st1 = stages st /\ unpacked st1 = unpacked st /\
    unpacksizes st1 = unpacksizes st /\ input_size st1 = input_size st /\
    block_size st1 = block_size st /\ unused st1 = unused st /\
    buf st1 = buf st /\ pos st1 = pos st /\
    fp_rest st = data ++ fp_rest st1 /\
    consumed st1 = consumed st + zlen data /\
    zlen data <= Z.max 0 (Z.min (input_size st - consumed st - zlen (unused st))
                                (block_size st - zlen (unused st))).
  Proof.
    unfold read_data. intros H.
    destruct (Z.min (input_size st - consumed st - zlen (unused st))
                    (block_size st - zlen (unused st)) >? 0) eqn:E.
    - unfold fp_read in H. injection H as <- <-. simpl.
      repeat split; try reflexivity.
      + symmetry. apply firstn_skipn.
      + apply Z.gtb_lt in E. unfold zlen at 1. rewrite firstn_length. lia.
    - injection H as <- <-. rewrite zlen_nil, app_nil_l.
      repeat split; try reflexivity; lia.
  Qed.

  (* ---- _decompress on a state ---------------------------------------- *)
  Lemma run_chain_spec (st st2 : dst) (data out : bytes) (ml : Z) :
    run_chain dstep st data ml = Ok (st2, out) ->
    chain_run dstep (stages st) (unpacked st) (unpacksizes st) data ml
      = Ok (stages st2, unpacked st2, out) /\
    unpacksizes st2 = unpacksizes st /\ consumed st2 = consumed st /\
    input_size st2 = input_size st /\ block_size st2 = block_size st /\
    unused st2 = unused st /\ buf st2 = buf st /\ pos st2 = pos st /\
    fp_rest st2 = fp_rest st.
  Proof.
    unfold run_chain. intros H.
    destruct (chain_run dstep (stages st) (unpacked st) (unpacksizes st) data ml)
      as [[[ss up] o]|e]; simpl in H; [|discriminate].
    injection H as <- <-. simpl. repeat split; reflexivity.
  Qed.

  Lemma chain_run_length (ss : list stage_st) :
    forall up us data ml ss' up' out,
      chain_run dstep ss up us data ml = Ok (ss', up', out) ->
      length ss' = length ss /\ length up' = length up.
  Proof.
    induction ss as [|s ss IH]; intros up us data ml ss' up' out H; simpl in H.
    - injection H as <- <- _. split; reflexivity.
    - destruct up as [|u up]; [discriminate|]. destruct us as [|z us]; [discriminate|].
      destruct (u <? z).
      + destruct (dstep s data ml) as [s1 o0]. set (o := trim_out ss o0 (z - u)) in H.
        destruct (stop_here ss data o); [injection H as <- <- _; simpl; lia|].
        destruct (chain_run dstep ss up us o ml) as [[[ss2 up2] d]|e] eqn:E;
          simpl in H; [|discriminate].
        injection H as <- <- _. apply IH in E. simpl. lia.
      + destruct (zlen data =? 0); [|discriminate].
        destruct (chain_run dstep ss up us [] ml) as [[[ss2 up2] d]|e] eqn:E;
          simpl in H; [|discriminate].
        injection H as <- <- _. apply IH in E. simpl. lia.
  Qed.

  (* ---- decompress: one characterisation used by all theorems ---------
     data = bytes read from fp by this call, tmp = what _decompress returned.
     The key line is the flow equation
        _buf[_pos:] ++ tmp  =  out ++ _buf'[_pos':]
     (nothing is lost or invented by the carry-over buffer).
     In the last branch the slice index j = max_length - current_buf_len
     satisfies 0 < j < len(tmp) (by the two failed tests), so tmp[:j] and
     tmp[j:] are plain firstn/skipn and never hit Python's negative-index
     rule; this is what [py_to_from ... by lia] checks below. *)
  Lemma decompress_spec (st st' : dst) (ml : Z) (rd : nat) (out : bytes) :
    0 <= pos st <= zlen (buf st) -> unused st = [] ->
    decompress dstep st ml rd = Ok (st', out) ->
    exists data tmp,
      chain_step dstep st st' data tmp /\
      fp_rest st = data ++ fp_rest st' /\
      consumed st' = consumed st + zlen data /\
      zlen data <= Z.max 0 (input_size st - consumed st) /\
      unpacksizes st' = unpacksizes st /\ input_size st' = input_size st /\
      block_size st' = block_size st /\ unused st' = [] /\
      0 <= pos st' <= zlen (buf st') /\
      py_from (buf st) (pos st) ++ tmp = out ++ py_from (buf st') (pos st') /\
      (0 <= ml -> zlen out <= ml).
  Proof.
    intros Hpos Hun H. unfold decompress in H.
    destruct (ml <? 0) eqn:Eneg.
    - (* max_length < 0 *)
      apply Z.ltb_lt in Eneg.
      destruct (read_data st rd) as [st1 data] eqn:Hrd.
      apply read_data_spec in Hrd.
      destruct Hrd as (R1 & R2 & R3 & R4 & R5 & R6 & R7 & R8 & R9 & R10 & R11).
      destruct (run_chain dstep st1 (unused st1 ++ data) ml) as [[st2 tmp]|e] eqn:Hrc;
        simpl in H; [|discriminate].
      apply run_chain_spec in Hrc.
      destruct Hrc as (C1 & C2 & C3 & C4 & C5 & C6 & C7 & C8 & C9).
      injection H as <- <-. simpl.
      rewrite R6, Hun, app_nil_l in C1. rewrite R1, R2, R3 in C1.
      exists data, tmp. rewrite Hun, zlen_nil in R11.
      split; [right; exists ml; exact C1|].
      rewrite C9, C3, R10, C2, R3, C4, R4, C5, R5, R7, R8.
      repeat split; try reflexivity; try lia; try assumption.
      + rewrite py_from_0, app_nil_r. reflexivity.
    - apply Z.ltb_ge in Eneg.
      destruct (zlen (buf st) - pos st >=? ml) eqn:Ehave.
      + (* enough data already in _buf *)
        assert (Hge : ml <= zlen (buf st) - pos st) by (apply Z.geb_le in Ehave; lia).
        injection H as <- <-. simpl.
        exists [], []. rewrite zlen_nil, app_nil_l, app_nil_r.
        split; [left; repeat split; reflexivity|].
        repeat split; try reflexivity; try lia; try assumption.
        * apply py_from_split; lia.
        * intros _. rewrite zlen_py_slice by lia. lia.
      + assert (Hlt : zlen (buf st) - pos st < ml).
        { destruct (Z.geb_spec (zlen (buf st) - pos st) ml); [discriminate|lia]. }
        destruct (read_data st rd) as [st1 data] eqn:Hrd.
        apply read_data_spec in Hrd.
        destruct Hrd as (R1 & R2 & R3 & R4 & R5 & R6 & R7 & R8 & R9 & R10 & R11).
        rewrite R6, Hun in H. change (zlen [] >? 0) with false in H. cbv iota in H.
        destruct (run_chain dstep st1 data ml) as [[st2 tmp]|e] eqn:Hrc;
          simpl in H; [|discriminate].
        apply run_chain_spec in Hrc.
        destruct Hrc as (C1 & C2 & C3 & C4 & C5 & C6 & C7 & C8 & C9).
        rewrite R1, R2, R3 in C1. rewrite Hun, zlen_nil in R11.
        assert (Hchain : chain_step dstep st st2 data tmp) by (right; exists ml; exact C1).
        assert (Hpf : zlen (py_from (buf st) (pos st)) = zlen (buf st) - pos st)
          by (apply zlen_py_from; lia).
        destruct (zlen (buf st) - pos st + zlen tmp <=? ml) eqn:Efit.
        * apply Z.leb_le in Efit. injection H as <- <-. simpl.
          exists data, tmp.
          rewrite C9, C3, R10, C2, R3, C4, R4, C5, R5, C6, R6, C7, R7, C8, R8.
          split; [exact Hchain|].
          repeat split; try reflexivity; try lia; try assumption.
          -- rewrite py_from_0, app_nil_r. reflexivity.
          -- intros _. rewrite zlen_app, Hpf. lia.
        * apply Z.leb_gt in Efit. injection H as <- <-. simpl.
          exists data, tmp.
          rewrite C9, C3, R10, C2, R3, C4, R4, C5, R5, C6, R6, C7, R7, C8, R8.
          split; [exact Hchain|].
          pose proof (zlen_nonneg (py_from tmp (ml - (zlen (buf st) - pos st)))) as Hnn.
          repeat split; try reflexivity; try lia; try assumption.
          -- rewrite py_from_0, <- app_assoc, py_to_from by lia. reflexivity.
          -- intros _. rewrite zlen_app, Hpf, zlen_py_to by lia. lia.
  Qed.

  (* ==== A. bookkeeping invariants ===================================== *)
  Theorem decompress_book_inv (L0 : Z) (st st' : dst) (ml : Z) (rd : nat) (out : bytes) :
    book_inv L0 st ->
    decompress dstep st ml rd = Ok (st', out) ->
    book_inv L0 st' /\
    consumed st <= consumed st' /\
    (consumed st <= input_size st -> consumed st' <= input_size st') /\
    unpacksizes st' = unpacksizes st /\ input_size st' = input_size st /\
    block_size st' = block_size st /\
    length (stages st') = length (stages st) /\
    length (unpacked st') = length (unpacked st).
  Proof.
    intros (Hpos & Hun & Hc) H.
    destruct (decompress_spec st st' ml rd out Hpos Hun H)
      as (data & tmp & Hch & Hfp & Hcons & Hdl & Hus & His & Hbs & Hun' & Hpos' & _ & _).
    pose proof (zlen_nonneg data) as Hd0.
    split; [|split; [|split; [|split; [|split; [|split]]]]]; try assumption; try lia.
    - split; [exact Hpos'|]. split; [exact Hun'|].
      rewrite Hfp, zlen_app in Hc. lia.
    - destruct Hch as [(-> & -> & _ & _)|[ml' Hcr]]; [split; reflexivity|].
      apply chain_run_length in Hcr. exact Hcr.
  Qed.

  Theorem decompress_seq_book_inv (L0 : Z) (calls : list (Z * nat)) :
    forall (st st' : dst) (outs : bytes),
      book_inv L0 st -> consumed st <= input_size st ->
      decompress_seq dstep st calls = Ok (st', outs) ->
      book_inv L0 st' /\ consumed st' <= input_size st' /\
      input_size st' = input_size st.
  Proof.
    induction calls as [|[ml rd] calls IH]; intros st st' outs Hinv Hle H; simpl in H.
    - injection H as <- <-. repeat split; try apply Hinv; lia.
    - destruct (decompress dstep st ml rd) as [[st1 o]|e] eqn:Hd; simpl in H; [|discriminate].
      destruct (decompress_seq dstep st1 calls) as [[st2 os]|e] eqn:Hs; simpl in H; [|discriminate].
      injection H as <- <-.
      destruct (decompress_book_inv L0 st st1 ml rd o Hinv Hd)
        as (Hinv1 & _ & Hle1 & _ & His & _).
      destruct (IH st1 st2 os Hinv1 (Hle1 Hle) Hs) as (Hinv2 & Hle2 & His2).
      repeat split; try apply Hinv2; lia.
  Qed.

  Lemma init_book_inv (ss : list stage_st) (us : list Z) (isz bsz : Z) (fp : bytes) :
    book_inv (zlen fp) (init_state ss us isz bsz fp).
  Proof. unfold book_inv, init_state; simpl. rewrite zlen_nil. repeat split; lia. Qed.

  (* ==== B. max_length is honoured ===================================== *)
  Theorem decompress_len (st st' : dst) (ml : Z) (rd : nat) (out : bytes) :
    0 <= pos st <= zlen (buf st) -> unused st = [] ->
    0 <= ml ->
    decompress dstep st ml rd = Ok (st', out) ->
    zlen out <= ml.
  Proof.
    intros Hpos Hun Hml H.
    destruct (decompress_spec st st' ml rd out Hpos Hun H)
      as (data & tmp & _ & _ & _ & _ & _ & _ & _ & _ & _ & _ & Hlen).
    exact (Hlen Hml).
  Qed.

  (* ==== C. prefix safety ============================================== *)
  Lemma creach_init (ss : list stage_st) : forall up us, creach dstep ss ss up us [] [].
  Proof.
    induction ss as [|s ss IH]; intros up us; [apply creach_nil|].
    eapply creach_cons; [apply reach_init|apply prefix_refl|left; reflexivity|apply IH].
  Qed.

  (* _decompress extends a chain run; the gate can only skip a stage on empty data, and a
     stage whose output was cut has reached its declared size, so its gate stays closed *)
  Lemma chain_run_creach (s0s ss : list stage_st) (up us : list Z) (x z : bytes) :
    creach dstep s0s ss up us x z ->
    forall data ml ss' up' out,
      chain_run dstep ss up us data ml = Ok (ss', up', out) ->
      creach dstep s0s ss' up' us (x ++ data) (z ++ out).
  Proof.
    induction 1 as [up us x|s0 s x y y' s0s ss up us w0 Hr Hp Hg Hc IH];
      intros data ml ss' up' out H; simpl in H.
    - injection H as <- <- <-. apply creach_nil.
    - destruct up as [|u up]; [discriminate|]. destruct us as [|w us]; [discriminate|].
      cbn [hd tl] in *.
      destruct (u <? w) eqn:Eg.
      + apply Z.ltb_lt in Eg.
        assert (Hy : y' = y) by (destruct Hg as [Hg|Hg]; [exact Hg|lia]). subst y'.
        pose proof (reach_step stage_st dstep s0 s x y data ml Hr) as Hr'.
        destruct (dstep s data ml) as [s1 o0]. simpl in Hr'.
        set (o := trim_out ss o0 (w - u)) in H.
        destruct (stop_here ss data o) eqn:Est.
        { (* the round ends at this stage: the stages behind it are untouched *)
          apply stop_here_true in Est. destruct Est as (Ho & _ & _).
          injection H as <- <- <-. rewrite Ho, !app_nil_r, Z.add_0_r.
          eapply (creach_cons stage_st dstep s0 s1 (x ++ data) (y ++ o0) y); cbn [hd tl].
          - exact Hr'.
          - apply prefix_app.
          - destruct (trim_out_cases ss o0 (w - u) ltac:(lia)) as [He|He]; fold o in He; rewrite Ho in He.
            + left. now rewrite <- He, app_nil_r.
            + rewrite zlen_nil in He. lia.
          - exact Hc. }
        destruct (chain_run dstep ss up us o ml) as [[[ss2 up2] d]|e] eqn:E;
          simpl in H; [|discriminate].
        injection H as <- <- <-.
        eapply (creach_cons stage_st dstep s0 s1 (x ++ data) (y ++ o0) (y ++ o)); cbn [hd tl].
        * exact Hr'.
        * destruct (trim_out_prefix ss o0 (w - u) ltac:(lia)) as [c Hc']. fold o in Hc'.
          exists c. rewrite Hc', app_assoc. reflexivity.
        * destruct (trim_out_cases ss o0 (w - u) ltac:(lia)) as [He|He]; fold o in He.
          -- left. now rewrite He.
          -- right. lia.
        * eapply IH; exact E.
      + destruct (zlen data =? 0) eqn:Ez; [|discriminate].
        apply Z.eqb_eq in Ez. assert (data = []) as -> by (apply zlen_le0_nil; lia).
        destruct (chain_run dstep ss up us [] ml) as [[[ss2 up2] d]|e] eqn:E;
          simpl in H; [|discriminate].
        injection H as <- <- <-.
        rewrite app_nil_r.
        eapply (creach_cons stage_st dstep s0 s x y y'); cbn [hd tl]; [exact Hr|exact Hp|exact Hg|].
        rewrite <- (app_nil_r y'). eapply IH; exact E.
  Qed.

  Lemma fresh_safe (st : dst) :
    fresh st -> safe_state dstep (stages st) (fp_rest st) st [].
  Proof.
    intros (Hc & Hu & Hb & Hp). unfold safe_state. rewrite Hb, Hp, Hu, Hc.
    split; [rewrite zlen_nil; lia|]. split; [reflexivity|].
    exists [], []. rewrite zlen_nil.
    split; [apply creach_init|]. repeat split; try reflexivity; lia.
  Qed.

  (* one decompress call preserves the invariant (no contract needed) *)
  Lemma decompress_safe (s0s : list stage_st) (P0 : bytes) (st st' : dst) (acc : bytes)
        (ml : Z) (rd : nat) (out : bytes) :
    safe_state dstep s0s P0 st acc ->
    decompress dstep st ml rd = Ok (st', out) ->
    safe_state dstep s0s P0 st' (acc ++ out).
  Proof.
    intros (Hpos & Hun & x & z & Hcr & HP & Hcons & Hxl & Hz) H.
    destruct (decompress_spec st st' ml rd out Hpos Hun H)
      as (data & tmp & Hch & Hfp & Hcons' & Hdl & Hus & His & Hbs & Hun' & Hpos' & Hflow & _).
    split; [exact Hpos'|]. split; [exact Hun'|].
    exists (x ++ data), (z ++ tmp).
    split; [|split; [|split; [|split]]].
    - destruct Hch as [(Hs & Hu' & -> & ->)|[ml' Hrun]].
      + rewrite !app_nil_r, Hs, Hu', Hus. exact Hcr.
      + rewrite Hus. eapply chain_run_creach; [exact Hcr|exact Hrun].
    - rewrite HP, Hfp, app_assoc. reflexivity.
    - rewrite Hcons', Hcons, zlen_app. reflexivity.
    - rewrite zlen_app, His. pose proof (zlen_nonneg x). lia.
    - rewrite Hz, <- !app_assoc, Hflow. reflexivity.
  Qed.

  Lemma decompress_input_size (s0s : list stage_st) (P0 : bytes) (st st' : dst) (acc : bytes)
        (ml : Z) (rd : nat) (out : bytes) :
    safe_state dstep s0s P0 st acc ->
    decompress dstep st ml rd = Ok (st', out) ->
    input_size st' = input_size st.
  Proof.
    intros (Hpos & Hun & _) H.
    destruct (decompress_spec st st' ml rd out Hpos Hun H)
      as (data & tmp & _ & _ & _ & _ & _ & His & _). exact His.
  Qed.

  Lemma decompress_seq_safe (s0s : list stage_st) (P0 : bytes) (calls : list (Z * nat)) :
    forall (st st' : dst) (acc outs : bytes),
      safe_state dstep s0s P0 st acc ->
      decompress_seq dstep st calls = Ok (st', outs) ->
      safe_state dstep s0s P0 st' (acc ++ outs) /\ input_size st' = input_size st.
  Proof.
    induction calls as [|[ml rd] calls IH]; intros st st' acc outs Hs H; simpl in H.
    - injection H as <- <-. rewrite app_nil_r. split; [exact Hs|reflexivity].
    - destruct (decompress dstep st ml rd) as [[st1 o]|e] eqn:Hd; simpl in H; [|discriminate].
      destruct (decompress_seq dstep st1 calls) as [[st2 os]|e] eqn:Hq; simpl in H; [|discriminate].
      injection H as <- <-.
      pose proof (decompress_safe _ _ _ _ _ _ _ _ Hs Hd) as Hs1.
      pose proof (decompress_input_size _ _ _ _ _ _ _ _ Hs Hd) as Hi1.
      destruct (IH st1 st2 (acc ++ o) os Hs1 Hq) as (Hs2 & Hi2).
      rewrite app_assoc. split; [exact Hs2|lia].
  Qed.

  (* ==== D (first half). the caller loop ================================= *)
  Lemma worker_unfold (fuel : nat) (st : dst) (size mb : Z) (sched : list nat) :
    worker_decompress dstep fuel st size mb sched =
    if size >? 0 then
      match fuel with
      | O => Err EFuel
      | S fuel' =>
        do r <- decompress dstep st (Z.min size mb) (sched_hd st sched);
        let '(st', tmp) := r in
        let rem := if zlen tmp >? 0 then size - zlen tmp else size in
        if rem <=? 0 then Ok (st', tmp)
        else
          do r' <- worker_decompress dstep fuel' st' rem mb (tl sched);
          let '(st'', out) := r' in
          Ok (st'', tmp ++ out)
      end
    else Ok (st, []).
  Proof. destruct fuel; reflexivity. Qed.

  (* generic: any invariant of decompress that implies the buffer invariant is
     an invariant of the loop, and the loop writes exactly [size] bytes *)
  Lemma worker_generic (I : dst -> bytes -> Prop) :
    (forall st acc, I st acc -> 0 <= pos st <= zlen (buf st) /\ unused st = []) ->
    (forall st acc ml rd st' out,
        I st acc -> decompress dstep st ml rd = Ok (st', out) -> I st' (acc ++ out)) ->
    forall fuel st size mb sched acc st' out,
      I st acc -> 0 <= size -> 0 < mb ->
      worker_decompress dstep fuel st size mb sched = Ok (st', out) ->
      I st' (acc ++ out) /\ zlen out = size.
  Proof.
    intros Ibuf Istep.
    induction fuel as [|fuel IH]; intros st size mb sched acc st' out HI Hsz Hmb H;
      rewrite worker_unfold in H.
    - destruct (size >? 0) eqn:E; [discriminate|].
      injection H as <- <-. rewrite app_nil_r, zlen_nil.
      split; [exact HI|]. destruct (Z.gtb_spec size 0); [discriminate|lia].
    - destruct (size >? 0) eqn:E.
      + apply Z.gtb_lt in E.
        destruct (decompress dstep st (Z.min size mb) (sched_hd st sched))
          as [[st1 tmp]|e] eqn:Hd; simpl in H; [|discriminate].
        pose proof (Istep _ _ _ _ _ _ HI Hd) as HI1.
        destruct (Ibuf _ _ HI) as (Hpos & Hun).
        assert (Hlen : zlen tmp <= Z.min size mb)
          by (eapply decompress_len; [exact Hpos|exact Hun|lia|exact Hd]).
        pose proof (zlen_nonneg tmp) as Hnn.
        destruct (zlen tmp >? 0) eqn:Et.
        * apply Z.gtb_lt in Et.
          destruct (size - zlen tmp <=? 0) eqn:Er.
          -- apply Z.leb_le in Er. injection H as <- <-.
             split; [exact HI1|lia].
          -- apply Z.leb_gt in Er.
             destruct (worker_decompress dstep fuel st1 (size - zlen tmp) mb (tl sched))
               as [[st2 o2]|e] eqn:Hw; simpl in H; [|discriminate].
             injection H as <- <-.
             assert (Hrem : 0 <= size - zlen tmp) by lia.
             destruct (IH _ _ _ _ _ _ _ HI1 Hrem Hmb Hw) as (HI2 & Hl2).
             rewrite app_assoc, zlen_app. split; [exact HI2|lia].
        * assert (zlen tmp = 0) by (destruct (Z.gtb_spec (zlen tmp) 0); [discriminate|lia]).
          destruct (size <=? 0) eqn:Er; [apply Z.leb_le in Er; lia|].
          destruct (worker_decompress dstep fuel st1 size mb (tl sched))
            as [[st2 o2]|e] eqn:Hw; simpl in H; [|discriminate].
          injection H as <- <-.
          destruct (IH _ _ _ _ _ _ _ HI1 Hsz Hmb Hw) as (HI2 & Hl2).
          rewrite app_assoc, zlen_app. split; [exact HI2|lia].
      + injection H as <- <-. rewrite app_nil_r, zlen_nil.
        split; [exact HI|]. destruct (Z.gtb_spec size 0); [discriminate|lia].
  Qed.

  Theorem worker_len (L0 : Z) (fuel : nat) (st st' : dst) (size mb : Z)
          (sched : list nat) (out : bytes) :
    book_inv L0 st -> 0 <= size -> 0 < mb ->
    worker_decompress dstep fuel st size mb sched = Ok (st', out) ->
    zlen out = size /\ book_inv L0 st'.
  Proof.
    intros Hinv Hsz Hmb H.
    assert (Hbuf : forall (s : dst) (a : bytes), book_inv L0 s ->
                     0 <= pos s <= zlen (buf s) /\ unused s = []).
    { intros s _ (Hp & Hu & _). split; assumption. }
    assert (Hstep : forall (s : dst) (a : bytes) ml rd s' o,
               book_inv L0 s -> decompress dstep s ml rd = Ok (s', o) -> book_inv L0 s').
    { intros s _ ml rd s' o Hb Hd.
      exact (proj1 (decompress_book_inv L0 s s' ml rd o Hb Hd)). }
    destruct (worker_generic (fun s _ => book_inv L0 s) Hbuf Hstep
                             fuel st size mb sched [] st' out Hinv Hsz Hmb H) as (Hi & Hl).
    split; assumption.
  Qed.

  Lemma worker_safe (s0s : list stage_st) (P0 : bytes) (fuel : nat) (st st' : dst)
        (size mb : Z) (sched : list nat) (acc out : bytes) :
    safe_state dstep s0s P0 st acc -> 0 <= size -> 0 < mb ->
    worker_decompress dstep fuel st size mb sched = Ok (st', out) ->
    safe_state dstep s0s P0 st' (acc ++ out) /\ input_size st' = input_size st /\
    zlen out = size.
  Proof.
    intros Hs Hsz Hmb H.
    set (I := fun (s : dst) (a : bytes) =>
                safe_state dstep s0s P0 s a /\ input_size s = input_size st).
    assert (Hbuf : forall s a, I s a -> 0 <= pos s <= zlen (buf s) /\ unused s = []).
    { intros s a ((Hp & Hu & _) & _). split; assumption. }
    assert (Hstep : forall s a ml rd s' o,
               I s a -> decompress dstep s ml rd = Ok (s', o) -> I s' (a ++ o)).
    { intros s a ml rd s' o (Hb & Hi) Hd. split.
      - eapply decompress_safe; eassumption.
      - rewrite <- Hi. eapply decompress_input_size; eassumption. }
    assert (HI : I st acc) by (split; [exact Hs|reflexivity]).
    destruct (worker_generic I Hbuf Hstep fuel st size mb sched acc st' out HI Hsz Hmb H)
      as ((Hs' & Hi') & Hl).
    split; [exact Hs'|split; [exact Hi'|exact Hl]].
  Qed.

  (* ==== E. the caller loop can spin forever ============================ *)
  Section Spin.
    Variable quiet : stage_st -> Prop.
    Hypothesis quiet_step : forall s ml,
        quiet s -> snd (dstep s [] ml) = [] /\ quiet (fst (dstep s [] ml)).

    Lemma chain_run_quiet (ss : list stage_st) :
      forall up us ml,
        Forall quiet ss -> (length ss <= length up)%nat -> (length ss <= length us)%nat ->
        exists ss' up', chain_run dstep ss up us [] ml = Ok (ss', up', []) /\
                        Forall quiet ss' /\ length ss' = length ss /\
                        length up' = length up.
    Proof.
      induction ss as [|s ss IH]; intros up us ml Hq Hlu Hls; simpl.
      - exists [], up. repeat split; auto.
      - destruct up as [|u up]; [simpl in Hlu; lia|].
        destruct us as [|w us]; [simpl in Hls; lia|].
        simpl in Hlu, Hls. inversion Hq as [|? ? Hqs Hqss]; subst.
        destruct (IH up us ml Hqss ltac:(lia) ltac:(lia)) as (ss' & up' & Hc & Hq' & Hl1 & Hl2).
        destruct (u <? w).
        + destruct (quiet_step s ml Hqs) as (Ho & Hq1).
          destruct (dstep s [] ml) as [s1 o]. simpl in Ho, Hq1. subst o.
          cbv zeta. rewrite trim_out_nil, ?stop_here_nil_data, Hc. simpl. exists (s1 :: ss'), ((u + zlen []) :: up').
          repeat split; auto; simpl; lia.
        + change (zlen [] =? 0) with true. cbv iota.
          rewrite Hc. simpl. exists (s :: ss'), (u :: up').
          repeat split; auto; simpl; lia.
    Qed.

    Lemma stuck_step (st : dst) (ml : Z) (rd : nat) :
      stuck quiet st -> 0 < ml ->
      exists st', decompress dstep st ml rd = Ok (st', []) /\ stuck quiet st'.
    Proof.
      intros (Hq & Hlu & Hls & Hun & Hpos & Hno) Hml.
      unfold decompress.
      destruct (ml <? 0) eqn:E1; [apply Z.ltb_lt in E1; lia|].
      destruct (zlen (buf st) - pos st >=? ml) eqn:E2;
        [destruct (Z.geb_spec (zlen (buf st) - pos st) ml); [lia|discriminate]|].
      destruct (read_data st rd) as [st1 data] eqn:Hrd.
      apply read_data_spec in Hrd.
      destruct Hrd as (R1 & R2 & R3 & R4 & R5 & R6 & R7 & R8 & R9 & R10 & R11).
      rewrite Hun, zlen_nil in R11.
      assert (data = []) as ->.
      { destruct Hno as [Hf|[Hi|Hb]].
        - rewrite Hf in R9. symmetry in R9. apply app_eq_nil in R9. apply R9.
        - apply zlen_le0_nil. lia.
        - apply zlen_le0_nil. lia. }
      rewrite app_nil_l in R9. rewrite zlen_nil, Z.add_0_r in R10.
      rewrite R6, Hun. change (zlen [] >? 0) with false. cbv iota.
      unfold run_chain. rewrite R1, R2, R3.
      destruct (chain_run_quiet (stages st) (unpacked st) (unpacksizes st) ml Hq Hlu Hls)
        as (ss' & up' & Hc & Hq' & Hl1 & Hl2).
      rewrite Hc. simpl. rewrite zlen_nil, Z.add_0_r.
      destruct (zlen (buf st) - pos st <=? ml) eqn:E3;
        [|apply Z.leb_gt in E3; lia].
      rewrite R7, R8, Hpos, py_from_all. simpl.
      eexists. split; [reflexivity|].
      unfold stuck; simpl. rewrite R6, R4, R10, R5, <- R9.
      repeat split; auto; lia.
    Qed.

    (* ... and such a round is idle: no input taken, no coder put anything out *)
    Lemma chain_run_quiet_sum (ss : list stage_st) :
      forall up us ml ss' up' out,
        Forall quiet ss -> chain_run dstep ss up us [] ml = Ok (ss', up', out) ->
        zsum_l up' = zsum_l up.
    Proof.
      induction ss as [|s ss IH]; intros up us ml ss' up' out Hq H; simpl in H.
      - injection H as _ <- _. reflexivity.
      - destruct up as [|u up]; [discriminate|]. destruct us as [|w us]; [discriminate|].
        inversion Hq as [|? ? Hqs Hqss]; subst.
        destruct (u <? w).
        + destruct (quiet_step s ml Hqs) as (Ho & _).
          destruct (dstep s [] ml) as [s1 o]. simpl in Ho. subst o.
          cbv zeta in H. rewrite trim_out_nil, ?stop_here_nil_data in H.
          destruct (chain_run dstep ss up us [] ml) as [[[ss2 up2] d]|e] eqn:E; simpl in H; [|discriminate].
          injection H as _ <- _. cbn [zsum_l]. rewrite (IH _ _ _ _ _ _ Hqss E), zlen_nil. lia.
        + change (zlen [] =? 0) with true in H. cbv iota in H.
          destruct (chain_run dstep ss up us [] ml) as [[[ss2 up2] d]|e] eqn:E; simpl in H; [|discriminate].
          injection H as _ <- _. cbn [zsum_l]. now rewrite (IH _ _ _ _ _ _ Hqss E).
    Qed.

    Lemma stuck_step_idle (st st' : dst) (ml : Z) (rd : nat) (out : bytes) :
      stuck quiet st -> 0 < ml -> decompress dstep st ml rd = Ok (st', out) -> idle st st' = true.
    Proof.
      intros (Hq & Hlu & Hls & Hun & Hpos & Hno) Hml H.
      unfold decompress in H.
      destruct (ml <? 0) eqn:E1; [apply Z.ltb_lt in E1; lia|].
      destruct (zlen (buf st) - pos st >=? ml) eqn:E2;
        [destruct (Z.geb_spec (zlen (buf st) - pos st) ml); [lia|discriminate]|].
      destruct (read_data st rd) as [st1 data] eqn:Hrd.
      apply read_data_spec in Hrd.
      destruct Hrd as (R1 & R2 & R3 & R4 & R5 & R6 & R7 & R8 & R9 & R10 & R11).
      rewrite Hun, zlen_nil in R11.
      assert (data = []) as ->.
      { destruct Hno as [Hf|[Hi|Hb]].
        - rewrite Hf in R9. symmetry in R9. apply app_eq_nil in R9. apply R9.
        - apply zlen_le0_nil. lia.
        - apply zlen_le0_nil. lia. }
      rewrite zlen_nil, Z.add_0_r in R10.
      rewrite R6, Hun in H. change (zlen [] >? 0) with false in H. cbv iota in H.
      destruct (run_chain dstep st1 [] ml) as [[st2 tmp]|e] eqn:Hrc; simpl in H; [|discriminate].
      apply run_chain_spec in Hrc. destruct Hrc as (C1 & _ & C3 & _).
      rewrite R1, R2, R3 in C1. pose proof (chain_run_quiet_sum _ _ _ _ _ _ _ Hq C1) as Hsum.
      unfold idle, produced.
      destruct (_ <=? ml); injection H as <- _; simpl; rewrite C3, R10, Hsum, !Z.eqb_refl; reflexivity.
    Qed.

    Theorem worker_spins (fuel : nat) :
      forall (st : dst) (size mb : Z) (sched : list nat),
        stuck quiet st -> 0 < size -> 0 < mb ->
        worker_decompress dstep fuel st size mb sched = Err EFuel.
    Proof.
      induction fuel as [|fuel IH]; intros st size mb sched Hst Hsz Hmb;
        rewrite worker_unfold;
        (destruct (size >? 0) eqn:E; [|destruct (Z.gtb_spec size 0); [discriminate|lia]]).
      - reflexivity.
      - destruct (stuck_step st (Z.min size mb) (sched_hd st sched) Hst ltac:(lia))
          as (st1 & Hd & Hst1).
        rewrite Hd. simpl. change (zlen [] >? 0) with false. cbv iota.
        destruct (size <=? 0) eqn:E2; [apply Z.leb_le in E2; lia|].
        rewrite (IH st1 size mb (tl sched) Hst1 Hsz Hmb). reflexivity.
    Qed.
  End Spin.

  (* ==== C/D (second half): the stage contract ========================== *)
  Section Contract.
    (* D s0 = total stream decoder of a stage started in state s0 *)
    Variable D : stage_st -> bytes -> bytes.
    Hypothesis D_mono : forall s0 a b, prefix (D s0 a) (D s0 (a ++ b)).
    Hypothesis stage_safe : forall s0 s cin cout,
        reach dstep s0 s cin cout -> prefix cout (D s0 cin).

    Lemma Dchain_mono (s0s : list stage_st) :
      forall a b, prefix a b -> prefix (Dchain D s0s a) (Dchain D s0s b).
    Proof.
      induction s0s as [|s t IH]; intros a b Hp; simpl; [exact Hp|].
      apply IH. destruct Hp as [c ->]. apply D_mono.
    Qed.

    Lemma creach_prefix (s0s ss : list stage_st) (up us : list Z) (x z : bytes) :
      creach dstep s0s ss up us x z -> prefix z (Dchain D s0s x).
    Proof.
      induction 1 as [up us x|s0 s x y y' s0s ss up us w Hr Hp Hg Hc IH]; simpl; [apply prefix_refl|].
      eapply prefix_trans; [exact IH|]. apply Dchain_mono.
      eapply prefix_trans; [exact Hp|]. eapply stage_safe; exact Hr.
    Qed.

    Lemma safe_state_prefix (s0s : list stage_st) (P0 : bytes) (st : dst) (acc : bytes) :
      safe_state dstep s0s P0 st acc ->
      prefix (acc ++ py_from (buf st) (pos st))
             (Dchain D s0s (firstn (Z.to_nat (input_size st)) P0)).
    Proof.
      intros (_ & _ & x & z & Hcr & HP & _ & Hxl & Hz).
      rewrite <- Hz. eapply prefix_trans; [eapply creach_prefix; exact Hcr|].
      apply Dchain_mono. rewrite HP, firstn_app.
      rewrite firstn_all2 by (unfold zlen in Hxl; lia). apply prefix_app.
    Qed.

    (* PREFIX SAFETY, any chain length *)
    Theorem prefix_safety (st st' : dst) (calls : list (Z * nat)) (outs : bytes) :
      fresh st ->
      decompress_seq dstep st calls = Ok (st', outs) ->
      prefix (outs ++ py_from (buf st') (pos st'))
             (Dchain D (stages st) (packed_of st)).
    Proof.
      intros Hf H.
      destruct (decompress_seq_safe _ _ _ _ _ _ _ (fresh_safe st Hf) H) as (Hs & Hi).
      apply safe_state_prefix in Hs. rewrite Hi in Hs. exact Hs.
    Qed.

    (* chain of length 1 *)
    Corollary prefix_safety_single (st st' : dst) (s0 : stage_st)
              (calls : list (Z * nat)) (outs : bytes) :
      fresh st -> stages st = [s0] ->
      decompress_seq dstep st calls = Ok (st', outs) ->
      prefix (outs ++ py_from (buf st') (pos st')) (D s0 (packed_of st)).
    Proof.
      intros Hf Hs H. pose proof (prefix_safety st st' calls outs Hf H) as Hp.
      rewrite Hs in Hp. exact Hp.
    Qed.

    (* D. the loop delivers exactly the next [size] bytes of the safe stream *)
    Theorem worker_next (s0s : list stage_st) (P0 : bytes) (fuel : nat) (st st' : dst)
            (size mb : Z) (sched : list nat) (acc out : bytes) :
      safe_state dstep s0s P0 st acc -> 0 <= size -> 0 < mb ->
      worker_decompress dstep fuel st size mb sched = Ok (st', out) ->
      safe_state dstep s0s P0 st' (acc ++ out) /\
      zlen out = size /\
      out = firstn (Z.to_nat size)
                   (skipn (length acc)
                          (Dchain D s0s (firstn (Z.to_nat (input_size st)) P0))).
    Proof.
      intros Hs Hsz Hmb H.
      destruct (worker_safe s0s P0 fuel st st' size mb sched acc out Hs Hsz Hmb H)
        as (Hs' & Hi & Hl).
      split; [exact Hs'|]. split; [exact Hl|].
      pose proof (safe_state_prefix _ _ _ _ Hs') as Hp. rewrite Hi in Hp.
      destruct Hp as [c Hc]. rewrite Hc, <- !app_assoc.
      rewrite skipn_app, skipn_all, Nat.sub_diag. simpl.
      rewrite firstn_app.
      replace (Z.to_nat size) with (length out) by (unfold zlen in Hl; lia).
      rewrite firstn_all, Nat.sub_diag. simpl. now rewrite app_nil_r.
    Qed.

    Corollary worker_first (fuel : nat) (st st' : dst) (size mb : Z)
              (sched : list nat) (out : bytes) :
      fresh st -> 0 <= size -> 0 < mb ->
      worker_decompress dstep fuel st size mb sched = Ok (st', out) ->
      zlen out = size /\
      out = firstn (Z.to_nat size) (Dchain D (stages st) (packed_of st)).
    Proof.
      intros Hf Hsz Hmb H.
      destruct (worker_next _ _ _ _ _ _ _ _ _ _ (fresh_safe st Hf) Hsz Hmb H)
        as (_ & Hl & Ho).
      split; [exact Hl|exact Ho].
    Qed.
  End Contract.

End ChainProofs.

(* ---- non-vacuity: the toy stages satisfy the contract ----------------- *)
Lemma dup_app (a b : bytes) : dup (a ++ b) = dup a ++ dup b.
Proof. induction a as [|x a IH]; simpl; [reflexivity|]. now rewrite IH. Qed.

Lemma toy_D_mono (s0 : toy_state) (a b : bytes) : prefix (toy_D s0 a) (toy_D s0 (a ++ b)).
Proof.
  destruct s0 as [[tag k] p]. unfold toy_D.
  destruct (tag =? 1); [rewrite app_assoc; apply prefix_app|].
  destruct (tag =? 2); [rewrite dup_app|]; apply prefix_app.
Qed.

Lemma toy_reach_inv (s0 s : toy_state) (cin cout : bytes) :
  reach toy_dstep s0 s cin cout ->
  fst (fst s) = fst (fst s0) /\ snd (fst s) = snd (fst s0) /\
  (if fst (fst s0) =? 1 then snd s0 ++ cin = cout ++ snd s
   else if fst (fst s0) =? 2 then cout = dup cin else cout = cin).
Proof.
  induction 1 as [|s cin cout c ml Hr (IHt & IHk & IH)].
  - split; [reflexivity|]. split; [reflexivity|].
    destruct (fst (fst s0) =? 1); [now rewrite app_nil_r|].
    destruct (fst (fst s0) =? 2); reflexivity.
  - destruct s as [[t k] p]. simpl in IHt, IHk, IH. subst t k.
    unfold toy_dstep.
    destruct (fst (fst s0) =? 1).
    + cbv zeta. simpl fst. simpl snd.
      split; [reflexivity|]. split; [reflexivity|].
      rewrite <- app_assoc, firstn_skipn, !app_assoc, IH. reflexivity.
    + destruct (fst (fst s0) =? 2); simpl;
        (split; [reflexivity|]); (split; [reflexivity|]); subst cout.
      * symmetry; apply dup_app.
      * reflexivity.
Qed.

Lemma toy_stage_safe (s0 s : toy_state) (cin cout : bytes) :
  reach toy_dstep s0 s cin cout -> prefix cout (toy_D s0 cin).
Proof.
  intros H. apply toy_reach_inv in H. destruct H as (_ & _ & H).
  destruct s0 as [[tag k] p0]. unfold toy_D. simpl in H.
  destruct (tag =? 1); [rewrite H; apply prefix_app|].
  destruct (tag =? 2); subst cout; apply prefix_refl.
Qed.

(* the main theorems instantiated: the Section hypotheses are satisfiable *)
Theorem toy_prefix_safety (st st' : dstate toy_state) (calls : list (Z * nat)) (outs : bytes) :
  fresh st ->
  decompress_seq toy_dstep st calls = Ok (st', outs) ->
  prefix (outs ++ py_from (buf st') (pos st')) (Dchain toy_D (stages st) (packed_of st)).
Proof. exact (prefix_safety toy_state toy_dstep toy_D toy_D_mono toy_stage_safe st st' calls outs). Qed.

Theorem toy_worker_first (fuel : nat) (st st' : dstate toy_state) (size mb : Z)
        (sched : list nat) (out : bytes) :
  fresh st -> 0 <= size -> 0 < mb ->
  worker_decompress toy_dstep fuel st size mb sched = Ok (st', out) ->
  zlen out = size /\
  out = firstn (Z.to_nat size) (Dchain toy_D (stages st) (packed_of st)).
Proof.
  exact (worker_first toy_state toy_dstep toy_D toy_D_mono toy_stage_safe
                      fuel st st' size mb sched out).
Qed.

(* ---- E witness: declared unpack size 10, stream holds 3 bytes ---------- *)
Theorem toy_worker_spins (fuel : nat) :
  toy_worker fuel [toy_st 0 0 []] [10] 3 100 [1; 2; 3] 10 100 [] = Err EFuel.
Proof.
  unfold toy_worker, toy_init.
  destruct fuel as [|fuel]; [reflexivity|].
  rewrite worker_unfold.
  change (10 >? 0) with true. cbv iota.
  set (st0 := init_state [toy_st 0 0 []] [10] 3 100 [1; 2; 3]).
  set (st1 := mkD [toy_st 0 0 []] [3] [10] 3 3 100 [] [] 0 []).
  assert (Hd : decompress toy_dstep st0 (Z.min 10 100) (sched_hd st0 []) = Ok (st1, [1; 2; 3]))
    by (vm_compute; reflexivity).
  rewrite Hd. simpl bind. cbv iota beta.
  change (zlen [1; 2; 3] >? 0) with true. cbv iota zeta.
  change (10 - zlen [1; 2; 3] <=? 0) with false. cbv iota.
  rewrite (worker_spins toy_state toy_dstep (fun s => fst (fst s) = 0)).
  - reflexivity.
  - intros [[t k] p] ml Ht. simpl in Ht. subst t. simpl. split; reflexivity.
  - unfold stuck, st1; simpl. repeat split; auto.
  - reflexivity.
  - reflexivity.
Qed.

(* ---- B needs the buffer invariant: without it the bound fails --------- *)
Theorem decompress_len_no_inv_refuted :
  exists (st st' : dstate toy_state) (ml : Z) (rd : nat) (out : bytes),
    unused st = [] /\ 0 <= ml /\
    decompress toy_dstep st ml rd = Ok (st', out) /\ ~ zlen out <= ml.
Proof.
  exists (mkD [toy_st 0 0 []] [0] [10] 0 4 4 [] [] 5 [1; 2; 3; 4]).
  eexists. exists 1, 4%nat. eexists.
  split; [reflexivity|]. split; [lia|]. split; [vm_compute; reflexivity|].
  vm_compute. intros H; apply H; reflexivity.
Qed.

(* ---- regression vectors (also useful for the Python mirror) ----------- *)
Example toy_run_lag :
  toy_run [toy_st 1 2 []] [100] 6 4 [1; 2; 3; 4; 5; 6; 7]
          [(3, 10%nat); (3, 2%nat); (-1, 10%nat); (5, 10%nat); (5, 10%nat)]
  = [Ok [1; 2]; Ok [3; 4]; Ok [5; 6]; Ok []; Ok []].
Proof. vm_compute. reflexivity. Qed.

Example toy_run_expand_lag :
  toy_run [toy_st 2 0 []; toy_st 1 1 []] [100; 100] 6 4 [1; 2; 3; 4; 5; 6; 7]
          [(3, 10%nat); (3, 2%nat); (-1, 10%nat); (5, 10%nat); (5, 10%nat)]
  = [Ok [1; 1; 2]; Ok [2; 3; 3]; Ok [4; 4; 5; 5; 6; 6]; Ok []; Ok []].
Proof. vm_compute. reflexivity. Qed.

Example toy_run_gate_eof :
  toy_run [toy_st 0 0 []] [2] 6 4 [1; 2; 3; 4; 5; 6; 7] [(3, 10%nat); (3, 2%nat)]
  = [Ok [1; 2; 3]; Err EEof].
Proof. vm_compute. reflexivity. Qed.

Example toy_worker_ok :
  toy_worker 10 [toy_st 2 0 []; toy_st 1 1 []] [100; 100] 6 4 [1; 2; 3; 4; 5; 6; 7] 7 3 [1%nat]
  = Ok [1; 1; 2; 2; 3; 3; 4].
Proof. vm_compute. reflexivity. Qed.

Print Assumptions decompress_book_inv.
Print Assumptions decompress_seq_book_inv.
Print Assumptions decompress_len.
Print Assumptions prefix_safety.
Print Assumptions prefix_safety_single.
Print Assumptions worker_len.
Print Assumptions worker_next.
Print Assumptions worker_first.
Print Assumptions worker_spins.
Print Assumptions toy_prefix_safety.
Print Assumptions toy_worker_first.
Print Assumptions toy_worker_spins.
Print Assumptions decompress_len_no_inv_refuted.

(* ===================================================================== *)
(*            PART 2b : the guarded caller loop (stall guard)            *)
(* ===================================================================== *)
Section GuardProofs.

  Variable stage_st : Type.
  Variable dstep : stage_st -> bytes -> Z -> stage_st * bytes.

  Local Notation dst := (dstate stage_st).

  Lemma worker_loop_g_unfold (fuel : nat) (stalled : Z) (st : dst) (size mb : Z)
        (sched : list nat) :
    worker_loop_g dstep fuel stalled st size mb sched =
    if size >? 0 then
      match fuel with
      | O => Err EFuel
      | S fuel' =>
        do r <- decompress dstep st (Z.min size mb) (sched_hd st sched);
        let '(st', tmp) := r in
        let rem := if zlen tmp >? 0 then size - zlen tmp else size in
        do stalled' <- (if zlen tmp >? 0 then Ok 0
                        else if idle st st' then
                               (if stalled + 1 >? max_stalled_rounds then Err EBad7z
                                else Ok (stalled + 1))
                             else Ok stalled);
        if rem <=? 0 then Ok (st', tmp)
        else
          do r' <- worker_loop_g dstep fuel' stalled' st' rem mb (tl sched);
          let '(st'', out) := r' in
          Ok (st'', tmp ++ out)
      end
    else Ok (st, []).
  Proof. destruct fuel; reflexivity. Qed.

  (* ---- (1) an Ok of the guarded loop is the same Ok of the unguarded loop -- *)
  Lemma worker_g_ok_unguarded (fuel : nat) :
    forall (stalled : Z) (st : dst) (size mb : Z) (sched : list nat) (r : dst * bytes),
      worker_loop_g dstep fuel stalled st size mb sched = Ok r ->
      worker_decompress dstep fuel st size mb sched = Ok r.
  Proof.
    induction fuel as [|fuel IH]; intros stalled st size mb sched r H;
      rewrite worker_loop_g_unfold in H; rewrite worker_unfold;
      (destruct (size >? 0); [|exact H]); [discriminate|].
    destruct (decompress dstep st (Z.min size mb) (sched_hd st sched)) as [[st1 tmp]|e];
      simpl in H |- *; [|discriminate].
    destruct (zlen tmp >? 0).
    - simpl in H. destruct (size - zlen tmp <=? 0); [exact H|].
      destruct (worker_loop_g dstep fuel 0 st1 (size - zlen tmp) mb (tl sched))
        as [[st2 o]|e] eqn:Hw; simpl in H; [|discriminate].
      rewrite (IH _ _ _ _ _ _ Hw). simpl. exact H.
    - destruct (size <=? 0) eqn:Er.
      + destruct (idle st st1);
          [destruct (stalled + 1 >? max_stalled_rounds); [discriminate|]|];
          simpl in H; exact H.
      + destruct (idle st st1);
          [destruct (stalled + 1 >? max_stalled_rounds); [discriminate|]|];
          simpl in H.
        * destruct (worker_loop_g dstep fuel (stalled + 1) st1 size mb (tl sched))
            as [[st2 o]|e] eqn:Hw; simpl in H; [|discriminate].
          rewrite (IH _ _ _ _ _ _ Hw). simpl. exact H.
        * destruct (worker_loop_g dstep fuel stalled st1 size mb (tl sched))
            as [[st2 o]|e] eqn:Hw; simpl in H; [|discriminate].
          rewrite (IH _ _ _ _ _ _ Hw). simpl. exact H.
  Qed.

  Theorem worker_g_len (L0 : Z) (fuel : nat) (st st' : dst) (size mb : Z)
          (sched : list nat) (out : bytes) :
    book_inv L0 st -> 0 <= size -> 0 < mb ->
    worker_decompress_g dstep fuel st size mb sched = Ok (st', out) ->
    zlen out = size /\ book_inv L0 st'.
  Proof.
    intros Hinv Hsz Hmb H. apply worker_g_ok_unguarded in H.
    exact (worker_len stage_st dstep L0 fuel st st' size mb sched out Hinv Hsz Hmb H).
  Qed.

  Section GContract.
    Variable D : stage_st -> bytes -> bytes.
    Hypothesis D_mono : forall s0 a b, prefix (D s0 a) (D s0 (a ++ b)).
    Hypothesis stage_safe : forall s0 s cin cout,
        reach dstep s0 s cin cout -> prefix cout (D s0 cin).

    Theorem worker_g_next (s0s : list stage_st) (P0 : bytes) (fuel : nat) (st st' : dst)
            (size mb : Z) (sched : list nat) (acc out : bytes) :
      safe_state dstep s0s P0 st acc -> 0 <= size -> 0 < mb ->
      worker_decompress_g dstep fuel st size mb sched = Ok (st', out) ->
      safe_state dstep s0s P0 st' (acc ++ out) /\
      zlen out = size /\
      out = firstn (Z.to_nat size)
                   (skipn (length acc)
                          (Dchain D s0s (firstn (Z.to_nat (input_size st)) P0))).
    Proof.
      intros Hs Hsz Hmb H. apply worker_g_ok_unguarded in H.
      exact (worker_next stage_st dstep D D_mono stage_safe s0s P0 fuel st st' size mb
                         sched acc out Hs Hsz Hmb H).
    Qed.

    Theorem worker_g_first (fuel : nat) (st st' : dst) (size mb : Z)
            (sched : list nat) (out : bytes) :
      fresh st -> 0 <= size -> 0 < mb ->
      worker_decompress_g dstep fuel st size mb sched = Ok (st', out) ->
      zlen out = size /\
      out = firstn (Z.to_nat size) (Dchain D (stages st) (packed_of st)).
    Proof.
      intros Hf Hsz Hmb H. apply worker_g_ok_unguarded in H.
      exact (worker_first stage_st dstep D D_mono stage_safe fuel st st' size mb
                          sched out Hf Hsz Hmb H).
    Qed.
  End GContract.

  (* ---- (3) agreement with the unguarded loop ------------------------------ *)
  (* the guard can only turn a result into Err EBad7z *)
  Theorem worker_g_agrees (fuel : nat) :
    forall (stalled : Z) (st : dst) (size mb : Z) (sched : list nat) (r : dst * bytes),
      worker_decompress dstep fuel st size mb sched = Ok r ->
      worker_loop_g dstep fuel stalled st size mb sched = Ok r \/
      worker_loop_g dstep fuel stalled st size mb sched = Err EBad7z.
  Proof.
    induction fuel as [|fuel IH]; intros stalled st size mb sched r H;
      rewrite worker_unfold in H; rewrite worker_loop_g_unfold;
      (destruct (size >? 0); [|left; exact H]); [discriminate|].
    destruct (decompress dstep st (Z.min size mb) (sched_hd st sched)) as [[st1 tmp]|e];
      simpl in H |- *; [|discriminate].
    destruct (zlen tmp >? 0).
    - simpl. destruct (size - zlen tmp <=? 0); [left; exact H|].
      destruct (worker_decompress dstep fuel st1 (size - zlen tmp) mb (tl sched))
        as [[st2 o]|e] eqn:Hw; simpl in H; [|discriminate].
      destruct (IH 0 _ _ _ _ _ Hw) as [Hg|Hg]; rewrite Hg; simpl; [left; exact H|right; reflexivity].
    - destruct (size <=? 0) eqn:Er.
      + destruct (idle st st1);
          [destruct (stalled + 1 >? max_stalled_rounds); [right; reflexivity|]|];
          simpl; left; exact H.
      + destruct (worker_decompress dstep fuel st1 size mb (tl sched))
          as [[st2 o]|e] eqn:Hw; simpl in H; [|discriminate].
        destruct (idle st st1);
          [destruct (stalled + 1 >? max_stalled_rounds); [right; reflexivity|]|];
          simpl.
        * destruct (IH (stalled + 1) _ _ _ _ _ Hw) as [Hg|Hg]; rewrite Hg; simpl;
            [left; exact H|right; reflexivity].
        * destruct (IH stalled _ _ _ _ _ Hw) as [Hg|Hg]; rewrite Hg; simpl;
            [left; exact H|right; reflexivity].
  Qed.

  Lemma worker_stall_max_unfold (fuel : nat) (stalled : Z) (st : dst) (size mb : Z)
        (sched : list nat) :
    worker_stall_max dstep fuel stalled st size mb sched =
    if size >? 0 then
      match fuel with
      | O => stalled
      | S fuel' =>
        match decompress dstep st (Z.min size mb) (sched_hd st sched) with
        | Err _ => stalled
        | Ok (st', tmp) =>
          let rem := if zlen tmp >? 0 then size - zlen tmp else size in
          let stalled' := if zlen tmp >? 0 then 0
                          else if idle st st' then stalled + 1 else stalled in
          if rem <=? 0 then Z.max stalled stalled'
          else Z.max stalled (worker_stall_max dstep fuel' stalled' st' rem mb (tl sched))
        end
      end
    else stalled.
  Proof. destruct fuel; reflexivity. Qed.

  Lemma worker_stall_max_ge (fuel : nat) :
    forall (stalled : Z) (st : dst) (size mb : Z) (sched : list nat),
      stalled <= worker_stall_max dstep fuel stalled st size mb sched.
  Proof.
    destruct fuel as [|fuel]; intros stalled st size mb sched;
      rewrite worker_stall_max_unfold; destruct (size >? 0); try lia.
    destruct (decompress dstep st (Z.min size mb) (sched_hd st sched)) as [[st1 tmp]|e];
      [|lia].
    cbv zeta. destruct (_ <=? 0); lia.
  Qed.

  (* if the stalled counter of the unguarded run never exceeds 16, the guarded
     loop returns the very same Ok *)
  Theorem worker_g_agrees_max (fuel : nat) :
    forall (stalled : Z) (st : dst) (size mb : Z) (sched : list nat) (r : dst * bytes),
      worker_decompress dstep fuel st size mb sched = Ok r ->
      worker_stall_max dstep fuel stalled st size mb sched <= max_stalled_rounds ->
      worker_loop_g dstep fuel stalled st size mb sched = Ok r.
  Proof.
    induction fuel as [|fuel IH]; intros stalled st size mb sched r H Hmax;
      rewrite worker_unfold in H; rewrite worker_loop_g_unfold;
      rewrite worker_stall_max_unfold in Hmax;
      (destruct (size >? 0); [|exact H]); [discriminate|].
    destruct (decompress dstep st (Z.min size mb) (sched_hd st sched)) as [[st1 tmp]|e];
      simpl in H |- *; [|discriminate].
    cbv zeta in Hmax.
    destruct (zlen tmp >? 0).
    - simpl. destruct (size - zlen tmp <=? 0); [exact H|].
      destruct (worker_decompress dstep fuel st1 (size - zlen tmp) mb (tl sched))
        as [[st2 o]|e] eqn:Hw; simpl in H; [|discriminate].
      rewrite (IH 0 _ _ _ _ _ Hw) by lia. simpl. exact H.
    - destruct (size <=? 0) eqn:Er.
      + destruct (idle st st1).
        * destruct (stalled + 1 >? max_stalled_rounds) eqn:Eg;
            [apply Z.gtb_lt in Eg; lia|]. simpl. exact H.
        * simpl. exact H.
      + destruct (worker_decompress dstep fuel st1 size mb (tl sched))
          as [[st2 o]|e] eqn:Hw; simpl in H; [|discriminate].
        destruct (idle st st1).
        * pose proof (worker_stall_max_ge fuel (stalled + 1) st1 size mb (tl sched)) as Hge.
          destruct (stalled + 1 >? max_stalled_rounds) eqn:Eg;
            [apply Z.gtb_lt in Eg; lia|]. simpl.
          rewrite (IH (stalled + 1) _ _ _ _ _ Hw) by lia. simpl. exact H.
        * simpl.
          rewrite (IH stalled _ _ _ _ _ Hw) by lia. simpl. exact H.
  Qed.

  Corollary worker_g_agrees_top (fuel : nat) (st : dst) (size mb : Z) (sched : list nat)
            (r : dst * bytes) :
    worker_decompress dstep fuel st size mb sched = Ok r ->
    worker_stall_max dstep fuel 0 st size mb sched <= 16 ->
    worker_decompress_g dstep fuel st size mb sched = Ok r.
  Proof. intros H Hm. exact (worker_g_agrees_max fuel 0 st size mb sched r H Hm). Qed.

  (* ---- (2) termination: no stage contract, no schedule condition ---------- *)
  Lemma g_chain_run_no_fuel (ss : list stage_st) :
    forall up us data ml, chain_run dstep ss up us data ml <> Err EFuel.
  Proof.
    induction ss as [|s ss IH]; intros up us data ml H; simpl in H; [discriminate|].
    destruct up as [|u up]; [discriminate|]. destruct us as [|z us]; [discriminate|].
    destruct (u <? z).
    - destruct (dstep s data ml) as [s1 o0]. set (o := trim_out ss o0 (z - u)) in H.
      destruct (stop_here ss data o); [discriminate|].
      destruct (chain_run dstep ss up us o ml) as [[[ss2 up2] d]|e] eqn:E;
        simpl in H; [discriminate|].
      injection H as ->. exact (IH _ _ _ _ E).
    - destruct (zlen data =? 0); [|discriminate].
      destruct (chain_run dstep ss up us [] ml) as [[[ss2 up2] d]|e] eqn:E;
        simpl in H; [discriminate|].
      injection H as ->. exact (IH _ _ _ _ E).
  Qed.

  Lemma g_run_chain_no_fuel (st : dst) (data : bytes) (ml : Z) :
    run_chain dstep st data ml <> Err EFuel.
  Proof.
    unfold run_chain. intros H.
    destruct (chain_run dstep (stages st) (unpacked st) (unpacksizes st) data ml)
      as [[[ss up] o]|e] eqn:E; simpl in H; [discriminate|].
    injection H as ->. exact (g_chain_run_no_fuel _ _ _ _ _ E).
  Qed.

  Lemma g_decompress_no_fuel (st : dst) (ml : Z) (rd : nat) :
    decompress dstep st ml rd <> Err EFuel.
  Proof.
    unfold decompress. intros H.
    destruct (ml <? 0).
    - destruct (read_data st rd) as [st1 data].
      destruct (run_chain dstep st1 (unused st1 ++ data) ml) as [[st2 tmp]|e] eqn:E;
        simpl in H; [discriminate|].
      injection H as ->. exact (g_run_chain_no_fuel _ _ _ E).
    - destruct (zlen (buf st) - pos st >=? ml); [discriminate|].
      destruct (read_data st rd) as [st1 data].
      destruct (zlen (unused st1) >? 0).
      + destruct (run_chain dstep st1 (unused st1 ++ data) ml) as [[st2 tmp]|e] eqn:E;
          simpl in H.
        * destruct (_ <=? ml); discriminate.
        * injection H as ->. exact (g_run_chain_no_fuel _ _ _ E).
      + destruct (run_chain dstep st1 data ml) as [[st2 tmp]|e] eqn:E; simpl in H.
        * destruct (_ <=? ml); discriminate.
        * injection H as ->. exact (g_run_chain_no_fuel _ _ _ E).
  Qed.

  (* ---- progress of the chain --------------------------------------------- *)
  Lemma budget_l_nonneg (up us : list Z) : 0 <= budget_l up us.
  Proof.
    revert us. induction up as [|u up IH]; intros [|z us]; simpl; try lia.
    specialize (IH us). lia.
  Qed.

  Lemma chain_run_progress (ss : list stage_st) :
    forall up us data ml ss' up' out,
      chain_run dstep ss up us data ml = Ok (ss', up', out) ->
      zsum_l up <= zsum_l up' /\ budget_l up' us <= budget_l up us /\
      (zsum_l up' <> zsum_l up -> budget_l up' us < budget_l up us).
  Proof.
    induction ss as [|s ss IH]; intros up us data ml ss' up' out H; simpl in H.
    - injection H as _ <- _. repeat split; lia.
    - destruct up as [|u up]; [discriminate|]. destruct us as [|z us]; [discriminate|].
      destruct (u <? z) eqn:Eg.
      + apply Z.ltb_lt in Eg.
        destruct (dstep s data ml) as [s1 o0]. set (o := trim_out ss o0 (z - u)) in H.
        pose proof (zlen_nonneg o) as Ho.
        destruct (stop_here ss data o) eqn:Est.
        * apply stop_here_true in Est. destruct Est as (Ho0 & _ & _).
          injection H as _ <- _. rewrite Ho0, zlen_nil. cbn [zsum_l budget_l].
          replace (u + 0) with u by lia. repeat split; lia.
        * destruct (chain_run dstep ss up us o ml) as [[[ss2 up2] d]|e] eqn:E;
            simpl in H; [|discriminate].
          injection H as _ <- _. destruct (IH _ _ _ _ _ _ _ E) as (H1 & H2 & H3).
          cbn [zsum_l budget_l]. split; [lia|]. split; [lia|].
          intros Hne. destruct (Z.eq_dec (zsum_l up2) (zsum_l up)) as [He|He]; [|specialize (H3 He); lia].
          assert (0 < zlen o) by lia. lia.
      + destruct (zlen data =? 0); [|discriminate].
        destruct (chain_run dstep ss up us [] ml) as [[[ss2 up2] d]|e] eqn:E;
          simpl in H; [|discriminate].
        injection H as _ <- _. destruct (IH _ _ _ _ _ _ _ E) as (H1 & H2 & H3).
        cbn [zsum_l budget_l]. split; [lia|]. split; [lia|].
        intros Hne. apply Z.add_lt_mono_l. apply H3. lia.
  Qed.

  (* one call of decompress runs the chain at most once, on the same gates *)
  Lemma g_decompress_chain (st st' : dst) (ml : Z) (rd : nat) (out : bytes) :
    decompress dstep st ml rd = Ok (st', out) ->
    unpacksizes st' = unpacksizes st /\
    (unpacked st' = unpacked st \/
     exists data ml' tmp, chain_run dstep (stages st) (unpacked st) (unpacksizes st) data ml'
                          = Ok (stages st', unpacked st', tmp)).
  Proof.
    unfold decompress. intros H.
    assert (Hrun : forall st1 data0 rd0 st2 data tmp ml',
               read_data st rd0 = (st1, data0) ->
               run_chain dstep st1 data ml' = Ok (st2, tmp) ->
               unpacksizes st2 = unpacksizes st /\
               chain_run dstep (stages st) (unpacked st) (unpacksizes st) data ml'
               = Ok (stages st2, unpacked st2, tmp)).
    { intros st1 data0 rd0 st2 data tmp ml' Hrd Hrc.
      apply read_data_spec in Hrd. destruct Hrd as (R1 & R2 & R3 & _).
      apply run_chain_spec in Hrc. destruct Hrc as (C1 & C2 & _).
      rewrite R1, R2, R3 in C1. split; [congruence|exact C1]. }
    destruct (ml <? 0).
    - destruct (read_data st rd) as [st1 data] eqn:Hrd.
      destruct (run_chain dstep st1 (unused st1 ++ data) ml) as [[st2 tmp]|e] eqn:E;
        simpl in H; [|discriminate].
      destruct (Hrun _ _ _ _ _ _ _ Hrd E) as (Hu & Hc).
      injection H as <- _. simpl. split; [exact Hu|]. right. eauto.
    - destruct (zlen (buf st) - pos st >=? ml).
      + injection H as <- _. simpl. split; [reflexivity|left; reflexivity].
      + destruct (read_data st rd) as [st1 data] eqn:Hrd.
        destruct (zlen (unused st1) >? 0).
        * destruct (run_chain dstep st1 (unused st1 ++ data) ml) as [[st2 tmp]|e] eqn:E;
            simpl in H; [|discriminate].
          destruct (Hrun _ _ _ _ _ _ _ Hrd E) as (Hu & Hc).
          destruct (_ <=? ml); injection H as <- _; simpl; (split; [exact Hu|right; eauto]).
        * destruct (run_chain dstep st1 data ml) as [[st2 tmp]|e] eqn:E;
            simpl in H; [|discriminate].
          destruct (Hrun _ _ _ _ _ _ _ Hrd E) as (Hu & Hc).
          destruct (_ <=? ml); injection H as <- _; simpl; (split; [exact Hu|right; eauto]).
  Qed.

  Lemma decompress_progress (st st' : dst) (ml : Z) (rd : nat) (out : bytes) :
    decompress dstep st ml rd = Ok (st', out) ->
    budget st' <= budget st /\ (produced st' <> produced st -> budget st' < budget st).
  Proof.
    intros H. destruct (g_decompress_chain _ _ _ _ _ H) as (Hus & [Hup|(data & ml' & tmp & Hc)]);
      unfold budget, produced; rewrite Hus.
    - rewrite Hup. split; [lia|congruence].
    - destruct (chain_run_progress _ _ _ _ _ _ _ _ Hc) as (_ & H2 & H3). split; assumption.
  Qed.

  Lemma budget_nonneg (st : dst) : 0 <= budget st.
  Proof. apply budget_l_nonneg. Qed.

  (* what a call does to the file and to [consumed]; no invariant needed *)
  Lemma g_decompress_io (st st' : dst) (ml : Z) (rd : nat) (out : bytes) :
    decompress dstep st ml rd = Ok (st', out) ->
    exists data, fp_rest st = data ++ fp_rest st' /\
                 consumed st' = consumed st + zlen data.
  Proof.
    unfold decompress. intros H.
    destruct (ml <? 0).
    - destruct (read_data st rd) as [st1 data] eqn:Hrd.
      apply read_data_spec in Hrd.
      destruct Hrd as (_ & _ & _ & _ & _ & _ & _ & _ & R9 & R10 & _).
      destruct (run_chain dstep st1 (unused st1 ++ data) ml) as [[st2 tmp]|e] eqn:E;
        simpl in H; [|discriminate].
      apply run_chain_spec in E. destruct E as (_ & _ & C3 & _ & _ & _ & _ & _ & C9).
      injection H as <- _. simpl. exists data. rewrite C9, C3. split; assumption.
    - destruct (zlen (buf st) - pos st >=? ml).
      + injection H as <- _. simpl. exists []. rewrite zlen_nil. split; [reflexivity|lia].
      + destruct (read_data st rd) as [st1 data] eqn:Hrd.
        apply read_data_spec in Hrd.
        destruct Hrd as (_ & _ & _ & _ & _ & _ & _ & _ & R9 & R10 & _).
        assert (Hgoal : forall st2 tmp,
                   fp_rest st2 = fp_rest st1 -> consumed st2 = consumed st1 ->
                   (if zlen (buf st) - pos st + zlen tmp <=? ml
                    then Ok (set_buf st2 (unused st2) [] 0, py_from (buf st2) (pos st2) ++ tmp)
                    else Ok (set_buf st2 (unused st2)
                                     (py_from tmp (ml - (zlen (buf st) - pos st))) 0,
                             py_from (buf st2) (pos st2) ++
                             py_to tmp (ml - (zlen (buf st) - pos st)))) = Ok (st', out) ->
                   exists data0, fp_rest st = data0 ++ fp_rest st' /\
                                 consumed st' = consumed st + zlen data0).
        { intros st2 tmp Hf Hc H2.
          destruct (_ <=? ml); injection H2 as <- _; simpl; exists data;
            rewrite Hf, Hc; split; assumption. }
        destruct (zlen (unused st1) >? 0).
        * destruct (run_chain dstep st1 (unused st1 ++ data) ml) as [[st2 tmp]|e] eqn:E;
            simpl in H; [|discriminate].
          apply run_chain_spec in E. destruct E as (_ & _ & C3 & _ & _ & _ & _ & _ & C9).
          eapply Hgoal; [| |exact H]; simpl; assumption.
        * destruct (run_chain dstep st1 data ml) as [[st2 tmp]|e] eqn:E;
            simpl in H; [|discriminate].
          apply run_chain_spec in E. destruct E as (_ & _ & C3 & _ & _ & _ & _ & _ & C9).
          eapply Hgoal; [| |exact H]; assumption.
  Qed.

  (* measure: 17 * owed bytes + unread file bytes + what the coders may still put out
     + (17 - stalled) *)
  Lemma worker_loop_g_terminates (fuel : nat) :
    forall (stalled : Z) (st : dst) (size mb : Z) (sched : list nat),
      stalled <= max_stalled_rounds ->
      (17 * Z.to_nat size + length (fp_rest st) + Z.to_nat (budget st) + Z.to_nat (17 - stalled) <= fuel)%nat ->
      worker_loop_g dstep fuel stalled st size mb sched <> Err EFuel.
  Proof.
    unfold max_stalled_rounds.
    induction fuel as [|fuel IH]; intros stalled st size mb sched Hs Hf;
      rewrite worker_loop_g_unfold;
      (destruct (size >? 0) eqn:Esz; [|discriminate]); apply Z.gtb_lt in Esz; [lia|].
    destruct (decompress dstep st (Z.min size mb) (sched_hd st sched)) as [[st1 tmp]|e] eqn:Hd.
    2:{ simpl. intros H. injection H as ->. exact (g_decompress_no_fuel _ _ _ Hd). }
    simpl. destruct (g_decompress_io _ _ _ _ _ Hd) as (data & Hfp & Hcons).
    destruct (decompress_progress _ _ _ _ _ Hd) as (Hb1 & Hb2).
    pose proof (budget_nonneg st) as Hbn. pose proof (budget_nonneg st1) as Hbn1.
    assert (Hlen : (length (fp_rest st) = length data + length (fp_rest st1))%nat)
      by (rewrite Hfp, app_length; reflexivity).
    assert (Hrec : forall stalled' rem,
               stalled' <= 16 ->
               (17 * Z.to_nat rem + length (fp_rest st1) + Z.to_nat (budget st1) + Z.to_nat (17 - stalled') <= fuel)%nat ->
               (do r' <- worker_loop_g dstep fuel stalled' st1 rem mb (tl sched);
                let '(st'', out) := r' in Ok (st'', tmp ++ out)) <> Err EFuel).
    { intros s' rem Hs' Hf' H.
      destruct (worker_loop_g dstep fuel s' st1 rem mb (tl sched)) as [[st2 o]|e] eqn:Hw;
        simpl in H; [discriminate|].
      injection H as ->. exact (IH _ _ _ _ _ Hs' Hf' Hw). }
    destruct (zlen tmp >? 0) eqn:Et.
    - apply Z.gtb_lt in Et. simpl.
      destruct (size - zlen tmp <=? 0) eqn:Er; [discriminate|]. apply Z.leb_gt in Er.
      apply Hrec; lia.
    - destruct (idle st st1) eqn:Ec.
      + destruct (stalled + 1 >? max_stalled_rounds) eqn:Eg; [discriminate|].
        unfold max_stalled_rounds in Eg.
        assert (stalled + 1 <= 16) by (destruct (Z.gtb_spec (stalled + 1) 16); [discriminate|lia]).
        simpl. destruct (size <=? 0); [discriminate|]. apply Hrec; lia.
      + simpl. destruct (size <=? 0); [discriminate|].
        unfold idle in Ec. apply andb_false_iff in Ec.
        destruct Ec as [Ec|Ec]; apply Z.eqb_neq in Ec.
        * assert (0 < zlen data) by (pose proof (zlen_nonneg data); lia).
          unfold zlen in *. apply Hrec; lia.
        * specialize (Hb2 Ec). apply Hrec; lia.
  Qed.

  Theorem worker_g_terminates (fuel : nat) (st : dst) (size mb : Z) (sched : list nat) :
    (17 * Z.to_nat size + length (fp_rest st) + Z.to_nat (budget st) + 17 <= fuel)%nat ->
    worker_decompress_g dstep fuel st size mb sched <> Err EFuel.
  Proof.
    intros Hf. unfold worker_decompress_g.
    apply worker_loop_g_terminates; [unfold max_stalled_rounds; lia|].
    change (Z.to_nat (17 - 0)) with 17%nat. exact Hf.
  Qed.

  Corollary worker_g_terminates_18 (fuel : nat) (st : dst) (size mb : Z) (sched : list nat) :
    (18 * (Z.to_nat size + length (fp_rest st) + Z.to_nat (budget st) + 1) <= fuel)%nat ->
    worker_decompress_g dstep fuel st size mb sched <> Err EFuel.
  Proof. intros Hf. apply worker_g_terminates. lia. Qed.

  (* ---- the former hang is now detected -------------------------------------- *)
  Section GSpin.
    Variable quiet : stage_st -> Prop.
    Hypothesis quiet_step : forall s ml,
        quiet s -> snd (dstep s [] ml) = [] /\ quiet (fst (dstep s [] ml)).

    Theorem worker_g_detects_eof (fuel : nat) :
      forall (stalled : Z) (st : dst) (size mb : Z) (sched : list nat),
        stuck quiet st -> fp_rest st = [] -> 0 < size -> 0 < mb ->
        stalled <= max_stalled_rounds ->
        (Z.to_nat (17 - stalled) <= fuel)%nat ->
        worker_loop_g dstep fuel stalled st size mb sched = Err EBad7z.
    Proof.
      unfold max_stalled_rounds.
      induction fuel as [|fuel IH]; intros stalled st size mb sched Hst Hfp Hsz Hmb Hs Hf;
        [lia|].
      rewrite worker_loop_g_unfold.
      destruct (size >? 0) eqn:E; [|destruct (Z.gtb_spec size 0); [discriminate|lia]].
      destruct (stuck_step stage_st dstep quiet quiet_step st (Z.min size mb)
                           (sched_hd st sched) Hst ltac:(lia)) as (st1 & Hd & Hst1).
      rewrite Hd. simpl.
      destruct (g_decompress_io _ _ _ _ _ Hd) as (data & Hio & Hc).
      rewrite Hfp in Hio. symmetry in Hio. apply app_eq_nil in Hio. destruct Hio as (-> & Hfp1).
      assert (Hml : 0 < Z.min size mb) by lia.
      rewrite (stuck_step_idle stage_st dstep quiet quiet_step st st1 _ _ _ Hst Hml Hd).
      change (zlen [] >? 0) with false. cbv iota.
      destruct (stalled + 1 >? max_stalled_rounds) eqn:Eg; [reflexivity|].
      unfold max_stalled_rounds in Eg.
      assert (stalled + 1 <= 16) by (destruct (Z.gtb_spec (stalled + 1) 16); [discriminate|lia]).
      simpl. destruct (size <=? 0) eqn:E2; [apply Z.leb_le in E2; lia|].
      rewrite (IH (stalled + 1) st1 size mb (tl sched) Hst1 Hfp1 Hsz Hmb); [reflexivity|lia|lia].
    Qed.
  End GSpin.

End GuardProofs.

(* ---- toy instances and examples -------------------------------------------- *)
Theorem toy_worker_g_first (fuel : nat) (st st' : dstate toy_state) (size mb : Z)
        (sched : list nat) (out : bytes) :
  fresh st -> 0 <= size -> 0 < mb ->
  worker_decompress_g toy_dstep fuel st size mb sched = Ok (st', out) ->
  zlen out = size /\
  out = firstn (Z.to_nat size) (Dchain toy_D (stages st) (packed_of st)).
Proof.
  exact (worker_g_first toy_state toy_dstep toy_D toy_D_mono toy_stage_safe
                        fuel st st' size mb sched out).
Qed.

(* the former spin witness (declared unpack size 10, stream holds 3 bytes):
   1 delivering round + 17 stalled rounds, then Bad7zFile *)
Theorem toy_worker_g_detects (fuel : nat) :
  toy_worker_g (18 + fuel) [toy_st 0 0 []] [10] 3 100 [1; 2; 3] 10 100 [] = Err EBad7z.
Proof.
  unfold toy_worker_g, toy_init, worker_decompress_g.
  change (18 + fuel)%nat with (S (17 + fuel)).
  assert (Hn : (17 <= 17 + fuel)%nat) by lia.
  generalize dependent (17 + fuel)%nat. intros n Hn.
  rewrite worker_loop_g_unfold.
  change (10 >? 0) with true. cbv iota.
  set (st0 := init_state [toy_st 0 0 []] [10] 3 100 [1; 2; 3]).
  set (st1 := mkD [toy_st 0 0 []] [3] [10] 3 3 100 [] [] 0 []).
  assert (Hd : decompress toy_dstep st0 (Z.min 10 100) (sched_hd st0 []) = Ok (st1, [1; 2; 3]))
    by (vm_compute; reflexivity).
  rewrite Hd. simpl bind. cbv iota beta.
  change (zlen [1; 2; 3] >? 0) with true. cbv iota zeta. simpl bind.
  change (10 - zlen [1; 2; 3] <=? 0) with false. cbv iota.
  rewrite (worker_g_detects_eof toy_state toy_dstep (fun s => fst (fst s) = 0)).
  - reflexivity.
  - intros [[t k] p] ml Ht. simpl in Ht. subst t. simpl. split; reflexivity.
  - unfold stuck, st1; simpl. repeat split; auto.
  - reflexivity.
  - reflexivity.
  - reflexivity.
  - unfold max_stalled_rounds. lia.
  - change (Z.to_nat (17 - 0)) with 17%nat. exact Hn.
Qed.

Example toy_worker_g_spin_fuel17 :
  toy_worker_g 17 [toy_st 0 0 []] [10] 3 100 [1; 2; 3] 10 100 [] = Err EFuel.
Proof. vm_compute. reflexivity. Qed.

Example toy_worker_g_spin_fuel18 :
  toy_worker_g 18 [toy_st 0 0 []] [10] 3 100 [1; 2; 3] 10 100 [] = Err EBad7z.
Proof. vm_compute. reflexivity. Qed.

Example toy_worker_g_ok :
  toy_worker_g 10 [toy_st 2 0 []; toy_st 1 1 []] [100; 100] 6 4 [1; 2; 3; 4; 5; 6; 7] 7 3 [1%nat]
  = Ok [1; 1; 2; 2; 3; 3; 4].
Proof. vm_compute. reflexivity. Qed.

(* 16 early-empty fp.read()s in a row are tolerated ... *)
Example toy_worker_g_16_empty_reads :
  toy_worker_g 40 [toy_st 0 0 []] [100] 3 100 [1; 2; 3] 3 100 (repeat 0%nat 16)
  = Ok [1; 2; 3].
Proof. vm_compute. reflexivity. Qed.

(* ... 17 are not, although the data is there (unguarded loop: Ok) *)
Example toy_worker_g_17_empty_reads :
  toy_worker_g 40 [toy_st 0 0 []] [100] 3 100 [1; 2; 3] 3 100 (repeat 0%nat 17)
  = Err EBad7z /\
  toy_worker 40 [toy_st 0 0 []] [100] 3 100 [1; 2; 3] 3 100 (repeat 0%nat 17)
  = Ok [1; 2; 3].
Proof. split; vm_compute; reflexivity. Qed.

(* rounds that return b"" but take input do not count: a lagging decoder fed
   one byte per round stays silent for 20 rounds and the loop still succeeds *)
Example toy_worker_g_silent_but_consuming :
  toy_worker_g 60 [toy_st 1 20 []] [100] 24 1
               [1; 2; 3; 4; 5; 6; 7; 8; 9; 10; 11; 12; 13; 14; 15; 16; 17; 18; 19; 20;
                21; 22; 23; 24] 5 100 []
  = Ok [1; 2; 3; 4; 5].
Proof. vm_compute. reflexivity. Qed.

Print Assumptions worker_g_len.
Print Assumptions worker_g_next.
Print Assumptions worker_g_first.
Print Assumptions worker_g_terminates.
Print Assumptions worker_g_terminates_18.
Print Assumptions worker_g_agrees.
Print Assumptions worker_g_agrees_max.
Print Assumptions worker_g_detects_eof.
Print Assumptions toy_worker_g_first.
Print Assumptions toy_worker_g_detects.
