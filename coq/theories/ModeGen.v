(* ModeGen.v -- the ArchiveFile attribute decoders generated from py7zr/py7zr.py
   (gen/AttrDecoders.v, produced by tools/translate.py from the current source) are the hand model of
   Mode.v (C02).  `attrs : option Z` is self._file_info["attributes"] (None: the entry has none).
   The decoders that go through the stat module (S_ISLNK, S_ISSOCK, S_IMODE, S_IFMT) raise OverflowError in
   CPython when the mode does not fit mode_t (32 bits); an attribute word read from an archive is a UINT32,
   so the statements about those carry the hypothesis attr_ok (0 <= attributes < 2^48). *)
From P7 Require Import Prelude PyPrims PyStr PyStat Mode ModeProofs.
From P7gen Require AttrDecoders.
From Coq Require Import ZifyBool.
Ltac Zify.zify_post_hook ::= Z.to_euclidean_division_equations.
Open Scope Z_scope.

Definition attr_ok (a : option Z) : Prop := match a with Some v => 0 <= v < 2^48 | None => True end.

Theorem gen_test_attribute a bit : AttrDecoders.test_attribute a bit = Ok (Mode.test_attribute a bit).
Proof. destruct a; reflexivity. Qed.

(* emptystream / emptyfile : option bool are self._file_info["emptystream"] / ["emptyfile"] (None: the key is absent;
   FilesInfo._read stores bools).  `if x` / `not y` on them: None and False are false *)
Theorem gen_is_directory a es ef : AttrDecoders.is_directory a es ef = Ok (Mode.is_directory a es ef).
Proof.
  unfold AttrDecoders.is_directory, Mode.is_directory, Mode.attr_is_directory, Mode.flag_set.
  destruct es as [[|]|]; try reflexivity; rewrite gen_test_attribute; reflexivity.
Qed.

Theorem gen_readonly a : AttrDecoders.readonly a = Ok (Mode.is_readonly a).
Proof. unfold AttrDecoders.readonly. rewrite gen_test_attribute. reflexivity. Qed.

Theorem gen_archivable a : AttrDecoders.archivable a = Ok (Mode.test_attribute a Mode.FA_ARCHIVE).
Proof. unfold AttrDecoders.archivable. rewrite gen_test_attribute. reflexivity. Qed.

Theorem gen_is_junction a : AttrDecoders.is_junction a = Ok (Mode.is_junction a).
Proof. unfold AttrDecoders.is_junction. rewrite gen_test_attribute. reflexivity. Qed.

Theorem gen_get_unix_extension a : AttrDecoders.get_unix_extension a = Ok (Mode.get_unix_extension a).
Proof.
  unfold AttrDecoders.get_unix_extension, Mode.get_unix_extension. cbv zeta. rewrite gen_test_attribute. cbn [bind].
  change 32768 with FA_UNIX_EXTENSION.
  destruct a as [v|]; [|reflexivity].
  destruct (test_attribute (Some v) FA_UNIX_EXTENSION); reflexivity.
Qed.

Lemma ext_in_mode_t a e : attr_ok a -> Mode.get_unix_extension a = Some e -> 0 <= e < 4294967296.
Proof.
  unfold attr_ok, Mode.get_unix_extension. destruct a as [v|]; [|discriminate].
  intros Hv. destruct (test_attribute (Some v) FA_UNIX_EXTENSION); [|discriminate].
  intros H. injection H as <-. rewrite Z.shiftr_div_pow2 by lia.
  change (2 ^ 48) with 281474976710656 in Hv. change (2 ^ 16) with 65536. lia.
Qed.

Theorem gen_is_symlink a : attr_ok a -> AttrDecoders.is_symlink a = Ok (Mode.is_symlink a).
Proof.
  intros Ha. unfold AttrDecoders.is_symlink, Mode.is_symlink. rewrite gen_get_unix_extension. cbn [bind]. cbv zeta.
  destruct (Mode.get_unix_extension a) as [e|] eqn:Ee.
  - unfold py_S_ISLNK. rewrite py_stat_mode_ok by (eapply ext_in_mode_t; eassumption). reflexivity.
  - rewrite gen_test_attribute. reflexivity.
Qed.

Theorem gen_is_socket a : attr_ok a -> AttrDecoders.is_socket a = Ok (Mode.is_socket a).
Proof.
  intros Ha. unfold AttrDecoders.is_socket, Mode.is_socket. rewrite gen_get_unix_extension. cbn [bind]. cbv zeta.
  destruct (Mode.get_unix_extension a) as [e|] eqn:Ee; [|reflexivity].
  unfold py_S_ISSOCK. rewrite py_stat_mode_ok by (eapply ext_in_mode_t; eassumption). reflexivity.
Qed.

Theorem gen_posix_mode a : attr_ok a -> AttrDecoders.posix_mode a = Ok (Mode.posix_mode a).
Proof.
  intros Ha. unfold AttrDecoders.posix_mode, Mode.posix_mode. rewrite gen_get_unix_extension. cbn [bind]. cbv zeta.
  destruct (Mode.get_unix_extension a) as [e|] eqn:Ee; [|reflexivity].
  unfold py_S_IMODE. rewrite py_stat_mode_ok by (eapply ext_in_mode_t; eassumption). reflexivity.
Qed.

Theorem gen_st_fmt a : attr_ok a -> AttrDecoders.st_fmt a = Ok (Mode.st_fmt a).
Proof.
  intros Ha. unfold AttrDecoders.st_fmt, Mode.st_fmt. rewrite gen_get_unix_extension. cbn [bind]. cbv zeta.
  destruct (Mode.get_unix_extension a) as [e|] eqn:Ee; [|reflexivity].
  unfold py_S_IFMT. rewrite py_stat_mode_ok by (eapply ext_in_mode_t; eassumption). reflexivity.
Qed.

(* outside attr_ok the stat functions raise (recorded; unreachable for an attribute word read from an archive) *)
Example gen_is_symlink_overflow : AttrDecoders.is_symlink (Some (2^48 + 32768)) = Err EOther
  /\ Mode.is_symlink (Some (2^48 + 32768)) = false.
Proof. split; reflexivity. Qed.

(* an attribute word as the header stores it (UINT32): every decoder is the hand model *)
Corollary gen_decoders_uint32 v : 0 <= v < 2^32 ->
  (forall es ef, AttrDecoders.is_directory (Some v) es ef = Ok (Mode.is_directory (Some v) es ef)) /\
  AttrDecoders.is_symlink (Some v) = Ok (Mode.is_symlink (Some v)) /\
  AttrDecoders.is_junction (Some v) = Ok (Mode.is_junction (Some v)) /\
  AttrDecoders.is_socket (Some v) = Ok (Mode.is_socket (Some v)) /\
  AttrDecoders.readonly (Some v) = Ok (Mode.is_readonly (Some v)) /\
  AttrDecoders.posix_mode (Some v) = Ok (Mode.posix_mode (Some v)) /\
  AttrDecoders.st_fmt (Some v) = Ok (Mode.st_fmt (Some v)).
Proof.
  intros Hv. assert (Hok : attr_ok (Some v)).
  { unfold attr_ok. change (2 ^ 48) with 281474976710656. change (2 ^ 32) with 4294967296 in Hv. lia. }
  repeat match goal with |- _ /\ _ => split end;
    [intros; apply gen_is_directory | now apply gen_is_symlink | apply gen_is_junction | now apply gen_is_socket
    | apply gen_readonly | now apply gen_posix_mode | now apply gen_st_fmt].
Qed.

(* the flags of an entry py7zr wrote, as FilesInfo._read leaves them: a directory is an empty-stream entry whose EmptyFile
   bit is not set (flag False or absent); files and links are not empty-stream (flag False or absent) *)
Definition flags_written (k : kind) (es ef : option bool) : Prop :=
  flag_set es = emptystream_of k /\ (emptystream_of k = true -> flag_set ef = false).

(* C02's attribute round trip through the decoders the source has NOW: for EVERY integer st_mode, the word
   _make_file_info writes (hand model attributes_of) decodes, through the generated ArchiveFile decoders, to the
   same kind and to S_IMODE(st_mode), and none of them raises *)
Theorem gen_mode_roundtrip (k : kind) (st_mode : Z) (es ef : option bool) : flags_written k es ef ->
  let a := attributes_of k st_mode in
  AttrDecoders.posix_mode (Some a) = Ok (Some (S_IMODE st_mode))
  /\ AttrDecoders.is_directory (Some a) es ef = Ok (kind_eqb k KDir)
  /\ AttrDecoders.is_symlink (Some a) = Ok (kind_eqb k KLink)
  /\ AttrDecoders.is_junction (Some a) = Ok false /\ AttrDecoders.is_socket (Some a) = Ok false
  /\ AttrDecoders.readonly (Some a) = Ok false.
Proof.
  intros [Hes Hef] a. destruct (mode_roundtrip k st_mode) as (Hp & _ & Hd & Hl & Hj & Hs & Hr & Hb). fold a in Hp, Hd, Hl, Hj, Hs, Hr, Hb.
  destruct (gen_decoders_uint32 a Hb) as (Gd & Gl & Gj & Gs & Gr & Gp & _).
  assert (Hdir : Mode.is_directory (Some a) es ef = kind_eqb k KDir).
  { unfold Mode.is_directory. rewrite Hes. destruct k; cbn [emptystream_of] in *; try exact Hd. now rewrite (Hef eq_refl). }
  rewrite Gp, Gd, Gl, Gj, Gs, Gr, Hp, Hdir, Hl, Hj, Hs, Hr. repeat match goal with |- _ /\ _ => split end; reflexivity.
Qed.

(* an empty-stream entry is a directory exactly when its EmptyFile bit is not set, whatever the attribute word (the format's
   rule, F22); with data the attribute word decides *)
Theorem gen_is_directory_nodata a ef : AttrDecoders.is_directory a (Some true) ef = Ok (negb (flag_set ef)).
Proof. rewrite gen_is_directory. reflexivity. Qed.
Theorem gen_is_directory_data a es ef : flag_set es = false ->
  AttrDecoders.is_directory a es ef = Ok (Mode.test_attribute a Mode.FA_DIRECTORY).
Proof. intros H. rewrite gen_is_directory. unfold Mode.is_directory. now rewrite H. Qed.

(* non-vacuity: a regular file 0o644 as writeall stores it (attributes_of KFile 0o100644), a link, no attributes *)
Example ex_gen_decoders :
  AttrDecoders.posix_mode (Some (attributes_of KFile 33188)) = Ok (Some 420) /\
  AttrDecoders.is_symlink (Some (attributes_of KLink 41471)) = Ok true /\
  AttrDecoders.is_directory (Some (attributes_of KDir 16877)) (Some true) (Some false) = Ok true /\
  AttrDecoders.is_directory (Some (attributes_of KFile 33188)) (Some true) None = Ok true /\
  AttrDecoders.is_directory (Some (attributes_of KDir 16877)) (Some true) (Some true) = Ok false /\
  AttrDecoders.is_directory None None None = Ok false /\
  AttrDecoders.posix_mode None = Ok None /\ AttrDecoders.is_symlink None = Ok false.
Proof. repeat match goal with |- _ /\ _ => split end; reflexivity. Qed.

Theorem gen_is_directory_format_rule a es ef :
  AttrDecoders.is_directory a (Some true) ef = Ok (negb (flag_set ef)) /\
  (flag_set es = false -> AttrDecoders.is_directory a es ef = Ok (Mode.test_attribute a Mode.FA_DIRECTORY)).
Proof. split; [apply gen_is_directory_nodata | apply gen_is_directory_data]. Qed.
