(* Mode.v -- C02: what writeall puts into an archive for a directory tree and what extractall makes of it.

   Mirrors, on Linux (sys.platform.startswith("linux"), os.name == "posix"):
     py7zr/py7zr.py  SevenZipFile._make_file_info (l.817-897)     attributes_of, classify
                     ArchiveFile.is_directory/is_symlink/is_junction/is_socket/posix_mode/st_fmt (l.144-235)
                     SevenZipFile.writeall/_writeall (l.708-728, 1067-1076)     items, walk
                     SevenZipFile._sanitize_archive_arcname (l.911-928)           sanitize
                     Worker._find_link_target                                     find_link_target, store_links
                     SevenZipFile._extract (l.529-656), Worker._extract_single (l.1372-1449)   rebuild
     py7zr/helpers.py get_sanitized_output_path/canonical_path/is_path_valid     canon_out, link_inside
   Definitions only (all computable, extracted); proofs are in ModeProofs.v and Walk.v.

   What is NOT modelled (assumed; exercised end to end by tools/harness/c02.py):
   - storage of an entry (name, attributes, emptystream, lastwritetime, data) in the archive: header codec,
     compression, encryption, CRC (properties C01, C06, C07, C17);
   - str <-> text: a name is the list of its code points, a path is the list of its components; joining with
     '/' and splitting again is the identity because a component never contains '/' (wf_name); UTF-8;
   - st_mtime <-> FILETIME is FileTime.v; here a node carries the FILETIME integer _make_file_info computed;
   - creationtime / lastaccesstime and the times of a link (stored, never applied on extraction);
   - time "now" and the umask: def_ft, def_dmode, def_fmode stand for them. *)
From P7 Require Import Prelude.
From P7 Require FileTime.
Open Scope Z_scope.

(* ================================================================== 1. attributes *)
Inductive kind := KFile | KDir | KLink.

Definition kind_eqb (a b : kind) : bool :=
  match a, b with KFile, KFile | KDir, KDir | KLink, KLink => true | _, _ => false end.

Definition S_IMODE (m : Z) : Z := Z.land m 4095.     (* 0o7777 *)
Definition S_IFMT (m : Z) : Z := Z.land m 61440.     (* 0o170000 *)
Definition S_IFDIR : Z := 16384.                     (* 0o040000 *)
Definition S_IFREG : Z := 32768.                     (* 0o100000 *)
Definition S_IFLNK : Z := 40960.                     (* 0o120000 *)
Definition S_IFSOCK : Z := 49152.                    (* 0o140000 *)
Definition S_ISDIR (m : Z) : bool := S_IFMT m =? S_IFDIR.
Definition S_ISREG (m : Z) : bool := S_IFMT m =? S_IFREG.
Definition S_ISLNK (m : Z) : bool := S_IFMT m =? S_IFLNK.
Definition S_ISSOCK (m : Z) : bool := S_IFMT m =? S_IFSOCK.

Definition FA_READONLY : Z := 1.
Definition FA_DIRECTORY : Z := 16.
Definition FA_ARCHIVE : Z := 32.
Definition FA_REPARSE_POINT : Z := 1024.
Definition FA_UNIX_EXTENSION : Z := 32768.           (* 0x8000 *)

(* f["attributes"] as the linux branch of _make_file_info builds it, from the kind of entry and the st_mode of
   the stat result it used (lstat; stat for a dereferenced link) *)
Definition attributes_of (k : kind) (st_mode : Z) : Z :=
  match k with
  | KFile =>
      Z.lor FA_ARCHIVE (Z.lor FA_UNIX_EXTENSION (Z.shiftl (S_IMODE st_mode) 16))
  | KDir =>
      Z.lor (Z.lor FA_DIRECTORY (Z.lor FA_UNIX_EXTENSION (Z.shiftl S_IFDIR 16)))
            (Z.shiftl (S_IMODE st_mode) 16)
  | KLink =>
      Z.lor (Z.lor (Z.lor FA_ARCHIVE FA_REPARSE_POINT) (Z.lor FA_UNIX_EXTENSION (Z.shiftl S_IFLNK 16)))
            (Z.shiftl (S_IMODE st_mode) 16)
  end.

(* which branch _make_file_info takes: lmode = target.lstat().st_mode, smode = target.stat().st_mode
   (is_symlink() looks at lstat, is_dir()/is_file() follow links); None: no branch, f has no "attributes" *)
Definition classify (deref : bool) (lmode smode : Z) : option (kind * Z) :=
  if S_ISLNK lmode then
    if deref then (if S_ISDIR smode then Some (KDir, smode) else Some (KFile, smode))
    else Some (KLink, lmode)
  else if S_ISDIR smode then Some (KDir, lmode)
  else if S_ISREG smode then Some (KFile, lmode)
  else None.

Definition emptystream_of (k : kind) : bool := match k with KDir => true | _ => false end.

(* ArchiveFile: attributes may be absent (None) *)
Definition test_attribute (a : option Z) (bit : Z) : bool :=
  match a with None => false | Some v => Z.land v bit =? bit end.
(* the attribute word alone (what is_directory was before the F22 repair; still what it is for entries with data) *)
Definition attr_is_directory (a : option Z) : bool := test_attribute a FA_DIRECTORY.
(* truth value of self._get_property(key) for a key that holds a bool: None = the key is absent *)
Definition flag_set (o : option bool) : bool := match o with Some b => b | None => false end.
(* ArchiveFile.is_directory: an entry without data (emptystream) is an empty file when its EmptyFile bit is set and a
   directory otherwise, whatever its attributes say (the format's rule); an entry with data: the attribute word *)
Definition is_directory (a : option Z) (emptystream emptyfile : option bool) : bool :=
  if flag_set emptystream then negb (flag_set emptyfile) else attr_is_directory a.
Definition is_readonly (a : option Z) : bool := test_attribute a FA_READONLY.
Definition get_unix_extension (a : option Z) : option Z :=
  match a with
  | Some v => if test_attribute a FA_UNIX_EXTENSION then Some (Z.shiftr v 16) else None
  | None => None
  end.
Definition is_symlink (a : option Z) : bool :=
  match get_unix_extension a with
  | Some e => S_ISLNK e
  | None => test_attribute a FA_REPARSE_POINT
  end.
Definition is_junction (a : option Z) : bool := test_attribute a (Z.lor FA_REPARSE_POINT FA_DIRECTORY).
Definition is_socket (a : option Z) : bool :=
  match get_unix_extension a with Some e => S_ISSOCK e | None => false end.
Definition posix_mode (a : option Z) : option Z := option_map S_IMODE (get_unix_extension a).
Definition st_fmt (a : option Z) : option Z := option_map S_IFMT (get_unix_extension a).

(* the per-kind dispatch of _extract (l.592-607): directory, socket (ignored: None), link, regular file *)
Definition entry_kind_f (a : option Z) (emptystream emptyfile : option bool) : option kind :=
  if is_directory a emptystream emptyfile then Some KDir
  else if is_socket a then None
  else if is_symlink a || is_junction a then Some KLink
  else Some KFile.
(* entries with data (not emptystream): the attribute word alone *)
Definition entry_kind (a : option Z) : option kind :=
  if attr_is_directory a then Some KDir
  else if is_socket a then None
  else if is_symlink a || is_junction a then Some KLink
  else Some KFile.
Lemma entry_kind_f_data a es ef : flag_set es = false -> entry_kind_f a es ef = entry_kind a.
Proof. intros H. unfold entry_kind_f, entry_kind, is_directory. now rewrite H. Qed.
(* an entry without data whose EmptyFile bit is not set is a directory, whatever the attributes *)
Lemma entry_kind_f_nodata a es ef : flag_set es = true -> flag_set ef = false -> entry_kind_f a es ef = Some KDir.
Proof. intros H1 H2. unfold entry_kind_f, is_directory. now rewrite H1, H2. Qed.

(* ================================================================== 2. names, paths, order *)
Definition name := list Z.          (* code points *)
Definition path := list name.       (* components *)

Section Lex.
  Context {A : Type} (cmp : A -> A -> comparison).
  Fixpoint lex_cmp (a b : list A) : comparison :=
    match a, b with
    | [], [] => Eq
    | [], _ :: _ => Lt
    | _ :: _, [] => Gt
    | x :: a', y :: b' => match cmp x y with Eq => lex_cmp a' b' | c => c end
    end.
End Lex.
(* str comparison: by code point *)
Definition name_cmp : name -> name -> comparison := lex_cmp Z.compare.
Definition name_eqb (a b : name) : bool := match name_cmp a b with Eq => true | _ => false end.
Definition name_ltb (a b : name) : bool := match name_cmp a b with Lt => true | _ => false end.

(* list-of-str comparison (PurePath.__lt__ compares the parts) *)
Definition path_cmp : path -> path -> comparison := lex_cmp name_cmp.
Definition path_eqb (a b : path) : bool := match path_cmp a b with Eq => true | _ => false end.
Definition path_leb (a b : path) : bool := match path_cmp a b with Gt => false | _ => true end.

Fixpoint insert_path (a : path) (l : list path) : list path :=
  match l with
  | [] => [a]
  | b :: l' => if path_leb a b then a :: l else b :: insert_path a l'
  end.
Fixpoint sort_paths (l : list path) : list path :=
  match l with [] => [] | a :: l' => insert_path a (sort_paths l') end.

Definition dot : name := [46].
Definition dotdot : name := [46; 46].
Definition slash : Z := 47.

(* ================================================================== 3. trees *)
Inductive node :=
| File (mode ft : Z) (data : bytes)
| Dir (mode ft : Z) (ch : list (name * node))
| Link (target : path).             (* the link text, split at '/' *)

Fixpoint lookup (n : name) (l : list (name * node)) : option node :=
  match l with
  | [] => None
  | (k, v) :: l' => if name_eqb k n then Some v else lookup n l'
  end.
Fixpoint replace (n : name) (v : node) (l : list (name * node)) : list (name * node) :=
  match l with
  | [] => []
  | (k, w) :: l' => if name_eqb k n then (k, v) :: l' else (k, w) :: replace n v l'
  end.
Fixpoint insert_sorted (n : name) (v : node) (l : list (name * node)) : list (name * node) :=
  match l with
  | [] => [(n, v)]
  | (k, w) :: l' => if name_ltb n k then (n, v) :: l else (k, w) :: insert_sorted n v l'
  end.
(* a directory is the finite map from names to nodes, kept as the list sorted by name *)
Definition ins (n : name) (v : node) (l : list (name * node)) : list (name * node) :=
  match lookup n l with Some _ => replace n v l | None => insert_sorted n v l end.

Fixpoint get (t : node) (p : path) : option node :=
  match p with
  | [] => Some t
  | x :: p' =>
    match t with
    | Dir _ _ ch => match lookup x ch with Some c => get c p' | None => None end
    | _ => None
    end
  end.

(* sorted(os.listdir(path)): children in code-point order of their names, recursively *)
Fixpoint sort_ch (l : list (name * node)) : list (name * node) :=
  match l with [] => [] | (n, v) :: l' => insert_sorted n v (sort_ch l') end.
Fixpoint canon (t : node) : node :=
  match t with
  | Dir m ft ch => Dir m ft (sort_ch (map (fun nc => match nc with (n, c) => (n, canon c) end) ch))
  | _ => t
  end.

(* ---- dereference: every link replaced by what it points to (stat() semantics inside the tree).
   fuel bounds the number of nested steps; a link that cannot be resolved inside the tree within the fuel
   (dangling, leaving the tree, cyclic) yields None and the entry is ignored, as _writeall ignores it
   (is_file()/is_dir() are False; ELOOP).  Cyclic links under dereference are outside the model: the real depth
   at which ELOOP cuts the expansion is a kernel constant. *)
Fixpoint resolve (fuel : nat) (root : node) (cur : path) (comps : path) : option path :=
  match fuel with
  | O => None
  | S f =>
    match comps with
    | [] => Some cur
    | c :: rest =>
      if name_eqb c dotdot then
        match cur with [] => None | _ => resolve f root (removelast cur) rest end
      else if name_eqb c dot || name_eqb c [] then resolve f root cur rest
      else
        match get root cur with
        | Some (Dir _ _ ch) =>
          match lookup c ch with
          | Some (Link tg) =>
            match resolve f root cur tg with
            | Some p => resolve f root p rest
            | None => None
            end
          | Some _ => resolve f root (cur ++ [c]) rest
          | None => None
          end
        | _ => None
        end
    end
  end.

(* cd: real path of the directory containing t; self: real path of t when t is a directory *)
Fixpoint expand (fuel : nat) (root : node) (cd self : path) (t : node) : option node :=
  match fuel with
  | O => None
  | S f =>
    match t with
    | File _ _ _ => Some t
    | Dir m ft ch =>
      Some (Dir m ft (flat_map (fun nc => match nc with (n, c) =>
               match expand f root self (self ++ [n]) c with Some c' => [(n, c')] | None => [] end end) ch))
    | Link tg =>
      match resolve f root cd tg with
      | Some p => match get root p with
                  | Some t' => expand f root (removelast p) p t'
                  | None => None
                  end
      | None => None
      end
    end
  end.

(* ================================================================== 4. writeall *)
(* one member before naming: path relative to the root given to writeall, kind, st_mode, FILETIME, content *)
Record item := mkI { i_rel : path; i_kind : kind; i_mode : Z; i_ft : Z; i_data : bytes; i_link : path }.

Definition push (n : name) (it : item) : item :=
  mkI (n :: i_rel it) (i_kind it) (i_mode it) (i_ft it) (i_data it) (i_link it).

(* _writeall without the cwd test: the entry of a directory before its children, children in sorted order *)
Fixpoint items (t : node) : list item :=
  match t with
  | File m ft d => [mkI [] KFile (Z.lor S_IFREG m) ft d []]
  | Link tg => [mkI [] KLink (Z.lor S_IFLNK 511) 0 [] tg]
  | Dir m ft ch =>
      mkI [] KDir (Z.lor S_IFDIR m) ft [] [] ::
      flat_map (fun nc => match nc with (n, c) => map (push n) (items c) end) ch
  end.

Record wctx := mkC {
  c_abs : bool;               (* the path given to writeall is absolute *)
  c_base : path;              (* its components; [] for '.' *)
  c_arc : option path;        (* components of arcname when given *)
  c_deref : bool }.

(* `if not (arcname is None and str(path) == "."): self.write(path, arcname)`: only the bare '.' given to
   writeall without an arcname has no entry of its own (paths below it are never '.') *)
Definition is_bare_dot (c : wctx) : bool :=
  negb (c_abs c) && match c_base c with [] => true | _ => false end && match c_arc c with None => true | Some _ => false end.
Definition skipped (c : wctx) (it : item) : bool :=
  match i_kind it, i_rel it with
  | KDir, [] => is_bare_dot c
  | _, _ => false
  end.

(* ---- Worker._find_link_target: the text stored for a link *)
Definition is_blank (n : name) : bool := name_eqb n [] || name_eqb n dot.
(* pathlib.Path(text).as_posix() on a relative text: empty and '.' components dropped; '.' if nothing is left *)
Definition norm_link (tg : path) : path :=
  match filter (fun n => negb (is_blank n)) tg with [] => [dot] | l => l end.

Definition origin := (bool * path)%type.     (* (absolute?, components) of f["origin"] *)

(* a relative link text is stored as pathlib normalises it (an absolute text, which _find_link_target re-bases
   when it names an archived member, is outside the model: link texts here are relative) *)
Definition find_link_target (tg : path) : path := norm_link tg.

Definition origin_of (c : wctx) (it : item) : origin := (c_abs c, c_base c ++ i_rel it).

Definition store_links (its : list item) : list item :=
  map (fun it => match i_kind it with
                 | KLink => mkI (i_rel it) KLink (i_mode it) (i_ft it) (i_data it) (find_link_target (i_link it))
                 | _ => it
                 end) its.

(* ---- _sanitize_archive_arcname on the '/'-joined name, at the level of components *)
Definition is_letter (z : Z) : bool := ((65 <=? z) && (z <=? 90)) || ((97 <=? z) && (z <=? 122)).
Definition drive_like (n : name) : bool :=
  match n with l :: 58 :: _ => is_letter l | _ => false end.     (* re.match("^[a-zA-Z]:", ...) *)
Definition sanitize (p : path) : res path :=
  (* a leading '/' (absolute origin) is stripped: the components stay *)
  let p1 := match p with
            | n :: rest => if drive_like n then
                              match skipn 2 n with [] => rest | n' => n' :: rest end
                           else p
            | [] => p
            end in
  match p1 with
  | n :: _ => if drive_like n then Err EOther (* AbsolutePathError *) else Ok p1
  | [] => Ok p1
  end.
(* f["filename"] = pathlib.Path(arcname).as_posix() *)
Definition as_posix (p : path) : path := filter (fun n => negb (is_blank n)) p.

Record entry := mkE {
  e_path : path;        (* f["filename"] split at '/' ; [] stands for "." *)
  e_origin : origin;
  e_attr : Z;
  e_ft : Z;             (* lastwritetime *)
  e_empty : bool;       (* emptystream *)
  e_data : list Z       (* content bytes; for a link the text (code points; stored as UTF-8) *)
}.

Fixpoint join_slash (p : path) : list Z :=
  match p with
  | [] => []
  | [n] => n
  | n :: rest => n ++ slash :: join_slash rest
  end.
Fixpoint split_slash (s : list Z) : path :=
  match s with
  | [] => [[]]
  | c :: s' =>
    if c =? slash then [] :: split_slash s'
    else match split_slash s' with [] => [[c]] | h :: tl => (c :: h) :: tl end
  end.

Definition finish (c : wctx) (it : item) : res entry :=
  let o := origin_of c it in
  let arc := match c_arc c with Some a => a ++ i_rel it | None => snd o end in
  do p <- sanitize arc;
  Ok (mkE (as_posix p) o (attributes_of (i_kind it) (i_mode it)) (i_ft it) (emptystream_of (i_kind it))
          (match i_kind it with KLink => join_slash (i_link it) | _ => i_data it end)).

Fixpoint map_res {A B} (f : A -> res B) (l : list A) : res (list B) :=
  match l with
  | [] => Ok []
  | a :: l' => do b <- f a; do bs <- map_res f l'; Ok (b :: bs)
  end.

Definition deref_fuel : nat := 200.

(* the tree writeall walks: the tree itself, or with every link replaced when dereference is on *)
Definition source_tree (c : wctx) (t : node) : option node :=
  if c_deref c then expand deref_fuel t [] [] t else Some t.

Definition walk_items (c : wctx) (t : node) : list item :=
  let its := filter (fun it => negb (skipped c it)) (items (canon t)) in
  if c_deref c then its else store_links its.

(* writeall(path, arcname) -> the members of the archive, in order; Err: the exception writeall raises *)
Definition walk (c : wctx) (t : node) : res (list entry) :=
  match source_tree c t with
  | Some t' => map_res (finish c) (walk_items c t')
  | None => Ok []          (* a root that is a link to nowhere: ValueError in writeall; not in scope *)
  end.

(* ================================================================== 5. extractall into a directory *)
Definition def_dmode : Z := 493.      (* 0o777 & ~0o022 *)
Definition def_fmode : Z := 420.      (* 0o666 & ~0o022 *)
Definition def_ft : Z := 0.           (* "now" *)
Definition new_dir : node := Dir def_dmode def_ft [].

(* apply f to the node at p (None: absent); mk: create missing intermediate directories
   (Path.mkdir(parents=True)) *)
Fixpoint alter (p : path) (mk : bool) (f : option node -> res node) (t : node) : res node :=
  match p with
  | [] => f (Some t)
  | x :: p' =>
    match t with
    | Dir m ft ch =>
      match lookup x ch with
      | Some c => do c' <- alter p' mk f c; Ok (Dir m ft (ins x c' ch))
      | None =>
        match p' with
        | [] => do c' <- f None; Ok (Dir m ft (ins x c' ch))
        | _ :: _ =>
          if mk then do c' <- alter p' mk f new_dir; Ok (Dir m ft (ins x c' ch)) else Err EOther
        end
      end
    | File _ _ _ => Err EOther         (* NotADirectoryError / FileExistsError *)
    | Link _ => Err EUnsupported       (* the operation would follow the link: outside the model *)
    end
  end.

Definition f_mkdir (o : option node) : res node :=
  match o with
  | None => Ok new_dir
  | Some (Dir m ft ch) => Ok (Dir m ft ch)       (* FileExistsError and is_dir(): pass *)
  | Some (File _ _ _) => Err EOther              (* "Directory ... is existed as a normal file." *)
  | Some (Link _) => Err EUnsupported
  end.
Definition f_write (d : bytes) (o : option node) : res node :=
  match o with
  | None => Ok (File def_fmode def_ft d)
  | Some (File m _ _) => Ok (File m def_ft d)
  | Some (Dir _ _ _) => Err EOther               (* IsADirectoryError *)
  | Some (Link _) => Err EUnsupported
  end.
Definition f_touch (o : option node) : res node :=
  match o with
  | None => Ok (File def_fmode def_ft [])
  | Some (Link _) => Err EUnsupported
  | Some t => Ok t
  end.
Definition f_symlink (tg : path) (o : option node) : res node :=
  match o with
  | None => Ok (Link tg)
  | Some (File _ _ _) => Ok (Link tg)            (* exists(): unlink(), then symlink_to *)
  | Some (Dir _ _ _) => Err EOther               (* unlink() of a directory *)
  | Some (Link _) => Err EUnsupported
  end.
(* os.utime then chmod (both follow links) *)
Definition f_meta (mode : option Z) (ft : Z) (o : option node) : res node :=
  match o with
  | None => Err EOther                           (* FileNotFoundError *)
  | Some (File m _ d) => Ok (File (match mode with Some m' => m' | None => m end) ft d)
  | Some (Dir m _ ch) => Ok (Dir (match mode with Some m' => m' | None => m end) ft ch)
  | Some (Link _) => Err EUnsupported
  end.

(* get_sanitized_output_path: '..' resolved lexically; Bad7zFile when the name leaves the destination *)
Fixpoint canon_out_go (p : path) (stack : path) : res path :=   (* stack reversed *)
  match p with
  | [] => Ok (rev stack)
  | n :: p' =>
    if name_eqb n dotdot then
      match stack with [] => Err EBad7z | _ :: s' => canon_out_go p' s' end
    else canon_out_go p' (n :: stack)
  end.
Definition canon_out (p : path) : res path := canon_out_go p [].

(* is_path_valid(fileish.parent.joinpath(dst), path): the link text, read lexically from the directory of the
   link, stays inside the destination.  depth = number of components of the link's parent below the destination.
   (The real test also accepts a text that leaves the destination and re-enters it through the destination's own
   name; such texts are outside the model.) *)
Fixpoint link_inside (depth : Z) (tg : path) : bool :=
  match tg with
  | [] => true
  | n :: tg' =>
    if name_eqb n dotdot then (if depth <=? 0 then false else link_inside (depth - 1) tg')
    else link_inside (depth + 1) tg'
  end.

(* the flags of an entry as FilesInfo._read leaves them for an archive py7zr wrote: "emptystream" always present;
   "emptyfile" False for an empty-stream entry (py7zr never sets the EmptyFile bit: next(flags, False)), absent otherwise *)
Definition e_emptyfile (e : entry) : option bool := if e_empty e then Some false else None.
Definition is_dir_e (e : entry) : bool := is_directory (Some (e_attr e)) (Some (e_empty e)) (e_emptyfile e).
Definition entry_kind_e (e : entry) : option kind := entry_kind_f (Some (e_attr e)) (Some (e_empty e)) (e_emptyfile e).

(* one file-system operation of the extraction: apply o_f at o_path, creating parents if o_mk *)
Record op := mkOp { o_path : path; o_mk : bool; o_f : option node -> res node }.

Fixpoint fold_res {A S} (f : A -> S -> res S) (l : list A) (s : S) : res S :=
  match l with
  | [] => Ok s
  | a :: l' => do s' <- f a s; fold_res f l' s'
  end.

Definition run (ops : list op) (t : node) : res node :=
  fold_res (fun o t => alter (o_path o) (o_mk o) (o_f o) t) ops t.

Definition fail (e : err) : option node -> res node := fun _ => Err e.

(* one member in Worker._extract_single (members that are directories or sockets are not registered);
   fileish.parent.mkdir(parents=True, exist_ok=True) is the o_mk of the operation *)
Definition extract_ops (pe : path * entry) : list op :=
  let (p, e) := pe in
  match entry_kind_e e with
  | Some KDir | None => []
  | Some _ =>
    if e_empty e then [mkOp p true f_touch]
    else if is_symlink (Some (e_attr e)) then
      if match e_data e with c :: _ => c =? slash | [] => false end
      then [mkOp p true (fail EUnsupported)]                (* absolute link text: outside the model *)
      else
        let tg := norm_link (split_slash (e_data e)) in
        if link_inside (Z.of_nat (length p) - 1) tg then [mkOp p true (f_symlink tg)]
        else [mkOp p true (fail EBad7z)]                    (* "Symlink point out of target directory." *)
    else [mkOp p true (f_write (e_data e))]
  end.

Definition exists_b (t : node) (p : path) : bool := match get t p with Some _ => true | None => false end.

(* target_dirs: directories that do not exist yet *)
Definition mkdir_paths (t0 : node) (plan : list (path * entry)) : list path :=
  map fst (filter (fun pe => is_dir_e (snd pe) && negb (exists_b t0 (fst pe))) plan).

(* the post-pass over target_files (directories that did not exist before, regular files): utime, chmod *)
Definition f_meta_ro (ft : Z) (o : option node) : res node :=
  match o with
  | Some (File m _ d) => Ok (File (Z.land m 365) ft d)      (* & (0o777 ^ 0o222) *)
  | other => f_meta None ft other
  end.
Definition post_ops (t0 : node) (pe : path * entry) : list op :=
  let (p, e) := pe in
  let inpost := match entry_kind_e e with
                | Some KDir => negb (exists_b t0 p)
                | Some KFile => true
                | _ => false
                end in
  if inpost then
    match posix_mode (Some (e_attr e)) with
    | Some m => [mkOp p false (f_meta (Some m) (e_ft e))]
    | None =>
      (* fallback: only the read-only flag, for non-directories *)
      if is_readonly (Some (e_attr e)) && negb (is_dir_e e) then [mkOp p false (f_meta_ro (e_ft e))]
      else [mkOp p false (f_meta None (e_ft e))]
    end
  else [].

(* "%d" % n for n >= 0 *)
Fixpoint dec_digits (fuel : nat) (n : Z) (acc : list Z) : list Z :=
  match fuel with
  | O => acc
  | S f => let acc' := (48 + n mod 10) :: acc in if n <? 10 then acc' else dec_digits f (n / 10) acc'
  end.
Definition str_of_int (n : Z) : list Z := dec_digits 30 n [].

Fixpoint assoc_path (p : path) (l : list (path * Z)) : option Z :=
  match l with
  | [] => None
  | (q, k) :: l' => if path_eqb q p then Some k else assoc_path p l'
  end.
Fixpoint set_assoc (p : path) (k : Z) (l : list (path * Z)) : list (path * Z) :=
  match l with
  | [] => [(p, k)]
  | (q, j) :: l' => if path_eqb q p then (q, k) :: l' else (q, j) :: set_assoc p k l'
  end.
(* f.filename + "_%d" % k *)
Definition suffix_last (p : path) (s : list Z) : path :=
  match p with [] => [dot ++ s] | _ => removelast p ++ [last p [] ++ s] end.
(* `fnames` of _extract (l.566-585): a name seen before gets "_0", "_1", ... *)
Fixpoint outnames (seen : list (path * Z)) (es : list entry) : list (path * entry) :=
  match es with
  | [] => []
  | e :: r =>
    match assoc_path (e_path e) seen with
    | None => (e_path e, e) :: outnames ((e_path e, 0) :: seen) r
    | Some k => (suffix_last (e_path e) (95 :: str_of_int k), e) :: outnames (set_assoc (e_path e) (k + 1) seen) r
    end
  end.

(* extractall(path) into the directory whose content is t0 *)
Definition plan_of (es : list entry) : res (list (path * entry)) :=
  map_res (fun pe => do p <- canon_out (fst pe); Ok (p, snd pe)) (outnames [] es).

Definition rebuild_ops (t0 : node) (plan : list (path * entry)) : list op :=
  map (fun p => mkOp p true f_mkdir) (sort_paths (mkdir_paths t0 plan))
  ++ flat_map extract_ops plan
  ++ flat_map (post_ops t0) plan.

Definition rebuild (t0 : node) (es : list entry) : res node :=
  do plan <- plan_of es; run (rebuild_ops t0 plan) t0.

Definition roundtrip (c : wctx) (t : node) (t0 : node) : res node :=
  do es <- walk c t; rebuild t0 es.

(* ================================================================== 6. dispatcher (FN 320-339) *)
Definition of_kind (t : tree) : kind :=
  match of_TI t with 1 => KDir | 2 => KLink | _ => KFile end.
Definition t_kind (k : kind) : tree := TI (match k with KFile => 0 | KDir => 1 | KLink => 2 end).
Definition of_optZ (t : tree) : option Z := of_opt of_TI t.
Definition of_name (t : tree) : name := of_bytes t.
Definition of_path (t : tree) : path := map of_name (of_TL t).
Definition t_path (p : path) : tree := TL (map t_bytes p).

(* node: (0 mode ft data) | (1 mode ft ((name node) ...)) | (2 (comp ...)) *)
Fixpoint of_node (t : tree) : node :=
  match t with
  | TL [TI 0; TI m; TI ft; d] => File m ft (of_bytes d)
  | TL [TI 1; TI m; TI ft; TL chs] =>
      Dir m ft (map (fun c => match c with
                              | TL [nm; nd] => (of_name nm, of_node nd)
                              | _ => ([], Link [])
                              end) chs)
  | TL [TI 2; tg] => Link (of_path tg)
  | _ => Link []
  end.
Fixpoint t_node (n : node) : tree :=
  match n with
  | File m ft d => TL [TI 0; TI m; TI ft; t_bytes d]
  | Dir m ft ch => TL [TI 1; TI m; TI ft;
                       TL (map (fun nc => match nc with (k, c) => TL [t_bytes k; t_node c] end) ch)]
  | Link tg => TL [TI 2; t_path tg]
  end.

(* ctx: (abs base arc|() deref) *)
Definition of_ctx (t : tree) : wctx :=
  mkC (of_bool (tnth t 0)) (of_path (tnth t 1)) (of_opt of_path (tnth t 2)) (of_bool (tnth t 3)).

(* entry: (path (abs origin) attr ft empty data) *)
Definition t_entry (e : entry) : tree :=
  TL [t_path (e_path e); TL [t_bool (fst (e_origin e)); t_path (snd (e_origin e))]; TI (e_attr e); TI (e_ft e);
      t_bool (e_empty e); t_bytes (e_data e)].
Definition of_entry (t : tree) : entry :=
  mkE (of_path (tnth t 0)) (of_bool (tnth (tnth t 1) 0), of_path (tnth (tnth t 1) 1)) (of_TI (tnth t 2))
      (of_TI (tnth t 3)) (of_bool (tnth t 4)) (of_bytes (tnth t 5)).

Definition t_optZ (o : option Z) : tree := t_opt TI o.

Definition mode_dispatch (fn : Z) (a : tree) : tree :=
  match fn with
  (* FN 320 attributes_of : (kind st_mode) -> int *)
  | 320 => TI (attributes_of (of_kind (tnth a 0)) (of_TI (tnth a 1)))
  (* FN 321 decode_attr : () | (attr) -> (is_directory is_symlink is_junction is_socket readonly posix_mode|() st_fmt|() kind|())
     of an entry without the emptystream / emptyfile keys *)
  | 321 => let o := of_optZ a in
           TL [t_bool (is_directory o None None); t_bool (is_symlink o); t_bool (is_junction o); t_bool (is_socket o);
               t_bool (is_readonly o); t_optZ (posix_mode o); t_optZ (st_fmt o); t_opt t_kind (entry_kind o)]
  (* FN 322 classify : (deref lmode smode) -> () | ((kind attr emptystream)) *)
  | 322 => t_opt (fun ka => TL [t_kind (fst ka); TI (attributes_of (fst ka) (snd ka));
                                t_bool (emptystream_of (fst ka))])
                 (classify (of_bool (tnth a 0)) (of_TI (tnth a 1)) (of_TI (tnth a 2)))
  (* FN 323 walk : (ctx node) -> res (list entry) *)
  | 323 => t_res (fun es => TL (map t_entry es)) (walk (of_ctx (tnth a 0)) (of_node (tnth a 1)))
  (* FN 324 rebuild : (node0 (list entry)) -> res node *)
  | 324 => t_res t_node (rebuild (of_node (tnth a 0)) (map of_entry (of_TL (tnth a 1))))
  (* FN 325 roundtrip : (ctx node node0) -> res node *)
  | 325 => t_res t_node (roundtrip (of_ctx (tnth a 0)) (of_node (tnth a 1)) (of_node (tnth a 2)))
  (* FN 326 from_datetime : (m e) float as m*2^e -> () | (filetime) *)
  | 326 => t_optZ (FileTime.from_datetime (FileTime.BofZe (of_TI (tnth a 0)) (of_TI (tnth a 1))))
  (* FN 327 totimestamp : filetime -> () | ((m e)) *)
  | 327 => t_opt (fun me => TL [TI (fst me); TI (snd me)]) (FileTime.float_me (FileTime.totimestamp (of_TI a)))
  (* FN 328 sort_names : list name -> list name  (sorted() of str) *)
  | 328 => TL (map (fun nc => t_bytes (fst nc)) (sort_ch (map (fun n => (of_name n, Link [])) (of_TL a))))
  (* FN 329 expand : node -> () | (node)   (dereference) *)
  | 329 => let t := of_node a in t_opt t_node (expand deref_fuel t [] [] t)
  (* FN 330 sanitize : path -> res path *)
  | 330 => t_res t_path (sanitize (of_path a))
  (* FN 331 canon : node -> node *)
  | 331 => t_node (canon (of_node a))
  (* FN 332 sort_paths : list path -> list path  (sorted() of PurePath) *)
  | 332 => TL (map t_path (sort_paths (map of_path (of_TL a))))
  | _ => TL [TI (-2)]
  end.
