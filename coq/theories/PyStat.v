(* PyStat.v -- the part of CPython's `stat` module (3.12, Linux, C implementation _stat) that code translated by
   tools/translate.py uses.  Same status as PyPrims.v: compared with CPython by tools/harness/prims.py on every run. *)
From P7 Require Import Prelude PyPrims.
Open Scope Z_scope.

(* stat.FILE_ATTRIBUTE_* (defined on every platform) *)
Definition FILE_ATTRIBUTE_READONLY : Z := 1.
Definition FILE_ATTRIBUTE_DIRECTORY : Z := 16.
Definition FILE_ATTRIBUTE_ARCHIVE : Z := 32.
Definition FILE_ATTRIBUTE_REPARSE_POINT : Z := 1024.

(* the argument conversion of _stat's functions: mode_t is an unsigned 32-bit integer; OverflowError outside *)
Definition py_stat_mode (m : Z) : res Z :=
  if (m <? 0) || (4294967296 <=? m) then Err EOther else Ok m.

Definition py_S_IMODE (m : Z) : res Z := do m <- py_stat_mode m; Ok (Z.land m 4095).        (* 0o7777 *)
Definition py_S_IFMT (m : Z) : res Z := do m <- py_stat_mode m; Ok (Z.land m 61440).         (* 0o170000 *)
Definition py_S_ISDIR (m : Z) : res bool := do m <- py_stat_mode m; Ok (Z.land m 61440 =? 16384).
Definition py_S_ISREG (m : Z) : res bool := do m <- py_stat_mode m; Ok (Z.land m 61440 =? 32768).
Definition py_S_ISLNK (m : Z) : res bool := do m <- py_stat_mode m; Ok (Z.land m 61440 =? 40960).
Definition py_S_ISSOCK (m : Z) : res bool := do m <- py_stat_mode m; Ok (Z.land m 61440 =? 49152).

Lemma py_stat_mode_ok m : 0 <= m < 4294967296 -> py_stat_mode m = Ok m.
Proof. intros H. unfold py_stat_mode. destruct ((m <? 0) || (4294967296 <=? m)) eqn:E; [lia|reflexivity]. Qed.
