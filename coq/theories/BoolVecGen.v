(* BoolVecGen.v -- ties between the generated write_boolean / read_boolean
   (gen/ArchiveinfoPrims.v) and the bit-vector model of BoolVec.v. *)
From P7 Require Import Prelude PyPrims PyTac BoolVec.
From P7gen Require Import ArchiveinfoPrims.
From Coq Require Import ZifyBool ZifyNat.
Ltac Zify.zify_post_hook ::= Z.to_euclidean_division_equations.
Open Scope Z_scope.

(* ---------- primitive lemmas at nat indices ---------- *)

Lemma py_index_nat {A} (l : list A) k d :
  (k < length l)%nat -> py_index l (Z.of_nat k) = Ok (nth k l d).
Proof.
  intros Hk. unfold py_index, py_len.
  destruct (Z.of_nat k <? 0) eqn:E0; [lia|].
  destruct ((Z.of_nat k <? 0) || (Z.of_nat (length l) <=? Z.of_nat k)) eqn:E1; [lia|].
  rewrite Nat2Z.id. destruct (nth_error l k) as [x|] eqn:E.
  - rewrite (nth_error_nth _ _ d E). reflexivity.
  - apply nth_error_None in E. lia.
Qed.

Lemma py_setitem_nat {A} (l : list A) k x :
  (k < length l)%nat -> py_setitem l (Z.of_nat k) x = Ok (list_set l k x).
Proof.
  intros Hk. unfold py_setitem, py_len.
  destruct (Z.of_nat k <? 0) eqn:E0; [lia|].
  destruct ((Z.of_nat k <? 0) || (Z.of_nat (length l) <=? Z.of_nat k)) eqn:E1; [lia|].
  rewrite Nat2Z.id. reflexivity.
Qed.

Lemma py_zeros_nat m : py_zeros (Z.of_nat m) = Ok (repeatZ 0 m).
Proof.
  unfold py_zeros. destruct (Z.of_nat m <? 0) eqn:E; [lia|]. rewrite Nat2Z.id. reflexivity.
Qed.

Lemma rd_read_one (bs : bytes) k :
  (k < length bs)%nat -> rd_read (skipn k bs) 1 = ([nth k bs 0], skipn (S k) bs).
Proof.
  intros Hk. unfold rd_read. change (1 <? 0) with false. cbv iota.
  change (Z.to_nat 1) with 1%nat.
  revert bs Hk. induction k as [|k IH]; intros [|x bs] Hk; cbn [length] in Hk; try lia.
  - reflexivity.
  - cbn [skipn nth]. apply IH. lia.
Qed.

Lemma py_all_forallb l a : py_all a l = a && forallb id l.
Proof.
  unfold py_all. revert a. induction l as [|b l IH]; intros a; cbn [fold_left forallb].
  - rewrite andb_true_r. reflexivity.
  - rewrite IH. unfold id at 1. rewrite andb_assoc. reflexivity.
Qed.

Lemma nbytes_Z n : - (- Z.of_nat n / 8) = Z.of_nat (nbytes n).
Proof. unfold nbytes. lia. Qed.

(* ---------- write_boolean ---------- *)

Definition wb_body : Z * bool -> bytes -> res (bytes * bool) :=
  fun '(i, b) o =>
    if b then
      do t2 <- py_index o (i / 8);
      do t3 <- py_shl 1 (7 - (i mod 8));
      do o <- py_setitem o (i / 8) (Z.lor t2 t3);
      Ok (o, false)
    else Ok (o, false).

(* invariant: after the first |l1| flags the bytearray is the packing of l1, zero padded *)
Lemma wb_loop m l2 : forall l1,
  (nbytes (length (l1 ++ l2)) <= m)%nat ->
  for_m (enumerate_from (Z.of_nat (length l1)) l2) wb_body (bits_enc_n m l1)
    = Ok (bits_enc_n m (l1 ++ l2)).
Proof.
  induction l2 as [|b l2 IH]; intros l1 Hm.
  - cbn [enumerate_from for_m]. rewrite app_nil_r. reflexivity.
  - assert (Hk : (length l1 / 8 < m)%nat).
    { rewrite app_length in Hm. cbn [length] in Hm. unfold nbytes in Hm. lia. }
    assert (Hnext : Z.of_nat (length l1) + 1 = Z.of_nat (length (l1 ++ [b]))).
    { rewrite app_length. cbn [length]. lia. }
    assert (Happ : l1 ++ b :: l2 = (l1 ++ [b]) ++ l2).
    { rewrite <- app_assoc. reflexivity. }
    cbn [enumerate_from for_m]. unfold wb_body at 1. cbv beta iota.
    rewrite Hnext, Happ. rewrite Happ in Hm. destruct b.
    + replace (Z.of_nat (length l1) / 8) with (Z.of_nat (length l1 / 8)) by lia.
      replace (Z.of_nat (length l1) mod 8) with (Z.of_nat (length l1 mod 8)) by lia.
      rewrite (py_index_nat _ _ 0) by (rewrite bits_enc_n_length; exact Hk).
      cbn [bind]. rewrite py_shl_ok by lia. cbn [bind].
      rewrite py_setitem_nat by (rewrite bits_enc_n_length; exact Hk). cbn [bind].
      rewrite Z.shiftl_1_l. rewrite <- bits_enc_n_snoc_true by exact Hk.
      apply IH. exact Hm.
    + rewrite <- (bits_enc_n_snoc_false m l1). apply IH. exact Hm.
Qed.

Lemma wb_loop_all l :
  for_m (py_enumerate l) wb_body (repeatZ 0 (nbytes (length l))) = Ok (bits_enc l).
Proof.
  pose proof (wb_loop (nbytes (length l)) l [] (Nat.le_refl _)) as H.
  rewrite bits_enc_n_nil in H. exact H.
Qed.

Ltac fold_wb_body :=
  match goal with |- context[for_m (py_enumerate ?l) ?f ?s] =>
    change (for_m (py_enumerate l) f s) with (for_m (py_enumerate l) wb_body s) end.

Theorem gen_write_boolean_eq l c : write_boolean l c = Ok (boolvec_enc l c).
Proof.
  unfold write_boolean, boolvec_enc. rewrite py_all_forallb. cbn [andb].
  destruct (c && forallb id l) eqn:Ea; [reflexivity|].
  destruct c; unfold py_len; rewrite nbytes_Z, py_zeros_nat; cbn [bind];
    fold_wb_body; rewrite wb_loop_all; reflexivity.
Qed.

(* ---------- read_boolean ---------- *)

Definition rb_state := (list bool * Z * Z * bytes)%type.

Definition rb_body : Z -> rb_state -> res (rb_state * bool) :=
  fun i '(result, mask, b, inp) =>
    if (mask =? 0) then
      let '(t2, inp) := rd_read inp 1 in
      do t3 <- py_ord t2;
      let b := t3 in
      let mask := 128 in
      let result := result ++ [(negb ((Z.land b mask) =? 0))] in
      let mask := (Z.shiftr mask 1) in
      Ok ((result, mask, b, inp), false)
    else
    let result := result ++ [(negb ((Z.land b mask) =? 0))] in
    let mask := (Z.shiftr mask 1) in
    Ok ((result, mask, b, inp), false).

(* a loop over range(i, i+m) preserving an invariant indexed by the loop counter *)
Lemma for_m_range_inv {St} (Inv : nat -> St -> Prop) (body : Z -> St -> res (St * bool)) m :
  forall i s,
  (forall k st, (i <= k < i + m)%nat -> Inv k st ->
     exists st', body (Z.of_nat k) st = Ok (st', false) /\ Inv (S k) st') ->
  Inv i s ->
  exists s', for_m (range_from (Z.of_nat i) m) body s = Ok s' /\ Inv (i + m)%nat s'.
Proof.
  induction m as [|m IH]; intros i s Hstep Hi.
  - exists s. rewrite Nat.add_0_r. split; [reflexivity|exact Hi].
  - destruct (Hstep i s ltac:(lia) Hi) as [st' [Hb Hi']].
    cbn [range_from for_m]. rewrite Hb.
    replace (Z.of_nat i + 1) with (Z.of_nat (S i)) by lia.
    destruct (IH (S i) st') as [s' [Hf Hs']].
    + intros k st Hk. apply Hstep. lia.
    + exact Hi'.
    + exists s'. split; [exact Hf|]. replace (i + S m)%nat with (S i + m)%nat by lia. exact Hs'.
Qed.

Lemma land_pow2_testbit x k : 0 <= k -> negb (Z.land x (2 ^ k) =? 0) = Z.testbit x k.
Proof.
  intros Hk. destruct (Z.testbit x k) eqn:Eb.
  - destruct (Z.eqb_spec (Z.land x (2 ^ k)) 0) as [E|E]; [|reflexivity].
    apply (f_equal (fun z => Z.testbit z k)) in E.
    rewrite Z.land_spec, Z.pow2_bits_true, Eb, Z.bits_0 in E by lia. discriminate.
  - replace (Z.land x (2 ^ k)) with 0; [reflexivity|].
    symmetry. apply Z.bits_inj'. intros n Hn.
    rewrite Z.land_spec, Z.bits_0, Z.pow2_bits_eqb by lia.
    destruct (Z.eqb_spec k n) as [->|Hne]; [rewrite Eb; reflexivity|apply andb_false_r].
Qed.

Lemma shiftr_pow2_1 k : 0 <= k -> Z.shiftr (2 ^ k) 1 = if k =? 0 then 0 else 2 ^ (k - 1).
Proof.
  intros Hk. rewrite Z.shiftr_div_pow2 by lia. change (2 ^ 1) with 2.
  destruct (Z.eqb_spec k 0) as [->|Hne]; [reflexivity|].
  replace k with (Z.succ (k - 1)) at 1 by lia. rewrite Z.pow_succ_r by lia.
  assert (0 < 2 ^ (k - 1)) by (apply Z.pow_pos_nonneg; lia). lia.
Qed.

(* invariant before iteration i (i flags decoded so far) *)
Definition rb_inv (bs : bytes) (i : nat) (st : rb_state) : Prop :=
  let '(result, mask, b, inp) := st in
  result = map (bit_at bs) (seq 0 i) /\
  inp = skipn (nbytes i) bs /\
  (if (i mod 8 =? 0)%nat then mask = 0
   else mask = 2 ^ (7 - Z.of_nat (i mod 8)) /\ b = nth (i / 8) bs 0).

Lemma rb_step bs i st :
  (i / 8 < length bs)%nat -> rb_inv bs i st ->
  exists st', rb_body (Z.of_nat i) st = Ok (st', false) /\ rb_inv bs (S i) st'.
Proof.
  intros Hlen Hinv. destruct st as [[[result mask] b] inp].
  destruct Hinv as [Hres [Hinp Hm]]. unfold rb_body.
  assert (Hseq : map (bit_at bs) (seq 0 (S i)) = map (bit_at bs) (seq 0 i) ++ [bit_at bs i]).
  { rewrite seq_S, map_app. reflexivity. }
  destruct (Nat.eqb_spec (i mod 8) 0) as [E0|E0].
  - subst mask. change (0 =? 0) with true. cbv iota.
    replace (nbytes i) with (i / 8)%nat in Hinp by (unfold nbytes; lia).
    rewrite Hinp, rd_read_one by exact Hlen. cbn [py_ord bind]. cev.
    eexists. split; [reflexivity|]. unfold rb_inv.
    split; [|split].
    + rewrite Hseq, Hres. f_equal. f_equal. unfold bit_at. rewrite E0.
      change 128 with (2 ^ 7). rewrite land_pow2_testbit by lia. reflexivity.
    + f_equal. unfold nbytes. lia.
    + destruct (Nat.eqb_spec (S i mod 8) 0) as [E1|E1]; [lia|].
      replace (S i mod 8)%nat with 1%nat by lia.
      split; [reflexivity|]. f_equal. lia.
  - destruct Hm as [Hmask Hb].
    assert (Hpos : 0 < mask) by (rewrite Hmask; apply Z.pow_pos_nonneg; lia).
    destruct (Z.eqb_spec mask 0) as [Em|Em]; [lia|].
    eexists. split; [reflexivity|]. unfold rb_inv.
    split; [|split].
    + rewrite Hseq, Hres. f_equal. f_equal. unfold bit_at. rewrite Hmask, Hb.
      apply land_pow2_testbit. lia.
    + rewrite Hinp. f_equal. unfold nbytes. lia.
    + rewrite Hmask, shiftr_pow2_1 by lia.
      destruct (Nat.eqb_spec (S i mod 8) 0) as [E1|E1].
      * destruct (Z.eqb_spec (7 - Z.of_nat (i mod 8)) 0) as [E2|E2]; [reflexivity|lia].
      * destruct (Z.eqb_spec (7 - Z.of_nat (i mod 8)) 0) as [E2|E2]; [lia|].
        split; [f_equal; lia|]. rewrite Hb. f_equal. lia.
Qed.

Lemma rb_loop n bs :
  (nbytes n <= length bs)%nat ->
  exists mask b,
    for_m (py_range 0 (Z.of_nat n)) rb_body ([], 0, 0, bs)
      = Ok (map (bit_at bs) (seq 0 n), mask, b, skipn (nbytes n) bs).
Proof.
  intros Hlen. unfold py_range. rewrite Z.sub_0_r, Nat2Z.id.
  destruct (for_m_range_inv (rb_inv bs) rb_body n 0%nat ([], 0, 0, bs)) as [s' [Hf Hs']].
  - intros k st Hk Hinv. apply rb_step; [|exact Hinv]. unfold nbytes in Hlen. lia.
  - unfold rb_inv. split; [reflexivity|]. split; reflexivity.
  - destruct s' as [[[result mask] b] inp]. destruct Hs' as [Hres [Hinp _]].
    exists mask, b. change (Z.of_nat 0) with 0 in Hf. rewrite Hf, Hres, Hinp. reflexivity.
Qed.

Lemma bits_dec_Some n bs l r :
  bits_dec n bs = Some (l, r) ->
  (nbytes n <= length bs)%nat /\ l = map (bit_at bs) (seq 0 n) /\ r = skipn (nbytes n) bs.
Proof.
  unfold bits_dec. destruct (length bs <? nbytes n)%nat eqn:E; [discriminate|].
  apply Nat.ltb_ge in E. intros H. inversion H. auto.
Qed.

(* no well-formedness of the input bytes is needed *)
Theorem gen_read_boolean_eq n c bs l r :
  boolvec_dec n c bs = Some (l, r) -> read_boolean bs (Z.of_nat n) c = Ok (l, r).
Proof.
  unfold boolvec_dec, read_boolean. destruct c.
  - destruct bs as [|b0 bs]; [discriminate|].
    unfold rd_read. cev. cbv iota. cbn [firstn skipn bytes_eqb]. rewrite andb_true_r.
    destruct (b0 =? 0) eqn:E0; cbn [negb]; cbv iota.
    + intros H. apply bits_dec_Some in H as [Hlen [-> ->]].
      destruct (rb_loop n bs Hlen) as [mask [b Hf]].
      cbv zeta. erewrite bind_ok by exact Hf. reflexivity.
    + intros H. inversion H. rewrite Nat2Z.id. reflexivity.
  - intros H. apply bits_dec_Some in H as [Hlen [-> ->]].
    destruct (rb_loop n bs Hlen) as [mask [b Hf]].
    cbv zeta. erewrite bind_ok by exact Hf. reflexivity.
Qed.

(* the form with the (unneeded) well-formedness hypothesis *)
Corollary gen_read_boolean_eq_wf n c bs l r :
  boolvec_dec n c bs = Some (l, r) -> wf_bytes bs = true ->
  read_boolean bs (Z.of_nat n) c = Ok (l, r).
Proof. intros H _. apply gen_read_boolean_eq. exact H. Qed.

(* round trip through the generated pair, any list, either header mode, any suffix *)
Corollary gen_boolean_roundtrip l c r : exists bs,
  write_boolean l c = Ok bs /\ wf_bytes bs = true /\
  read_boolean (bs ++ r) (py_len l) c = Ok (l, r) /\
  boolvec_dec (length l) c (bs ++ r) = Some (l, r).
Proof.
  exists (boolvec_enc l c).
  split; [apply gen_write_boolean_eq|]. split; [apply boolvec_enc_wf|].
  split; [|apply boolvec_dec_enc].
  unfold py_len. apply gen_read_boolean_eq. apply boolvec_dec_enc.
Qed.

(* Known divergences on truncated input.
   (a) checkall at end of file: file.read(1) returns b"" which is != b"\x00", so py7zr
       answers "all defined" where the model rejects;
   (b) missing bit-field bytes: ord(b"") raises TypeError (model: None) -- an
       error of the wrong class, but a rejection. *)
Theorem read_boolean_eof_diverges :
  read_boolean [] 3 true = Ok ([true; true; true], []) /\ boolvec_dec 3 true [] = None.
Proof. split; vm_compute; reflexivity. Qed.
Theorem read_boolean_truncated_rejects :
  read_boolean [0] 3 true = Err EOther /\ boolvec_dec 3 true [0] = None /\
  read_boolean [255] 9 false = Err EOther /\ boolvec_dec 9 false [255] = None.
Proof. repeat split; vm_compute; reflexivity. Qed.

Print Assumptions gen_write_boolean_eq.
Print Assumptions gen_read_boolean_eq.
Print Assumptions gen_boolean_roundtrip.
Print Assumptions read_boolean_eof_diverges.
