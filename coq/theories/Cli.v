(* Cli.v -- model of the decision logic of py7zr/cli.py (the `py7zr` command).

   What is modelled, line by line of cli.py:
     * Cli.dunits, Cli.unit_pattern = re.compile(r"^([0-9]+)([bkmg]?)$", re.IGNORECASE),
       _check_volumesize_valid, _volumesize_unitconv           (volume sizes of `c -v SIZE`)
     * the mapping from what the library calls do (return / raise which exception class)
       to what run_test / run_extract / run_list / run_create / run_append return,
       exit(1) paths included, and from that to the exit status of `python -m py7zr`
       (__main__.py: sys.exit(Cli().run())).
     * the volume-suffix test of run_list (re.fullmatch(r"[.]0+1?", target.suffix)).
   Strings are lists of Unicode code points (Z).  Definitions only; proofs are in CliProofs.v. *)
From P7 Require Import Prelude.
Open Scope Z_scope.

Definition str := list Z.

(* ------------------------------------------------------------------ volume sizes *)

Definition is_digit (c : Z) : bool := (48 <=? c) && (c <=? 57).                 (* [0-9] *)
Definition is_unit_lower (c : Z) : bool :=                                      (* b k m g *)
  (c =? 98) || (c =? 107) || (c =? 109) || (c =? 103).
Definition is_unit_ascii (c : Z) : bool :=                                      (* + B K M G *)
  is_unit_lower c || (c =? 66) || (c =? 75) || (c =? 77) || (c =? 71).
(* [bkmg] under re.IGNORECASE on a str pattern: the ASCII letters of both cases and U+212A
   KELVIN SIGN, whose lower case is 'k' (sre's extra case table) *)
Definition is_unit_ci (c : Z) : bool := is_unit_ascii c || (c =? 8490).

Fixpoint span_digits (s : str) : str * str :=
  match s with
  | c :: r => if is_digit c then (let '(d, t) := span_digits r in (c :: d, t)) else ([], s)
  | [] => ([], [])
  end.

(* self.unit_pattern.match(size): Some (group 1, group 2).  Group 2 is "" (never None) when no
   unit letter is present; `$` also matches just before a final "\n". *)
Definition unit_pattern_match (s : str) : option (str * str) :=
  let '(num, rest) := span_digits s in
  match num with
  | [] => None
  | _ :: _ =>
    match rest with
    | [] => Some (num, [])
    | [c] => if c =? 10 then Some (num, []) else if is_unit_ci c then Some (num, [c]) else None
    | [c; d] => if is_unit_ci c && (d =? 10) then Some (num, [c]) else None
    | _ => None
    end
  end.

Definition check_volumesize_valid (s : str) : bool :=
  match unit_pattern_match s with Some _ => true | None => false end.

(* Cli.dunits[unit]; None = KeyError *)
Definition dunits (u : str) : option Z :=
  match u with
  | [c] =>
    if (c =? 98) || (c =? 66) then Some 1
    else if (c =? 107) || (c =? 75) then Some 1024
    else if (c =? 109) || (c =? 77) then Some (1024 * 1024)
    else if (c =? 103) || (c =? 71) then Some (1024 * 1024 * 1024)
    else None
  | _ => None
  end.

Fixpoint int_of_digits_acc (acc : Z) (s : str) : Z :=
  match s with [] => acc | c :: r => int_of_digits_acc (10 * acc + (c - 48)) r end.
Definition int_of_digits (s : str) : Z := int_of_digits_acc 0 s.

(* int(num) of a string of ASCII digits: CPython refuses more than sys.int_info.default_max_str_digits
   = 4300 digits (leading zeros counted) with ValueError *)
Definition max_str_digits : Z := 4300.
Definition py_int (num : str) : option Z :=
  if max_str_digits <? Z.of_nat (length num) then None else Some (int_of_digits num).

Inductive ucres := UcOk (n : Z) | UcKeyError | UcValueError.

(* _volumesize_unitconv.  `int(num) if not unit else int(num) * self.dunits[unit]`: group 2 is ""
   when no unit letter is present, and then the size is a number of bytes; int(num) is evaluated before
   the dunits lookup (ValueError before KeyError). *)
Definition volumesize_unitconv_x (s : str) : ucres :=
  match unit_pattern_match s with
  | Some (num, unit) =>
    match py_int num with
    | None => UcValueError
    | Some n =>
      match unit with
      | [] => UcOk n
      | _ :: _ => match dunits unit with Some m => UcOk (n * m) | None => UcKeyError end
      end
    end
  | None => UcOk (-1)
  end.

Definition volumesize_unitconv (s : str) : res Z :=
  match volumesize_unitconv_x s with UcOk n => Ok n | _ => Err EOther end.

(* The documented grammar: docs/user_guide.rst ".. option:: -v | --volume {Size}[b|k|m|g]"
   (changelog: "CLI: '-v {size}[b|k|m|g]' multi volume creation option"): a decimal number,
   optionally followed by one of b k m g. *)
Definition in_help_grammar (s : str) : bool :=
  let '(num, rest) := span_digits s in
  match num with
  | [] => false
  | _ :: _ => match rest with [] => true | [c] => is_unit_lower c | _ => false end
  end.

(* number of digits of the leading decimal number *)
Definition num_digits (s : str) : Z := Z.of_nat (length (fst (span_digits s))).

Definition has_unit_suffix (s : str) : bool :=
  match snd (span_digits s) with [] => false | _ => true end.

(* multiplier a unit letter denotes (7-Zip's -v switch: bytes, KiB, MiB, GiB) *)
Definition unit_multiplier (c : Z) : Z :=
  if (c =? 107) || (c =? 75) then 1024
  else if (c =? 109) || (c =? 77) then 1024 ^ 2
  else if (c =? 103) || (c =? 71) then 1024 ^ 3
  else 1.

(* the number of bytes a documented size denotes *)
Definition help_size (s : str) : Z :=
  let '(num, rest) := span_digits s in
  int_of_digits num * match rest with c :: _ => unit_multiplier c | [] => 1 end.

(* ------------------------------------------------------------------ exit-status logic *)

(* exception classes the except clauses of cli.py distinguish (everything else is XOther:
   AttributeError, TypeError, OSError, EOFError, struct.error, InternalError, zlib.error ...).
   CrcError carries whether its filename argument (args[2]) is a member name or None
   (Worker.decompress: a folder-level digest mismatch raises CrcError(crc, digest, None)). *)
Inductive exc := XBad7z | XPassword | XUnsupported | XDecompression | XLzma | XCrc (named : bool)
               | XKeyError | XValueError | XOther.

(* what one sub-command run does: return a value (None = Python None), call exit(n), or let an
   exception escape *)
Inductive cli_result := RRet (v : option Z) | RExit (n : Z) | RRaise (e : exc).

(* __main__: sys.exit(main()): None -> 0, int -> that; SystemExit(n) -> n; uncaught exception ->
   traceback and status 1 *)
Definition proc_status (r : cli_result) : Z :=
  match r with RRet None => 0 | RRet (Some n) => n | RExit n => n | RRaise _ => 1 end.

(* None = uncaught exception (traceback) *)
Definition status_of (r : cli_result) : option Z :=
  match r with RRet None => Some 0 | RRet (Some n) => Some n | RExit n => Some n | RRaise _ => None end.

(* What the library calls made by one sub-command do.
     l_is7z          py7zr.is_7zfile(target)
     l_getpass_warn  getpass.getpass() raises GetPassWarning (only asked with -P)
     l_open          py7zr.SevenZipFile(...) raises
     l_info          print_archiveinfo(a) (t) / a.archiveinfo() (l; x --verbose) raises
     l_work          t: Worker.extract inside a.testzip(); x: a.extractall(); l: a.list();
                     c, a: write/writeall/close *)
Record lib := { l_is7z : bool; l_getpass_warn : bool; l_open : option exc; l_info : option exc;
                l_work : option exc }.

(* SevenZipFile.testzip (py7zr.py): except CrcError as crce:
     return crce.args[2] if crce.args[2] is not None else "(folder checksum)" *)
Inductive tz := TzNone | TzName | TzRaise (e : exc).
Definition testzip (work : option exc) : tz :=
  match work with
  | None => TzNone
  | Some (XCrc true) => TzName
  | Some (XCrc false) => TzName          (* args[2] is None: "(folder checksum)" is returned instead *)
  | Some e => TzRaise e
  end.

(* run_test: one try block around open / print_archiveinfo / testzip *)
Definition test_handler (e : exc) : cli_result :=
  match e with
  | XBad7z => RRet (Some 1)
  | XPassword => RRet (Some 1)
  | _ => RRaise e
  end.

Definition run_test (L : lib) : cli_result :=
  if negb (l_is7z L) then RRet (Some 1) else
  match l_open L with Some e => test_handler e | None =>
  match l_info L with Some e => test_handler e | None =>
  match testzip (l_work L) with
  | TzNone => RRet (Some 0)
  | TzName => RRet (Some 1)
  | TzRaise e => test_handler e
  end end end.

(* run_extract: lzma.LZMAError and _lzma.LZMAError are one class *)
Definition extract_open_handler (e : exc) : cli_result :=
  match e with
  | XBad7z => RRet (Some 1)
  | XPassword => RRet (Some 1)
  | XLzma => RRet (Some 1)
  | _ => RRaise e
  end.

Definition extract_work_handler (e : exc) : cli_result :=
  match e with
  | XUnsupported => RRet (Some 1)
  | XDecompression => RRet (Some 1)
  | XPassword => RRet (Some 1)
  | XLzma => RRet (Some 1)
  | _ => RRaise e
  end.

Definition run_extract (pwflag verbose : bool) (L : lib) : cli_result :=
  if negb (l_is7z L) then RRet (Some 1) else
  if pwflag && l_getpass_warn L then RRet (Some 1) else
  match l_open L with Some e => extract_open_handler e | None =>
  match (if verbose then l_info L else None) with Some e => RRaise e | None =>
  match l_work L with Some e => extract_work_handler e | None => RRet (Some 0) end end end.

(* run_list / _run_list: no try at all *)
Definition run_list (L : lib) : cli_result :=
  if negb (l_is7z L) then RRet (Some 1) else
  match l_open L with Some e => RRaise e | None =>
  match l_info L with Some e => RRaise e | None =>
  match l_work L with Some e => RRaise e | None => RRet (Some 0) end end end.

(* run_list, volume branch: re.fullmatch(r"[.]0+1?", target.suffix) -> MultiVolume(ext_digits =
   len(suffix) - 1, ext_start = int(suffix[-1])) *)
Fixpoint span_zeros (s : str) : str * str :=
  match s with
  | c :: r => if c =? 48 then (let '(d, t) := span_zeros r in (c :: d, t)) else ([], s)
  | [] => ([], [])
  end.

Definition list_volume_args (suffix : str) : option (Z * Z) :=
  match suffix with
  | c :: r =>
    if c =? 46 then
      let '(zs, t) := span_zeros r in
      match zs with
      | [] => None
      | _ :: _ =>
        match t with
        | [] => Some (Z.of_nat (length suffix) - 1, 0)
        | [d] => if d =? 49 then Some (Z.of_nat (length suffix) - 1, 1) else None
        | _ => None
        end
      end
    else None
  | [] => None
  end.

(* str.endswith(".7z") *)
Definition ends_with_7z (s : str) : bool :=
  match rev s with 122 :: 55 :: 46 :: _ => true | _ => false end.

Definition dot7z : str := [46; 55; 122].

(* the library part of c / a: open the archive for writing, write the members, close *)
Definition write_steps (L : lib) : cli_result :=
  match l_open L with Some e => RRaise e | None =>
  match l_work L with Some e => RRaise e | None => RRet (Some 0) end end.

(* run_create: result, the archive path used, the volume size handed to multivolumefile.
   exists_ = pathlib.Path(<normalised name>).exists() *)
Definition create_target (arc : str) : str := if ends_with_7z arc then arc else arc ++ dot7z.

Definition run_create (volume : option str) (arc : str) (exists_ pwflag : bool) (L : lib)
  : cli_result * str * option Z :=
  let target := create_target arc in
  let invalid := match volume with Some v => negb (check_volumesize_valid v) | None => false end in
  if invalid then (RExit 1, target, None) else
  if exists_ then (RExit 1, target, None) else
  if pwflag && l_getpass_warn L then (RRet (Some 1), target, None) else
  match volume with
  | None => (write_steps L, target, None)
  | Some v =>
    match volumesize_unitconv_x v with
    | UcKeyError => (RRaise XKeyError, target, None)
    | UcValueError => (RRaise XValueError, target, None)
    | UcOk size => (write_steps L, target, Some size)
    end
  end.

Definition run_append (arc : str) (exists_ : bool) (L : lib) : cli_result :=
  if negb (ends_with_7z arc) then RExit 1 else
  if negb exists_ then RExit 1 else write_steps L.

(* Cli.run: --version wins over the sub-command; show_version and run_info return None;
   no sub-command: show_help returns 0 *)
Definition cli_run (version : bool) (r : cli_result) : cli_result :=
  if version then RRet None else r.
Definition run_info : cli_result := RRet None.
Definition show_help : cli_result := RRet (Some 0).

(* the interface of DESIGN.md: status per sub-command and library behaviour, None = traceback *)
Inductive subcmd := CmdL | CmdX (pwflag verbose : bool) | CmdT | CmdI.
Definition cli_result_of (cmd : subcmd) (L : lib) : cli_result :=
  match cmd with
  | CmdL => run_list L
  | CmdX p v => run_extract p v L
  | CmdT => run_test L
  | CmdI => run_info
  end.
Definition cli_status (cmd : subcmd) (L : lib) : option Z := status_of (cli_result_of cmd L).

(* "the requested operation succeeded": every library step the sub-command performs completed *)
Definition no_exc (o : option exc) : bool := match o with None => true | Some _ => false end.
Definition test_success (L : lib) : bool :=
  l_is7z L && no_exc (l_open L) && no_exc (l_info L) && no_exc (l_work L).
Definition extract_success (pwflag verbose : bool) (L : lib) : bool :=
  l_is7z L && negb (pwflag && l_getpass_warn L) && no_exc (l_open L)
  && (if verbose then no_exc (l_info L) else true) && no_exc (l_work L).
Definition list_success (L : lib) : bool :=
  l_is7z L && no_exc (l_open L) && no_exc (l_info L) && no_exc (l_work L).

Definition write_ok (L : lib) : bool := no_exc (l_open L) && no_exc (l_work L).

(* concrete library behaviours used by the Examples of props/C19.v *)
Definition L_ok : lib := {| l_is7z := true; l_getpass_warn := false; l_open := None; l_info := None; l_work := None |}.
Definition L_unsupported : lib :=
  {| l_is7z := true; l_getpass_warn := false; l_open := None; l_info := None; l_work := Some XUnsupported |}.

Definition L_folder_crc : lib :=
  {| l_is7z := true; l_getpass_warn := false; l_open := None; l_info := None; l_work := Some (XCrc false) |}.

(* ------------------------------------------------------------------ driver protocol *)

Definition exc_code (e : exc) : Z :=
  match e with XBad7z => 1 | XPassword => 2 | XUnsupported => 3 | XDecompression => 4 | XLzma => 5
             | XCrc true => 6 | XCrc false => 7 | XKeyError => 8 | XValueError => 9 | XOther => 10 end.
Definition exc_of_code (z : Z) : exc :=
  if z =? 1 then XBad7z else if z =? 2 then XPassword else if z =? 3 then XUnsupported
  else if z =? 4 then XDecompression else if z =? 5 then XLzma else if z =? 6 then XCrc true
  else if z =? 7 then XCrc false else if z =? 8 then XKeyError else if z =? 9 then XValueError else XOther.

Definition t_result (r : cli_result) : tree :=
  match r with
  | RRet None => TL [TI 0]
  | RRet (Some n) => TL [TI 0; TI n]
  | RExit n => TL [TI 1; TI n]
  | RRaise e => TL [TI 2; TI (exc_code e)]
  end.
Definition of_oexc (t : tree) : option exc := of_opt (fun x => exc_of_code (of_TI x)) t.
(* (is7z getpass_warn open info work) *)
Definition of_lib (t : tree) : lib :=
  {| l_is7z := of_bool (tnth t 0); l_getpass_warn := of_bool (tnth t 1); l_open := of_oexc (tnth t 2);
     l_info := of_oexc (tnth t 3); l_work := of_oexc (tnth t 4) |}.
Definition t_ucres (u : ucres) : tree :=
  match u with UcOk n => TL [TI 0; TI n] | UcKeyError => TL [TI 1] | UcValueError => TL [TI 2] end.

Definition cli_dispatch (fn : Z) (a : tree) : tree :=
  match fn with
  (* FN 300 cli_check_volumesize_valid : str -> bool *)
  | 300 => t_bool (check_volumesize_valid (of_bytes a))
  (* FN 301 cli_volumesize_unitconv : str -> (0 n) | (1) KeyError | (2) ValueError *)
  | 301 => t_ucres (volumesize_unitconv_x (of_bytes a))
  (* FN 302 cli_in_help_grammar : str -> bool *)
  | 302 => t_bool (in_help_grammar (of_bytes a))
  (* FN 303 cli_help_size : str -> int *)
  | 303 => TI (help_size (of_bytes a))
  (* FN 304 cli_run_test : lib -> result *)
  | 304 => t_result (run_test (of_lib a))
  (* FN 305 cli_run_extract : (pwflag verbose lib) -> result *)
  | 305 => t_result (run_extract (of_bool (tnth a 0)) (of_bool (tnth a 1)) (of_lib (tnth a 2)))
  (* FN 306 cli_run_list : lib -> result *)
  | 306 => t_result (run_list (of_lib a))
  (* FN 307 cli_run_create : (volume_opt arc exists pwflag lib) -> (result target volsize_opt) *)
  | 307 => let '(r, tg, vs) := run_create (of_opt of_bytes (tnth a 0)) (of_bytes (tnth a 1)) (of_bool (tnth a 2))
                                          (of_bool (tnth a 3)) (of_lib (tnth a 4)) in
           TL [t_result r; t_bytes tg; t_opt TI vs]
  (* FN 308 cli_run_append : (arc exists lib) -> result *)
  | 308 => t_result (run_append (of_bytes (tnth a 0)) (of_bool (tnth a 1)) (of_lib (tnth a 2)))
  (* FN 309 cli_list_volume_args : suffix -> () | ((ext_digits ext_start)) *)
  | 309 => t_opt (fun '(d, s) => TL [TI d; TI s]) (list_volume_args (of_bytes a))
  (* FN 310 cli_proc_status : (version cmd lib) -> status ; cmd 0=l 1=x 2=x-P 3=x--verbose 4=x-P--verbose 5=t 6=i *)
  | 310 => let v := of_bool (tnth a 0) in
           let c := of_TI (tnth a 1) in
           let L := of_lib (tnth a 2) in
           let cmd := if c =? 0 then CmdL else if c =? 1 then CmdX false false else if c =? 2 then CmdX true false
                      else if c =? 3 then CmdX false true else if c =? 4 then CmdX true true
                      else if c =? 5 then CmdT else CmdI in
           TI (proc_status (cli_run v (cli_result_of cmd L)))
  (* FN 311 cli_volsize_all : str -> (valid conv in_help_grammar help_size has_unit_suffix) *)
  | 311 => let s := of_bytes a in
           TL [t_bool (check_volumesize_valid s); t_ucres (volumesize_unitconv_x s); t_bool (in_help_grammar s);
               TI (help_size s); t_bool (has_unit_suffix s)]
  | _ => TL [TI (-2)]
  end.
