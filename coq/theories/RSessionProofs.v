(* RSessionProofs.v -- theorems about the read-session machine of RSession.v (property C12).
   stdlib only; no axioms.  The digest function is a Section variable: every theorem holds for any digest;
   the witnesses instantiate it with Crc32.crc32. *)
From P7 Require Import Prelude Crc32 RSession.
From Coq Require Import ZifyBool.
Open Scope Z_scope.

(* ------------------------------------------------------------------ *)
(** * Lists                                                             *)
(* ------------------------------------------------------------------ *)
Lemma firstn_add {X} (a b : nat) (l : list X) :
  firstn (a + b) l = firstn a l ++ firstn b (skipn a l).
Proof.
  revert l; induction a as [|a IH]; intros l; simpl; [reflexivity|].
  destruct l as [|x l]; simpl.
  - now rewrite firstn_nil.
  - now rewrite IH.
Qed.

Lemma skipn_skipn' {X} (a b : nat) (l : list X) : skipn b (skipn a l) = skipn (a + b) l.
Proof.
  revert l; induction a as [|a IH]; intros l; simpl; [reflexivity|].
  destruct l as [|x l]; simpl; [now rewrite skipn_nil | apply IH].
Qed.

Lemma blen_nonneg (s : bytes) : 0 <= blen s.
Proof. unfold blen; lia. Qed.

Lemma blen_app (a b : bytes) : blen (a ++ b) = blen a + blen b.
Proof. unfold blen; rewrite app_length; lia. Qed.

Lemma blen_take (s : bytes) (p n : Z) :
  0 <= p -> 0 <= n -> blen (take s p n) = Z.min n (Z.max 0 (blen s - p)).
Proof.
  intros Hp Hn. unfold take, blen. rewrite firstn_length, skipn_length. lia.
Qed.

Lemma take_0 (s : bytes) (p : Z) : take s p 0 = [].
Proof. reflexivity. Qed.

Lemma take_app (s : bytes) (p n m : Z) :
  0 <= p -> 0 <= n -> 0 <= m -> take s p n ++ take s (p + n) m = take s p (n + m).
Proof.
  intros Hp Hn Hm. unfold take.
  rewrite (Z2Nat.inj_add n m Hn Hm), firstn_add, skipn_skipn'.
  now rewrite (Z2Nat.inj_add p n Hp Hn).
Qed.

(* ------------------------------------------------------------------ *)
(** * The loop of Worker.decompress                                     *)
(* ------------------------------------------------------------------ *)
(* enough decoded bytes left: the loop ends and hands out exactly the next [size] bytes *)
Lemma wloop_ok (fuel : nat) : forall (s : bytes) (p size mb : Z),
  0 < mb -> 0 <= p -> 0 <= size -> p + size <= blen s -> (Z.to_nat size <= fuel)%nat ->
  wloop fuel s p size mb = Ok (p + size, take s p size).
Proof.
  induction fuel as [|f IH]; intros s p size mb Hmb Hp Hs Hfit Hfuel.
  - assert (size = 0) by lia. subst size. simpl. now rewrite Z.add_0_r.
  - simpl. destruct (size >? 0) eqn:Hpos.
    2:{ assert (size = 0) by lia. subst size. now rewrite Z.add_0_r. }
    pose proof (blen_take s p (Z.min size mb) Hp ltac:(lia)) as Hl.
    assert (Hlen : blen (take s p (Z.min size mb)) = Z.min size mb) by lia.
    rewrite Hlen.
    destruct (Z.min size mb >? 0) eqn:Hm; [|lia].
    destruct (size - Z.min size mb <=? 0) eqn:Hrem.
    + assert (Z.min size mb = size) as -> by lia. reflexivity.
    + rewrite (IH s (p + Z.min size mb) (size - Z.min size mb) mb) by lia.
      rewrite take_app by lia.
      replace (Z.min size mb + (size - Z.min size mb)) with size by lia.
      replace (p + Z.min size mb + (size - Z.min size mb)) with (p + size) by lia.
      reflexivity.
Qed.

(* fewer decoded bytes left than asked for: the loop never ends, whatever the fuel
   (the Python loop has no bound at all) *)
Lemma wloop_short (fuel : nat) : forall (s : bytes) (p size mb : Z),
  0 < mb -> 0 <= p -> blen s - p < size -> 0 < size ->
  wloop fuel s p size mb = Err EFuel.
Proof.
  induction fuel as [|f IH]; intros s p size mb Hmb Hp Hshort Hsz; simpl.
  - destruct (size >? 0) eqn:E; [reflexivity | lia].
  - destruct (size >? 0) eqn:E; [|lia].
    pose proof (blen_take s p (Z.min size mb) Hp ltac:(lia)) as Hl.
    pose proof (blen_nonneg s) as Hn.
    destruct (blen (take s p (Z.min size mb)) >? 0) eqn:Hm.
    + destruct (size - blen (take s p (Z.min size mb)) <=? 0) eqn:Hr; [lia|].
      rewrite IH by lia. reflexivity.
    + destruct (size <=? 0) eqn:Hr; [lia|].
      assert (Hz : blen (take s p (Z.min size mb)) = 0) by lia.
      rewrite Hz, Z.add_0_r. rewrite IH by lia. reflexivity.
Qed.

Section Proofs.
  Variable crc : bytes -> Z.
  Local Opaque Z.add.

  Notation wdecomp := (wdecomp).
  Notation check1 := (check1 crc).
  Notation check_list := (check_list crc).
  Notation xs_loop := (xs_loop crc).
  Notation extract_single := (extract_single crc).
  Notation seq_folders := (seq_folders crc).
  Notation par_folders := (par_folders crc).
  Notation wextract := (wextract crc).
  Notation core := (core crc).
  Notation step := (step crc).
  Notation run := (run crc).
  Notation first_bad := (first_bad crc).
  Notation zip_spec := (zip_spec crc).
  Notation zip_spec_folders := (zip_spec_folders crc).

  Definition pos_of (d : option dec) : Z := match d with Some d => d_pos d | None => 0 end.

  (* ------------------------------------------------------------------ *)
  (** * One Worker.decompress on a decoder with enough stream left       *)
  (* ------------------------------------------------------------------ *)
  Lemma wdecomp_ok (A : arch) (fo : folder) (h : Z) (x : xacc) (size : Z) :
    x_err x = None -> pw_missing A = false -> 0 < a_mb A ->
    0 <= pos_of (x_dec x) -> 0 <= size -> pos_of (x_dec x) + size <= blen (fo_stream fo) ->
    exists x', wdecomp A fo h x size = (x', take (fo_stream fo) (pos_of (x_dec x)) size)
               /\ x_err x' = None /\ pos_of (x_dec x') = pos_of (x_dec x) + size /\ x_out x' = x_out x.
  Proof.
    intros He Hpw Hmb Hp Hs Hfit. unfold RSession.wdecomp. rewrite He, Hpw.
    set (d := match x_dec x with Some d => d | None => mkDec 0 0 end).
    assert (Hd : (match x_dec x with Some d0 => Ok d0 | None => Ok (mkDec 0 0) end) = Ok d)
      by (unfold d; destruct (x_dec x); reflexivity).
    assert (Hpos : d_pos d = pos_of (x_dec x)) by (unfold d, pos_of; destruct (x_dec x); reflexivity).
    rewrite Hd. destruct (size >? 0) eqn:E.
    - rewrite wloop_ok by lia. rewrite Hpos. eexists; repeat split; simpl; lia.
    - assert (size = 0) by lia. subst size. rewrite take_0. eexists; repeat split; simpl; lia.
  Qed.

  Lemma wdecomp_err (A : arch) (fo : folder) (h : Z) (x : xacc) (size : Z) e :
    x_err x = Some e -> wdecomp A fo h x size = (x, []).
  Proof. intros He. unfold RSession.wdecomp. now rewrite He. Qed.

  Lemma check1_err (A : arch) fo h x f e : x_err x = Some e -> check1 A fo h x f = x.
  Proof. intros He. unfold RSession.check1. rewrite (wdecomp_err _ _ _ _ _ _ He). now rewrite He. Qed.

  Lemma check_list_err (A : arch) fo h jc : forall x e, x_err x = Some e -> check_list A fo h x jc = x.
  Proof.
    induction jc as [|f r IH]; intros x e He; simpl; [reflexivity|].
    unfold RSession.check_list in *. simpl. rewrite (check1_err _ _ _ _ _ _ He). now apply (IH x e).
  Qed.

  Fixpoint sum_h (ms : list hent) : Z := match ms with [] => 0 | m :: r => h_size m + sum_h r end.

  (* _check over a list of members, starting where the decoder stands, with enough stream left:
     the error it ends with is CrcError for exactly the first member whose bytes have the wrong digest *)
  Lemma check_list_spec (A : arch) (fo : folder) (h : Z) (ms : list hent) : forall (x : xacc),
    x_err x = None -> pw_missing A = false -> 0 < a_mb A -> 0 <= pos_of (x_dec x) ->
    Forall (fun m => 0 <= h_size m) ms -> pos_of (x_dec x) + sum_h ms <= blen (fo_stream fo) ->
    x_err (check_list A fo h x ms)
    = option_map (XE ECrc) (first_bad ms (fo_stream fo) (pos_of (x_dec x)))
    /\ x_out (check_list A fo h x ms) = x_out x.
  Proof.
    induction ms as [|m r IH]; intros x He Hpw Hmb Hp Hsz Hfit.
    - simpl. now rewrite He.
    - inversion Hsz as [|? ? Hm Hr]; subst. simpl in Hfit.
      pose proof (blen_nonneg (fo_stream fo)).
      assert (0 <= sum_h r) by (clear -Hr; induction Hr; simpl; lia).
      destruct (wdecomp_ok A fo h x (h_size m) He Hpw Hmb Hp Hm ltac:(lia)) as (x' & Hw & He' & Hp' & Ho').
      assert (Hc1 : check1 A fo h x m
                    = if crc_bad crc (h_crc m) (take (fo_stream fo) (pos_of (x_dec x)) (h_size m))
                      then set_err x' (XE ECrc (h_id m)) else x').
      { unfold RSession.check1. rewrite Hw, He'. reflexivity. }
      change (check_list A fo h x (m :: r)) with (check_list A fo h (check1 A fo h x m) r).
      rewrite Hc1. simpl first_bad.
      destruct (crc_bad crc (h_crc m) (take (fo_stream fo) (pos_of (x_dec x)) (h_size m))) eqn:Hb.
      + rewrite (check_list_err A fo h r (set_err x' (XE ECrc (h_id m))) (XE ECrc (h_id m)) eq_refl).
        simpl. now rewrite Ho'.
      + destruct (IH x' He' Hpw Hmb ltac:(lia) Hr ltac:(lia)) as [IH1 IH2].
        rewrite IH1, IH2, Hp', Ho'. split; reflexivity.
  Qed.

  (* ------------------------------------------------------------------ *)
  (** * _extract_single when nothing is registered (testzip)             *)
  (* ------------------------------------------------------------------ *)
  Lemma xs_loop_allnone (A : arch) fo h (tg : Z -> tkind) (fs : list hent) : forall jc x,
    (forall id, tg id = KNone) -> x_err x = None ->
    xs_loop A fo h tg fs jc x = (jc ++ filter (fun f => negb (h_empty f)) fs, x).
  Proof.
    induction fs as [|f r IH]; intros jc x Htg He; simpl.
    - now rewrite app_nil_r.
    - rewrite He, Htg. rewrite IH by assumption.
      destruct (h_empty f); simpl; [reflexivity | now rewrite <- app_assoc].
  Qed.

  Lemma lookup_allnone (t : list (Z * tkind)) :
    Forall (fun kv => snd kv = KNone) t -> forall id, lookup t id = KNone.
  Proof.
    intros Hall id. induction Hall as [|[k v] r Hv Hr IH]; simpl; [reflexivity|].
    simpl in Hv. subst v. now destruct (k =? id).
  Qed.

  Lemma testzip_tgt_allnone (A : arch) :
    forall id, lookup (rev (map (fun f => (h_id f, KNone)) (a_files A))) id = KNone.
  Proof.
    apply lookup_allnone. apply Forall_rev. apply Forall_forall. intros kv Hin.
    apply in_map_iff in Hin. destruct Hin as (f & <- & _). reflexivity.
  Qed.

  Lemma filter_ent_of_mem (ms : list mem) :
    filter (fun f => negb (h_empty f)) (map ent_of_mem ms) = map ent_of_mem ms.
  Proof. induction ms as [|m r IH]; simpl; [reflexivity | now rewrite IH]. Qed.

  Lemma filter_empties_none (fs : list hent) :
    filter (fun f => negb (h_empty f)) (filter h_empty fs) = [].
  Proof.
    induction fs as [|f r IH]; simpl; [reflexivity|].
    destruct (h_empty f) eqn:E; simpl; [now rewrite E|assumption].
  Qed.

  Lemma sum_h_ent (ms : list mem) : sum_h (map ent_of_mem ms) = sum_sizes ms.
  Proof. induction ms as [|m r IH]; simpl; [reflexivity | now rewrite IH]. Qed.

  Lemma wf_folder_sizes (fo : folder) :
    wf_folder fo = true ->
    Forall (fun m => 0 <= h_size m) (map ent_of_mem (fo_mems fo))
    /\ sum_h (map ent_of_mem (fo_mems fo)) <= blen (fo_stream fo).
  Proof.
    unfold wf_folder. intros H. apply andb_prop in H. destruct H as [H1 H2].
    rewrite sum_h_ent. split; [|lia].
    apply Forall_forall. intros f Hin. apply in_map_iff in Hin. destruct Hin as (m & <- & Hm).
    rewrite forallb_forall in H1. specialize (H1 m Hm). simpl. lia.
  Qed.

  (* extract_single of testzip on one folder whose decoder is not cached *)
  Lemma extract_single_testzip (A : arch) (fo : folder) h tg fs evs out :
    (forall id, tg id = KNone) -> pw_missing A = false -> 0 < a_mb A ->
    Forall (fun m => 0 <= h_size m) (filter (fun f => negb (h_empty f)) fs) ->
    sum_h (filter (fun f => negb (h_empty f)) fs) <= blen (fo_stream fo) ->
    x_err (extract_single A fo h tg false fs (mkX None evs out None))
    = option_map (XE ECrc) (first_bad (filter (fun f => negb (h_empty f)) fs) (fo_stream fo) 0).
  Proof.
    intros Htg Hpw Hmb Hsz Hfit. unfold RSession.extract_single.
    rewrite xs_loop_allnone by (assumption || reflexivity). simpl app.
    apply (check_list_spec A fo h _ (mkX None evs out None)); simpl; try assumption; try reflexivity; lia.
  Qed.

  Lemma extract_single_empties (A : arch) fo h tg evs out :
    (forall id, tg id = KNone) ->
    extract_single A fo h tg true (empties A) (mkX None evs out None) = mkX None evs out None.
  Proof.
    intros Htg. unfold RSession.extract_single, empties.
    rewrite xs_loop_allnone by (assumption || reflexivity). reflexivity.
  Qed.

  Definition wres_err (w : wres) : option xerr := snd w.

  Lemma seq_folders_testzip (A : arch) tg : forall (fos : list folder) pos evs out,
    (forall id, tg id = KNone) -> pw_missing A = false -> 0 < a_mb A ->
    forallb wf_folder fos = true ->
    wres_err (seq_folders A tg false fos (map (fun _ => None) fos) pos evs out)
    = option_map (XE ECrc) (zip_spec_folders fos).
  Proof.
    induction fos as [|fo r IH]; intros pos evs out Htg Hpw Hmb Hwf; simpl; [reflexivity|].
    simpl in Hwf. apply andb_prop in Hwf. destruct Hwf as [Hfo Hr].
    destruct (wf_folder_sizes fo Hfo) as [Hs1 Hs2].
    pose proof (extract_single_testzip A fo 0 tg (map ent_of_mem (fo_mems fo))
                  (evs ++ [EvSeek 0 (a_ah A + pos)]) out Htg Hpw Hmb) as Hx.
    rewrite filter_ent_of_mem in Hx. specialize (Hx Hs1 Hs2).
    destruct (x_err (extract_single A fo 0 tg false (map ent_of_mem (fo_mems fo))
                                    (mkX None (evs ++ [EvSeek 0 (a_ah A + pos)]) out None))) as [e|] eqn:Ee.
    - simpl. unfold wres_err. simpl.
      destruct (first_bad (map ent_of_mem (fo_mems fo)) (fo_stream fo) 0); simpl in Hx; [assumption|discriminate].
    - destruct (first_bad (map ent_of_mem (fo_mems fo)) (fo_stream fo) 0) eqn:Fb; simpl in Hx; [discriminate|].
      specialize (IH (pos + fo_pack fo)
                     (x_ev (extract_single A fo 0 tg false (map ent_of_mem (fo_mems fo))
                                           (mkX None (evs ++ [EvSeek 0 (a_ah A + pos)]) out None)))
                     (x_out (extract_single A fo 0 tg false (map ent_of_mem (fo_mems fo))
                                            (mkX None (evs ++ [EvSeek 0 (a_ah A + pos)]) out None)))
                     Htg Hpw Hmb Hr).
      destruct (seq_folders A tg false r (map (fun _ => None) r) (pos + fo_pack fo) _ _) as [[[ds e] o] er].
      unfold wres_err in *. simpl in *. assumption.
  Qed.

  Lemma par_folders_testzip (A : arch) tg : forall (fos : list folder) pos i evs out er hang,
    (forall id, tg id = KNone) -> pw_missing A = false -> 0 < a_mb A ->
    forallb wf_folder fos = true ->
    let w := par_folders A tg false fos (map (fun _ => None) fos) pos i evs out er hang in
    wres_err (fst w) = match er with Some _ => er | None => option_map (XE ECrc) (zip_spec_folders fos) end
    /\ snd w = hang.
  Proof.
    induction fos as [|fo r IH]; intros pos i evs out er hang Htg Hpw Hmb Hwf; simpl.
    - unfold wres_err. simpl. split; [now destruct er | reflexivity].
    - simpl in Hwf. apply andb_prop in Hwf. destruct Hwf as [Hfo Hr].
      destruct (wf_folder_sizes fo Hfo) as [Hs1 Hs2].
      set (x := extract_single A fo (101 + i) tg false (map ent_of_mem (fo_mems fo))
                               (mkX None (evs ++ [EvOpen (101 + i) Frb; EvSeek (101 + i) (a_ah A + pos)]) out None)).
      pose proof (extract_single_testzip A fo (101 + i) tg (map ent_of_mem (fo_mems fo))
                    (evs ++ [EvOpen (101 + i) Frb; EvSeek (101 + i) (a_ah A + pos)]) out Htg Hpw Hmb) as Hx.
      rewrite filter_ent_of_mem in Hx. specialize (Hx Hs1 Hs2). fold x in Hx.
      assert (Hh : is_hang (x_err x) = false).
      { rewrite Hx. now destruct (first_bad (map ent_of_mem (fo_mems fo)) (fo_stream fo) 0). }
      rewrite Hh, orb_false_r.
      specialize (IH (pos + fo_pack fo) (i + 1) (x_ev x) (x_out x)
                     (match er with Some _ => er | None => x_err x end) hang Htg Hpw Hmb Hr).
      destruct (par_folders A tg false r (map (fun _ => None) r) (pos + fo_pack fo) (i + 1) (x_ev x) (x_out x)
                            (match er with Some _ => er | None => x_err x end) hang)
        as [[[[ds e] o] er'] hg].
      unfold wres_err in *. simpl in *. destruct IH as [IH1 IH2]. split; [|assumption].
      rewrite IH1. destruct er; [reflexivity|]. rewrite Hx.
      now destruct (first_bad (map ent_of_mem (fo_mems fo)) (fo_stream fo) 0).
  Qed.

  (* hent_sim lists have the same sizes and digests *)
  Lemma list_sim_first_bad (l1 l2 : list hent) :
    list_eqb hent_sim l1 l2 = true ->
    Forall (fun m => 0 <= h_size m) l2 -> Forall (fun m => 0 <= h_size m) l1 /\ sum_h l1 = sum_h l2.
  Proof.
    revert l2; induction l1 as [|a r IH]; intros [|b r2] H Hs; simpl in *; try discriminate.
    - split; [constructor | reflexivity].
    - apply andb_prop in H. destruct H as [Hab Hr].
      inversion Hs as [|? ? Hb Hr2]; subst.
      destruct (IH r2 Hr Hr2) as [IH1 IH2].
      unfold hent_sim in Hab. apply andb_prop in Hab. destruct Hab as [Hab _].
      apply andb_prop in Hab. destruct Hab as [_ Hsz].
      split; [constructor; [lia | assumption] | lia].
  Qed.

  (* ------------------------------------------------------------------ *)
  (** * Verdicts                                                         *)
  (* ------------------------------------------------------------------ *)
  Definition clean (A : arch) (s : st) : Prop := s_dec s = map (fun _ => None) (a_folders A).

  Lemma step_result (A : arch) (s : st) (o : op) :
    snd (step A s o) = snd (core A (s_tgt s) (s_dec s) o).
  Proof. unfold RSession.step. now destruct (core A (s_tgt s) (s_dec s) o) as [[[t d] e] r]. Qed.

  Lemma wf_arch_parts (A : arch) :
    wf_arch A = true ->
    0 < a_mb A /\ pw_missing A = false /\ forallb wf_folder (a_folders A) = true.
  Proof.
    unfold wf_arch. intros H.
    apply andb_prop in H. destruct H as [H _].
    apply andb_prop in H. destruct H as [H H3].
    apply andb_prop in H. destruct H as [H1 H2].
    repeat split; [lia | now destruct (pw_missing A) | assumption].
  Qed.

  (* testzip() on a session whose decoders are not cached gives the right verdict -- unless the archive
     has several folders, is not password protected and was opened from a nameless stream.
     (With the repair a_fixz the decoders are dropped by testzip() itself.) *)
  Definition par_ok (A : arch) : Prop :=
    (exists fo, a_folders A = [fo]) \/ testzip_parallel A = false \/ has_name A = true.

  Theorem testzip_right (A : arch) (s : st) :
    wf_arch A = true -> (a_fixz A = true \/ clean A s) -> par_ok A ->
    snd (step A s OTestzip) = Ok (VZip (zip_spec A)).
  Proof.
    intros Hwf Hclean Hcond. rewrite step_result.
    destruct (wf_arch_parts A Hwf) as (Hmb & Hpw & Hfos).
    pose proof (testzip_tgt_allnone A) as Htg.
    unfold RSession.core.
    assert (Hd : (if a_fixz A then map (fun _ => None) (a_folders A) else s_dec s)
                 = map (fun _ => None) (a_folders A)).
    { destruct Hclean as [-> | Hc]; [reflexivity|]. unfold clean in Hc. rewrite Hc. now destruct (a_fixz A). }
    rewrite Hd. clear Hd Hclean.
    unfold RSession.wextract, RSession.zip_spec. unfold par_ok in Hcond.
    destruct (a_folders A) as [|fo [|fo2 r]] eqn:Efos.
    - (* no folder *)
      simpl map.
      destruct (testzip_parallel A) eqn:Epar.
      + destruct (has_name A) eqn:Ehn.
        * rewrite extract_single_empties by assumption. reflexivity.
        * exfalso. destruct Hcond as [[fo Hfo] | [Hp | Hn]]; discriminate.
      + rewrite extract_single_empties by assumption. reflexivity.
    - (* one folder *)
      simpl map. simpl hd. simpl tl.
      unfold wf_arch in Hwf. rewrite Efos in Hwf.
      apply andb_prop in Hwf. destruct Hwf as [_ Hsim].
      simpl in Hfos. apply andb_prop in Hfos. destruct Hfos as [Hfo _].
      destruct (wf_folder_sizes fo Hfo) as [Hs1 Hs2].
      destruct (list_sim_first_bad _ _ Hsim Hs1) as [Hd1 Hd2].
      pose proof (extract_single_testzip A fo 0 _ (a_files A) [EvSeek 0 (a_ah A)] [] Htg Hpw Hmb Hd1) as Hx.
      unfold data_ents in *. rewrite Hd2 in Hx. specialize (Hx Hs2).
      destruct (extract_single A fo 0 _ false (a_files A) (mkX None [EvSeek 0 (a_ah A)] [] None)) as [xd xe xo xr].
      simpl in *. rewrite Hx.
      now destruct (first_bad (filter (fun f => negb (h_empty f)) (a_files A)) (fo_stream fo) 0).
    - (* several folders *)
      destruct (testzip_parallel A) eqn:Epar.
      + destruct (has_name A) eqn:Ehn.
        * rewrite extract_single_empties by assumption. cbn [x_ev x_out].
          pose proof (par_folders_testzip A _ (fo :: fo2 :: r) 0 0 [EvOpen 100 Frb; EvSeek 100 0] [] None false
                                          Htg Hpw Hmb Hfos) as Hp.
          cbv zeta in Hp.
          destruct (par_folders A _ false (fo :: fo2 :: r) (map (fun _ => None) (fo :: fo2 :: r)) 0 0
                                [EvOpen 100 Frb; EvSeek 100 0] [] None false) as [[[[ds e] o] er] hg].
          unfold wres_err in Hp. cbn [fst snd] in Hp. destruct Hp as [Hp1 Hp2]. subst hg er.
          now destruct (zip_spec_folders (fo :: fo2 :: r)).
        * exfalso. destruct Hcond as [[fo' Hfo] | [Hp | Hn]]; discriminate.
      + rewrite extract_single_empties by assumption. cbn [x_ev x_out].
        pose proof (seq_folders_testzip A _ (fo :: fo2 :: r) 0 [EvSeek 0 0] [] Htg Hpw Hmb Hfos) as Hp.
        destruct (seq_folders A _ false (fo :: fo2 :: r) (map (fun _ => None) (fo :: fo2 :: r)) 0 [EvSeek 0 0] [])
          as [[[ds e] o] er].
        unfold wres_err in Hp. cbn [fst snd] in Hp. subst er.
        now destruct (zip_spec_folders (fo :: fo2 :: r)).
  Qed.

  Corollary testzip_clean_right (A : arch) (s : st) :
    wf_arch A = true -> clean A s -> par_ok A -> snd (step A s OTestzip) = Ok (VZip (zip_spec A)).
  Proof. intros Hwf Hc Hp. apply testzip_right; [assumption | now right | assumption]. Qed.

  (* with both repairs testzip() is right in EVERY state *)
  Lemma par_ok_fixed (A : arch) : a_fixp A = true -> par_ok A.
  Proof.
    intros Hf. unfold par_ok, testzip_parallel, file_passed, has_name. rewrite Hf.
    destruct (a_kind A); simpl; [now right; right | right; left; now rewrite andb_false_r ..].
  Qed.

  Theorem testzip_right_anywhere_fixed (A : arch) (s : st) :
    a_fixz A = true -> a_fixp A = true -> wf_arch A = true ->
    snd (step A s OTestzip) = Ok (VZip (zip_spec A)).
  Proof. intros Hz Hp Hwf. apply testzip_right; [assumption | now left | now apply par_ok_fixed]. Qed.

  Lemma test_loop_spec (ah : Z) : forall (fos : list folder) (pos : Z),
    snd (test_loop ah fos pos)
    = forallb (fun fo => match fo_pk fo with Some false => false | _ => true end) fos.
  Proof.
    induction fos as [|fo r IH]; intros pos; simpl; [reflexivity|].
    destruct (fo_pk fo) as [[|]|].
    - specialize (IH (pos + fo_pack fo)). destruct (test_loop ah r (pos + fo_pack fo)). simpl in *. assumption.
    - reflexivity.
    - apply IH.
  Qed.

  (* test() gives the right verdict in EVERY state, reachable or not *)
  Theorem test_right_anywhere (A : arch) (s : st) : snd (step A s OTest) = Ok (VVerdict (test_spec A)).
  Proof.
    rewrite step_result. unfold RSession.core, test_spec.
    destruct (existsb pk_defined (a_folders A)); [|reflexivity].
    pose proof (test_loop_spec (a_ah A) (a_folders A) 0) as H.
    destruct (test_loop (a_ah A) (a_folders A) 0). simpl in *. now rewrite H.
  Qed.

  (* ------------------------------------------------------------------ *)
  (** * reset() and sessions                                             *)
  (* ------------------------------------------------------------------ *)
  Theorem after_reset_fresh (A : arch) (s : st) : abs (step_reset crc A s) = abs (fresh A).
  Proof. reflexivity. Qed.

  Definition fresh_result (A : arch) (o : op) : result := snd (step A (fresh A) o).

  (* every call gives after reset() what it gives on a freshly opened archive *)
  Corollary after_reset_results (A : arch) (s : st) (o : op) :
    snd (step A (step_reset crc A s) o) = fresh_result A o.
  Proof. unfold fresh_result. now rewrite !step_result. Qed.

  Lemma pure_result (A : arch) (o : op) t d t' d' :
    decoding o = false -> snd (core A t d o) = snd (core A t' d' o).
  Proof.
    intros H. destruct o; try discriminate; simpl; try reflexivity.
    destruct (existsb pk_defined (a_folders A)); [|reflexivity].
    now destruct (test_loop (a_ah A) (a_folders A) 0).
  Qed.

  Lemma nondec_state (A : arch) (o : op) t d :
    decoding o = false -> o <> OReset ->
    snd (fst (fst (core A t d o))) = d /\ (fst (fst (fst (core A t d o))) = t \/ fst (fst (fst (core A t d o))) = []).
  Proof.
    intros H Hr. destruct o; try discriminate; try congruence; simpl; try (split; [reflexivity | now left]).
    destruct (existsb pk_defined (a_folders A)); [|split; [reflexivity | now right]].
    destruct (test_loop (a_ah A) (a_folders A) 0). split; [reflexivity | now right].
  Qed.

  (* dirty = false: the decoders are not cached and the worker is new *)
  Definition inv (A : arch) (dirty : bool) (s : st) : Prop :=
    dirty = false -> s_tgt s = [] /\ s_dec s = map (fun _ => None) (a_folders A).

  Lemma inv_fresh (A : arch) : inv A false (fresh A).
  Proof. intros _. split; reflexivity. Qed.

  Lemma step_parts (A : arch) (s : st) (o : op) :
    s_tgt (fst (step A s o)) = fst (fst (fst (core A (s_tgt s) (s_dec s) o)))
    /\ s_dec (fst (step A s o)) = snd (fst (fst (core A (s_tgt s) (s_dec s) o))).
  Proof. unfold RSession.step. now destruct (core A (s_tgt s) (s_dec s) o) as [[[t d] e] r]. Qed.

  Lemma step_inv (A : arch) (dirty : bool) (s : st) (o : op) :
    inv A dirty s -> inv A (next_dirty dirty o) (fst (step A s o)).
  Proof.
    intros Hi Hn. destruct (step_parts A s o) as [Ht Hd]. rewrite Ht, Hd.
    destruct (decoding o) eqn:Ed.
    - destruct o; try discriminate; simpl in Hn; discriminate.
    - destruct o; try discriminate; simpl in Hn;
        try (split; reflexivity);
        try (specialize (Hi Hn); destruct Hi as [Hi1 Hi2]; simpl; rewrite ?Hi1, ?Hi2; split; reflexivity).
      specialize (Hi Hn). destruct Hi as [Hi1 Hi2].
      destruct (nondec_state A OTest (s_tgt s) (s_dec s) eq_refl ltac:(discriminate)) as [Hs [Htt|Htt]];
        rewrite Hs, Htt; split; assumption || reflexivity.
  Qed.

  Lemma clean_result (A : arch) (s : st) (o : op) :
    s_tgt s = [] -> s_dec s = map (fun _ => None) (a_folders A) -> snd (step A s o) = fresh_result A o.
  Proof. intros Ht Hd. unfold fresh_result. rewrite !step_result, Ht, Hd. reflexivity. Qed.

  Lemma run_cons (A : arch) (s : st) (o : op) (r : list op) :
    fst (run A s (o :: r))
    = if hung (snd (step A s o)) then [snd (step A s o)]
      else snd (step A s o) :: fst (run A (fst (step A s o)) r).
  Proof.
    simpl. destruct (step A s o) as [s' x]. simpl.
    destruct (hung x); [reflexivity|]. now destruct (run A s' r).
  Qed.

  (* under the property's discipline every call gives the fresh-session result, except a testzip() made
     while decoders are cached *)
  Lemma run_equiv_gen (A : arch) : forall (ops : list op) (s : st) (dirty : bool),
    inv A dirty s -> disciplined dirty ops = true ->
    forall (i : nat) (o : op) (r : result),
      nth_error ops i = Some o -> nth_error (fst (run A s ops)) i = Some r ->
      (o = OTestzip /\ dirty_after dirty (firstn i ops) = true /\ exists s', r = snd (step A s' OTestzip))
      \/ r = fresh_result A o.
  Proof.
    induction ops as [|o' rest IH]; intros s dirty Hi Hd i o r Ho Hr.
    - destruct i; discriminate.
    - rewrite run_cons in Hr. simpl in Hd.
      destruct (is_extract o' && dirty) eqn:Ex; [discriminate|].
      destruct i as [|j].
      + simpl in Ho. injection Ho as ->.
        assert (Hr' : r = snd (step A s o)).
        { destruct (hung (snd (step A s o))); simpl in Hr; now injection Hr as <-. }
        subst r. destruct dirty.
        * destruct (decoding o) eqn:Ed.
          -- destruct o; try discriminate; simpl in Ex; try discriminate.
             left. split; [reflexivity | split; [reflexivity | now exists s]].
          -- right. unfold fresh_result. rewrite !step_result. now apply pure_result.
        * right. destruct (Hi eq_refl) as [H1 H2]. now apply clean_result.
      + simpl in Ho. destruct (hung (snd (step A s o'))).
        * simpl in Hr. destruct j; discriminate.
        * simpl in Hr. simpl firstn. simpl dirty_after.
          apply (IH (fst (step A s o')) (next_dirty dirty o')); try assumption.
          now apply step_inv.
  Qed.

  Theorem session_equiv_partial (A : arch) (ops : list op) :
    disciplined false ops = true ->
    forall (i : nat) (o : op) (r : result),
      nth_error ops i = Some o -> nth_error (fst (run A (fresh A) ops)) i = Some r ->
      (o = OTestzip /\ dirty_after false (firstn i ops) = true) \/ r = fresh_result A o.
  Proof.
    intros Hd i o r Ho Hr.
    destruct (run_equiv_gen A ops (fresh A) false (inv_fresh A) Hd i o r Ho Hr) as [(H1 & H2 & _) | H];
      [left; now split | now right].
  Qed.

  (* with the repair a_fixz (testzip() begins with reset()) the FULL statement holds: every call of every
     sequence obeying the property's discipline gives the fresh-session result *)
  Lemma testzip_fixed_indep (A : arch) (s : st) :
    a_fixz A = true -> snd (step A s OTestzip) = fresh_result A OTestzip.
  Proof. intros Hz. unfold fresh_result. rewrite !step_result. unfold RSession.core. now rewrite Hz. Qed.

  Theorem session_equiv_fixed (A : arch) (ops : list op) :
    a_fixz A = true -> disciplined false ops = true ->
    forall (i : nat) (o : op) (r : result),
      nth_error ops i = Some o -> nth_error (fst (run A (fresh A) ops)) i = Some r -> r = fresh_result A o.
  Proof.
    intros Hz Hd i o r Ho Hr.
    destruct (run_equiv_gen A ops (fresh A) false (inv_fresh A) Hd i o r Ho Hr) as [(-> & _ & s' & ->) | H];
      [now apply testzip_fixed_indep | assumption].
  Qed.

  Lemma strict_disciplined : forall (ops : list op) (dirty : bool),
    strict dirty ops = true -> disciplined dirty ops = true.
  Proof.
    induction ops as [|o r IH]; intros dirty H; simpl in *; [reflexivity|].
    destruct (decoding o && dirty) eqn:E; [discriminate|].
    assert (is_extract o && dirty = false) as ->.
    { destruct o, dirty; simpl in *; try reflexivity; discriminate. }
    now apply IH.
  Qed.

  Lemma strict_no_dirty_testzip : forall (ops : list op) (dirty : bool) (i : nat),
    strict dirty ops = true -> nth_error ops i = Some OTestzip -> dirty_after dirty (firstn i ops) = false.
  Proof.
    induction ops as [|o r IH]; intros dirty i H Hn; [destruct i; discriminate|].
    simpl in H. destruct (decoding o && dirty) eqn:E; [discriminate|].
    destruct i as [|j]; simpl in *.
    - injection Hn as ->. simpl in E. now destruct dirty.
    - now apply IH.
  Qed.

  (* when testzip() too is preceded by reset(), every call of every session gives the fresh-session result *)
  Theorem session_equiv_strict (A : arch) (ops : list op) :
    strict false ops = true ->
    forall (i : nat) (o : op) (r : result),
      nth_error ops i = Some o -> nth_error (fst (run A (fresh A) ops)) i = Some r -> r = fresh_result A o.
  Proof.
    intros Hs i o r Ho Hr.
    destruct (session_equiv_partial A ops (strict_disciplined ops false Hs) i o r Ho Hr) as [[-> Hd] | H];
      [|assumption].
    rewrite (strict_no_dirty_testzip ops false i Hs Ho) in Hd. discriminate.
  Qed.

  (* verdicts along a session *)
  Lemma run_state_inv (A : arch) : forall (ops : list op) (s : st) (dirty : bool),
    inv A dirty s -> inv A (dirty_after dirty ops) (snd (run A s ops)) \/ exists r, In r (fst (run A s ops)) /\ hung r = true.
  Proof.
    induction ops as [|o rest IH]; intros s dirty Hi; [left; assumption|].
    simpl. destruct (step A s o) as [s' x] eqn:Es.
    destruct (hung x) eqn:Hx.
    - right. exists x. split; [now left | assumption].
    - assert (Hs' : s' = fst (step A s o)) by now rewrite Es.
      destruct (IH s' (next_dirty dirty o) ltac:(subst s'; now apply step_inv)) as [H | (r & Hin & Hr)].
      + left. now destruct (run A s' rest).
      + right. exists r. destruct (run A s' rest). simpl in *. split; [now right | assumption].
  Qed.

  (* the verdicts are right after any session that ended with no decoder cached (e.g. right after reset()) *)
  Theorem verdict_partial (A : arch) (ops : list op) :
    wf_arch A = true ->
    let s := snd (run A (fresh A) ops) in
    snd (step A s OTest) = Ok (VVerdict (test_spec A))
    /\ (dirty_after false ops = false ->
        (forall r, In r (fst (run A (fresh A) ops)) -> hung r = false) ->
        par_ok A ->
        snd (step A s OTestzip) = Ok (VZip (zip_spec A))).
  Proof.
    intros Hwf s. split; [apply test_right_anywhere|].
    intros Hd Hnh Hc.
    destruct (run_state_inv A ops (fresh A) false (inv_fresh A)) as [Hi | (r & Hin & Hr)].
    - rewrite Hd in Hi. destruct (Hi eq_refl) as [_ H2]. now apply testzip_clean_right.
    - rewrite (Hnh r Hin) in Hr. discriminate.
  Qed.

  (* ------------------------------------------------------------------ *)
  (** * No call writes                                                   *)
  (* ------------------------------------------------------------------ *)
  Definition evs_ok (l : list ev) : Prop := forallb ev_ok l = true.

  Lemma evs_ok_app (a b : list ev) : evs_ok a -> evs_ok b -> evs_ok (a ++ b).
  Proof. unfold evs_ok. intros Ha Hb. now rewrite forallb_app, Ha, Hb. Qed.

  Lemma wdecomp_ev (A : arch) fo h x size : evs_ok (x_ev x) -> evs_ok (x_ev (fst (wdecomp A fo h x size))).
  Proof.
    intros H. unfold RSession.wdecomp.
    destruct (x_err x); [assumption|].
    destruct (x_dec x) as [d|].
    - destruct (size >? 0); [|assumption].
      destruct (wloop _ _ _ _ _) as [[p' out]|e]; simpl;
        (apply evs_ok_app; [assumption | now destruct (d_cons d <? fo_pack fo)]).
    - destruct (pw_missing A); [assumption|].
      destruct (size >? 0); [|assumption].
      destruct (wloop _ _ _ _ _) as [[p' out]|e]; simpl;
        (apply evs_ok_app; [assumption | now destruct (0 <? fo_pack fo)]).
  Qed.

  Lemma check1_ev (A : arch) fo h x f : evs_ok (x_ev x) -> evs_ok (x_ev (check1 A fo h x f)).
  Proof.
    intros H. unfold RSession.check1.
    pose proof (wdecomp_ev A fo h x (h_size f) H) as Hw.
    destruct (wdecomp A fo h x (h_size f)) as [x' data]. simpl in Hw.
    destruct (x_err x'); [assumption|]. now destruct (crc_bad crc (h_crc f) data).
  Qed.

  Lemma check_list_ev (A : arch) fo h jc : forall x, evs_ok (x_ev x) -> evs_ok (x_ev (check_list A fo h x jc)).
  Proof.
    induction jc as [|f r IH]; intros x H; [assumption|].
    unfold RSession.check_list in *. simpl. apply IH. now apply check1_ev.
  Qed.

  Lemma xs_loop_ev (A : arch) fo h tg fs : forall jc x,
    evs_ok (x_ev x) -> evs_ok (x_ev (snd (xs_loop A fo h tg fs jc x))).
  Proof.
    induction fs as [|f r IH]; intros jc x H; simpl; [assumption|].
    destruct (x_err x); [assumption|].
    destruct (tg (h_id f)).
    - now apply IH.
    - pose proof (check_list_ev A fo h jc x H) as Hc.
      destruct (x_err (check_list A fo h x jc)); [assumption|].
      destruct (h_empty f); [now apply IH|].
      pose proof (wdecomp_ev A fo h (check_list A fo h x jc) (h_size f) Hc) as Hw.
      destruct (wdecomp A fo h (check_list A fo h x jc) (h_size f)) as [x2 data]. simpl in Hw.
      destruct (x_err x2); [assumption|].
      destruct (crc_bad crc (h_crc f) data); [assumption|]. now apply IH.
  Qed.

  Lemma extract_single_ev (A : arch) fo h tg skip fs x :
    evs_ok (x_ev x) -> evs_ok (x_ev (extract_single A fo h tg skip fs x)).
  Proof.
    intros H. unfold RSession.extract_single.
    pose proof (xs_loop_ev A fo h tg fs [] x H) as Hx.
    destruct (xs_loop A fo h tg fs [] x) as [jc x1]. simpl in Hx.
    destruct skip; [assumption | now apply check_list_ev].
  Qed.

  Definition wres_ev (w : wres) : list ev := snd (fst (fst w)).

  Lemma seq_folders_ev (A : arch) tg skip : forall fos decs pos evs out,
    evs_ok evs -> evs_ok (wres_ev (seq_folders A tg skip fos decs pos evs out)).
  Proof.
    induction fos as [|fo r IH]; intros decs pos evs out H; simpl; [assumption|].
    destruct decs as [|d dr]; [assumption|].
    destruct (skip && negb (has_target tg (fo_mems fo))).
    - specialize (IH dr (pos + fo_pack fo) evs out H).
      destruct (seq_folders A tg skip r dr (pos + fo_pack fo) evs out) as [[[ds e] o] er]. assumption.
    - set (x := extract_single A fo 0 tg skip (map ent_of_mem (fo_mems fo))
                               (mkX d (evs ++ [EvSeek 0 (a_ah A + pos)]) out None)).
      assert (Hx : evs_ok (x_ev x)).
      { apply extract_single_ev. simpl. apply evs_ok_app; [assumption | reflexivity]. }
      destruct (x_err x); [assumption|].
      specialize (IH dr (pos + fo_pack fo) (x_ev x) (x_out x) Hx).
      destruct (seq_folders A tg skip r dr (pos + fo_pack fo) (x_ev x) (x_out x)) as [[[ds e] o] er]. assumption.
  Qed.

  Lemma par_folders_ev (A : arch) tg skip : forall fos decs pos i evs out er hang,
    evs_ok evs -> evs_ok (wres_ev (fst (par_folders A tg skip fos decs pos i evs out er hang))).
  Proof.
    induction fos as [|fo r IH]; intros decs pos i evs out er hang H; simpl; [assumption|].
    destruct decs as [|d dr]; [assumption|].
    destruct (skip && negb (has_target tg (fo_mems fo))).
    - specialize (IH dr (pos + fo_pack fo) (i + 1) evs out er hang H).
      destruct (par_folders A tg skip r dr (pos + fo_pack fo) (i + 1) evs out er hang) as [[[[ds e] o] er'] hg].
      assumption.
    - set (x := extract_single A fo (101 + i) tg skip (map ent_of_mem (fo_mems fo))
                               (mkX d (evs ++ [EvOpen (101 + i) Frb; EvSeek (101 + i) (a_ah A + pos)]) out None)).
      assert (Hx : evs_ok (x_ev x)).
      { apply extract_single_ev. simpl. apply evs_ok_app; [assumption | reflexivity]. }
      specialize (IH dr (pos + fo_pack fo) (i + 1) (x_ev x) (x_out x)
                     (match er with Some _ => er | None => x_err x end) (hang || is_hang (x_err x)) Hx).
      destruct (par_folders A tg skip r dr (pos + fo_pack fo) (i + 1) (x_ev x) (x_out x) _ _)
        as [[[[ds e] o] er'] hg].
      assumption.
  Qed.

  Lemma wextract_ev (A : arch) tg decs parallel skip : evs_ok (wres_ev (wextract A tg decs parallel skip)).
  Proof.
    unfold RSession.wextract.
    assert (Hgen : evs_ok (wres_ev
      (if parallel
       then if has_name A
            then let x0 := extract_single A dummy_folder 100 tg true (empties A)
                                          (mkX None [EvOpen 100 Frb; EvSeek 100 0] [] None) in
                 let '(ds, e, o, er, hg) := par_folders A tg skip (a_folders A) decs 0 0 (x_ev x0) (x_out x0) None false in
                 (ds, e, o, if hg then Some (XE EFuel (-1)) else er)
            else (decs, [], [], Some (XE EOther (-1)))
       else let x0 := extract_single A dummy_folder 0 tg true (empties A) (mkX None [EvSeek 0 0] [] None) in
            seq_folders A tg skip (a_folders A) decs 0 (x_ev x0) (x_out x0)))).
    { destruct parallel.
      - destruct (has_name A); [|reflexivity].
        cbv zeta.
        pose proof (par_folders_ev A tg skip (a_folders A) decs 0 0
                     (x_ev (extract_single A dummy_folder 100 tg true (empties A)
                                           (mkX None [EvOpen 100 Frb; EvSeek 100 0] [] None)))
                     (x_out (extract_single A dummy_folder 100 tg true (empties A)
                                            (mkX None [EvOpen 100 Frb; EvSeek 100 0] [] None)))
                     None false
                     (extract_single_ev A dummy_folder 100 tg true (empties A)
                        (mkX None [EvOpen 100 Frb; EvSeek 100 0] [] None)
                        (eq_refl : evs_ok [EvOpen 100 Frb; EvSeek 100 0]))) as Hp.
        destruct (par_folders A tg skip (a_folders A) decs 0 0 _ _ None false) as [[[[ds e] o] er] hg].
        assumption.
      - cbv zeta. apply seq_folders_ev. now apply extract_single_ev. }
    destruct (a_folders A) as [|fo [|fo2 r]]; try exact Hgen.
    unfold wres_ev. simpl. now apply extract_single_ev.
  Qed.

  Lemma test_loop_ev (ah : Z) : forall fos pos, evs_ok (fst (test_loop ah fos pos)).
  Proof.
    induction fos as [|fo r IH]; intros pos; simpl; [reflexivity|].
    destruct (fo_pk fo) as [[|]|].
    - specialize (IH (pos + fo_pack fo)). destruct (test_loop ah r (pos + fo_pack fo)) as [e2 b]. simpl in *.
      unfold evs_ok in *. simpl. rewrite forallb_app, IH. now destruct (fo_pack fo >? 0).
    - simpl. unfold evs_ok. simpl. now destruct (fo_pack fo >? 0).
    - apply IH.
  Qed.

  Definition core_ev (c : list (Z * tkind) * list (option dec) * list ev * result) : list ev := snd (fst c).

  Lemma extract_op_ev (A : arch) tgt decs sel wd : evs_ok (core_ev (extract_op crc A tgt decs sel wd)).
  Proof.
    unfold extract_op.
    pose proof (wextract_ev A (lookup (rev (regs A sel) ++ tgt)) decs (negb (pp A) && negb (file_passed A)) true) as H.
    destruct (wextract A _ decs _ true) as [[[ds e] o] er]. assumption.
  Qed.

  (* no call of the read-mode machine writes to the archive or opens it other than 'rb' *)
  Theorem core_never_writes (A : arch) tgt decs (o : op) : evs_ok (core_ev (core A tgt decs o)).
  Proof.
    destruct o; simpl; try reflexivity; try apply extract_op_ev.
    - destruct (existsb pk_defined (a_folders A)); [|reflexivity].
      pose proof (test_loop_ev (a_ah A) (a_folders A) 0) as H.
      destruct (test_loop (a_ah A) (a_folders A) 0). assumption.
    - pose proof (wextract_ev A (lookup (rev (map (fun f => (h_id f, KNone)) (a_files A))))
                              (if a_fixz A then map (fun _ => None) (a_folders A) else decs)
                              (testzip_parallel A) false) as H.
      destruct (wextract A _ _ _ false) as [[[ds e] oo] er]. assumption.
  Qed.

  Lemma step_log (A : arch) (s : st) (o : op) :
    s_log (fst (step A s o)) = s_log s ++ core_ev (core A (s_tgt s) (s_dec s) o).
  Proof. unfold RSession.step, core_ev. now destruct (core A (s_tgt s) (s_dec s) o) as [[[t d] e] r]. Qed.

  Lemma run_log (A : arch) : forall (ops : list op) (s : st),
    evs_ok (s_log s) -> evs_ok (s_log (snd (run A s ops))).
  Proof.
    induction ops as [|o r IH]; intros s H; simpl; [assumption|].
    pose proof (step_log A s o) as Hl.
    destruct (step A s o) as [s' x]. simpl in Hl.
    assert (Hs' : evs_ok (s_log s')) by (rewrite Hl; apply evs_ok_app; [assumption | apply core_never_writes]).
    destruct (hung x); [assumption|].
    specialize (IH s' Hs'). now destruct (run A s' r).
  Qed.

  (* a whole read session -- constructor, any calls (disciplined or not), close -- issues only
     open 'rb' / seek / read / close on the archive *)
  Theorem read_never_writes (A : arch) (ops : list op) :
    evs_ok (s_log (snd (run A (fresh A) ops)) ++ close_events A).
  Proof.
    apply evs_ok_app.
    - apply run_log. unfold fresh, ctor_events. simpl. now destruct (a_kind A).
    - unfold close_events. now destruct (file_passed A).
  Qed.

End Proofs.

(* ------------------------------------------------------------------ *)
(** * The constructor never opens a read-mode archive writable          *)
(* ------------------------------------------------------------------ *)
Theorem ctor_open_r (can : fm -> bool) (m : fm) : ctor_open can Fr = Some m -> m = Frb.
Proof.
  unfold ctor_open. simpl. destruct (can Frb); [now intros [= <-] | discriminate].
Qed.

(* whereas the other modes may fall through to a truncating mode *)
Example ctor_open_a_falls_through :
  ctor_open (fun m => match m with Fwpb => true | _ => false end) Fa = Some Fwpb.
Proof. reflexivity. Qed.

(* ------------------------------------------------------------------ *)
(** * Witnesses (digest = CRC-32)                                       *)
(* ------------------------------------------------------------------ *)
Definition w_a : bytes := [97; 108; 112; 104; 97].            (* "alpha" *)
Definition w_b : bytes := [0; 1; 2; 3; 4; 5; 6; 7].
Definition w_c : bytes := [99; 99; 99; 99; 99; 99].
Definition w_d : bytes := [100; 47; 101].

Definition w_mem (id : Z) (d : bytes) : mem := mkMem id (blen d) (Some (crc32 d)).
Definition w_hent (id : Z) (d : bytes) : hent := mkH id false false (blen d) (Some (crc32 d)).

(* one solid folder a b c, opened by path *)
Definition exS : arch :=
  mkA [w_hent 0 w_a; w_hent 1 w_b; w_hent 2 w_c]
      [mkFo [w_mem 0 w_a; w_mem 1 w_b; w_mem 2 w_c] (w_a ++ w_b ++ w_c) 20 None]
      32 ByPath false false 128000000 false false.

(* two folders (a b) (c d), not encrypted, opened from a nameless stream *)
Definition exM : arch :=
  mkA [w_hent 0 w_a; w_hent 1 w_b; w_hent 2 w_c; w_hent 3 w_d]
      [mkFo [w_mem 0 w_a; w_mem 1 w_b] (w_a ++ w_b) 17 None;
       mkFo [w_mem 2 w_c; w_mem 3 w_d] (w_c ++ w_d) 6 None]
      32 ByStream false false 128000000 false false.

(* the same opened by path, with the second folder's stream damaged in d *)
Definition exMdmg : arch :=
  mkA [w_hent 0 w_a; w_hent 1 w_b; w_hent 2 w_c; w_hent 3 w_d]
      [mkFo [w_mem 0 w_a; w_mem 1 w_b] (w_a ++ w_b) 17 (Some true);
       mkFo [w_mem 2 w_c; w_mem 3 w_d] (w_c ++ [100; 47; 102]) 6 (Some false)]
      32 ByPath true true 128000000 false false.

Lemma exS_wf : wf_arch exS = true. Proof. vm_compute. reflexivity. Qed.
Lemma exM_wf : wf_arch exM = true. Proof. vm_compute. reflexivity. Qed.
Lemma exMdmg_wf : wf_arch exMdmg = true. Proof. vm_compute. reflexivity. Qed.

Definition state_after (A : arch) (ops : list op) : st := snd (run crc32 A (fresh A) ops).

(* (a) extractall then testzip, no reset: testzip never returns *)
Lemma w_testzip_after_extractall_hangs :
  disciplined false [OXallF; OTestzip] = true
  /\ zip_spec crc32 exS = None
  /\ snd (step crc32 exS (state_after exS [OXallF]) OTestzip) = Err EFuel
  /\ fst (run crc32 exS (fresh exS) [OXallF; OTestzip])
     = [Ok (VDeliv [(0, w_a); (1, w_b); (2, w_c)] []); Err EFuel].
Proof. vm_compute. repeat split; reflexivity. Qed.

(* the decoder state that makes it spin: everything delivered *)
Lemma w_exhausted_decoder :
  s_dec (state_after exS [OXallF]) = [Some (mkDec 20 (blen (w_a ++ w_b ++ w_c)))].
Proof. vm_compute. reflexivity. Qed.

(* (a') extract(targets=[b]) then testzip, no reset: an intact member is reported as bad *)
Lemma w_testzip_after_partial_extract_wrong :
  disciplined false [OExt [1]; OTestzip] = true
  /\ zip_spec crc32 exS = None
  /\ snd (step crc32 exS (state_after exS [OExt [1]]) OTestzip) = Ok (VZip (Some 0)).
Proof. vm_compute. repeat split; reflexivity. Qed.

(* (b) testzip on a fresh session of a multi-folder archive opened from a nameless stream: InternalError *)
Lemma w_testzip_stream_multifolder :
  snd (step crc32 exM (fresh exM) OTestzip) = Err EOther /\ zip_spec crc32 exM = None.
Proof. vm_compute. split; reflexivity. Qed.

(* the right verdicts on a damaged archive, fresh and after reset *)
Lemma w_damaged_verdicts :
  zip_spec crc32 exMdmg = Some 3 /\ test_spec exMdmg = Some false
  /\ fst (run crc32 exMdmg (fresh exMdmg) [OTestzip; OReset; OTestzip; OTest])
     = [Ok (VZip (Some 3)); Ok VUnit; Ok (VZip (Some 3)); Ok (VVerdict (Some false))].
Proof. vm_compute. repeat split; reflexivity. Qed.

(* the full statements, refuted *)
Theorem session_equiv_refuted :
  exists (A : arch) (ops : list op) (i : nat) (o : op) (r : result),
    wf_arch A = true /\ disciplined false ops = true /\
    nth_error ops i = Some o /\ nth_error (fst (run crc32 A (fresh A) ops)) i = Some r /\
    r <> fresh_result crc32 A o.
Proof.
  exists exS, [OXallF; OTestzip], 1%nat, OTestzip, (Err EFuel).
  repeat split; try (vm_compute; reflexivity). vm_compute. discriminate.
Qed.

Theorem verdict_anywhere_refuted :
  (exists (A : arch) (ops : list op),
      wf_arch A = true /\ disciplined false ops = true /\
      (forall r, In r (fst (run crc32 A (fresh A) ops)) -> hung r = false) /\
      snd (step crc32 A (state_after A ops) OTestzip) = Err EFuel)
  /\ (exists (A : arch) (ops : list op) (wrong : Z),
      wf_arch A = true /\ disciplined false ops = true /\ zip_spec crc32 A = None /\
      snd (step crc32 A (state_after A ops) OTestzip) = Ok (VZip (Some wrong)))
  /\ (exists (A : arch), wf_arch A = true /\ snd (step crc32 A (fresh A) OTestzip) = Err EOther).
Proof.
  split; [|split].
  - exists exS, [OXallF]. repeat split; try (vm_compute; reflexivity).
    intros r Hr. vm_compute in Hr. destruct Hr as [<- | []]. reflexivity.
  - exists exS, [OExt [1]], 0. repeat split; vm_compute; reflexivity.
  - exists exM. split; vm_compute; reflexivity.
Qed.

(* the same archives with both repairs: the three refuting sessions now give the right verdict *)
Definition repaired (A : arch) : arch :=
  mkA (a_files A) (a_folders A) (a_ah A) (a_kind A) (a_pwgiven A) (a_enc A) (a_mb A) true true.

Lemma w_repaired :
  wf_arch (repaired exS) = true /\ wf_arch (repaired exM) = true
  /\ fst (run crc32 (repaired exS) (fresh (repaired exS)) [OXallF; OTestzip; OReset; OExt [1]; OTestzip])
     = [Ok (VDeliv [(0, w_a); (1, w_b); (2, w_c)] []); Ok (VZip None); Ok VUnit; Ok (VDeliv [(1, w_b)] []);
        Ok (VZip None)]
  /\ snd (step crc32 (repaired exM) (fresh (repaired exM)) OTestzip) = Ok (VZip None).
Proof. vm_compute. repeat split; reflexivity. Qed.

(* hypotheses of the positive theorems are met by concrete, non-trivial sessions *)
Example ex_strict_session :
  strict false [OXallF; OReset; OExt [1]; OTest; OReset; OTestzip; OGetnames; OReset; OXallP] = true.
Proof. reflexivity. Qed.

Example ex_disciplined_not_strict :
  disciplined false [OExt [1]; OTestzip; OTest; OReset; OXallF] = true
  /\ strict false [OExt [1]; OTestzip; OTest; OReset; OXallF] = false.
Proof. split; reflexivity. Qed.

Example ex_verdict_partial_hyps :
  dirty_after false [OXallF; OTest; OReset; OList] = false
  /\ (forall r, In r (fst (run crc32 exMdmg (fresh exMdmg) [OXallF; OTest; OReset; OList])) -> hung r = false)
  /\ testzip_parallel exMdmg = false.
Proof.
  repeat split; try reflexivity.
  intros r Hr. vm_compute in Hr. destruct Hr as [<- | [<- | [<- | [<- | []]]]]; reflexivity.
Qed.
