(* PyPrims.v -- semantics of the Python primitives the translator (tools/translate.py)
   maps source constructs to.  Every function here is the *definition* of what the
   translator assumes CPython does; each is differential-tested against CPython by
   tools/harness/prims.py on every run (trusted base: this file + that test). *)
From P7 Require Import Prelude.
From Coq Require Import ZifyBool.

(* ---------- integers ---------- *)
Definition py_bit_length (v : Z) : Z :=
  if v =? 0 then 0 else Z.log2 (Z.abs v) + 1.

(* Python floor division and modulo agree with Coq's Z.div / Z.modulo. *)
Definition py_floordiv (a b : Z) : res Z := if b =? 0 then Err EOther else Ok (a / b).
Definition py_mod (a b : Z) : res Z := if b =? 0 then Err EOther else Ok (a mod b).
(* shifts: negative shift count raises ValueError *)
Definition py_shl (a n : Z) : res Z := if n <? 0 then Err EOther else Ok (Z.shiftl a n).
Definition py_shr (a n : Z) : res Z := if n <? 0 then Err EOther else Ok (Z.shiftr a n).

(* ---------- bytes <-> int ---------- *)
Fixpoint le_bytes (n : nat) (v : Z) : bytes :=
  match n with O => [] | S n' => (v mod 256) :: le_bytes n' (v / 256) end.
Fixpoint le_value (bs : bytes) : Z :=
  match bs with [] => 0 | b :: r => b + 256 * le_value r end.

(* int.to_bytes(n, "little") : OverflowError when negative or too big *)
Definition py_to_bytes_le (v n : Z) : res bytes :=
  if (n <? 0) then Err EOther
  else if (v <? 0) || (256 ^ n <=? v) then Err EOther
  else Ok (le_bytes (Z.to_nat n) v).
Definition py_from_bytes_le (bs : bytes) : Z := le_value bs.

(* struct.pack("B"/"<L"/"<Q", v): struct.error when out of range *)
Definition py_pack_B (v : Z) : res bytes := py_to_bytes_le v 1.
Definition py_pack_L (v : Z) : res bytes := py_to_bytes_le v 4.
Definition py_pack_Q (v : Z) : res bytes := py_to_bytes_le v 8.
(* struct.unpack(fmt, data)[0]: struct.error unless len(data) = size *)
Definition py_unpack_n (n : nat) (bs : bytes) : res Z :=
  if Nat.eqb (length bs) n then Ok (le_value bs) else Err EOther.
Definition py_unpack_L := py_unpack_n 4.
Definition py_unpack_Q := py_unpack_n 8.
(* ord(b): TypeError unless len(b) = 1 *)
Definition py_ord (bs : bytes) : res Z :=
  match bs with [b] => Ok b | _ => Err EOther end.

(* ---------- sequences ---------- *)
Definition py_len {A} (l : list A) : Z := Z.of_nat (length l).

(* normalise a slice bound the way CPython's PySlice_AdjustIndices does (step 1) *)
Definition py_clamp (len k : Z) : Z :=
  if k <? 0 then Z.max 0 (k + len) else Z.min k len.
Definition py_slice {A} (l : list A) (lo hi : option Z) : list A :=
  let len := py_len l in
  let a := match lo with None => 0 | Some k => py_clamp len k end in
  let b := match hi with None => len | Some k => py_clamp len k end in
  if b <=? a then [] else firstn (Z.to_nat (b - a)) (skipn (Z.to_nat a) l).

(* l[i] : IndexError when out of range; negative indices from the end *)
Definition py_index {A} (l : list A) (i : Z) : res A :=
  let len := py_len l in
  let j := if i <? 0 then i + len else i in
  if (j <? 0) || (len <=? j) then Err EOther
  else match nth_error l (Z.to_nat j) with Some x => Ok x | None => Err EOther end.

(* l[i] = x on a bytearray / list *)
Fixpoint list_set {A} (l : list A) (n : nat) (x : A) : list A :=
  match l, n with
  | [], _ => []
  | _ :: r, O => x :: r
  | y :: r, S n' => y :: list_set r n' x
  end.
Definition py_setitem {A} (l : list A) (i : Z) (x : A) : res (list A) :=
  let len := py_len l in
  let j := if i <? 0 then i + len else i in
  if (j <? 0) || (len <=? j) then Err EOther else Ok (list_set l (Z.to_nat j) x).

Fixpoint range_from (a : Z) (n : nat) : list Z :=
  match n with O => [] | S n' => a :: range_from (a + 1) n' end.
Definition py_range (a b : Z) : list Z := range_from a (Z.to_nat (b - a)).

(* bytes(n) / bytearray(n): n zero bytes; ValueError when negative *)
Definition py_zeros (n : Z) : res bytes :=
  if n <? 0 then Err EOther else Ok (repeatZ 0 (Z.to_nat n)).

(* ---------- file objects ---------- *)
(* file.read(n) on an in-memory reader: the next min(n, remaining) bytes.
   (n < 0 would read everything; the translated code never passes that.) *)
Definition rd_read (inp : bytes) (n : Z) : bytes * bytes :=
  if n <? 0 then (inp, []) else (firstn (Z.to_nat n) inp, skipn (Z.to_nat n) inp).

(* ---------- loops ---------- *)
(* for x in xs: body ; body returns the new state and whether it executed `break` *)
Fixpoint for_m {X S} (xs : list X) (body : X -> S -> res (S * bool)) (s : S) : res S :=
  match xs with
  | [] => Ok s
  | x :: r => match body x s with
              | Err e => Err e
              | Ok (s', true) => Ok s'
              | Ok (s', false) => for_m r body s'
              end
  end.

Fixpoint enumerate_from {A} (i : Z) (l : list A) : list (Z * A) :=
  match l with [] => [] | x :: r => (i, x) :: enumerate_from (i + 1) r end.
Definition py_enumerate {A} (l : list A) := enumerate_from 0 l.

(* reduce(and_, xs, init) over booleans *)
Definition py_all (init : bool) (xs : list bool) : bool := fold_left andb xs init.
Definition py_any (init : bool) (xs : list bool) : bool := fold_left orb xs init.

Ltac euclid := Z.to_euclidean_division_equations; lia.

(* ------------------------------------------------------------------ *)
(* Lemmas                                                              *)
(* ------------------------------------------------------------------ *)

Lemma le_bytes_length n v : length (le_bytes n v) = n.
Proof. revert v; induction n as [|n IH]; intros v; simpl; [reflexivity | now rewrite IH]. Qed.

Lemma le_value_le_bytes n v : 0 <= v -> le_value (le_bytes n v) = v mod 256 ^ Z.of_nat n.
Proof.
  revert v; induction n as [|n IH]; intros v Hv.
  - simpl. now rewrite Z.mod_1_r.
  - cbn [le_bytes le_value]. rewrite IH by (apply Z.div_pos; lia).
    rewrite Nat2Z.inj_succ, Z.pow_succ_r by lia.
    rewrite Z.rem_mul_r by lia. lia.
Qed.

Lemma le_value_le_bytes_small n v : 0 <= v < 256 ^ Z.of_nat n -> le_value (le_bytes n v) = v.
Proof. intros H. rewrite le_value_le_bytes by lia. apply Z.mod_small; lia. Qed.

Lemma le_bytes_wf n v : wf_bytes (le_bytes n v) = true.
Proof.
  revert v; induction n as [|n IH]; intros v; simpl; [reflexivity|].
  rewrite IH, andb_true_r. unfold is_byte.
  pose proof (Z.mod_pos_bound v 256 ltac:(lia)). lia.
Qed.

Lemma le_value_bound bs : wf_bytes bs = true -> 0 <= le_value bs < 256 ^ Z.of_nat (length bs).
Proof.
  induction bs as [|b r IH]; intros H.
  - simpl. lia.
  - simpl in H. apply andb_true_iff in H as [Hb Hr]. specialize (IH Hr).
    cbn [le_value length]. rewrite Nat2Z.inj_succ, Z.pow_succ_r by lia.
    unfold is_byte in Hb. lia.
Qed.

Lemma le_bytes_le_value bs : wf_bytes bs = true -> le_bytes (length bs) (le_value bs) = bs.
Proof.
  induction bs as [|b r IH]; intros H; [reflexivity|].
  simpl in H. apply andb_true_iff in H as [Hb Hr].
  cbn [le_value length le_bytes]. unfold is_byte in Hb.
  replace ((b + 256 * le_value r) mod 256) with b by euclid.
  replace ((b + 256 * le_value r) / 256) with (le_value r) by euclid.
  now rewrite IH.
Qed.

Lemma le_bytes_app n m v :
  le_bytes (n + m) v = le_bytes n v ++ le_bytes m (v / 256 ^ Z.of_nat n).
Proof.
  revert v; induction n as [|n IH]; intros v.
  - simpl. now rewrite Z.div_1_r.
  - cbn [plus le_bytes app]. rewrite IH. f_equal. f_equal.
    rewrite Nat2Z.inj_succ, Z.pow_succ_r by lia.
    rewrite Z.div_div by lia. reflexivity.
Qed.

Lemma le_value_app a b : le_value (a ++ b) = le_value a + 256 ^ Z.of_nat (length a) * le_value b.
Proof.
  induction a as [|x a IH]; [cbn [app le_value length]; change (Z.of_nat 0) with 0; rewrite Z.pow_0_r; lia|].
  cbn [app le_value length]. rewrite IH, Nat2Z.inj_succ, Z.pow_succ_r by lia. lia.
Qed.

Lemma range_from_length a n : length (range_from a n) = n.
Proof. revert a; induction n as [|n IH]; intros a; simpl; [reflexivity | now rewrite IH]. Qed.

Lemma firstn_app_exact {A} (a b : list A) : firstn (length a) (a ++ b) = a.
Proof. induction a; simpl; [destruct b; reflexivity | now f_equal]. Qed.
Lemma skipn_app_exact {A} (a b : list A) : skipn (length a) (a ++ b) = b.
Proof. induction a; simpl; auto. Qed.

Lemma rd_read_app (a r : bytes) : rd_read (a ++ r) (py_len a) = (a, r).
Proof.
  unfold rd_read, py_len. destruct (Z.of_nat (length a) <? 0) eqn:E; [lia|].
  rewrite Nat2Z.id, firstn_app_exact, skipn_app_exact. reflexivity.
Qed.
