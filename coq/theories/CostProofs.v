(* CostProofs.v -- the part of the C05 development that unfolds the header parser of Header.v:
     A  every primitive reader consumes input, hence a repeated reader cannot return more elements
        than there are bytes (a count larger than the remaining input always fails);
     B  which sections are therefore immune and which are not: the resource answers (Err EFuel) of
        Header.parse_header that tiny inputs reach (numfiles, sub-stream counts), the bind-pair and
        packpositions passes are linear;
     C' on bytes, what remains are bytes and every NUMBER read is non-negative;
     D  parse_cost_partial: the object graph the parser builds is linear in the input and the limit.
   Nothing but props/C05.v requires this file (the extracted model does not depend on it).
   stdlib only; no axioms. *)
From P7 Require Import Prelude PyPrims Number Header Cost.
From Coq Require Import ZifyBool.
Open Scope Z_scope.


(* ---- A. readers consume -------------------------------------------------- *)
Definition consuming {A} (rd : reader A) : Prop :=
  forall bs x r, rd bs = Ok (x, r) -> (length r < length bs)%nat.
Definition nonincreasing {A} (rd : reader A) : Prop :=
  forall bs x r, rd bs = Ok (x, r) -> (length r <= length bs)%nat.
(* a reader that never gives the resource answer *)
Definition fuel_free {A} (rd : reader A) : Prop := forall bs, rd bs <> Err EFuel.

Lemma consuming_nonincreasing {A} (rd : reader A) : consuming rd -> nonincreasing rd.
Proof. intros H bs x r E. apply H in E. lia. Qed.

Lemma dropZ_length {A} (n : Z) (l : list A) : (length (dropZ n l) <= length l)%nat.
Proof. unfold dropZ. rewrite skipn_length. lia. Qed.

Lemma takeZ_dropZ_length {A} (n : Z) (l : list A) :
  (length (takeZ n l) + length (dropZ n l) = length l)%nat.
Proof.
  unfold takeZ, dropZ, zlen. rewrite firstn_length, skipn_length. lia.
Qed.

Lemma rd_byte_consumes : consuming rd_byte.
Proof. intros [|b bs] x r H; [discriminate|]. inversion H; subst. simpl. lia. Qed.

Lemma rd_byte_exact bs x r : rd_byte bs = Ok (x, r) -> length bs = S (length r).
Proof. destruct bs as [|b bs]; intros H; [discriminate|]. inversion H; subst. reflexivity. Qed.

Lemma rd_pid_nonincreasing : nonincreasing rd_pid.
Proof. intros [|b bs] x r H; inversion H; subst; simpl; lia. Qed.

Lemma rd_pid_some bs p r : rd_pid bs = Ok (Some p, r) -> length bs = S (length r).
Proof. destruct bs as [|b bs]; intros H; inversion H; subst. reflexivity. Qed.

Lemma rd_fixed_exact n bs x r : rd_fixed n bs = Ok (x, r) -> (length r + n = length bs)%nat.
Proof.
  unfold rd_fixed. destruct (length bs <? n)%nat eqn:E; [discriminate|].
  intros H. inversion H; subst. rewrite skipn_length. apply Nat.ltb_ge in E. lia.
Qed.

Lemma rd_fixed_consumes n : (0 < n)%nat -> consuming (rd_fixed n).
Proof. intros Hn bs x r H. apply rd_fixed_exact in H. lia. Qed.

Lemma rd_number_consumes : consuming rd_number.
Proof.
  intros [|b bs] x r H; [discriminate|]. simpl in H.
  destruct (b =? 255).
  - apply rd_fixed_exact in H. simpl. lia.
  - inversion H; subst. rewrite skipn_length. simpl. lia.
Qed.

Lemma rd_bytes_nonincreasing n : nonincreasing (rd_bytes n).
Proof. intros bs x r H. inversion H; subst. apply dropZ_length. Qed.

Lemma rd_bytes_exact n bs x r : rd_bytes n bs = Ok (x, r) -> (length x + length r = length bs)%nat.
Proof. intros H. inversion H; subst. apply takeZ_dropZ_length. Qed.

Lemma rd_bond_consumes : consuming rd_bond.
Proof.
  intros bs x r H. unfold rd_bond in H.
  bind_ok H. destruct x0 as [a r1]. bind_ok H. destruct x0 as [b r2].
  inversion H; subst. apply rd_number_consumes in E, E0. lia.
Qed.

Lemma parse_coder_consumes : consuming parse_coder.
Proof.
  intros bs x r H. unfold parse_coder in H.
  bind_ok H. destruct x0 as [b r1]. apply rd_byte_consumes in E.
  bind_ok H. destruct x0 as [m r2].
  assert (H2 : (length r2 <= length r1)%nat).
  { destruct (0 <? Z.land b 15).
    - apply rd_bytes_nonincreasing in E0. exact E0.
    - inversion E0; subst. lia. }
  bind_ok H. destruct x0 as [[nin nout] r3].
  assert (H3 : (length r3 <= length r2)%nat).
  { destruct (negb (Z.land b 16 =? 0)).
    - bind_ok E1. destruct x0 as [a r']. bind_ok E1. destruct x0 as [b' r''].
      inversion E1; subst. apply rd_number_consumes in E2, E3. lia.
    - inversion E1; subst. lia. }
  bind_ok H. destruct x0 as [pr r4].
  assert (H4 : (length r4 <= length r3)%nat).
  { destruct (negb (Z.land b 32 =? 0)).
    - bind_ok E2. destruct x0 as [pl r']. bind_ok E2. destruct x0 as [p r''].
      inversion E2; subst. apply rd_number_consumes in E3. apply rd_bytes_nonincreasing in E4. lia.
    - inversion E2; subst. lia. }
  inversion H; subst. lia.
Qed.

(* the bytes a coder keeps (method id, properties) were read from the input *)
Lemma parse_coder_size bs c r :
  parse_coder bs = Ok (c, r) -> coder_size c + zlen r <= zlen bs + 1.
Proof.
  intros H. unfold parse_coder in H.
  bind_ok H. destruct x as [b r1]. apply rd_byte_exact in E.
  bind_ok H. destruct x as [m r2].
  assert (H2 : zlen m + zlen r2 <= zlen r1 + 1).
  { destruct (0 <? Z.land b 15).
    - apply rd_bytes_exact in E0. unfold zlen. lia.
    - inversion E0; subst. unfold zlen. cbn [length]. lia. }
  bind_ok H. destruct x as [[nin nout] r3].
  assert (H3 : (length r3 <= length r2)%nat).
  { destruct (negb (Z.land b 16 =? 0)).
    - bind_ok E1. destruct x as [a r']. bind_ok E1. destruct x as [b' r''].
      inversion E1; subst. apply rd_number_consumes in E2, E3. lia.
    - inversion E1; subst. lia. }
  bind_ok H. destruct x as [pr r4].
  assert (H4 : match pr with Some p => zlen p | None => 0 end + zlen r4 <= zlen r3).
  { destruct (negb (Z.land b 32 =? 0)).
    - bind_ok E2. destruct x as [pl r']. bind_ok E2. destruct x as [p r''].
      inversion E2; subst. apply rd_number_consumes in E3. apply rd_bytes_exact in E4.
      unfold zlen. lia.
    - inversion E2; subst. lia. }
  inversion H; subst. unfold coder_size; cbn [c_method c_props]. unfold zlen in *. lia.
Qed.

(* --- repetition: never more elements than bytes --- *)
Lemma rd_rep_bound {A} (rd : reader A) :
  consuming rd ->
  forall fuel n bs l r,
    rd_rep fuel n rd bs = Ok (l, r) ->
    (length l + length r <= length bs)%nat /\ zlen l = Z.max n 0.
Proof.
  intros Hc. induction fuel as [|f IH]; intros n bs l r H; simpl in H.
  - destruct (n <=? 0) eqn:En; [|discriminate]. inversion H; subst. unfold zlen; cbn [length]. lia.
  - destruct (n <=? 0) eqn:En.
    + inversion H; subst. unfold zlen; cbn [length]. lia.
    + bind_ok H. destruct x as [a r1]. bind_ok H. destruct x as [xs r2].
      inversion H; subst. apply Hc in E. apply IH in E0. destruct E0 as [E1 E2].
      unfold zlen in *. cbn [length]. lia.
Qed.

Theorem rd_many_count_le {A} (rd : reader A) n bs l r :
  consuming rd -> rd_many n rd bs = Ok (l, r) ->
  n <= zlen bs /\ zlen l = Z.max n 0 /\ zlen l + zlen r <= zlen bs.
Proof.
  intros Hc H. unfold rd_many in H. apply (rd_rep_bound rd Hc) in H. destruct H as [H1 H2].
  unfold zlen in *. lia.
Qed.

(* the statement the property needs: a declared count larger than the remaining input fails *)
Theorem rd_many_overcount_fails {A} (rd : reader A) n bs :
  consuming rd -> zlen bs < n -> exists e, rd_many n rd bs = Err e.
Proof.
  intros Hc Hn. destruct (rd_many n rd bs) as [[l r]|e] eqn:E; [|eauto].
  apply (rd_many_count_le rd n bs l r Hc) in E. lia.
Qed.

(* the fuel of rd_rep is no restriction: any fuel above the input length gives the same answer *)
Lemma rd_rep_fuel_irrelevant {A} (rd : reader A) :
  consuming rd ->
  forall f1 f2 n bs, (length bs < f1)%nat -> (length bs < f2)%nat ->
                     rd_rep f1 n rd bs = rd_rep f2 n rd bs.
Proof.
  intros Hc. induction f1 as [|f1 IH]; intros f2 n bs H1 H2; [lia|].
  destruct f2 as [|f2]; [lia|]. simpl.
  destruct (n <=? 0); [reflexivity|].
  destruct (rd bs) as [[x r]|e] eqn:E; [|reflexivity]. cbn [bind].
  apply Hc in E. rewrite (IH f2 (n - 1) r) by lia. reflexivity.
Qed.

Lemma rd_rep_fuel_free {A} (rd : reader A) : fuel_free rd -> forall fuel n, fuel_free (rd_rep fuel n rd).
Proof.
  intros Hf. induction fuel as [|f IH]; intros n bs H; simpl in H.
  - destruct (n <=? 0); discriminate.
  - destruct (n <=? 0); [discriminate|].
    apply bind_fuel in H. destruct H as [H|[[x r] [_ H]]]; [exact (Hf _ H)|].
    apply bind_fuel in H. destruct H as [H|[[xs r'] [_ H]]]; [exact (IH _ _ H)|discriminate].
Qed.

Lemma rd_many_fuel_free {A} (rd : reader A) n : fuel_free rd -> fuel_free (rd_many n rd).
Proof. intros Hf bs. apply rd_rep_fuel_free. exact Hf. Qed.

Lemma rd_fixed_fuel_free n : fuel_free (rd_fixed n).
Proof. intros bs. unfold rd_fixed. destruct (length bs <? n)%nat; discriminate. Qed.

Lemma rd_number_fuel_free : fuel_free rd_number.
Proof.
  intros [|b bs]; simpl; [discriminate|]. destruct (b =? 255); [apply rd_fixed_fuel_free|discriminate].
Qed.

Lemma rd_byte_fuel_free : fuel_free rd_byte.
Proof. intros [|b bs]; discriminate. Qed.

Lemma rd_bytes_fuel_free n : fuel_free (rd_bytes n).
Proof. intros bs. discriminate. Qed.

Lemma rd_bond_fuel_free : fuel_free rd_bond.
Proof.
  intros bs H. unfold rd_bond in H.
  apply bind_fuel in H. destruct H as [H|[[a r] [_ H]]]; [exact (rd_number_fuel_free _ H)|].
  apply bind_fuel in H. destruct H as [H|[[b r2] [_ H]]]; [exact (rd_number_fuel_free _ H)|discriminate].
Qed.

Lemma parse_coder_fuel_free : fuel_free parse_coder.
Proof.
  intros bs H. unfold parse_coder in H.
  apply bind_fuel in H. destruct H as [H|[[b r1] [_ H]]]; [exact (rd_byte_fuel_free _ H)|].
  apply bind_fuel in H. destruct H as [H|[[m r2] [_ H]]].
  { destruct (0 <? Z.land b 15); discriminate. }
  apply bind_fuel in H. destruct H as [H|[[[nin nout] r3] [_ H]]].
  { destruct (negb (Z.land b 16 =? 0)); [|discriminate].
    apply bind_fuel in H. destruct H as [H|[[a r'] [_ H]]]; [exact (rd_number_fuel_free _ H)|].
    apply bind_fuel in H. destruct H as [H|[[b' r''] [_ H]]]; [exact (rd_number_fuel_free _ H)|discriminate]. }
  apply bind_fuel in H. destruct H as [H|[[pr r4] [_ H]]]; [|discriminate].
  destruct (negb (Z.land b 32 =? 0)); [|discriminate].
  apply bind_fuel in H. destruct H as [H|[[pl r'] [_ H]]]; [exact (rd_number_fuel_free _ H)|].
  apply bind_fuel in H. destruct H as [H|[[p r''] [_ H]]]; discriminate.
Qed.

(* --- bit vectors --- *)
Lemma bits_of_byte_length b k : length (bits_of_byte b k) = k.
Proof. induction k as [|k IHk]; simpl; [reflexivity|]. rewrite app_length, IHk. simpl. lia. Qed.

Lemma rd_bits_fuel_bound : forall fuel count bs l r,
  rd_bits_fuel fuel count bs = Ok (l, r) ->
  zlen l = Z.max count 0 /\ (length r <= length bs)%nat /\ Z.max count 0 <= 8 * (zlen bs - zlen r).
Proof.
  induction fuel as [|f IH]; intros count bs l r H; cbn [rd_bits_fuel] in H.
  - destruct (count <=? 0) eqn:Ec; [|discriminate]. inversion H; subst. unfold zlen; cbn [length]. lia.
  - destruct (count <=? 0) eqn:Ec.
    + inversion H; subst. unfold zlen; cbn [length]. lia.
    + destruct bs as [|b bs]; [discriminate|].
      destruct (count <? 8) eqn:E8.
      * injection H as <- <-. unfold zlen. rewrite bits_of_byte_length. cbn [length]. lia.
      * bind_ok H. destruct x as [l' r']. injection H as <- <-.
        apply IH in E. destruct E as (E1 & E2 & E3).
        unfold zlen in *. cbn [length]. lia.
Qed.

Lemma rd_bits_bound count bs l r :
  rd_bits count bs = Ok (l, r) ->
  zlen l = Z.max count 0 /\ (length r <= length bs)%nat /\ count <= 8 * (zlen bs - zlen r).
Proof.
  intros H. apply rd_bits_fuel_bound in H. destruct H as (H1 & H2 & H3).
  repeat split; try assumption. lia.
Qed.

Lemma rd_bits_fuel_free count : fuel_free (rd_bits count).
Proof.
  intros bs. unfold rd_bits. generalize (S (length bs)) as fuel. intros fuel.
  revert count bs. induction fuel as [|f IH]; intros count bs H; simpl in H.
  - destruct (count <=? 0); discriminate.
  - destruct (count <=? 0); [discriminate|]. destruct bs as [|b bs]; [discriminate|].
    destruct (count <? 8); [discriminate|].
    apply bind_fuel in H. destruct H as [H|[[l r] [_ H]]]; [exact (IH _ _ H)|discriminate].
Qed.

(* read_boolean: the only place where a count becomes a list without any byte being read *)
Lemma rd_boolean_bound lim count checkall bs l r :
  rd_boolean lim count checkall bs = Ok (l, r) ->
  zlen l = Z.max count 0 /\ (length r <= length bs)%nat /\ (count <= lim \/ count <= 8 * (zlen bs - zlen r)).
Proof.
  unfold rd_boolean. intros H. destruct checkall.
  - destruct bs as [|b bs].
    + destruct (lim <? count) eqn:El; [discriminate|]. inversion H; subst.
      unfold zlen. rewrite repeat_length. cbn [length]. lia.
    + destruct (b =? 0) eqn:Eb.
      * apply Z.eqb_eq in Eb. subst b. apply rd_bits_bound in H. destruct H as (H1 & H2 & H3).
        unfold zlen in *. simpl length. lia.
      * assert (H' : (if lim <? count then Err EFuel else Ok (repeat true (Z.to_nat count), bs)) = Ok (l, r)).
        { destruct b as [|p|p]; [discriminate Eb| exact H | exact H]. }
        destruct (lim <? count) eqn:El; [discriminate|]. inversion H'; subst.
        unfold zlen. rewrite repeat_length. cbn [length]. lia.
  - apply rd_bits_bound in H. destruct H as (H1 & H2 & H3). lia.
Qed.

(* with checkall = false no resource answer is possible *)
Lemma rd_boolean_nocheck_fuel_free lim count : fuel_free (rd_boolean lim count false).
Proof. intros bs. unfold rd_boolean. apply rd_bits_fuel_free. Qed.

(* a resource answer of read_boolean means: the count exceeds the limit *)
Lemma rd_boolean_fuel lim count checkall bs :
  rd_boolean lim count checkall bs = Err EFuel -> lim < count.
Proof.
  unfold rd_boolean. destruct checkall.
  - destruct bs as [|b bs].
    + destruct (lim <? count) eqn:El; [lia|discriminate].
    + destruct (b =? 0) eqn:Eb.
      * apply Z.eqb_eq in Eb. subst b. intros H. exfalso. exact (rd_bits_fuel_free count bs H).
      * intros H.
        assert (H' : (if lim <? count then Err EFuel else Ok (repeat true (Z.to_nat count), bs)) = @Err (list bool * bytes) EFuel).
        { destruct b as [|p|p]; [discriminate Eb| exact H | exact H]. }
        destruct (lim <? count) eqn:El; [lia|discriminate].
  - intros H. exfalso. exact (rd_bits_fuel_free count bs H).
Qed.

(* ---- B. sections: where a declared count is backed by bytes and where it is not ---- *)

Lemma expand_crcs_length : forall defined vals crcs,
  expand_crcs defined vals = Ok crcs -> length crcs = length defined.
Proof.
  induction defined as [|d ds IH]; intros vals crcs H; cbn [expand_crcs] in H.
  - injection H as <-. reflexivity.
  - destruct d.
    + destruct vals as [|c cs]; [discriminate|]. bind_ok H. injection H as <-.
      cbn [length]. rewrite (IH _ _ E). reflexivity.
    + bind_ok H. injection H as <-. cbn [length]. rewrite (IH _ _ E). reflexivity.
Qed.

(* PackInfo: the sizes are read one by one, so with a SIZE section numstreams <= input;
   without it numstreams is free (and range(numstreams + 1) is walked at l.270) *)
Lemma parse_packinfo_bound lim bs p r :
  parse_packinfo lim bs = Ok (p, r) ->
  p_numstreams p <= lim /\ (length r < length bs)%nat /\
  (p_sizes p = [] \/ p_numstreams p <= zlen bs).
Proof.
  intros H. unfold parse_packinfo in H.
  bind_ok H. destruct x as [pos r1]. apply rd_number_consumes in E.
  bind_ok H. destruct x as [n r2]. apply rd_number_consumes in E0.
  bind_ok H. destruct x as [pid r3]. apply rd_pid_nonincreasing in E1.
  destruct (lim <? n) eqn:El; [discriminate|].
  bind_ok H. destruct x as [[[[sizes defined] crcs] pid'] r4].
  assert (Hs : (length r4 <= length r3)%nat /\ (sizes = [] \/ n <= zlen r3)).
  { destruct pid as [pv|]; [|inversion E2; subst; split; [lia|left; reflexivity]].
    destruct (pv =? 9) eqn:E9.
    - apply Z.eqb_eq in E9. subst pv.
      bind_ok E2. destruct x as [sz r5].
      apply (rd_many_count_le rd_number n r3 sz r5 rd_number_consumes) in E3.
      destruct E3 as (Hn & _ & Hlen).
      bind_ok E2. destruct x as [pid2 r6]. apply rd_pid_nonincreasing in E3.
      assert (Hr5 : (length r5 <= length r3)%nat).
      { pose proof (zlen_nonneg sz). unfold zlen in *. lia. }
      destruct pid2 as [pv2|]; [|inversion E2; subst; split; [lia|right; exact Hn]].
      destruct (pv2 =? 10) eqn:E10.
      + apply Z.eqb_eq in E10. subst pv2.
        bind_ok E2. destruct x as [df r7]. apply rd_boolean_bound in E4. destruct E4 as (_ & Hr7 & _).
        bind_ok E2. destruct x as [cr r8]. unfold rd_defined_crcs in E4.
        apply (rd_many_count_le (rd_fixed 4) _ r7 cr r8 (rd_fixed_consumes 4 ltac:(lia))) in E4.
        destruct E4 as (_ & _ & Hlen8).
        bind_ok E2. bind_ok E2. destruct x0 as [pid3 r9]. apply rd_pid_nonincreasing in E5.
        inversion E2; subst. split; [|right; exact Hn].
        unfold zlen in *. lia.
      + assert (E2' : Ok (sz, [], [], Some pv2, r6) = Ok (sizes, defined, crcs, pid', r4)).
        { destruct pv2 as [|q|q]; try exact E2.
          do 4 (destruct q as [q|q|]; try exact E2). discriminate E10. }
        inversion E2'; subst. split; [lia|right; exact Hn].
    - assert (E2' : Ok ([], [], [], Some pv, r3) = Ok (sizes, defined, crcs, pid', r4)).
      { destruct pv as [|q|q]; try exact E2.
        do 4 (destruct q as [q|q|]; try exact E2). discriminate E9. }
      inversion E2'; subst. split; [lia|left; reflexivity]. }
  destruct Hs as [Hr4 Hsz].
  destruct pid' as [pv|]; [|discriminate].
  destruct pv; try discriminate. inversion H; subst. cbn [p_numstreams p_sizes].
  split; [lia|]. split; [lia|].
  destruct Hsz as [Hs|Hs]; [left; exact Hs|right].
  unfold zlen in *. lia.
Qed.

(* a resource answer of PackInfo means exactly: numstreams exceeds the limit, or it is
   the all-defined digest vector (count = numstreams again) *)
Lemma parse_packinfo_fuel lim bs :
  parse_packinfo lim bs = Err EFuel ->
  exists pos n r1 r2, rd_number bs = Ok (pos, r1) /\ rd_number r1 = Ok (n, r2) /\ lim < n.
Proof.
  intros H. unfold parse_packinfo in H.
  apply bind_fuel in H. destruct H as [H|[[pos r1] [E1 H]]]; [exfalso; exact (rd_number_fuel_free _ H)|].
  apply bind_fuel in H. destruct H as [H|[[n r2] [E2 H]]]; [exfalso; exact (rd_number_fuel_free _ H)|].
  apply bind_fuel in H. destruct H as [H|[[pid r3] [E3 H]]].
  { destruct r2; discriminate. }
  exists pos, n, r1, r2. split; [exact E1|]. split; [exact E2|].
  destruct (lim <? n) eqn:El; [lia|]. exfalso.
  apply bind_fuel in H. destruct H as [H|[[[[[sizes defined] crcs] pid'] r4] [_ H]]].
  2:{ destruct pid' as [pv|]; [|discriminate]. destruct pv; discriminate. }
  destruct pid as [pv|]; [|discriminate].
  destruct (pv =? 9) eqn:E9.
  - apply Z.eqb_eq in E9. subst pv.
    apply bind_fuel in H. destruct H as [H|[[sz r5] [Esz H]]].
    { exact (rd_many_fuel_free rd_number n rd_number_fuel_free _ H). }
    apply bind_fuel in H. destruct H as [H|[[pid2 r6] [_ H]]].
    { destruct r5; discriminate. }
    destruct pid2 as [pv2|]; [|discriminate].
    destruct (pv2 =? 10) eqn:E10.
    + apply Z.eqb_eq in E10. subst pv2.
      apply bind_fuel in H. destruct H as [H|[[df r7] [_ H]]].
      { apply rd_boolean_fuel in H. lia. }
      apply bind_fuel in H. destruct H as [H|[[cr r8] [_ H]]].
      { exact (rd_many_fuel_free (rd_fixed 4) _ (rd_fixed_fuel_free 4) _ H). }
      apply bind_fuel in H. destruct H as [H|[ex [_ H]]].
      { clear - H. revert cr H. induction df as [|d ds IH]; intros cr H; cbn [expand_crcs] in H; [discriminate|].
        destruct d.
        - destruct cr as [|c cs]; [discriminate|]. apply bind_fuel in H. destruct H as [H|[x [_ H]]]; [exact (IH _ H)|discriminate].
        - apply bind_fuel in H. destruct H as [H|[x [_ H]]]; [exact (IH _ H)|discriminate]. }
      apply bind_fuel in H. destruct H as [H|[[pid3 r9] [_ H]]]; [|discriminate].
      destruct r8; discriminate.
    + destruct pv2 as [|q|q]; try discriminate H.
      do 4 (destruct q as [q|q|]; try discriminate H). discriminate E10.
  - destruct pv as [|q|q]; try discriminate H.
    do 4 (destruct q as [q|q|]; try discriminate H). discriminate E9.
Qed.

(* Folder: every count is backed by bytes; in particular totalin (the trip count of the
   packed_indices loop) is at most the number of bonds + 1 *)
Lemma parse_folder_consumes lim : consuming (parse_folder lim).
Proof.
  intros bs f r H. unfold parse_folder in H.
  bind_ok H. destruct x as [nc r1]. apply rd_number_consumes in E.
  bind_ok H. destruct x as [coders r2].
  apply (rd_many_count_le parse_coder nc r1 coders r2 parse_coder_consumes) in E0.
  bind_ok H. destruct x as [bonds r3].
  apply (rd_many_count_le rd_bond _ r2 bonds r3 rd_bond_consumes) in E1.
  assert (H13 : (length r3 <= length r1)%nat).
  { destruct E0 as (_ & _ & A). destruct E1 as (_ & _ & B).
    pose proof (zlen_nonneg coders). pose proof (zlen_nonneg bonds). unfold zlen in *. lia. }
  destruct (_ - _ =? 1).
  - destruct (lim <? _); [discriminate|]. inversion H; subst. lia.
  - bind_ok H. destruct x as [packed r4].
    apply (rd_many_count_le rd_number _ r3 packed r4 rd_number_consumes) in E2.
    destruct E2 as (_ & _ & C). inversion H; subst.
    pose proof (zlen_nonneg packed). unfold zlen in *. lia.
Qed.

(* the only resource answer of a folder needs totalin > lim, and totalin <= |input| + 1 *)
Lemma parse_folder_fuel lim bs : parse_folder lim bs = Err EFuel -> lim <= zlen bs.
Proof.
  intros H. unfold parse_folder in H.
  apply bind_fuel in H. destruct H as [H|[[nc r1] [E1 H]]]; [exfalso; exact (rd_number_fuel_free _ H)|].
  apply rd_number_consumes in E1.
  apply bind_fuel in H. destruct H as [H|[[coders r2] [E2 H]]].
  { exfalso. exact (rd_many_fuel_free parse_coder nc parse_coder_fuel_free _ H). }
  apply (rd_many_count_le parse_coder nc r1 coders r2 parse_coder_consumes) in E2.
  apply bind_fuel in H. destruct H as [H|[[bonds r3] [E3 H]]].
  { exfalso. exact (rd_many_fuel_free rd_bond _ rd_bond_fuel_free _ H). }
  apply (rd_many_count_le rd_bond _ r2 bonds r3 rd_bond_consumes) in E3.
  set (totalin := sumZ (map c_nin coders)) in *.
  set (nbonds := sumZ (map c_nout coders) - 1) in *.
  destruct (totalin - nbonds =? 1) eqn:Enp.
  - destruct (lim <? totalin) eqn:El; [|discriminate].
    destruct E2 as (_ & _ & A). destruct E3 as (B1 & _ & B).
    pose proof (zlen_nonneg coders). pose proof (zlen_nonneg bonds).
    pose proof (zlen_nonneg r2). pose proof (zlen_nonneg r3).
    unfold zlen in *. lia.
  - exfalso. apply bind_fuel in H. destruct H as [H|[[packed r4] [_ H]]]; [|discriminate].
    exact (rd_many_fuel_free rd_number _ rd_number_fuel_free _ H).
Qed.

Corollary parse_folder_immune lim bs : zlen bs < lim -> parse_folder lim bs <> Err EFuel.
Proof. intros Hl H. apply parse_folder_fuel in H. lia. Qed.

(* ---- the resource answers that a few bytes reach: refutations of the memory clause ---- *)

(* FilesInfo._read: numfiles dicts are allocated before another byte is read *)
Lemma parse_files_fuel lim bs n r :
  rd_number bs = Ok (n, r) -> lim < n -> parse_files lim bs = Err EFuel.
Proof.
  intros Hn Hl. unfold parse_files. rewrite Hn. cbn [bind].
  destruct (lim <? n) eqn:E; [reflexivity|lia].
Qed.

(* 2^63 as a NUMBER *)
Definition N63 : bytes := [255; 0; 0; 0; 0; 0; 0; 0; 128].
Lemma rd_number_N63 r : rd_number (N63 ++ r) = Ok (2 ^ 63, r).
Proof. reflexivity. Qed.

(* HEADER, FILES_INFO, numfiles = 2^63 *)
Definition witness_numfiles : bytes := [1; 5] ++ N63.
Theorem numfiles_alloc_witness :
  length witness_numfiles = 11%nat /\
  forall lim, lim < 2 ^ 63 -> parse_header lim witness_numfiles = Err EFuel.
Proof.
  split; [reflexivity|]. intros lim Hl.
  unfold witness_numfiles, parse_header. cbn [app]. unfold parse_header_body.
  cbn [rd_pid bind].
  rewrite (parse_files_fuel lim N63 (2 ^ 63) [] (rd_number_N63 []) Hl). reflexivity.
Qed.

(* SubstreamsInfo._read: one folder (Copy coder, unpack size 0) declared to hold 2^63 sub-streams:
   [False] * total, [0] * total (or [True] * num_digests) with no byte behind them *)
Definition witness_substreams : bytes :=
  [1; 4; 7; 11; 1; 0; 1; 1; 0; 12; 0; 0; 8; 13] ++ N63.
Theorem substreams_alloc_witness :
  length witness_substreams = 23%nat /\
  parse_header (2 ^ 62) witness_substreams = Err EFuel /\
  parse_header (2 ^ 20 * zlen witness_substreams) witness_substreams = Err EFuel.
Proof. split; [reflexivity|]. split; vm_compute; reflexivity. Qed.

(* a header of 11 bytes on which the work of the
   parser exceeds every bound that is linear in the input with coefficients below 2^57 *)
Theorem alloc_by_declared_count_refuted :
  exists bs, (length bs <= 40)%nat /\
    forall a b, 0 <= a < 2 ^ 57 -> 0 <= b < 2 ^ 62 -> parse_header (a * zlen bs + b) bs = Err EFuel.
Proof.
  exists witness_numfiles. split; [cbn; lia|].
  intros a b Ha Hb. apply (proj2 numfiles_alloc_witness).
  change (zlen witness_numfiles) with 11. lia.
Qed.

(* ---- C'. on input that consists of bytes, what remains consists of bytes and every NUMBER read is
        non-negative (needed where a count is turned into a list without a test for its sign) ---- *)
Definition wfp {A} (rd : reader A) : Prop :=
  forall bs x r, rd bs = Ok (x, r) -> wf_bytes bs = true -> wf_bytes r = true.

Lemma wf_bytes_tail b bs : wf_bytes (b :: bs) = true -> wf_bytes bs = true.
Proof. cbn [wf_bytes forallb]. intros H. apply andb_true_iff in H. apply H. Qed.

Lemma wf_bytes_dropZ n bs : wf_bytes bs = true -> wf_bytes (dropZ n bs) = true.
Proof. unfold dropZ. apply wf_bytes_skipn. Qed.

Lemma rd_pid_wfp : wfp rd_pid.
Proof. intros [|b bs] x r H W; injection H as _ <-; [reflexivity|exact (wf_bytes_tail _ _ W)]. Qed.

Lemma rd_byte_wfp : wfp rd_byte.
Proof. intros [|b bs] x r H W; [discriminate|]. injection H as _ <-. exact (wf_bytes_tail _ _ W). Qed.

Lemma rd_fixed_wfp n : wfp (rd_fixed n).
Proof.
  intros bs x r H W. unfold rd_fixed in H. destruct (length bs <? n)%nat; [discriminate|].
  injection H as _ <-. apply wf_bytes_skipn. exact W.
Qed.

Lemma rd_fixed_nonneg n bs x r : rd_fixed n bs = Ok (x, r) -> wf_bytes bs = true -> 0 <= x.
Proof.
  intros H W. unfold rd_fixed in H. destruct (length bs <? n)%nat; [discriminate|].
  injection H as <- _. apply (le_value_bound (firstn n bs)). apply wf_bytes_firstn. exact W.
Qed.

Lemma rd_number_wfp : wfp rd_number.
Proof.
  intros [|b bs] x r H W; [discriminate|]. cbn [rd_number] in H. apply wf_bytes_tail in W.
  destruct (b =? 255); [exact (rd_fixed_wfp 8 _ _ _ H W)|].
  injection H as _ <-. apply wf_bytes_skipn. exact W.
Qed.

Lemma rd_number_nonneg bs x r : rd_number bs = Ok (x, r) -> wf_bytes bs = true -> 0 <= x.
Proof.
  destruct bs as [|b bs]; intros H W; [discriminate|]. cbn [rd_number] in H.
  pose proof (wf_bytes_tail _ _ W) as W'.
  destruct (b =? 255); [exact (rd_fixed_nonneg 8 _ _ _ H W')|].
  injection H as <- _.
  pose proof (le_value_bound (firstn (leading_ones b) bs) (wf_bytes_firstn _ _ W')) as Hl.
  assert (0 <= (if (leading_ones b <? 7)%nat then b mod 2 ^ (7 - Z.of_nat (leading_ones b)) else 0)).
  { destruct (leading_ones b <? 7)%nat eqn:E; [|lia]. apply Z.mod_pos_bound. apply Z.pow_pos_nonneg; lia. }
  assert (0 <= 256 ^ Z.of_nat (leading_ones b)) by (apply Z.pow_nonneg; lia).
  apply Z.add_nonneg_nonneg; [apply Z.mul_nonneg_nonneg; assumption|lia].
Qed.

Lemma rd_bytes_wfp n : wfp (rd_bytes n).
Proof. intros bs x r H W. injection H as _ <-. apply wf_bytes_dropZ. exact W. Qed.

Lemma rd_rep_wfp {A} (rd : reader A) : wfp rd -> forall fuel n, wfp (rd_rep fuel n rd).
Proof.
  intros Hw. induction fuel as [|f IH]; intros n bs l r H W; cbn [rd_rep] in H.
  - destruct (n <=? 0); [|discriminate]. injection H as _ <-. exact W.
  - destruct (n <=? 0); [injection H as _ <-; exact W|].
    bind_ok H. destruct x as [a r1]. bind_ok H. destruct x as [xs r2]. injection H as _ <-.
    exact (IH _ _ _ _ E0 (Hw _ _ _ E W)).
Qed.

Lemma rd_many_wfp {A} (rd : reader A) n : wfp rd -> wfp (rd_many n rd).
Proof. intros Hw bs l r H W. exact (rd_rep_wfp rd Hw _ _ _ _ _ H W). Qed.

(* every element a repeated NUMBER reader returns is non-negative *)
Lemma rd_rep_number_nonneg : forall fuel n bs l r,
  rd_rep fuel n rd_number bs = Ok (l, r) -> wf_bytes bs = true -> Forall (fun v => 0 <= v) l.
Proof.
  induction fuel as [|f IH]; intros n bs l r H W; cbn [rd_rep] in H.
  - destruct (n <=? 0); [|discriminate]. injection H as <- _. constructor.
  - destruct (n <=? 0); [injection H as <- _; constructor|].
    bind_ok H. destruct x as [a r1]. bind_ok H. destruct x as [xs r2]. injection H as <- _.
    constructor; [exact (rd_number_nonneg _ _ _ E W)|].
    exact (IH _ _ _ _ E0 (rd_number_wfp _ _ _ E W)).
Qed.

Lemma rd_bits_fuel_wfp : forall fuel count, wfp (rd_bits_fuel fuel count).
Proof.
  induction fuel as [|f IH]; intros count bs l r H W; cbn [rd_bits_fuel] in H.
  - destruct (count <=? 0); [|discriminate]. injection H as _ <-. exact W.
  - destruct (count <=? 0); [injection H as _ <-; exact W|].
    destruct bs as [|b bs]; [discriminate|]. apply wf_bytes_tail in W.
    destruct (count <? 8); [injection H as _ <-; exact W|].
    bind_ok H. destruct x as [l' r']. injection H as _ <-. exact (IH _ _ _ _ E W).
Qed.

Lemma rd_boolean_wfp lim count checkall : wfp (rd_boolean lim count checkall).
Proof.
  intros bs l r H W. unfold rd_boolean in H. destruct checkall; [|exact (rd_bits_fuel_wfp _ _ _ _ _ H W)].
  destruct bs as [|b bs].
  - destruct (lim <? count); [discriminate|]. injection H as _ <-. reflexivity.
  - apply wf_bytes_tail in W. destruct (b =? 0) eqn:Eb.
    + apply Z.eqb_eq in Eb. subst b. exact (rd_bits_fuel_wfp _ _ _ _ _ H W).
    + assert (H' : (if lim <? count then Err EFuel else Ok (repeat true (Z.to_nat count), bs)) = Ok (l, r)).
      { destruct b as [|p|p]; [discriminate Eb| exact H | exact H]. }
      destruct (lim <? count); [discriminate|]. injection H' as _ <-. exact W.
Qed.

Lemma rd_crcs_wfp count : wfp (rd_crcs count).
Proof.
  intros bs l r H W. unfold rd_crcs in H. destruct (count <=? 0).
  - injection H as _ <-. apply wf_bytes_dropZ. exact W.
  - destruct (zlen bs <? 4 * count); [discriminate|].
    exact (rd_many_wfp (rd_fixed 4) count (rd_fixed_wfp 4) _ _ _ H W).
Qed.

Lemma rd_bond_wfp : wfp rd_bond.
Proof.
  intros bs x r H W. unfold rd_bond in H.
  bind_ok H. destruct x0 as [a r1]. bind_ok H. destruct x0 as [b r2]. injection H as _ <-.
  exact (rd_number_wfp _ _ _ E0 (rd_number_wfp _ _ _ E W)).
Qed.

Lemma parse_coder_wfp : wfp parse_coder.
Proof.
  intros bs x r H W. unfold parse_coder in H.
  bind_ok H. destruct x0 as [b r1]. pose proof (rd_byte_wfp _ _ _ E W) as W1.
  bind_ok H. destruct x0 as [m r2].
  assert (W2 : wf_bytes r2 = true).
  { destruct (0 <? Z.land b 15); [exact (rd_bytes_wfp _ _ _ _ E0 W1)|]. injection E0 as _ <-. exact W1. }
  bind_ok H. destruct x0 as [[nin nout] r3].
  assert (W3 : wf_bytes r3 = true).
  { destruct (negb (Z.land b 16 =? 0)).
    - bind_ok E1. destruct x0 as [a r']. bind_ok E1. destruct x0 as [b' r'']. injection E1 as _ _ <-.
      exact (rd_number_wfp _ _ _ E3 (rd_number_wfp _ _ _ E2 W2)).
    - injection E1 as _ _ <-. exact W2. }
  bind_ok H. destruct x0 as [pr r4].
  assert (W4 : wf_bytes r4 = true).
  { destruct (negb (Z.land b 32 =? 0)).
    - bind_ok E2. destruct x0 as [pl r']. bind_ok E2. destruct x0 as [p r'']. injection E2 as _ <-.
      exact (rd_bytes_wfp _ _ _ _ E4 (rd_number_wfp _ _ _ E3 W3)).
    - injection E2 as _ <-. exact W3. }
  injection H as _ <-. exact W4.
Qed.

Lemma parse_folder_wfp lim : wfp (parse_folder lim).
Proof.
  intros bs f r H W. unfold parse_folder in H.
  bind_ok H. destruct x as [nc r1]. pose proof (rd_number_wfp _ _ _ E W) as W1.
  bind_ok H. destruct x as [coders r2]. pose proof (rd_many_wfp parse_coder nc parse_coder_wfp _ _ _ E0 W1) as W2.
  bind_ok H. destruct x as [bonds r3]. pose proof (rd_many_wfp rd_bond _ rd_bond_wfp _ _ _ E1 W2) as W3.
  destruct (_ - _ =? 1).
  - destruct (lim <? _); [discriminate|]. injection H as _ <-. exact W3.
  - bind_ok H. destruct x as [packed r4]. injection H as _ <-.
    exact (rd_many_wfp rd_number _ rd_number_wfp _ _ _ E2 W3).
Qed.

Lemma rd_unpacksizes_wfp : forall fs, wfp (rd_unpacksizes fs).
Proof.
  induction fs as [|f fs IH]; intros bs fs' r H W; cbn [rd_unpacksizes] in H.
  - injection H as _ <-. exact W.
  - bind_ok H. destruct x as [sz r1]. bind_ok H. destruct x as [fs1 r2]. injection H as _ <-.
    exact (IH _ _ _ E0 (rd_many_wfp rd_number _ rd_number_wfp _ _ _ E W)).
Qed.

Lemma parse_packinfo_wfp lim : wfp (parse_packinfo lim).
Proof.
  intros bs p r H W. unfold parse_packinfo in H.
  bind_ok H. destruct x as [pos r1]. pose proof (rd_number_wfp _ _ _ E W) as W1.
  bind_ok H. destruct x as [n r2]. pose proof (rd_number_wfp _ _ _ E0 W1) as W2.
  bind_ok H. destruct x as [pid r3]. pose proof (rd_pid_wfp _ _ _ E1 W2) as W3.
  destruct (lim <? n); [discriminate|].
  bind_ok H. destruct x as [[[[sizes defined] crcs] pid'] r4].
  assert (W4 : wf_bytes r4 = true).
  { destruct pid as [pv|]; [|injection E2 as _ _ _ _ <-; exact W3].
    destruct (pv =? 9) eqn:E9.
    - apply Z.eqb_eq in E9. subst pv.
      bind_ok E2. destruct x as [sz r5]. pose proof (rd_many_wfp rd_number n rd_number_wfp _ _ _ E3 W3) as W5.
      bind_ok E2. destruct x as [pid2 r6]. pose proof (rd_pid_wfp _ _ _ E4 W5) as W6.
      destruct pid2 as [pv2|]; [|injection E2 as _ _ _ _ <-; exact W6].
      destruct (pv2 =? 10) eqn:E10.
      + apply Z.eqb_eq in E10. subst pv2.
        bind_ok E2. destruct x as [df r7]. pose proof (rd_boolean_wfp _ _ _ _ _ _ E5 W6) as W7.
        bind_ok E2. destruct x as [cr r8]. unfold rd_defined_crcs in E6.
        pose proof (rd_many_wfp (rd_fixed 4) _ (rd_fixed_wfp 4) _ _ _ E6 W7) as W8.
        bind_ok E2. bind_ok E2. destruct x0 as [pid3 r9]. injection E2 as _ _ _ _ <-. exact (rd_pid_wfp _ _ _ E8 W8).
      + assert (E2' : Ok (sz, [], [], Some pv2, r6) = Ok (sizes, defined, crcs, pid', r4)).
        { destruct pv2 as [|q|q]; try exact E2.
          do 4 (destruct q as [q|q|]; try exact E2). discriminate E10. }
        injection E2' as _ _ _ _ <-. exact W6.
    - assert (E2' : Ok ([], [], [], Some pv, r3) = Ok (sizes, defined, crcs, pid', r4)).
      { destruct pv as [|q|q]; try exact E2.
        do 4 (destruct q as [q|q|]; try exact E2). discriminate E9. }
      injection E2' as _ _ _ _ <-. exact W3. }
  destruct pid' as [pv|]; [|discriminate]. destruct pv; try discriminate.
  injection H as _ <-. exact W4.
Qed.

Lemma parse_unpackinfo_wfp lim : wfp (parse_unpackinfo lim).
Proof.
  intros bs fs r H W. unfold parse_unpackinfo in H.
  bind_ok H. destruct x as [pid r1]. pose proof (rd_pid_wfp _ _ _ E W) as W1.
  destruct pid as [pv|]; [|discriminate].
  destruct (pv =? 11) eqn:E11.
  2:{ exfalso. destruct pv as [|q|q]; try discriminate H.
      do 4 (destruct q as [q|q|]; try discriminate H). discriminate E11. }
  apply Z.eqb_eq in E11. subst pv.
  bind_ok H. destruct x as [nf r2]. pose proof (rd_number_wfp _ _ _ E0 W1) as W2.
  bind_ok H. destruct x as [ext r3]. pose proof (rd_byte_wfp _ _ _ E1 W2) as W3.
  destruct (negb (ext =? 0)); [discriminate|].
  bind_ok H. destruct x as [fs0 r4].
  pose proof (rd_many_wfp (parse_folder lim) nf (parse_folder_wfp lim) _ _ _ E2 W3) as W4.
  bind_ok H. destruct x as [pid2 r5]. pose proof (rd_pid_wfp _ _ _ E3 W4) as W5.
  destruct pid2 as [pv|]; [|discriminate].
  destruct (pv =? 12) eqn:E12.
  2:{ exfalso. destruct pv as [|q|q]; try discriminate H.
      do 4 (destruct q as [q|q|]; try discriminate H). discriminate E12. }
  apply Z.eqb_eq in E12. subst pv.
  bind_ok H. destruct x as [fs1 r6]. pose proof (rd_unpacksizes_wfp _ _ _ _ E4 W5) as W6.
  bind_ok H. destruct x as [pid3 r7]. pose proof (rd_pid_wfp _ _ _ E5 W6) as W7.
  bind_ok H. destruct x as [[fs2 pid4] r8].
  assert (W8 : wf_bytes r8 = true).
  { destruct pid3 as [pv|]; [|injection E6 as _ _ <-; exact W7].
    destruct (pv =? 10) eqn:E10.
    - apply Z.eqb_eq in E10. subst pv.
      bind_ok E6. destruct x as [df r9]. pose proof (rd_boolean_wfp _ _ _ _ _ _ E7 W7) as W9.
      bind_ok E6. destruct x as [cr r10]. pose proof (rd_crcs_wfp _ _ _ _ E8 W9) as W10.
      bind_ok E6. bind_ok E6. destruct x0 as [pid5 r11]. injection E6 as _ _ <-.
      exact (rd_pid_wfp _ _ _ E10 W10).
    - assert (E6' : Ok (fs1, Some pv, r7) = Ok (fs2, pid4, r8)).
      { destruct pv as [|q|q]; try exact E6.
        do 4 (destruct q as [q|q|]; try exact E6). discriminate E10. }
      injection E6' as _ _ <-. exact W7. }
  destruct pid4 as [pv|]; [|discriminate]. destruct pv; try discriminate.
  injection H as _ <-. exact W8.
Qed.

(* ---- D. parse_cost_partial: what the parser builds is linear in the input and the limit ----
   (header_size counts every list cell of the object graph, packpositions included; with every
    declared count within the limit, and the limit within the input size, the graph is linear
    in the input) *)

Lemma rd_rep_size {A} (rd : reader A) (sz : A -> Z) (K : Z) :
  (forall bs x r, rd bs = Ok (x, r) -> sz x + K * zlen r <= K * zlen bs) ->
  forall fuel n bs l r, rd_rep fuel n rd bs = Ok (l, r) ->
                        sumZ (map sz l) + K * zlen r <= K * zlen bs.
Proof.
  intros Hsz. induction fuel as [|f IH]; intros n bs l r H; cbn [rd_rep] in H.
  - destruct (n <=? 0); [|discriminate]. injection H as <- <-. cbn [map]. rewrite sumZ_nil. lia.
  - destruct (n <=? 0).
    + injection H as <- <-. cbn [map]. rewrite sumZ_nil. lia.
    + bind_ok H. destruct x as [a r1]. bind_ok H. destruct x as [xs r2].
      injection H as <- <-. cbn [map]. rewrite sumZ_cons.
      apply Hsz in E. apply IH in E0. lia.
Qed.

Lemma filter_length_le' {A} (f : A -> bool) (l : list A) : (length (filter f l) <= length l)%nat.
Proof. induction l as [|x l IH]; cbn [filter length]; [lia|]. destruct (f x); cbn [length]; lia. Qed.

Lemma count_true_le l : count_true l <= zlen l.
Proof. unfold count_true, zlen. pose proof (filter_length_le' (fun b : bool => b) l). lia. Qed.

Lemma count_true_nonneg l : 0 <= count_true l.
Proof. unfold count_true. apply zlen_nonneg. Qed.

Lemma parse_coder_size2 bs c r : parse_coder bs = Ok (c, r) -> coder_size c + 2 * zlen r <= 2 * zlen bs.
Proof.
  intros H. pose proof (parse_coder_size _ _ _ H). apply parse_coder_consumes in H.
  unfold zlen in *. lia.
Qed.

Lemma parse_folder_size lim bs f r :
  parse_folder lim bs = Ok (f, r) -> folder_size f + 2 * zlen r <= 2 * zlen bs.
Proof.
  intros H. unfold parse_folder in H.
  bind_ok H. destruct x as [nc r1]. apply rd_number_consumes in E.
  bind_ok H. destruct x as [coders r2].
  pose proof (rd_rep_size parse_coder coder_size 2 parse_coder_size2 _ _ _ _ _ E0) as Hc.
  bind_ok H. destruct x as [bonds r3].
  apply (rd_many_count_le rd_bond _ r2 bonds r3 rd_bond_consumes) in E1.
  destruct E1 as (_ & Hbl & Hb).
  set (totalin := sumZ (map c_nin coders)) in *.
  set (nbonds := sumZ (map c_nout coders) - 1) in *.
  destruct (totalin - nbonds =? 1) eqn:Enp.
  - destruct (lim <? totalin); [discriminate|]. injection H as <- <-.
    unfold folder_size. cbn [f_coders f_bonds f_packed f_unpacksizes].
    assert (Hp : zlen (filter (fun i => negb (find_in_bond bonds i)) (py_range 0 totalin)) <= zlen bonds + 1).
    { pose proof (filter_length_le' (fun i => negb (find_in_bond bonds i)) (py_range 0 totalin)) as Hf.
      unfold py_range in *. rewrite range_from_length in Hf. unfold zlen in *. lia. }
    unfold zlen in *. cbn [length]. lia.
  - bind_ok H. destruct x as [packed r4].
    apply (rd_many_count_le rd_number _ r3 packed r4 rd_number_consumes) in E1.
    destruct E1 as (_ & _ & Hp). injection H as <- <-.
    unfold folder_size. cbn [f_coders f_bonds f_packed f_unpacksizes].
    unfold zlen in *. cbn [length]. lia.
Qed.

Lemma rd_unpacksizes_size : forall fs bs fs' r,
  rd_unpacksizes fs bs = Ok (fs', r) ->
  sumZ (map folder_size fs') + zlen r <= sumZ (map folder_size fs) + zlen bs /\ zlen fs' = zlen fs /\
  zlen r <= zlen bs.
Proof.
  induction fs as [|f fs IH]; intros bs fs' r H; cbn [rd_unpacksizes] in H.
  - injection H as <- <-. split; [lia|]. split; [reflexivity|lia].
  - bind_ok H. destruct x as [sz r1].
    apply (rd_many_count_le rd_number _ bs sz r1 rd_number_consumes) in E. destruct E as (_ & _ & Hs).
    bind_ok H. destruct x as [fs1 r2]. apply IH in E. destruct E as (E1 & E2 & E3).
    injection H as <- <-. cbn [map]. rewrite !sumZ_cons.
    unfold folder_size at 1 3. cbn [f_coders f_bonds f_packed f_unpacksizes].
    pose proof (zlen_nonneg (f_unpacksizes f)). pose proof (zlen_nonneg sz).
    split; [lia|]. unfold zlen in *. cbn [length]. lia.
Qed.

Lemma set_folder_crcs_size : forall fs defined crcs fs',
  set_folder_crcs fs defined crcs = Ok fs' -> map folder_size fs' = map folder_size fs.
Proof.
  induction fs as [|f fs IH]; intros defined crcs fs' H; cbn [set_folder_crcs] in H.
  - injection H as <-. reflexivity.
  - destruct defined as [|d ds]; [discriminate|]. destruct d.
    + destruct crcs as [|c cs]; [discriminate|]. bind_ok H. injection H as <-.
      cbn [map]. rewrite (IH _ _ _ E). reflexivity.
    + bind_ok H. injection H as <-. cbn [map]. rewrite (IH _ _ _ E). reflexivity.
Qed.

Lemma rd_crcs_nonincreasing count : nonincreasing (rd_crcs count).
Proof.
  intros bs l r H. unfold rd_crcs in H. destruct (count <=? 0).
  - injection H as _ <-. apply dropZ_length.
  - destruct (zlen bs <? 4 * count); [discriminate|].
    apply (rd_many_count_le (rd_fixed 4) count bs l r (rd_fixed_consumes 4 ltac:(lia))) in H.
    destruct H as (_ & _ & H). pose proof (zlen_nonneg l). unfold zlen in *. lia.
Qed.

Lemma rd_boolean_nonincreasing lim count checkall : nonincreasing (rd_boolean lim count checkall).
Proof. intros bs l r H. apply rd_boolean_bound in H. apply H. Qed.

Lemma parse_unpackinfo_size lim bs fs r :
  parse_unpackinfo lim bs = Ok (fs, r) ->
  sumZ (map folder_size fs) + 3 * zlen r <= 3 * zlen bs /\ zlen fs + zlen r <= zlen bs.
Proof.
  intros H. unfold parse_unpackinfo in H.
  bind_ok H. destruct x as [pid r1]. apply rd_pid_nonincreasing in E.
  destruct pid as [pv|]; [|discriminate].
  destruct (pv =? 11) eqn:E11.
  2:{ exfalso. destruct pv as [|q|q]; try discriminate H.
      do 4 (destruct q as [q|q|]; try discriminate H). discriminate E11. }
  apply Z.eqb_eq in E11. subst pv.
  bind_ok H. destruct x as [nf r2]. apply rd_number_consumes in E0.
  bind_ok H. destruct x as [ext r3]. apply rd_byte_consumes in E1.
  destruct (negb (ext =? 0)); [discriminate|].
  bind_ok H. destruct x as [fs0 r4].
  pose proof (rd_rep_size (parse_folder lim) folder_size 2 (parse_folder_size lim) _ _ _ _ _ E2) as Hf.
  apply (rd_many_count_le (parse_folder lim) nf r3 fs0 r4 (parse_folder_consumes lim)) in E2.
  destruct E2 as (_ & _ & Hn).
  bind_ok H. destruct x as [pid2 r5]. apply rd_pid_nonincreasing in E2.
  destruct pid2 as [pv|]; [|discriminate].
  destruct (pv =? 12) eqn:E12.
  2:{ exfalso. destruct pv as [|q|q]; try discriminate H.
      do 4 (destruct q as [q|q|]; try discriminate H). discriminate E12. }
  apply Z.eqb_eq in E12. subst pv.
  bind_ok H. destruct x as [fs1 r6]. apply rd_unpacksizes_size in E3. destruct E3 as (Hu & Hl & Hr6).
  bind_ok H. destruct x as [pid3 r7]. apply rd_pid_nonincreasing in E3.
  bind_ok H. destruct x as [[fs2 pid4] r8].
  assert (Hc : map folder_size fs2 = map folder_size fs1 /\ (length r8 <= length r7)%nat /\ zlen fs2 = zlen fs1).
  { destruct pid3 as [pv|]; [|injection E4 as <- _ <-; repeat split; lia].
    destruct (pv =? 10) eqn:E10.
    - apply Z.eqb_eq in E10. subst pv.
      bind_ok E4. destruct x as [df r9]. apply rd_boolean_nonincreasing in E5.
      bind_ok E4. destruct x as [cr r10]. apply rd_crcs_nonincreasing in E6.
      bind_ok E4. bind_ok E4. destruct x0 as [pid5 r11]. apply rd_pid_nonincreasing in E8.
      injection E4 as <- _ <-. pose proof (set_folder_crcs_size _ _ _ _ E7) as Hm.
      split; [exact Hm|]. split; [lia|].
      assert (Hlen := f_equal (@length Z) Hm). rewrite !map_length in Hlen. unfold zlen. lia.
    - assert (E4' : Ok (fs1, Some pv, r7) = Ok (fs2, pid4, r8)).
      { destruct pv as [|q|q]; try exact E4.
        do 4 (destruct q as [q|q|]; try exact E4). discriminate E10. }
      injection E4' as <- _ <-. repeat split; lia. }
  destruct Hc as (Hm & Hr8 & Hl2).
  destruct pid4 as [pv|]; [|discriminate]. destruct pv; try discriminate.
  injection H as <- <-. rewrite Hm.
  pose proof (zlen_nonneg fs0). unfold zlen in *. lia.
Qed.

Lemma parse_packinfo_size lim bs p r :
  parse_packinfo lim bs = Ok (p, r) -> pack_size p + 4 * zlen r <= 4 * zlen bs + 1.
Proof.
  intros H. unfold parse_packinfo in H.
  bind_ok H. destruct x as [pos r1]. apply rd_number_consumes in E.
  bind_ok H. destruct x as [n r2]. apply rd_number_consumes in E0.
  bind_ok H. destruct x as [pid r3]. apply rd_pid_nonincreasing in E1.
  destruct (lim <? n) eqn:El; [discriminate|].
  bind_ok H. destruct x as [[[[sizes defined] crcs] pid'] r4].
  assert (Hs : 2 * zlen sizes + zlen defined + zlen crcs + 4 * zlen r4 <= 4 * zlen r3).
  { destruct pid as [pv|]; [|injection E2 as <- <- <- _ <-; unfold zlen; cbn [length]; lia].
    destruct (pv =? 9) eqn:E9.
    - apply Z.eqb_eq in E9. subst pv.
      bind_ok E2. destruct x as [sz r5].
      apply (rd_many_count_le rd_number n r3 sz r5 rd_number_consumes) in E3.
      destruct E3 as (_ & Hszl & Hlen).
      bind_ok E2. destruct x as [pid2 r6]. apply rd_pid_nonincreasing in E3.
      destruct pid2 as [pv2|]; [|injection E2 as <- <- <- _ <-; unfold zlen in *; cbn [length]; lia].
      destruct (pv2 =? 10) eqn:E10.
      + apply Z.eqb_eq in E10. subst pv2.
        bind_ok E2. destruct x as [df r7]. apply rd_boolean_bound in E4. destruct E4 as (Hdf & Hr7 & _).
        bind_ok E2. destruct x as [cr r8]. unfold rd_defined_crcs in E4.
        apply (rd_many_count_le (rd_fixed 4) _ r7 cr r8 (rd_fixed_consumes 4 ltac:(lia))) in E4.
        destruct E4 as (_ & _ & Hlen8).
        bind_ok E2. apply expand_crcs_length in E4.
        bind_ok E2. destruct x0 as [pid3 r9]. apply rd_pid_nonincreasing in E5.
        injection E2 as <- <- <- _ <-. unfold zlen in *. lia.
      + assert (E2' : Ok (sz, [], [], Some pv2, r6) = Ok (sizes, defined, crcs, pid', r4)).
        { destruct pv2 as [|q|q]; try exact E2.
          do 4 (destruct q as [q|q|]; try exact E2). discriminate E10. }
        injection E2' as <- <- <- _ <-. unfold zlen in *. cbn [length]. lia.
    - assert (E2' : Ok ([], [], [], Some pv, r3) = Ok (sizes, defined, crcs, pid', r4)).
      { destruct pv as [|q|q]; try exact E2.
        do 4 (destruct q as [q|q|]; try exact E2). discriminate E9. }
      injection E2' as <- <- <- _ <-. unfold zlen. cbn [length]. lia. }
  destruct pid' as [pv|]; [|discriminate].
  destruct pv; try discriminate. injection H as <- <-.
  unfold pack_size. cbn [p_numstreams p_sizes p_digestdefined p_crcs].
  unfold zlen in *. lia.
Qed.

(* packpositions: one cell per pack size that was read, plus one; numstreams plays no part *)
Theorem parse_packinfo_packpositions_linear lim bs p r :
  parse_packinfo lim bs = Ok (p, r) -> 2 * zlen (packpositions (p_sizes p)) <= 4 * zlen bs + 2.
Proof.
  intros H. apply parse_packinfo_size in H. destruct (packpositions_linear (p_sizes p)) as [Hl _].
  unfold pack_size in H. pose proof (zlen_nonneg (p_digestdefined p)). pose proof (zlen_nonneg (p_crcs p)).
  pose proof (zlen_nonneg r). lia.
Qed.

(* Folder._read: the set of bound inputs is built from the bonds that were read, and the pass over
   range(totalin) is taken only when totalin = number of bonds + 1 *)
Theorem parse_folder_bindpairs_linear lim bs f r :
  parse_folder lim bs = Ok (f, r) ->
  let totalin := sumZ (map c_nin (f_coders f)) in
  let nbonds := sumZ (map c_nout (f_coders f)) - 1 in
  totalin - nbonds = 1 ->
  packed_indices_steps (f_bonds f) totalin <= 2 * zlen bs + 1.
Proof.
  intros H. unfold parse_folder in H.
  bind_ok H. destruct x as [nc r1]. apply rd_number_consumes in E.
  bind_ok H. destruct x as [coders r2].
  apply (rd_many_count_le parse_coder nc r1 coders r2 parse_coder_consumes) in E0. destruct E0 as (_ & _ & Hc).
  bind_ok H. destruct x as [bonds r3].
  apply (rd_many_count_le rd_bond _ r2 bonds r3 rd_bond_consumes) in E0. destruct E0 as (_ & Hbl & Hb).
  assert (Hf : f_coders f = coders /\ f_bonds f = bonds).
  { destruct (_ - _ =? 1).
    - destruct (lim <? _); [discriminate|]. injection H as <- _. split; reflexivity.
    - bind_ok H. destruct x as [packed r4]. injection H as <- _. split; reflexivity. }
  destruct Hf as [-> ->]. cbv zeta. intros Hone. unfold packed_indices_steps.
  pose proof (zlen_nonneg coders). pose proof (zlen_nonneg r2). pose proof (zlen_nonneg r3).
  unfold zlen in *. lia.
Qed.


(* SubstreamsInfo *)
Lemma rd_sub_sizes_size : forall nums fs bs l r,
  rd_sub_sizes nums fs bs = Ok (l, r) -> zlen l + zlen r <= zlen nums + zlen bs /\ zlen r <= zlen bs.
Proof.
  induction nums as [|n nr IH]; intros fs bs l r H; cbn [rd_sub_sizes] in H.
  - injection H as <- <-. unfold zlen. cbn [length]. lia.
  - bind_ok H. destruct x as [ex r1].
    apply (rd_many_count_le rd_number _ bs ex r1 rd_number_consumes) in E. destruct E as (_ & _ & He).
    pose proof (zlen_nonneg ex) as Hex.
    destruct fs as [|f fr].
    + destruct (0 <? n); [discriminate|]. apply IH in H. unfold zlen in *. cbn [length]. lia.
    + destruct (0 <? n).
      * bind_ok H. bind_ok H. destruct x0 as [rest r2]. apply IH in E0.
        injection H as <- <-. unfold zlen in *. rewrite !app_length. cbn [length]. lia.
      * apply IH in H. unfold zlen in *. cbn [length]. lia.
Qed.

Lemma sub_assign_digests_size lim : forall nums fs defined crcs d g,
  sub_assign_digests lim nums fs defined crcs = Ok (d, g) ->
  zlen d <= zlen nums + zlen defined /\ zlen g <= zlen nums + zlen crcs.
Proof.
  induction nums as [|n nr IH]; intros fs defined crcs d g H; cbn [sub_assign_digests] in H.
  - injection H as <- <-. unfold zlen. cbn [length]. lia.
  - destruct fs as [|f fr]; [discriminate|].
    destruct (if (n =? 1) && f_digestdefined f then f_crc f else None) as [c|].
    + bind_ok H. destruct x as [d' g']. apply IH in E. injection H as <- <-.
      unfold zlen in *. cbn [length]. lia.
    + destruct (lim <? n); [discriminate|].
      destruct ((length defined <? Z.to_nat (Z.max n 0))%nat || (length crcs <? Z.to_nat (Z.max n 0))%nat) eqn:Ek;
        [discriminate|].
      bind_ok H. destruct x as [d' g']. apply IH in E. injection H as <- <-.
      unfold zlen in *. rewrite !app_length, !firstn_length. rewrite !skipn_length in E. cbn [length]. lia.
Qed.

Lemma sub_digest_counts_total : forall nums fs a b,
  sub_digest_counts nums fs = Ok (a, b) -> b = sumZ nums.
Proof.
  induction nums as [|n nr IH]; intros fs a b H; cbn [sub_digest_counts] in H.
  - injection H as _ <-. reflexivity.
  - destruct fs as [|f fr]; [discriminate|]. bind_ok H. destruct x as [a' b']. injection H as _ <-.
    rewrite sumZ_cons, (IH _ _ _ E). reflexivity.
Qed.

Lemma default_digests_length : forall nums fs,
  Forall (fun v => 0 <= v) nums ->
  zlen (fst (default_digests nums fs)) <= sumZ nums /\ zlen (snd (default_digests nums fs)) <= sumZ nums.
Proof.
  induction nums as [|n nr IH]; intros fs Hnn.
  - cbn [default_digests fst snd]. rewrite sumZ_nil. unfold zlen. cbn [length]. lia.
  - destruct fs as [|f fr].
    + cbn [default_digests fst snd]. rewrite sumZ_cons. inversion Hnn as [|? ? Hn Hr]; subst.
      assert (0 <= sumZ nr).
      { clear - Hr. induction Hr as [|x l Hx Hl IHl]; [rewrite sumZ_nil; lia|rewrite sumZ_cons; lia]. }
      unfold zlen. cbn [length]. lia.
    + inversion Hnn as [|? ? Hn Hr]; subst. specialize (IH fr Hr).
      cbn [default_digests]. destruct (default_digests nr fr) as [d g]. cbn [fst snd] in IH.
      rewrite sumZ_cons.
      destruct ((n =? 1) && f_digestdefined f) eqn:E1.
      * destruct (f_crc f) as [c|].
        -- cbn [fst snd]. unfold zlen in *. cbn [length]. lia.
        -- cbn [fst snd]. unfold zlen in *. rewrite !app_length, !repeat_length. lia.
      * cbn [fst snd]. unfold zlen in *. rewrite !app_length, !repeat_length. lia.
Qed.

Lemma parse_substreams_size lim fs bs s r :
  wf_bytes bs = true -> parse_substreams lim fs bs = Ok (s, r) ->
  sub_size s + 17 * zlen r <= 17 * zlen bs + 4 * zlen fs + 2 * Z.max lim 0 /\ zlen r <= zlen bs.
Proof.
  intros W H. unfold parse_substreams in H.
  bind_ok H. destruct x as [pid r1]. pose proof (rd_pid_wfp _ _ _ E W) as W1. apply rd_pid_nonincreasing in E.
  bind_ok H. destruct x as [[nums pid2] r2].
  assert (Hn : (zlen nums = zlen fs /\ zlen nums + zlen r2 <= zlen fs + zlen r1 /\ (length r2 <= length r1)%nat)
               /\ Forall (fun v => 0 <= v) nums).
  { assert (Hdef : Ok (repeat 1 (length fs), pid, r1) = Ok (nums, pid2, r2) ->
                   (zlen nums = zlen fs /\ zlen nums + zlen r2 <= zlen fs + zlen r1 /\ (length r2 <= length r1)%nat)
                   /\ Forall (fun v => 0 <= v) nums).
    { intros E'. injection E' as <- _ <-. split; [unfold zlen; rewrite repeat_length; lia|].
      apply Forall_forall. intros v Hv. apply repeat_spec in Hv. lia. }
    destruct pid as [pv|]; [|exact (Hdef E0)].
    destruct (pv =? 13) eqn:E13.
    - apply Z.eqb_eq in E13. subst pv.
      bind_ok E0. destruct x as [nm r3].
      pose proof (rd_rep_number_nonneg _ _ _ _ _ E1 W1) as Hnn.
      apply (rd_many_count_le rd_number _ r1 nm r3 rd_number_consumes) in E1. destruct E1 as (_ & Hl & Hc).
      bind_ok E0. destruct x as [pid3 r4]. apply rd_pid_nonincreasing in E1.
      injection E0 as <- _ <-. split; [|exact Hnn]. pose proof (zlen_nonneg fs). unfold zlen in *. lia.
    - apply Hdef. destruct pv as [|q|q]; try exact E0.
      do 4 (destruct q as [q|q|]; try exact E0). discriminate E13. }
  destruct Hn as ((Hn1 & Hn2 & Hn3) & Hnn).
  destruct (existsb (fun n => lim <? n) nums); [discriminate|].
  bind_ok H. destruct x as [[sizes pid3] r3].
  assert (Hs : match sizes with Some l => zlen l | None => 0 end + zlen r3 <= zlen nums + zlen r2 /\ zlen r3 <= zlen r2).
  { assert (Hdef : Ok (@None (list Z), pid2, r2) = Ok (sizes, pid3, r3) ->
                   match sizes with Some l => zlen l | None => 0 end + zlen r3 <= zlen nums + zlen r2 /\ zlen r3 <= zlen r2).
    { intros E'. injection E' as <- _ <-. pose proof (zlen_nonneg nums). lia. }
    destruct pid2 as [pv|]; [|exact (Hdef E1)].
    destruct (pv =? 9) eqn:E9.
    - apply Z.eqb_eq in E9. subst pv.
      bind_ok E1. destruct x as [sz r4]. apply rd_sub_sizes_size in E2.
      bind_ok E1. destruct x as [pid4 r5]. apply rd_pid_nonincreasing in E3.
      injection E1 as <- _ <-. unfold zlen in *. lia.
    - apply Hdef. destruct pv as [|q|q]; try exact E1.
      do 4 (destruct q as [q|q|]; try exact E1). discriminate E9. }
  destruct Hs as [Hs Hr3].
  bind_ok H. destruct x as [ndig ntotal].
  bind_ok H. destruct x as [[[dd dg] pid4] r4].
  assert (Hd : zlen dd + zlen dg + 16 * zlen r4 <= 2 * zlen nums + 2 * Z.max lim 0 + 16 * zlen r3 /\ zlen r4 <= zlen r3).
  { assert (Hdef : Ok (@nil bool, @nil Z, pid3, r3) = Ok (dd, dg, pid4, r4) ->
                   zlen dd + zlen dg + 16 * zlen r4 <= 2 * zlen nums + 2 * Z.max lim 0 + 16 * zlen r3 /\ zlen r4 <= zlen r3).
    { intros E'. injection E' as <- <- _ <-. pose proof (zlen_nonneg nums). unfold zlen. cbn [length]. lia. }
    destruct pid3 as [pv|]; [|exact (Hdef E3)].
    destruct (pv =? 10) eqn:E10.
    - apply Z.eqb_eq in E10. subst pv.
      bind_ok E3. destruct x as [df r5]. apply rd_boolean_bound in E4. destruct E4 as (Hdf & Hr5 & Hnd).
      bind_ok E3. destruct x as [vals r6]. apply rd_crcs_nonincreasing in E4.
      bind_ok E3. apply expand_crcs_length in E5.
      bind_ok E3. destruct x0 as [dd' dg']. apply sub_assign_digests_size in E6. destruct E6 as [Hdd Hdg].
      bind_ok E3. destruct x0 as [pid5 r7]. apply rd_pid_nonincreasing in E6.
      injection E3 as <- <- _ <-.
      assert (zlen x = zlen df) by (unfold zlen; lia).
      pose proof (zlen_nonneg r5). pose proof (zlen_nonneg r7). unfold zlen in *. lia.
    - apply Hdef. destruct pv as [|q|q]; try exact E3.
      do 4 (destruct q as [q|q|]; try exact E3). discriminate E10. }
  destruct Hd as [Hd Hr4].
  destruct pid4 as [pv|]; [|discriminate]. destruct pv; try discriminate.
  destruct (length dd =? 0)%nat eqn:Edd.
  - destruct (lim <? ntotal) eqn:El; [discriminate|].
    pose proof (sub_digest_counts_total _ _ _ _ E2) as Hnt.
    pose proof (default_digests_length nums fs Hnn) as [Hd1 Hd2].
    destruct (default_digests nums fs) as [dd' dg']. cbn [fst snd] in Hd1, Hd2. injection H as <- <-.
    unfold sub_size. cbn [s_nums s_sizes s_digestsdefined s_digests].
    pose proof (zlen_nonneg dg). pose proof (zlen_nonneg dd).
    destruct sizes as [sl|]; unfold zlen in *; lia.
  - injection H as <- <-. unfold sub_size. cbn [s_nums s_sizes s_digestsdefined s_digests].
    destruct sizes as [sl|]; unfold zlen in *; lia.
Qed.

Lemma parse_streams_size lim bs s r :
  wf_bytes bs = true -> parse_streams lim bs = Ok (s, r) ->
  streams_size s + 17 * zlen r <= 17 * zlen bs + 2 * Z.max lim 0 + 1.
Proof.
  intros W H. unfold parse_streams in H.
  bind_ok H. destruct x as [pid r1]. pose proof (rd_pid_wfp _ _ _ E W) as W1. apply rd_pid_nonincreasing in E.
  bind_ok H. destruct x as [[pack pid2] r2].
  assert (Hp : match pack with Some p => pack_size p | None => 0 end + 4 * zlen r2
               <= 4 * zlen r1 + 1 /\ zlen r2 <= zlen r1 /\ wf_bytes r2 = true).
  { assert (Hdef : Ok (@None packinfo, pid, r1) = Ok (pack, pid2, r2) ->
                   match pack with Some p => pack_size p | None => 0 end + 4 * zlen r2 <= 4 * zlen r1 + 1
                   /\ zlen r2 <= zlen r1 /\ wf_bytes r2 = true).
    { intros E'. injection E' as <- _ <-. split; [lia|]. split; [lia|exact W1]. }
    destruct pid as [pv|]; [|exact (Hdef E0)].
    destruct (pv =? 6) eqn:E6.
    - apply Z.eqb_eq in E6. subst pv.
      bind_ok E0. destruct x as [p r3]. pose proof (parse_packinfo_bound _ _ _ _ E1) as (_ & Hlt & _).
      pose proof (parse_packinfo_wfp _ _ _ _ E1 W1) as W3.
      apply parse_packinfo_size in E1.
      bind_ok E0. destruct x as [pid3 r4]. pose proof (rd_pid_wfp _ _ _ E2 W3) as W4. apply rd_pid_nonincreasing in E2.
      injection E0 as <- _ <-. split; [|split; [|exact W4]]; unfold zlen in *; lia.
    - apply Hdef. destruct pv as [|q|q]; try exact E0.
      do 3 (destruct q as [q|q|]; try exact E0). discriminate E6. }
  bind_ok H. destruct x as [[fo pid3] r3].
  destruct Hp as (Hp & Hr2 & W2).
  assert (Hf : match fo with Some f => sumZ (map folder_size f) + 4 * zlen f | None => 0 end + 7 * zlen r3 <= 7 * zlen r2
               /\ zlen r3 <= zlen r2 /\ wf_bytes r3 = true).
  { assert (Hdef : Ok (@None (list folder), pid2, r2) = Ok (fo, pid3, r3) ->
                   match fo with Some f => sumZ (map folder_size f) + 4 * zlen f | None => 0 end + 7 * zlen r3 <= 7 * zlen r2
                   /\ zlen r3 <= zlen r2 /\ wf_bytes r3 = true).
    { intros E'. injection E' as <- _ <-. split; [lia|]. split; [lia|exact W2]. }
    destruct pid2 as [pv|]; [|exact (Hdef E1)].
    destruct (pv =? 7) eqn:E7.
    - apply Z.eqb_eq in E7. subst pv.
      bind_ok E1. destruct x as [f r4]. pose proof (parse_unpackinfo_wfp _ _ _ _ E2 W2) as W4.
      apply parse_unpackinfo_size in E2. destruct E2 as [Ha Hb].
      bind_ok E1. destruct x as [pid4 r5]. pose proof (rd_pid_wfp _ _ _ E2 W4) as W5. apply rd_pid_nonincreasing in E2.
      injection E1 as <- _ <-. pose proof (zlen_nonneg f). split; [|split; [|exact W5]]; unfold zlen in *; lia.
    - apply Hdef. destruct pv as [|q|q]; try exact E1.
      do 3 (destruct q as [q|q|]; try exact E1). discriminate E7. }
  destruct Hf as (Hf & Hr3 & W3).
  bind_ok H. destruct x as [[sub pid4] r4].
  assert (Hs : match sub with Some x => sub_size x | None => 0 end + 17 * zlen r4
               <= 17 * zlen r3 + 4 * match fo with Some f => zlen f | None => 0 end + 2 * Z.max lim 0 /\ zlen r4 <= zlen r3).
  { assert (Hdef : Ok (@None substreams, pid3, r3) = Ok (sub, pid4, r4) ->
                   match sub with Some x => sub_size x | None => 0 end + 17 * zlen r4
                   <= 17 * zlen r3 + 4 * match fo with Some f => zlen f | None => 0 end + 2 * Z.max lim 0 /\ zlen r4 <= zlen r3).
    { intros E'. injection E' as <- _ <-. destruct fo as [f|]; [pose proof (zlen_nonneg f)|]; lia. }
    destruct pid3 as [pv|]; [|exact (Hdef E2)].
    destruct (pv =? 8) eqn:E8.
    - apply Z.eqb_eq in E8. subst pv.
      destruct fo as [f|]; [|discriminate].
      bind_ok E2. destruct x as [sx r5]. apply (parse_substreams_size _ _ _ _ _ W3) in E3. destruct E3 as [E3 E3r].
      bind_ok E2. destruct x as [pid5 r6]. apply rd_pid_nonincreasing in E4.
      injection E2 as <- _ <-. unfold zlen in *. lia.
    - apply Hdef. destruct pv as [|q|q]; try exact E2.
      do 4 (destruct q as [q|q|]; try exact E2). discriminate E8. }
  destruct Hs as [Hs Hr4].
  destruct pid4 as [pv|]; [|discriminate]. destruct pv; try discriminate.
  injection H as <- <-. unfold streams_size. cbn [si_pack si_folders si_sub].
  destruct pack as [pk|], fo as [f|], sub as [sx|]; unfold zlen in *; lia.
Qed.

(* FilesInfo *)
Definition names_total (fs : list fileent) : Z :=
  sumZ (map (fun e => match e_name e with Some n => zlen n | None => 0 end) fs).

Lemma file_size_sum fs : sumZ (map file_size fs) = zlen fs + names_total fs.
Proof.
  induction fs as [|f fs IH]; [reflexivity|].
  unfold names_total in *. cbn [map]. rewrite !sumZ_cons, IH. unfold file_size, zlen. cbn [length]. lia.
Qed.

Lemma list_pair_ind {A} (P : list A -> Prop) :
  P [] -> (forall a, P [a]) -> (forall a b l, P l -> P (a :: b :: l)) -> forall l, P l.
Proof.
  intros H0 H1 H2 l. assert (G : P l /\ forall a, P (a :: l)); [|exact (proj1 G)].
  induction l as [|x l [IHa IHb]]; [split; [exact H0|exact H1]|].
  split; [apply IHb|]. intros a. apply H2. exact IHa.
Qed.

Lemma utf16_units_length raw us : utf16_units raw = Ok us -> 2 * zlen us = zlen raw.
Proof.
  revert us. induction raw as [|a|a b raw IH] using list_pair_ind; intros us H; cbn [utf16_units] in H.
  - injection H as <-. reflexivity.
  - discriminate.
  - bind_ok H. injection H as <-. specialize (IH x eq_refl). unfold zlen in *. cbn [length]. lia.
Qed.

Lemma utf16_decode_length : forall n us cs,
  (length us <= n)%nat -> utf16_decode us = Ok cs -> zlen cs <= zlen us.
Proof.
  induction n as [|n IH]; intros us cs Hn H.
  - destruct us; [|cbn in Hn; lia]. injection H as <-. lia.
  - destruct us as [|u us]; [injection H as <-; lia|]. cbn [utf16_decode] in H.
    destruct ((55296 <=? u) && (u <? 56320)).
    + destruct us as [|v us]; [discriminate|].
      destruct ((56320 <=? v) && (v <? 57344)); [|discriminate].
      bind_ok H. injection H as <-. apply IH in E; [|cbn [length] in Hn; lia].
      unfold zlen in *. cbn [length]. lia.
    + destruct ((56320 <=? u) && (u <? 57344)); [discriminate|].
      bind_ok H. injection H as <-. apply IH in E; [|cbn [length] in Hn; lia].
      unfold zlen in *. cbn [length]. lia.
Qed.

Lemma rd_utf16_raw_S f iters acc bs :
  rd_utf16_raw (S f) iters acc bs =
  if 65536 <=? iters then Ok (acc, bs) else
    match bs with
    | [] => Ok (acc, [])
    | [a] => Ok (acc ++ [a], [])
    | a :: b :: r => if (a =? 0) && (b =? 0) then Ok (acc, r) else rd_utf16_raw f (iters + 1) (acc ++ [a; b]) r
    end.
Proof.
  cbn [rd_utf16_raw]. destruct (65536 <=? iters); [reflexivity|].
  destruct bs as [|a [|b r]]; [reflexivity|destruct a; reflexivity|].
  destruct a as [|pa|pa]; destruct b as [|pb|pb]; reflexivity.
Qed.

Lemma rd_utf16_raw_length : forall fuel iters acc bs raw r,
  rd_utf16_raw fuel iters acc bs = Ok (raw, r) -> zlen raw + zlen r <= zlen acc + zlen bs.
Proof.
  induction fuel as [|f IH]; intros iters acc bs raw r H.
  - cbn [rd_utf16_raw] in H. injection H as <- <-. lia.
  - rewrite rd_utf16_raw_S in H.
    destruct (65536 <=? iters); [injection H as <- <-; lia|].
    destruct bs as [|a [|b bs]].
    + injection H as <- <-. lia.
    + injection H as <- <-. unfold zlen. rewrite app_length. cbn [length]. lia.
    + destruct ((a =? 0) && (b =? 0)).
      * injection H as <- <-. unfold zlen. cbn [length]. lia.
      * apply IH in H. unfold zlen in *. rewrite app_length in H. cbn [length] in *. lia.
Qed.

Lemma rd_utf16_length bs cs r : rd_utf16 bs = Ok (cs, r) -> zlen cs + zlen r <= zlen bs.
Proof.
  intros H. unfold rd_utf16 in H.
  bind_ok H. destruct x as [raw r1]. apply rd_utf16_raw_length in E.
  bind_ok H. apply utf16_units_length in E0.
  bind_ok H. apply (utf16_decode_length (length x) x _ (le_n _)) in E1.
  injection H as <- <-. unfold zlen in *. rewrite map_length. cbn [length] in E. lia.
Qed.

Lemma rd_names_size : forall fs bs fs' r,
  rd_names fs bs = Ok (fs', r) -> zlen fs' = zlen fs /\ names_total fs' + zlen r <= zlen bs.
Proof.
  induction fs as [|f fs IH]; intros bs fs' r H; cbn [rd_names] in H.
  - injection H as <- <-. split; [reflexivity|]. unfold names_total. cbn [map]. rewrite sumZ_nil. lia.
  - bind_ok H. destruct x as [nm r1]. apply rd_utf16_length in E.
    bind_ok H. destruct x as [fs1 r2]. apply IH in E0. destruct E0 as [E1 E2].
    injection H as <- <-. unfold names_total in *. cbn [map]. rewrite sumZ_cons. cbn [set_name e_name].
    unfold zlen in *. cbn [length]. lia.
Qed.

Lemma zip_update_set_empty_size : forall files l,
  zlen (zip_update set_empty files l) = zlen files /\
  names_total (zip_update set_empty files l) = names_total files.
Proof.
  induction files as [|f files IH]; intros l; [split; reflexivity|].
  destruct l as [|b l]; [split; reflexivity|]. cbn [zip_update].
  destruct (IH l) as [I1 I2]. unfold names_total in *. cbn [map]. rewrite !sumZ_cons, I2.
  cbn [set_empty e_name]. unfold zlen in *. cbn [length]. lia.
Qed.

Lemma rd_per_file_size n (set : fileent -> option Z -> fileent) :
  (forall e v, e_name (set e v) = e_name e) ->
  forall fs defined bs fs' r,
    rd_per_file n fs defined set bs = Ok (fs', r) ->
    zlen fs' = zlen fs /\ names_total fs' = names_total fs.
Proof.
  intros Hset. induction fs as [|f fs IH]; intros defined bs fs' r H; cbn [rd_per_file] in H.
  - injection H as <- <-. split; reflexivity.
  - destruct defined as [|d ds]; [discriminate|]. destruct d.
    + bind_ok H. destruct x as [v r1]. bind_ok H. destruct x as [fs1 r2].
      apply IH in E0. destruct E0 as [I1 I2]. injection H as <- <-.
      unfold names_total in *. cbn [map]. rewrite !sumZ_cons, I2, Hset. unfold zlen in *. cbn [length]. lia.
    + bind_ok H. destruct x as [fs1 r2].
      apply IH in E. destruct E as [I1 I2]. injection H as <- <-.
      unfold names_total in *. cbn [map]. rewrite !sumZ_cons, I2, Hset. unfold zlen in *. cbn [length]. lia.
Qed.

Lemma set_time_name which e v : e_name (set_time which e v) = e_name e.
Proof. unfold set_time. destruct (which =? 18); [reflexivity|]. destruct (which =? 19); reflexivity. Qed.

Lemma set_attr_name e v : e_name (set_attr e v) = e_name e.
Proof. reflexivity. Qed.

Lemma takeZ_length_le {A} n (l : list A) : zlen (takeZ n l) <= zlen l.
Proof. pose proof (takeZ_dropZ_length n l). unfold zlen. lia. Qed.

Lemma dropZ_zlen_le {A} n (l : list A) : zlen (dropZ n l) <= zlen l.
Proof. pose proof (dropZ_length n l). unfold zlen. lia. Qed.

Lemma parse_file_prop_size lim p buf files ef ne fs' ef' ne' :
  parse_file_prop lim p buf files ef ne = Ok (fs', ef', ne') ->
  zlen fs' = zlen files /\ names_total fs' <= Z.max (names_total files) (zlen buf) /\
  zlen ef' <= Z.max (zlen ef) (8 * zlen buf).
Proof.
  intros H. unfold parse_file_prop in H.
  destruct (p =? 14).
  { bind_ok H. destruct x as [ise r]. injection H as <- <- _.
    destruct (zip_update_set_empty_size files ise) as [A B]. rewrite A, B. lia. }
  destruct (p =? 15).
  { bind_ok H. destruct x as [e r]. injection H as <- <- _.
    unfold rd_boolean in E. apply rd_bits_bound in E. destruct E as (E1 & _ & E3).
    pose proof (zlen_nonneg buf). pose proof (zlen_nonneg r). lia. }
  destruct (p =? 17).
  { bind_ok H. destruct x as [ext b1]. apply rd_pid_nonincreasing in E.
    destruct ext as [ev|]; [|discriminate]. destruct ev; try discriminate.
    bind_ok H. destruct x as [fs r]. apply rd_names_size in E0. destruct E0 as [A B].
    injection H as <- <- _. pose proof (zlen_nonneg r). unfold zlen in *. lia. }
  destruct ((p =? 18) || (p =? 19) || (p =? 20)).
  { bind_ok H. destruct x as [df b1]. bind_ok H. destruct x as [ext b2].
    destruct ext as [ev|]; [|discriminate]. destruct ev; try discriminate.
    bind_ok H. destruct x as [fs r].
    apply (rd_per_file_size 8 (set_time p) (set_time_name p)) in E1. destruct E1 as [A B].
    injection H as <- <- _. lia. }
  destruct (p =? 21); [|discriminate].
  bind_ok H. destruct x as [df b1]. bind_ok H. destruct x as [ext b2].
  destruct ext as [ev|]; [|discriminate]. destruct ev; try discriminate.
  bind_ok H. destruct x as [fs r].
  apply (rd_per_file_size 4 set_attr set_attr_name) in E1. destruct E1 as [A B].
  injection H as <- <- _. lia.
Qed.

Lemma parse_file_props_size lim : forall fuel files ef ne bs fs' ef' r,
  parse_file_props fuel lim files ef ne bs = Ok ((fs', ef'), r) ->
  zlen fs' = zlen files /\ names_total fs' <= Z.max (names_total files) (zlen bs) /\
  zlen ef' <= Z.max (zlen ef) (8 * zlen bs) /\ zlen r <= zlen bs.
Proof.
  induction fuel as [|f IH]; intros files ef ne bs fs' ef' r H; cbn [parse_file_props] in H; [discriminate|].
  bind_ok H. destruct x as [prop r1]. apply rd_pid_nonincreasing in E.
  destruct prop as [pv|]; [|discriminate].
  destruct (pv =? 0) eqn:E0.
  { apply Z.eqb_eq in E0. subst pv. injection H as <- <- <-. unfold zlen in *. lia. }
  assert (H' : (do (size, bs0) <- rd_number r1;
                if pv =? 25 then parse_file_props f lim files ef ne (dropZ size bs0)
                else do (fs, ef0, ne0) <- parse_file_prop lim pv (takeZ size bs0) files ef ne;
                     parse_file_props f lim fs ef0 ne0 (dropZ size bs0)) = Ok (fs', ef', r)).
  { destruct pv as [|q|q]; [discriminate E0|exact H|exact H]. }
  clear H. bind_ok H'. destruct x as [size r2]. apply rd_number_consumes in E1.
  pose proof (dropZ_zlen_le size r2) as Hd. pose proof (takeZ_length_le size r2) as Ht.
  destruct (pv =? 25).
  - apply IH in H'. destruct H' as (A & B & C & D). unfold zlen in *. lia.
  - bind_ok H'. destruct x as [[fs1 ef1] ne1]. apply parse_file_prop_size in E2. destruct E2 as (A1 & B1 & C1).
    apply IH in H'. destruct H' as (A & B & C & D). unfold zlen in *. lia.
Qed.

Lemma names_total_repeat_empty k : names_total (repeat empty_file k) = 0.
Proof.
  induction k as [|k IH]; [reflexivity|]. unfold names_total in *. cbn [repeat map]. rewrite sumZ_cons, IH. reflexivity.
Qed.

Lemma parse_files_size lim bs fl ef r :
  parse_files lim bs = Ok ((fl, ef), r) ->
  sumZ (map file_size fl) + zlen ef <= 2 * Z.max lim 0 + zlen bs /\ zlen r <= zlen bs.
Proof.
  intros H. unfold parse_files in H.
  bind_ok H. destruct x as [n r1]. apply rd_number_consumes in E.
  destruct (lim <? n) eqn:El; [discriminate|].
  bind_ok H. destruct x as [[files ef0] r2].
  apply parse_file_props_size in E0. destruct E0 as (A & B & C & D).
  injection H as <- <- <-.
  rewrite file_size_sum. rewrite names_total_repeat_empty in B.
  assert (Hfl : zlen files <= Z.max lim 0) by (rewrite A; unfold zlen; rewrite repeat_length; lia).
  assert (Hef : zlen (firstn (Z.to_nat (count_true (map e_emptystream files)))
                             (ef0 ++ repeat false (Z.to_nat (count_true (map e_emptystream files))))) <= zlen files).
  { pose proof (count_true_le (map e_emptystream files)) as Hc. unfold zlen in *.
    rewrite firstn_length. rewrite map_length in Hc. lia. }
  pose proof (zlen_nonneg r1). unfold zlen in *. lia.
Qed.

Lemma parse_header_body_size lim bs h r :
  wf_bytes bs = true -> parse_header_body lim bs = Ok (h, r) -> header_size h <= 17 * zlen bs + 4 * Z.max lim 0 + 1.
Proof.
  intros W H. unfold parse_header_body in H.
  bind_ok H. destruct x as [pid r1]. pose proof (rd_pid_wfp _ _ _ E W) as W1. apply rd_pid_nonincreasing in E.
  bind_ok H. destruct x as [[st pid2] r2].
  assert (Hs : match st with Some s => streams_size s | None => 0 end + 17 * zlen r2 <= 17 * zlen r1 + 2 * Z.max lim 0 + 1).
  { assert (Hdef : Ok (@None streamsinfo, pid, r1) = Ok (st, pid2, r2) ->
                   match st with Some s => streams_size s | None => 0 end + 17 * zlen r2 <= 17 * zlen r1 + 2 * Z.max lim 0 + 1).
    { intros E'. injection E' as <- _ <-. lia. }
    destruct pid as [pv|]; [|exact (Hdef E0)].
    destruct (pv =? 4) eqn:E4.
    - apply Z.eqb_eq in E4. subst pv.
      bind_ok E0. destruct x as [s r3]. apply (parse_streams_size _ _ _ _ W1) in E1.
      bind_ok E0. destruct x as [pid3 r4]. apply rd_pid_nonincreasing in E2.
      injection E0 as <- _ <-. unfold zlen in *. lia.
    - apply Hdef. destruct pv as [|q|q]; try exact E0.
      do 3 (destruct q as [q|q|]; try exact E0). discriminate E4. }
  bind_ok H. destruct x as [[[fl ef] pid3] r3].
  assert (Hf : match fl with Some fs => sumZ (map file_size fs) | None => 0 end + zlen ef <= 2 * Z.max lim 0 + zlen r2).
  { assert (Hdef : Ok (@None (list fileent), @nil bool, pid2, r2) = Ok (fl, ef, pid3, r3) ->
                   match fl with Some fs => sumZ (map file_size fs) | None => 0 end + zlen ef <= 2 * Z.max lim 0 + zlen r2).
    { intros E'. injection E' as <- <- _ _. pose proof (zlen_nonneg r2). unfold zlen at 1. cbn [length]. lia. }
    destruct pid2 as [pv|]; [|exact (Hdef E1)].
    destruct (pv =? 5) eqn:E5.
    - apply Z.eqb_eq in E5. subst pv.
      bind_ok E1. destruct x as [[fe1 fe2] r4]. apply parse_files_size in E2. destruct E2 as [Ha Hb].
      bind_ok E1. destruct x as [pid4 r5].
      injection E1 as <- <- _ _. cbn [fst snd]. lia.
    - apply Hdef. destruct pv as [|q|q]; try exact E1.
      do 3 (destruct q as [q|q|]; try exact E1). discriminate E5. }
  destruct pid3 as [pv|]; [|discriminate]. destruct pv; try discriminate.
  injection H as <- _. unfold header_size. cbn [h_streams h_files h_emptyfiles].
  pose proof (zlen_nonneg r2). unfold zlen in *. lia.
Qed.

Theorem parse_cost_partial lim bs h :
  wf_bytes bs = true -> parse_header lim bs = Ok h -> header_size h <= 17 * zlen bs + 4 * Z.max lim 0 + 1.
Proof.
  intros W H. unfold parse_header in H.
  destruct bs as [|b r]; [injection H as <-; unfold header_size, zlen; cbn [h_streams h_files h_emptyfiles length]; lia|].
  destruct (b =? 1) eqn:E1.
  - apply Z.eqb_eq in E1. subst b. bind_ok H. destruct x as [h' r']. injection H as <-.
    apply (parse_header_body_size _ _ _ _ (wf_bytes_tail _ _ W)) in E. unfold zlen in *. cbn [length]. lia.
  - exfalso. destruct b as [|q|q]; try discriminate H.
    do 6 (try (destruct q as [q|q|]; try discriminate H; try discriminate E1)).
Qed.

(* every declared count within the limit and the limit within the input: linear *)
Corollary parse_cost_linear lim bs h :
  wf_bytes bs = true -> lim <= zlen bs -> parse_header lim bs = Ok h -> header_size h <= 21 * zlen bs + 1.
Proof.
  intros W Hl H. apply (parse_cost_partial _ _ _ W) in H. pose proof (zlen_nonneg bs). lia.
Qed.

Print Assumptions rd_many_count_le.
Print Assumptions rd_many_overcount_fails.
Print Assumptions rd_rep_fuel_irrelevant.
Print Assumptions parse_packinfo_bound.
Print Assumptions parse_packinfo_fuel.
Print Assumptions parse_folder_fuel.
Print Assumptions numfiles_alloc_witness.
Print Assumptions substreams_alloc_witness.
Print Assumptions alloc_by_declared_count_refuted.
Print Assumptions parse_packinfo_packpositions_linear.
Print Assumptions parse_folder_bindpairs_linear.
Print Assumptions parse_cost_partial.
Print Assumptions parse_cost_linear.
