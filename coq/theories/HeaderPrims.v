(* HeaderPrims.v -- round trips of the primitive readers/writers of Header.v:
   NUMBER, fixed-width integers, repeated readers, bit fields, boolean vectors with the
   all-defined shortcut, UTF-16 names; and wf_bytes of everything the writers emit.
   Proofs only; the model (Header.v) is not touched. *)
From P7 Require Import Prelude PyPrims Number Header.
From Coq Require Import ZifyBool ZifyNat.
Ltac Zify.zify_post_hook ::= Z.to_euclidean_division_equations.
Open Scope Z_scope.

(* ------------------------------------------------------------------ *)
(* Generic helpers                                                     *)
(* ------------------------------------------------------------------ *)
Lemma bind_inv {A B} (r : res A) (f : A -> res B) b :
  bind r f = Ok b -> exists a, r = Ok a /\ f a = Ok b.
Proof. destruct r as [a|e]; cbn [bind]; intros H; [exists a; auto|discriminate]. Qed.

Lemma Ok_inj {A} (a b : A) : Ok a = Ok b -> a = b.
Proof. intros H; inversion H; reflexivity. Qed.

(* decompose a hypothesis  (do x <- r; k) = Ok b  *)
Ltac bind_inv H x Hx :=
  apply bind_inv in H; destruct H as [x [Hx H]].

Lemma firstn_app_len {A} n (a b : list A) : length a = n -> firstn n (a ++ b) = a.
Proof. intros <-. apply firstn_app_exact. Qed.
Lemma skipn_app_len {A} n (a b : list A) : length a = n -> skipn n (a ++ b) = b.
Proof. intros <-. apply skipn_app_exact. Qed.

Lemma zlen_app {A} (a b : list A) : zlen (a ++ b) = zlen a + zlen b.
Proof. unfold zlen. rewrite app_length. lia. Qed.
Lemma zlen_cons {A} (x : A) l : zlen (x :: l) = 1 + zlen l.
Proof. unfold zlen. cbn [length]. lia. Qed.
Lemma zlen_nil {A} : zlen (@nil A) = 0.
Proof. reflexivity. Qed.
Lemma zlen_nonneg {A} (l : list A) : 0 <= zlen l.
Proof. unfold zlen. lia. Qed.
Lemma zlen_map {A B} (f : A -> B) l : zlen (map f l) = zlen l.
Proof. unfold zlen. rewrite map_length. reflexivity. Qed.
Lemma zlen_repeat {A} (x : A) n : zlen (repeat x n) = Z.of_nat n.
Proof. unfold zlen. rewrite repeat_length. reflexivity. Qed.

Lemma takeZ_app {A} (a r : list A) : takeZ (zlen a) (a ++ r) = a.
Proof.
  unfold takeZ, zlen. rewrite app_length.
  replace (Z.to_nat _) with (length a) by lia. apply firstn_app_exact.
Qed.
Lemma dropZ_app {A} (a r : list A) : dropZ (zlen a) (a ++ r) = r.
Proof.
  unfold dropZ, zlen. rewrite app_length.
  replace (Z.to_nat _) with (length a) by lia. apply skipn_app_exact.
Qed.
Lemma takeZ_app_len {A} n (a r : list A) : zlen a = n -> takeZ n (a ++ r) = a.
Proof. intros <-. apply takeZ_app. Qed.
Lemma dropZ_app_len {A} n (a r : list A) : zlen a = n -> dropZ n (a ++ r) = r.
Proof. intros <-. apply dropZ_app. Qed.
Lemma takeZ_all {A} (a : list A) : takeZ (zlen a) a = a.
Proof. rewrite <- (app_nil_r a) at 2. rewrite takeZ_app. reflexivity. Qed.

Lemma wf_bytes_cons b r : wf_bytes (b :: r) = is_byte b && wf_bytes r.
Proof. reflexivity. Qed.
Lemma wf_bytes_nil : wf_bytes [] = true.
Proof. reflexivity. Qed.
Lemma wf_bytes_app_intro a b : wf_bytes a = true -> wf_bytes b = true -> wf_bytes (a ++ b) = true.
Proof. intros Ha Hb. rewrite wf_bytes_app, Ha, Hb. reflexivity. Qed.
Lemma wf_bytes_repeatZ0 n : wf_bytes (repeatZ 0 n) = true.
Proof. induction n; [reflexivity|]. cbn [repeatZ]. rewrite wf_bytes_cons, IHn. reflexivity. Qed.
Lemma wf_bytes_takeZ n bs : wf_bytes bs = true -> wf_bytes (takeZ n bs) = true.
Proof. intros H. unfold takeZ. apply wf_bytes_firstn. exact H. Qed.

(* ------------------------------------------------------------------ *)
(* NUMBER                                                              *)
(* ------------------------------------------------------------------ *)
Theorem rd_number_enc v r : 0 <= v < 2^64 -> rd_number (number_enc v ++ r) = Ok (v, r).
Proof.
  intros Hv. rewrite number_enc_unfold. cbn [app].
  destruct (number_first_facts v Hv) as [Hb [Hlo Hval]].
  unfold rd_number.
  destruct (number_first (number_extra v) v =? 255) eqn:E.
  - assert (Hn : number_extra v = 8%nat).
    { rewrite <- Hlo. apply Z.eqb_eq in E. rewrite E. reflexivity. }
    rewrite Hn in *. unfold rd_fixed. rewrite app_length, le_bytes_length.
    destruct (8 + length r <? 8)%nat eqn:E2; [lia|].
    rewrite firstn_app_len, skipn_app_len by apply le_bytes_length.
    rewrite le_value_le_bytes by lia. f_equal. f_equal.
    change (8 <? 7)%nat with false in Hval. cbv iota in Hval. lia.
  - cbv zeta. rewrite Hlo.
    rewrite firstn_app_len, skipn_app_len by apply le_bytes_length.
    rewrite le_value_le_bytes by lia. rewrite Hval. reflexivity.
Qed.

Lemma wr_number_inv v bs : wr_number v = Ok bs -> 0 <= v < 2^64 /\ bs = number_enc v.
Proof.
  unfold wr_number. destruct ((v <? 0) || (2 ^ 64 <=? v)) eqn:E; [discriminate|].
  intros H. apply Ok_inj in H. split; [lia|congruence].
Qed.
Lemma wr_number_ok v : 0 <= v < 2^64 -> wr_number v = Ok (number_enc v).
Proof. intros H. unfold wr_number. destruct ((v <? 0) || (2 ^ 64 <=? v)) eqn:E; [lia|reflexivity]. Qed.

Theorem rd_number_wr v bs r : wr_number v = Ok bs -> rd_number (bs ++ r) = Ok (v, r).
Proof. intros H. apply wr_number_inv in H as [Hv ->]. apply rd_number_enc. exact Hv. Qed.

Lemma wr_number_nonempty v bs : wr_number v = Ok bs -> bs <> [].
Proof. intros H. apply wr_number_inv in H as [_ ->]. rewrite number_enc_unfold. discriminate. Qed.
Lemma wr_number_length v bs : wr_number v = Ok bs -> 1 <= zlen bs <= 9.
Proof.
  intros H. apply wr_number_inv in H as [Hv ->]. pose proof (number_enc_length v Hv). unfold zlen. lia.
Qed.
Lemma wr_number_wf v bs : wr_number v = Ok bs -> wf_bytes bs = true.
Proof. intros H. apply wr_number_inv in H as [Hv ->]. apply number_enc_wf. exact Hv. Qed.

(* a NUMBER below 128 is the byte itself (used for the kDummy record and the small ids) *)
Lemma rd_number_small b r : 0 <= b < 128 -> rd_number (b :: r) = Ok (b, r).
Proof.
  intros Hb. unfold rd_number. destruct (b =? 255) eqn:E; [lia|].
  unfold leading_ones. destruct (b <? 128) eqn:E1; [|lia].
  cbn [Nat.ltb Nat.leb firstn skipn le_value Z.of_nat]. f_equal. f_equal.
  change (7 - 0) with 7. change (2 ^ 7) with 128. change (256 ^ 0) with 1. lia.
Qed.

(* ------------------------------------------------------------------ *)
(* Fixed-width little-endian integers                                  *)
(* ------------------------------------------------------------------ *)
Theorem rd_fixed_le n v r : 0 <= v < 256 ^ Z.of_nat n -> rd_fixed n (le_bytes n v ++ r) = Ok (v, r).
Proof.
  intros Hv. unfold rd_fixed. rewrite app_length, le_bytes_length.
  destruct (n + length r <? n)%nat eqn:E; [lia|].
  rewrite firstn_app_len, skipn_app_len by apply le_bytes_length.
  rewrite le_value_le_bytes_small by exact Hv. reflexivity.
Qed.

Lemma wr_fixed_inv n v bs : wr_fixed n v = Ok bs -> 0 <= v < 256 ^ Z.of_nat n /\ bs = le_bytes n v.
Proof.
  unfold wr_fixed. destruct ((v <? 0) || (256 ^ Z.of_nat n <=? v)) eqn:E; [discriminate|].
  intros H. apply Ok_inj in H. split; [lia|congruence].
Qed.
Theorem rd_fixed_wr n v bs r : wr_fixed n v = Ok bs -> rd_fixed n (bs ++ r) = Ok (v, r).
Proof. intros H. apply wr_fixed_inv in H as [Hv ->]. apply rd_fixed_le. exact Hv. Qed.
Lemma wr_fixed_length n v bs : wr_fixed n v = Ok bs -> length bs = n.
Proof. intros H. apply wr_fixed_inv in H as [_ ->]. apply le_bytes_length. Qed.
Lemma wr_fixed_wf n v bs : wr_fixed n v = Ok bs -> wf_bytes bs = true.
Proof. intros H. apply wr_fixed_inv in H as [_ ->]. apply le_bytes_wf. Qed.

(* ------------------------------------------------------------------ *)
(* wr_list / rd_many                                                   *)
(* ------------------------------------------------------------------ *)
Lemma wr_list_cons_inv {A} (wr : A -> res bytes) x l bs :
  wr_list wr (x :: l) = Ok bs -> exists a b, wr x = Ok a /\ wr_list wr l = Ok b /\ bs = a ++ b.
Proof.
  cbn [wr_list]. intros H. bind_inv H a Ha. bind_inv H b Hb. apply Ok_inj in H.
  exists a, b. auto.
Qed.

Lemma wr_list_app {A} (wr : A -> res bytes) l1 l2 b1 b2 :
  wr_list wr l1 = Ok b1 -> wr_list wr l2 = Ok b2 -> wr_list wr (l1 ++ l2) = Ok (b1 ++ b2).
Proof.
  revert b1. induction l1 as [|x l1 IH]; intros b1 H1 H2.
  - cbn in H1. apply Ok_inj in H1. subst b1. exact H2.
  - apply wr_list_cons_inv in H1 as [a [b [Ha [Hb ->]]]].
    cbn [app wr_list]. rewrite Ha. cbn [bind]. rewrite (IH b Hb H2). cbn [bind].
    rewrite app_assoc. reflexivity.
Qed.

Lemma wr_list_app_inv {A} (wr : A -> res bytes) l1 l2 bs :
  wr_list wr (l1 ++ l2) = Ok bs ->
  exists b1 b2, wr_list wr l1 = Ok b1 /\ wr_list wr l2 = Ok b2 /\ bs = b1 ++ b2.
Proof.
  revert bs. induction l1 as [|x l1 IH]; intros bs H.
  - exists [], bs. auto.
  - cbn [app] in H. apply wr_list_cons_inv in H as [a [b [Ha [Hb ->]]]].
    destruct (IH b Hb) as [b1 [b2 [H1 [H2 ->]]]].
    exists (a ++ b1), b2. cbn [wr_list]. rewrite Ha, H1. cbn [bind].
    rewrite app_assoc. auto.
Qed.

Lemma wr_list_ext {A} (f g : A -> res bytes) l :
  (forall x, In x l -> f x = g x) -> wr_list f l = wr_list g l.
Proof.
  induction l as [|x l IH]; intros H; [reflexivity|].
  cbn [wr_list]. rewrite (H x (or_introl eq_refl)), IH; [reflexivity|].
  intros y Hy. apply H. right. exact Hy.
Qed.

Section Many.
  (* the reader may return a view g x of the element written (e.g. a folder without its
     unpack sizes); g = id for plain round trips *)
  Context {A B : Type} (P : A -> Prop) (wr : A -> res bytes) (g : A -> B) (rd : reader B).
  (* every element round-trips ... *)
  Hypothesis Hrt : forall x b r, P x -> wr x = Ok b -> rd (b ++ r) = Ok (g x, r).

  Lemma rd_rep_wr_list l : forall fuel bs r,
    wr_list wr l = Ok bs -> Forall P l -> (length l <= fuel)%nat ->
    rd_rep fuel (zlen l) rd (bs ++ r) = Ok (map g l, r).
  Proof.
    induction l as [|x l IH]; intros fuel bs r Hw HP Hf.
    - cbn in Hw. apply Ok_inj in Hw. subst bs. destruct fuel; reflexivity.
    - apply wr_list_cons_inv in Hw as [a [b [Ha [Hb ->]]]].
      inversion HP as [|? ? Hx Hl]; subst.
      destruct fuel as [|fuel]; [cbn [length] in Hf; lia|].
      cbn [rd_rep]. rewrite zlen_cons.
      destruct (1 + zlen l <=? 0) eqn:E; [pose proof (zlen_nonneg l); lia|].
      rewrite <- app_assoc. rewrite (Hrt x a (b ++ r) Hx Ha). cbn [bind].
      replace (1 + zlen l - 1) with (zlen l) by lia.
      rewrite (IH fuel b r Hb Hl) by (cbn [length] in Hf; lia). reflexivity.
  Qed.

  (* ... and consumes at least one byte: then the fuel S (length input) of rd_many suffices *)
  Hypothesis Hne : forall x b, P x -> wr x = Ok b -> b <> [].

  Lemma wr_list_length_ge l : forall bs,
    wr_list wr l = Ok bs -> Forall P l -> (length l <= length bs)%nat.
  Proof.
    induction l as [|x l IH]; intros bs Hw HP; [cbn [length]; lia|].
    apply wr_list_cons_inv in Hw as [a [b [Ha [Hb ->]]]].
    inversion HP as [|? ? Hx Hl]; subst.
    specialize (IH b Hb Hl). pose proof (Hne x a Hx Ha) as Hn.
    rewrite app_length. cbn [length]. destruct a; [congruence|cbn [length]; lia].
  Qed.

  Theorem rd_many_wr_list_g l bs r :
    wr_list wr l = Ok bs -> Forall P l -> rd_many (zlen l) rd (bs ++ r) = Ok (map g l, r).
  Proof.
    intros Hw HP. unfold rd_many. apply rd_rep_wr_list; [exact Hw|exact HP|].
    pose proof (wr_list_length_ge l bs Hw HP). rewrite app_length. lia.
  Qed.

  (* the count the parser computes may be non-positive when the list is empty *)
  Corollary rd_many_wr_list_max n l bs r :
    zlen l = Z.max 0 n -> wr_list wr l = Ok bs -> Forall P l -> rd_many n rd (bs ++ r) = Ok (map g l, r).
  Proof.
    intros Hn Hw HP. destruct (Z.leb_spec n 0) as [Hle|Hgt].
    - assert (l = []) by (destruct l; [reflexivity|rewrite zlen_cons in Hn; pose proof (zlen_nonneg l); lia]).
      subst l. cbn in Hw. apply Ok_inj in Hw. subst bs. unfold rd_many. cbn [rd_rep app map].
      destruct (n <=? 0) eqn:E; [reflexivity|lia].
    - replace n with (zlen l) by lia. apply rd_many_wr_list_g; assumption.
  Qed.
End Many.

Theorem rd_many_wr_list {A} (P : A -> Prop) (wr : A -> res bytes) (rd : reader A) :
  (forall x b r, P x -> wr x = Ok b -> rd (b ++ r) = Ok (x, r)) ->
  (forall x b, P x -> wr x = Ok b -> b <> []) ->
  forall l bs r, wr_list wr l = Ok bs -> Forall P l -> rd_many (zlen l) rd (bs ++ r) = Ok (l, r).
Proof.
  intros Hrt Hne l bs r Hw HP.
  rewrite (rd_many_wr_list_g P wr (fun x => x) rd Hrt Hne l bs r Hw HP), map_id. reflexivity.
Qed.

(* a non-positive count reads nothing, whatever the fuel *)
Lemma rd_many_nonpos {A} n (rd : reader A) bs : n <= 0 -> rd_many n rd bs = Ok ([], bs).
Proof. intros H. unfold rd_many. cbn [rd_rep]. destruct (n <=? 0) eqn:E; [reflexivity|lia]. Qed.

Lemma Forall_True {A} (l : list A) : Forall (fun _ => True) l.
Proof. induction l; constructor; auto. Qed.

Lemma wr_list_wf {A} (P : A -> Prop) (wr : A -> res bytes) l :
  (forall x b, P x -> wr x = Ok b -> wf_bytes b = true) ->
  forall bs, wr_list wr l = Ok bs -> Forall P l -> wf_bytes bs = true.
Proof.
  intros Hwf. induction l as [|x l IH]; intros bs Hw HP.
  - cbn in Hw. apply Ok_inj in Hw. subst. reflexivity.
  - apply wr_list_cons_inv in Hw as [a [b [Ha [Hb ->]]]].
    inversion HP as [|? ? Hx Hl]; subst.
    apply wf_bytes_app_intro; [apply (Hwf x a Hx Ha)|apply (IH b Hb Hl)].
Qed.

(* lists of NUMBERs and of fixed-width integers *)
Theorem rd_many_numbers l bs r :
  wr_list wr_number l = Ok bs -> rd_many (zlen l) rd_number (bs ++ r) = Ok (l, r).
Proof.
  intros Hw. apply (rd_many_wr_list (fun _ => True) wr_number rd_number); auto using Forall_True.
  - intros x b r0 _ H. apply rd_number_wr. exact H.
  - intros x b _ H. eapply wr_number_nonempty. exact H.
Qed.

Theorem rd_many_fixed n l bs r : (0 < n)%nat ->
  wr_list (wr_fixed n) l = Ok bs -> rd_many (zlen l) (rd_fixed n) (bs ++ r) = Ok (l, r).
Proof.
  intros Hn Hw. apply (rd_many_wr_list (fun _ => True) (wr_fixed n) (rd_fixed n)); auto using Forall_True.
  - intros x b r0 _ H. apply rd_fixed_wr. exact H.
  - intros x b _ H. apply wr_fixed_length in H. destruct b; [cbn in H; lia|discriminate].
Qed.

Lemma wr_list_numbers_wf l bs : wr_list wr_number l = Ok bs -> wf_bytes bs = true.
Proof.
  intros H. apply (wr_list_wf (fun _ => True) wr_number l) with (bs := bs); auto using Forall_True.
  intros x b _ Hx. eapply wr_number_wf. exact Hx.
Qed.
Lemma wr_list_fixed_wf n l bs : wr_list (wr_fixed n) l = Ok bs -> wf_bytes bs = true.
Proof.
  intros H. apply (wr_list_wf (fun _ => True) (wr_fixed n) l) with (bs := bs); auto using Forall_True.
  intros x b _ Hx. eapply wr_fixed_wf. exact Hx.
Qed.
Lemma wr_list_fixed_length n l bs : wr_list (wr_fixed n) l = Ok bs -> zlen bs = Z.of_nat n * zlen l.
Proof.
  revert bs. induction l as [|x l IH]; intros bs H.
  - cbn in H. apply Ok_inj in H. subst. rewrite !zlen_nil. lia.
  - apply wr_list_cons_inv in H as [a [b [Ha [Hb ->]]]].
    rewrite zlen_app, zlen_cons, (IH b Hb). apply wr_fixed_length in Ha. unfold zlen. lia.
Qed.

(* ------------------------------------------------------------------ *)
(* Bit fields                                                          *)
(* ------------------------------------------------------------------ *)
Lemma list8_ind (P : list bool -> Prop) :
  (forall l, (length l < 8)%nat -> P l) ->
  (forall b0 b1 b2 b3 b4 b5 b6 b7 l, P l -> P (b0 :: b1 :: b2 :: b3 :: b4 :: b5 :: b6 :: b7 :: l)) ->
  forall l, P l.
Proof.
  intros Hs Hb l.
  assert (H : forall n l, (length l <= n)%nat -> P l).
  { clear l. induction n as [|n IH]; intros l Hl.
    - apply Hs. lia.
    - do 8 (destruct l as [|? l]; [apply Hs; cbn [length]; lia|]).
      apply Hb. apply IH. cbn [length] in Hl. lia. }
  apply (H (length l)). lia.
Qed.

Definition bv (b : bool) : Z := if b then 1 else 0.

Lemma wr_bits_chunk b0 b1 b2 b3 b4 b5 b6 b7 l :
  wr_bits (b0 :: b1 :: b2 :: b3 :: b4 :: b5 :: b6 :: b7 :: l) =
  (2 * (2 * (2 * (2 * (2 * (2 * (2 * (2 * 0 + bv b0) + bv b1) + bv b2) + bv b3) + bv b4) + bv b5) + bv b6) + bv b7)
    :: wr_bits l.
Proof. reflexivity. Qed.

Lemma bits_of_chunk b0 b1 b2 b3 b4 b5 b6 b7 :
  bits_of_byte
    (2 * (2 * (2 * (2 * (2 * (2 * (2 * (2 * 0 + bv b0) + bv b1) + bv b2) + bv b3) + bv b4) + bv b5) + bv b6) + bv b7) 8
  = [b0; b1; b2; b3; b4; b5; b6; b7].
Proof. destruct b0, b1, b2, b3, b4, b5, b6, b7; reflexivity. Qed.

Lemma chunk_is_byte b0 b1 b2 b3 b4 b5 b6 b7 :
  is_byte
    (2 * (2 * (2 * (2 * (2 * (2 * (2 * (2 * 0 + bv b0) + bv b1) + bv b2) + bv b3) + bv b4) + bv b5) + bv b6) + bv b7)
  = true.
Proof. destruct b0, b1, b2, b3, b4, b5, b6, b7; reflexivity. Qed.

Lemma rd_bits_fuel_step f c b r : 8 <= c ->
  rd_bits_fuel (S f) c (b :: r) = (do (l, r') <- rd_bits_fuel f (c - 8) r; Ok (bits_of_byte b 8 ++ l, r')).
Proof.
  intros Hc. cbn [rd_bits_fuel].
  destruct (c <=? 0) eqn:E0; [lia|]. destruct (c <? 8) eqn:E1; [lia|]. reflexivity.
Qed.

(* short vectors: by enumeration *)
Lemma rd_bits_short l f r : (length l < 8)%nat ->
  rd_bits_fuel (S f) (zlen l) (wr_bits l ++ r) = Ok (l, r) /\
  (length (wr_bits l) <= 1)%nat /\ zlen (wr_bits l) = (zlen l + 7) / 8 /\ wf_bytes (wr_bits l) = true.
Proof.
  intros Hl.
  do 8 (destruct l as [|? l];
        [repeat match goal with b : bool |- _ => destruct b end;
         (split; [reflexivity|split; [cbn; lia|split; reflexivity]])|]).
  cbn [length] in Hl. lia.
Qed.

Lemma rd_bits_fuel_wr l : forall fuel r, (length (wr_bits l) < fuel)%nat ->
  rd_bits_fuel fuel (zlen l) (wr_bits l ++ r) = Ok (l, r).
Proof.
  induction l using list8_ind; intros fuel r Hf.
  - destruct fuel as [|f]; [lia|]. apply rd_bits_short. assumption.
  - rewrite wr_bits_chunk in *. cbn [length] in Hf. destruct fuel as [|f]; [lia|].
    cbn [app]. rewrite rd_bits_fuel_step by (rewrite !zlen_cons; pose proof (zlen_nonneg l); lia).
    replace (zlen _ - 8) with (zlen l) by (rewrite !zlen_cons; lia).
    rewrite IHl by lia. cbn [bind]. rewrite bits_of_chunk. reflexivity.
Qed.

Theorem rd_bits_wr_bits l r : rd_bits (zlen l) (wr_bits l ++ r) = Ok (l, r).
Proof. unfold rd_bits. apply rd_bits_fuel_wr. rewrite app_length. lia. Qed.

Theorem wr_bits_length l : zlen (wr_bits l) = (zlen l + 7) / 8.
Proof.
  induction l using list8_ind.
  - apply (rd_bits_short l 0 []). assumption.
  - rewrite wr_bits_chunk. rewrite !zlen_cons in *. pose proof (zlen_nonneg l). lia.
Qed.

Theorem wr_bits_wf l : wf_bytes (wr_bits l) = true.
Proof.
  induction l using list8_ind.
  - apply (rd_bits_short l 0 []). assumption.
  - rewrite wr_bits_chunk, wf_bytes_cons, chunk_is_byte, IHl. reflexivity.
Qed.

(* ------------------------------------------------------------------ *)
(* Boolean vectors with the all-defined shortcut                       *)
(* ------------------------------------------------------------------ *)
Lemma all_true_repeat l : all_true l = true -> l = repeat true (length l).
Proof.
  induction l as [|b l IH]; intros H; [reflexivity|].
  cbn [all_true forallb] in H. apply andb_true_iff in H as [Hb Hl]. subst b.
  cbn [length repeat]. f_equal. apply IH. exact Hl.
Qed.

Theorem rd_boolean_wr_boolean lim l c r :
  (c = true -> all_true l = true -> zlen l <= lim) ->
  rd_boolean lim (zlen l) c (wr_boolean l c ++ r) = Ok (l, r).
Proof.
  intros Hlim. unfold rd_boolean, wr_boolean. destruct c; cbn [andb].
  - destruct (all_true l) eqn:Ea.
    + cbn [app]. destruct (lim <? zlen l) eqn:E; [specialize (Hlim eq_refl eq_refl); lia|].
      unfold zlen. rewrite Nat2Z.id, <- (all_true_repeat l Ea). reflexivity.
    + cbn [app]. apply rd_bits_wr_bits.
  - cbn [app]. apply rd_bits_wr_bits.
Qed.

Lemma wr_boolean_wf l c : wf_bytes (wr_boolean l c) = true.
Proof.
  unfold wr_boolean. destruct (c && all_true l); [reflexivity|].
  destruct c; cbn [app]; [rewrite wf_bytes_cons|]; rewrite wr_bits_wf; reflexivity.
Qed.

Lemma wr_boolean_length l c :
  zlen (wr_boolean l c) =
    if c then (if all_true l then 1 else 1 + (zlen l + 7) / 8) else (zlen l + 7) / 8.
Proof.
  unfold wr_boolean. destruct c; cbn [andb].
  - destruct (all_true l); [reflexivity|]. cbn [app]. rewrite zlen_cons, wr_bits_length. reflexivity.
  - cbn [app]. apply wr_bits_length.
Qed.

(* count_true / all_true / any_true facts *)
Lemma count_true_cons b l : count_true (b :: l) = (if b then 1 else 0) + count_true l.
Proof. unfold count_true. cbn [filter]. destruct b; [rewrite zlen_cons|]; lia. Qed.
Lemma count_true_bounds l : 0 <= count_true l <= zlen l.
Proof.
  induction l as [|b l IH]; [unfold count_true, zlen; cbn; lia|].
  rewrite count_true_cons, zlen_cons. destruct b; lia.
Qed.
Lemma count_true_all l : (count_true l =? zlen l) = all_true l.
Proof.
  induction l as [|b l IH]; [reflexivity|].
  rewrite count_true_cons, zlen_cons. cbn [all_true forallb]. fold (all_true l).
  pose proof (count_true_bounds l). destruct b; cbn [andb]; [|lia].
  rewrite <- IH. lia.
Qed.
Lemma any_true_false_all l : any_true l = false -> l = repeat false (length l).
Proof.
  induction l as [|b l IH]; intros H; [reflexivity|].
  cbn [any_true existsb] in H. apply orb_false_iff in H as [Hb Hl]. subst b.
  cbn [length repeat]. f_equal. apply IH. exact Hl.
Qed.

(* ------------------------------------------------------------------ *)
(* UTF-16 names                                                        *)
(* ------------------------------------------------------------------ *)
Definition utf16_char_units (c : Z) : list Z :=
  if c <? 65536 then [c] else [55296 + (c - 65536) / 1024; 56320 + (c - 65536) mod 1024].
Definition utf16_units_of (s : list Z) : list Z := flat_map utf16_char_units s.
Definition unit_bytes (u : Z) : bytes := [u mod 256; u / 256].
Definition units_bytes (us : list Z) : bytes := flat_map unit_bytes us.

(* a Unicode scalar value *)
Definition scalar (c : Z) : bool :=
  (0 <=? c) && (c <=? 1114111) && negb ((55296 <=? c) && (c <? 57344)).
(* what a file name may contain so that the reader returns it unchanged, except '\' *)
Definition wf_char_bs (c : Z) : bool := scalar c && negb (c =? 0).
Definition wf_char (c : Z) : bool := wf_char_bs c && negb (c =? 92).
Definition wf_name_bs (s : list Z) : bool := forallb wf_char_bs s && (zlen (utf16_units_of s) <? 65536).
Definition wf_name (s : list Z) : bool := forallb wf_char s && (zlen (utf16_units_of s) <? 65536).

Lemma wf_chars_bs s : forallb wf_char s = true -> forallb wf_char_bs s = true /\ map fix_backslash s = s.
Proof.
  induction s as [|c s IH]; intros Hc; [auto|].
  cbn [forallb] in Hc. apply andb_true_iff in Hc as [Hc Hs]. destruct (IH Hs) as [H1 H2].
  unfold wf_char in Hc. apply andb_true_iff in Hc as [Hc1 Hc2].
  cbn [forallb map]. rewrite Hc1, H1, H2. split; [reflexivity|].
  unfold fix_backslash. destruct (c =? 92); [discriminate|reflexivity].
Qed.

Lemma wf_name_wf_name_bs s : wf_name s = true -> wf_name_bs s = true /\ map fix_backslash s = s.
Proof.
  unfold wf_name, wf_name_bs. intros H. apply andb_true_iff in H as [Hc Hl].
  destruct (wf_chars_bs s Hc) as [H1 H2]. rewrite H1, Hl. auto.
Qed.

Lemma enc_char_units c : scalar c = true -> utf16_enc_char c = Ok (units_bytes (utf16_char_units c)).
Proof.
  unfold scalar, utf16_enc_char, utf16_char_units. intros H.
  destruct ((c <? 0) || (1114111 <? c)) eqn:E1; [lia|].
  destruct ((55296 <=? c) && (c <? 57344)) eqn:E2; [lia|].
  destruct (c <? 65536); reflexivity.
Qed.

Lemma enc_char_inv c b : utf16_enc_char c = Ok b -> scalar c = true.
Proof.
  unfold scalar, utf16_enc_char.
  destruct ((c <? 0) || (1114111 <? c)) eqn:E1; [discriminate|].
  destruct ((55296 <=? c) && (c <? 57344)) eqn:E2; [discriminate|]. intros _. lia.
Qed.

Lemma units_bytes_app a b : units_bytes (a ++ b) = units_bytes a ++ units_bytes b.
Proof. apply flat_map_app. Qed.

Lemma wr_list_enc s : forallb scalar s = true ->
  wr_list utf16_enc_char s = Ok (units_bytes (utf16_units_of s)).
Proof.
  induction s as [|c s IH]; intros H; [reflexivity|].
  cbn [forallb] in H. apply andb_true_iff in H as [Hc Hs].
  cbn [wr_list]. rewrite (enc_char_units c Hc), (IH Hs). cbn [bind].
  unfold utf16_units_of. cbn [flat_map]. rewrite units_bytes_app. reflexivity.
Qed.

Lemma wr_list_enc_inv s b : wr_list utf16_enc_char s = Ok b -> forallb scalar s = true.
Proof.
  revert b. induction s as [|c s IH]; intros b H; [reflexivity|].
  apply wr_list_cons_inv in H as [a [b' [Ha [Hb _]]]].
  cbn [forallb]. rewrite (enc_char_inv c a Ha), (IH b' Hb). reflexivity.
Qed.

Definition unit_ok (u : Z) : Prop := 0 < u < 65536.

Lemma char_units_ok c : wf_char_bs c = true -> Forall unit_ok (utf16_char_units c).
Proof.
  unfold wf_char_bs, scalar, utf16_char_units, unit_ok. intros H.
  destruct (c <? 65536) eqn:E; repeat constructor; lia.
Qed.
Lemma units_of_ok s : forallb wf_char_bs s = true -> Forall unit_ok (utf16_units_of s).
Proof.
  induction s as [|c s IH]; intros H; [constructor|].
  cbn [forallb] in H. apply andb_true_iff in H as [Hc Hs].
  unfold utf16_units_of. cbn [flat_map]. apply Forall_app. split; [apply char_units_ok; exact Hc|apply IH; exact Hs].
Qed.

Lemma rd_utf16_raw_step f iters acc a b r :
  iters < 65536 -> (a <> 0 \/ b <> 0) ->
  rd_utf16_raw (S f) iters acc (a :: b :: r) = rd_utf16_raw f (iters + 1) (acc ++ [a; b]) r.
Proof.
  intros Hi Hab. cbn [rd_utf16_raw]. destruct (65536 <=? iters) eqn:E; [lia|].
  destruct a; destruct b; try reflexivity. lia.
Qed.

Lemma rd_utf16_raw_units us : forall fuel iters acc r,
  Forall unit_ok us -> iters + zlen us < 65536 -> (length us < fuel)%nat ->
  rd_utf16_raw fuel iters acc (units_bytes us ++ 0 :: 0 :: r) = Ok (acc ++ units_bytes us, r).
Proof.
  induction us as [|u us IH]; intros fuel iters acc r Hok Hit Hf.
  - destruct fuel as [|f]; [cbn [length] in Hf; lia|].
    cbn [units_bytes flat_map app rd_utf16_raw]. rewrite zlen_nil in Hit.
    destruct (65536 <=? iters) eqn:E; [lia|]. rewrite app_nil_r. reflexivity.
  - destruct fuel as [|f]; [cbn [length] in Hf; lia|].
    inversion Hok as [|? ? Hu Hus]; subst. rewrite zlen_cons in Hit. pose proof (zlen_nonneg us).
    unfold units_bytes. cbn [flat_map]. fold (units_bytes us). unfold unit_bytes at 1. cbn [app].
    rewrite rd_utf16_raw_step; [|lia|unfold unit_ok in Hu; lia].
    rewrite IH; [|exact Hus|lia|cbn [length] in Hf; lia].
    rewrite <- app_assoc. reflexivity.
Qed.

Lemma utf16_units_bytes us : utf16_units (units_bytes us) = Ok us.
Proof.
  induction us as [|u us IH]; [reflexivity|].
  unfold units_bytes. cbn [flat_map]. fold (units_bytes us). unfold unit_bytes at 1.
  cbn [app utf16_units]. rewrite IH. cbn [bind]. f_equal. f_equal. lia.
Qed.

Lemma utf16_decode_char c rest t : scalar c = true -> utf16_decode rest = Ok t ->
  utf16_decode (utf16_char_units c ++ rest) = Ok (c :: t).
Proof.
  unfold scalar, utf16_char_units. intros Hc Hr. destruct (c <? 65536) eqn:E.
  - cbn [app utf16_decode].
    destruct ((55296 <=? c) && (c <? 56320)) eqn:E1; [lia|].
    destruct ((56320 <=? c) && (c <? 57344)) eqn:E2; [lia|].
    rewrite Hr. reflexivity.
  - cbn [app utf16_decode].
    set (hi := 55296 + (c - 65536) / 1024). set (lo := 56320 + (c - 65536) mod 1024).
    assert (Hhi : 55296 <= hi < 56320) by (unfold hi; lia).
    assert (Hlo : 56320 <= lo < 57344) by (unfold lo; lia).
    destruct ((55296 <=? hi) && (hi <? 56320)) eqn:E1; [|lia].
    destruct ((56320 <=? lo) && (lo <? 57344)) eqn:E2; [|lia].
    rewrite Hr. cbn [bind]. f_equal. f_equal. unfold hi, lo. lia.
Qed.

Lemma utf16_decode_units s : forallb scalar s = true -> utf16_decode (utf16_units_of s) = Ok s.
Proof.
  induction s as [|c s IH]; intros H; [reflexivity|].
  cbn [forallb] in H. apply andb_true_iff in H as [Hc Hs].
  unfold utf16_units_of. cbn [flat_map]. apply utf16_decode_char; [exact Hc|apply IH; exact Hs].
Qed.

Lemma wf_char_bs_scalar s : forallb wf_char_bs s = true -> forallb scalar s = true.
Proof.
  induction s as [|c s IH]; intros H; [reflexivity|].
  cbn [forallb] in *. apply andb_true_iff in H as [Hc Hs]. rewrite (IH Hs), andb_true_r.
  unfold wf_char_bs in Hc. apply andb_true_iff in Hc as [Hc _]. exact Hc.
Qed.

Lemma units_bytes_length us : length (units_bytes us) = (2 * length us)%nat.
Proof. induction us as [|u us IH]; [reflexivity|]. unfold units_bytes in *. cbn [flat_map]. rewrite app_length, IH. cbn [unit_bytes length]. lia. Qed.

Lemma wr_utf16_inv s bs : wf_name_bs s = true -> wr_utf16 s = Ok bs ->
  bs = units_bytes (utf16_units_of s) ++ [0; 0].
Proof.
  unfold wf_name_bs, wr_utf16. intros H Hw. apply andb_true_iff in H as [Hc _].
  rewrite (wr_list_enc s (wf_char_bs_scalar s Hc)) in Hw. cbn [bind] in Hw. apply Ok_inj in Hw. congruence.
Qed.

(* the quirk: the reader rewrites every backslash to a slash *)
Theorem rd_utf16_wr_utf16_backslash s bs r :
  wf_name_bs s = true -> wr_utf16 s = Ok bs -> rd_utf16 (bs ++ r) = Ok (map fix_backslash s, r).
Proof.
  intros Hwf Hw. rewrite (wr_utf16_inv s bs Hwf Hw).
  unfold wf_name_bs in Hwf. apply andb_true_iff in Hwf as [Hc Hl].
  unfold rd_utf16. rewrite <- app_assoc. cbn [app].
  rewrite rd_utf16_raw_units; [|apply units_of_ok; exact Hc|lia|].
  2:{ cbn [length]. rewrite app_length, units_bytes_length. lia. }
  cbn [bind app]. rewrite utf16_units_bytes. cbn [bind].
  rewrite utf16_decode_units by (apply wf_char_bs_scalar; exact Hc). reflexivity.
Qed.

Theorem rd_utf16_wr_utf16 s bs r :
  wf_name s = true -> wr_utf16 s = Ok bs -> rd_utf16 (bs ++ r) = Ok (s, r).
Proof.
  intros Hwf Hw. destruct (wf_name_wf_name_bs s Hwf) as [H1 H2].
  rewrite (rd_utf16_wr_utf16_backslash s bs r H1 Hw), H2. reflexivity.
Qed.

(* witness of the quirk: "a\b" is written as such and read back as "a/b" *)
Example rd_utf16_backslash_witness :
  wr_utf16 [97; 92; 98] = Ok [97; 0; 92; 0; 98; 0; 0; 0] /\
  rd_utf16 [97; 0; 92; 0; 98; 0; 0; 0] = Ok ([97; 47; 98], []).
Proof. split; reflexivity. Qed.
(* an embedded NUL truncates the name: the rest is left in the buffer *)
Example rd_utf16_nul_witness :
  wr_utf16 [97; 0; 98] = Ok [97; 0; 0; 0; 98; 0; 0; 0] /\
  rd_utf16 [97; 0; 0; 0; 98; 0; 0; 0] = Ok ([97], [98; 0; 0; 0]).
Proof. split; reflexivity. Qed.

Lemma unit_bytes_wf u : 0 <= u < 65536 -> wf_bytes (unit_bytes u) = true.
Proof. intros H. unfold unit_bytes, wf_bytes, is_byte. cbn [forallb]. lia. Qed.

Lemma utf16_enc_char_wf c b : utf16_enc_char c = Ok b -> wf_bytes b = true.
Proof.
  unfold utf16_enc_char.
  destruct ((c <? 0) || (1114111 <? c)) eqn:E1; [discriminate|].
  destruct ((55296 <=? c) && (c <? 57344)) eqn:E2; [discriminate|].
  destruct (c <? 65536) eqn:E3; intros H; apply Ok_inj in H; subst b;
    unfold wf_bytes, is_byte; cbn [forallb]; lia.
Qed.

Lemma wr_utf16_wf s bs : wr_utf16 s = Ok bs -> wf_bytes bs = true.
Proof.
  unfold wr_utf16. intros H. bind_inv H b Hb. apply Ok_inj in H. subst bs.
  apply wf_bytes_app_intro; [|reflexivity].
  apply (wr_list_wf (fun _ => True) utf16_enc_char s) with (bs := b); auto using Forall_True.
  intros x b0 _ Hx. eapply utf16_enc_char_wf. exact Hx.
Qed.

Lemma wr_utf16_nonempty s bs : wr_utf16 s = Ok bs -> bs <> [].
Proof.
  unfold wr_utf16. intros H. bind_inv H b Hb. apply Ok_inj in H. subst bs. destruct b; discriminate.
Qed.

(* the hypotheses of the round-trip lemmas are met by concrete values *)
Example wf_name_ex : wf_name [100; 47; 98; 228; 8364; 128512] = true /\ wf_name [97; 92; 98] = false /\
                     wf_name_bs [97; 92; 98] = true /\ wf_name [97; 0; 98] = false /\ wf_name [55296] = false.
Proof. repeat split; reflexivity. Qed.
Example rd_utf16_ex :
  exists bs, wr_utf16 [100; 47; 98; 228; 8364; 128512] = Ok bs /\
             rd_utf16 (bs ++ [7]) = Ok ([100; 47; 98; 228; 8364; 128512], [7]).
Proof. eexists. split; [vm_compute; reflexivity|]. vm_compute. reflexivity. Qed.
Example rd_boolean_ex :
  rd_boolean 3 3 true (wr_boolean [true; true; true] true ++ [9]) = Ok ([true; true; true], [9]) /\
  rd_boolean 2 3 true (wr_boolean [true; true; true] true ++ [9]) = Err EFuel /\
  rd_boolean 0 10 true (wr_boolean [true; false; true; true; false; false; false; false; true; true] true ++ [9])
    = Ok ([true; false; true; true; false; false; false; false; true; true], [9]).
Proof. repeat split; reflexivity. Qed.
Example rd_number_ex : rd_number (number_enc (2 ^ 64 - 1) ++ [1]) = Ok (2 ^ 64 - 1, [1]) /\
                       rd_number (number_enc 16384 ++ [1]) = Ok (16384, [1]).
Proof. split; vm_compute; reflexivity. Qed.

Print Assumptions rd_number_enc.
Print Assumptions rd_many_wr_list.
Print Assumptions rd_boolean_wr_boolean.
Print Assumptions rd_utf16_wr_utf16_backslash.
Print Assumptions wr_bits_wf.
